--------------------------- MODULE ChequeStoreGen ---------------------------
(* Scenario generator for C30: cheque sequences with a history variable.     *)
(*  edges (cfg with VIEW): one shortest history per (model state, cheque)    *)
(*  sim   (tlc -simulate): random sequences of length Depth                   *)
(* VERIF_VIA chooses the entry point the driver uses (service | protocol).    *)
EXTENDS ChequeStore, TLC, Json, IOUtils
VARIABLE hist

MCKeys == 1..3
MCRegPeers == 1..2
MCAllPeers == 1..3
MCCums == {1, 2, 3, 5}

Depth == IF "VERIF_DEPTH" \in DOMAIN IOEnv THEN atoi(IOEnv.VERIF_DEPTH) ELSE 5
Via   == IF "VERIF_VIA" \in DOMAIN IOEnv THEN IOEnv.VERIF_VIA ELSE "service"

\* Alphabet.  "full" = every cheque of the universe (216); "classes" = representatives of every class of the
\* statement: well-formed cheques of the registered peers (valid / replay / lower by state), wrong recipient,
\* signed by another key, foreign issuer (another registered key, or an unregistered key) through a registered
\* peer, and cheques from the unregistered peer (its own key, or a registered key).
Alphabet == IF "VERIF_ALPHABET" \in DOMAIN IOEnv THEN IOEnv.VERIF_ALPHABET ELSE "classes"
ClassCheques ==
  {c \in Cheques :
     \/ (c.from \in RegPeers /\ c.issuer = c.from /\ c.signer = c.from)                 \* own cheque, either recipient
     \/ (c.from \in RegPeers /\ c.issuer = c.from /\ c.signer # c.from /\ c.rcpt = 1)    \* other key signed
     \/ (c.from \in RegPeers /\ c.issuer # c.from /\ c.signer = c.issuer /\ c.rcpt = 1)  \* foreign issuer
     \/ (c.from \notin RegPeers /\ c.signer = c.issuer /\ c.issuer \in {1, c.from} /\ c.rcpt = 1)}
GenCheques == IF Alphabet = "full" THEN Cheques ELSE ClassCheques

Op(c) == [op |-> "cheque", from |-> c.from, issuer |-> c.issuer, signer |-> c.signer,
          rcpt |-> c.rcpt, cum |-> c.cum, cls |-> Class(last, c)]

GInit == Init /\ hist = <<>>
GNext == /\ Len(hist) < Depth
         /\ \E c \in GenCheques : Receive(c) /\ hist' = Append(hist, Op(c))
GSpec == GInit /\ [][GNext]_<<vars, hist>>

EdgeView == <<last, IF hist = <<>> THEN <<>> ELSE <<hist[Len(hist)]>> >>

Scn == [par |-> [via |-> Via], ops |-> hist]
EmitAll  == hist # <<>> => PrintT(<<"SCN", ToJson(Scn)>>)
EmitFull == Len(hist) = Depth => PrintT(<<"SCN", ToJson(Scn)>>)
=============================================================================
