----------------------------- MODULE ChequeStore -----------------------------
(* Received cheques (pkg/settlement/traffic/cheque/chequestore.go ReceiveCheque *)
(* behind pkg/settlement/traffic/traffic.go Service.ReceiveCheque).  C30.      *)
(*                                                                            *)
(* Keys are small integers; key k is "the chain address of key k".  Peer p of *)
(* RegPeers has registered key p as its chain address; the other peers are    *)
(* unknown to the address book.  A cheque names a recipient (1 = this node,   *)
(* 0 = somebody else), its stated issuer (a key), the key that really signed  *)
(* it, and a cumulative payout; it arrives from a peer.                       *)
EXTENDS Integers, Sequences, FiniteSets

CONSTANTS Keys,       \* keys that can issue / sign
          RegPeers,   \* peers with a registered chain address (peer p -> key p), subset of Keys
          AllPeers,   \* peers cheques can arrive from
          Cums        \* cumulative payouts used

VARIABLES last,       \* Keys -> Nat: highest accepted cumulative payout per issuer
          credited,   \* Keys -> Nat: sum of the amounts credited per issuer
          recv,       \* RegPeers -> Nat: per-peer received total (what TrafficCheques shows)
          res         \* the last call and its outcome

vars == <<last, credited, recv, res>>

Cheques == [from : AllPeers, issuer : Keys, signer : Keys, rcpt : {0, 1}, cum : Cums]

(***************************************************************************)
(* Pure definitions, shared with the generator and the judge.              *)
(***************************************************************************)
\* chain address registered for a peer (0 = none); peer whose chain address is key k (0 = none)
Reg(p)    == IF p \in RegPeers THEN p ELSE 0
PeerOf(k) == IF k \in RegPeers THEN k ELSE 0

ForSelf(c)      == c.rcpt = 1
SignedByIssuer(c) == c.signer = c.issuer
Raises(l, c)    == c.cum > l[c.issuer]
FromIssuersPeer(c) == Reg(c.from) # 0 /\ Reg(c.from) = c.issuer

\* the statement: accepted only if all four hold
Acceptable(l, c) == ForSelf(c) /\ SignedByIssuer(c) /\ Raises(l, c) /\ FromIssuersPeer(c)

\* label used by generators (first defect that applies)
Class(l, c) == IF Reg(c.from) = 0 THEN "unregistered"
               ELSE IF ~ForSelf(c) THEN "wrong_recipient"
               ELSE IF ~SignedByIssuer(c) THEN "other_key"
               ELSE IF ~FromIssuersPeer(c) THEN "foreign_issuer"
               ELSE IF c.cum = l[c.issuer] THEN "replay"
               ELSE IF c.cum < l[c.issuer] THEN "lower"
               ELSE "valid"

Zero(S) == [x \in S |-> 0]

(***************************************************************************)
(* Actions                                                                 *)
(***************************************************************************)
Init == /\ last = Zero(Keys) /\ credited = Zero(Keys) /\ recv = Zero(RegPeers)
        /\ res = [op |-> "init"]

Receive(c) ==
  LET ok == Acceptable(last, c)
  IN /\ last' = IF ok THEN [last EXCEPT ![c.issuer] = c.cum] ELSE last
     /\ credited' = IF ok THEN [credited EXCEPT ![c.issuer] = @ + (c.cum - last[c.issuer])] ELSE credited
     /\ recv' = IF ok THEN [recv EXCEPT ![PeerOf(c.issuer)] = c.cum] ELSE recv
     /\ res' = [op |-> "cheque", issuer |-> c.issuer, accepted |-> ok]

Next == \E c \in Cheques : Receive(c)

Spec == Init /\ [][Next]_vars

(***************************************************************************)
(* Properties                                                              *)
(***************************************************************************)
TypeOK == /\ last \in [Keys -> Cums \cup {0}]
          /\ credited \in [Keys -> Nat]
          /\ recv \in [RegPeers -> Cums \cup {0}]

\* replays and reorderings are never credited twice
CreditedOnce == \A k \in Keys : credited[k] = last[k]

\* credited to the right peer: a peer's received total is its own chain address' total
RightPeer == \A p \in RegPeers : recv[p] = last[Reg(p)]

\* nothing is ever accepted for a key that no peer registered
OnlyRegisteredIssuers == \A k \in Keys : PeerOf(k) = 0 => last[k] = 0

\* action property: a step changes the totals of at most the cheque's issuer, and only upwards
Monotone == [][\A k \in Keys : last'[k] >= last[k] /\ (last'[k] # last[k] => res'.issuer = k /\ res'.accepted)]_vars
=============================================================================
