----------------------------- MODULE ChequeStore -----------------------------
(* Received cheques (pkg/settlement/traffic/cheque/chequestore.go ReceiveCheque *)
(* behind pkg/settlement/traffic/traffic.go Service.ReceiveCheque).  C30.      *)
(*                                                                            *)
(* Keys are small integers; key k is "the chain address of key k".  A peer     *)
(* registers a chain address with its first handshake (Service.Handshake, the  *)
(* init stream of a connection): `reg[p]` is the chain address registered for  *)
(* peer p (0 = unknown to the address book).  The statement speaks of "THE     *)
(* peer whose registered chain address is that issuer": registration is        *)
(* one-to-one and first-wins -- a chain address that is registered to a peer   *)
(* cannot be claimed by another overlay (that handshake is refused and the     *)
(* claimant stays unregistered), and a registered peer keeps its address.      *)
(* Peer p of RegPeers has registered key p before the scenario starts.         *)
(* A cheque names a recipient (1 = this node, 0 = somebody else), its stated   *)
(* issuer (a key), the key that really signed it, and a cumulative payout; it  *)
(* arrives from a peer.                                                        *)
EXTENDS Integers, Sequences, FiniteSets

CONSTANTS Keys,       \* keys that can issue / sign
          RegPeers,   \* peers registered before the scenario starts (peer p -> key p), subset of Keys
          AllPeers,   \* peers cheques can arrive from
          Cums,       \* cumulative payouts used
          ClaimKeys   \* chain addresses that are presented in handshakes during the behaviour (subset of Keys)

VARIABLES last,       \* Keys -> Nat: highest accepted cumulative payout per issuer
          credited,   \* Keys -> Nat: sum of the amounts credited per issuer
          recv,       \* AllPeers -> Nat: per-peer received total (what TrafficCheques shows)
          reg,        \* AllPeers -> Keys \cup {0}: chain address registered for the peer
          claim,      \* AllPeers -> Keys \cup {0}: chain address the peer presented in its last handshake (ghost)
          res         \* the last call and its outcome

vars == <<last, credited, recv, reg, claim, res>>

Cheques == [from : AllPeers, issuer : Keys, signer : Keys, rcpt : {0, 1}, cum : Cums]

(***************************************************************************)
(* Pure definitions, shared with the generator and the judge.              *)
(***************************************************************************)
\* registration before the scenario; peer whose registered chain address is key k (0 = none; at most one, see OneToOne)
Reg0      == [p \in AllPeers |-> IF p \in RegPeers THEN p ELSE 0]
PeerOf(r, k) == IF \E p \in AllPeers : r[p] = k THEN CHOOSE p \in AllPeers : r[p] = k ELSE 0

\* a handshake of peer p presenting chain address k registers it iff p has none yet and k belongs to nobody
Registers(r, p, k) == r[p] = 0 /\ \A q \in AllPeers : r[q] # k
RegAfter(r, p, k)  == IF Registers(r, p, k) THEN [r EXCEPT ![p] = k] ELSE r

ForSelf(c)      == c.rcpt = 1
SignedByIssuer(c) == c.signer = c.issuer
Raises(l, c)    == c.cum > l[c.issuer]
FromIssuersPeer(r, c) == r[c.from] # 0 /\ r[c.from] = c.issuer

\* the statement: accepted only if all four hold
Acceptable(l, r, c) == ForSelf(c) /\ SignedByIssuer(c) /\ Raises(l, c) /\ FromIssuersPeer(r, c)

\* label used by generators (first defect that applies); "claimed_not_registered": the sender presented the
\* issuer's chain address in a handshake, but that address is not registered to it
Class(l, r, cl, c) ==
               IF r[c.from] # c.issuer /\ cl[c.from] = c.issuer /\ ForSelf(c) /\ SignedByIssuer(c) THEN "claimed_not_registered"
               ELSE IF r[c.from] = 0 THEN "unregistered"
               ELSE IF ~ForSelf(c) THEN "wrong_recipient"
               ELSE IF ~SignedByIssuer(c) THEN "other_key"
               ELSE IF ~FromIssuersPeer(r, c) THEN "foreign_issuer"
               ELSE IF c.cum = l[c.issuer] THEN "replay"
               ELSE IF c.cum < l[c.issuer] THEN "lower"
               ELSE "valid"

Zero(S) == [x \in S |-> 0]

(***************************************************************************)
(* Actions                                                                 *)
(***************************************************************************)
Init == /\ last = Zero(Keys) /\ credited = Zero(Keys) /\ recv = Zero(AllPeers)
        /\ reg = Reg0 /\ claim = Reg0
        /\ res = [op |-> "init"]

Receive(c) ==
  LET ok == Acceptable(last, reg, c)
  IN /\ last' = IF ok THEN [last EXCEPT ![c.issuer] = c.cum] ELSE last
     /\ credited' = IF ok THEN [credited EXCEPT ![c.issuer] = @ + (c.cum - last[c.issuer])] ELSE credited
     /\ recv' = IF ok THEN [recv EXCEPT ![PeerOf(reg, c.issuer)] = c.cum] ELSE recv
     /\ res' = [op |-> "cheque", issuer |-> c.issuer, accepted |-> ok]
     /\ UNCHANGED <<reg, claim>>

\* registration: peer p connects and presents chain address k (no cheque)
Handshake(p, k) ==
  /\ reg' = RegAfter(reg, p, k)
  /\ claim' = [claim EXCEPT ![p] = k]
  /\ res' = [op |-> "handshake", issuer |-> k, accepted |-> FALSE, registered |-> Registers(reg, p, k)]
  /\ UNCHANGED <<last, credited, recv>>

Next == \/ \E c \in Cheques : Receive(c)
        \/ \E p \in AllPeers, k \in ClaimKeys : Handshake(p, k)

Spec == Init /\ [][Next]_vars

(***************************************************************************)
(* Properties                                                              *)
(***************************************************************************)
TypeOK == /\ last \in [Keys -> Cums \cup {0}]
          /\ credited \in [Keys -> Nat]
          /\ recv \in [AllPeers -> Cums \cup {0}]
          /\ reg \in [AllPeers -> Keys \cup {0}]

\* replays and reorderings are never credited twice
CreditedOnce == \A k \in Keys : credited[k] = last[k]

\* credited to the right peer: a peer's received total is its own chain address' total
RightPeer == \A p \in AllPeers : recv[p] = IF reg[p] = 0 THEN 0 ELSE last[reg[p]]

\* nothing is ever accepted for a key that no peer registered
OnlyRegisteredIssuers == \A k \in Keys : PeerOf(reg, k) = 0 => last[k] = 0

\* "the peer whose registered chain address is that issuer": a chain address belongs to at most one peer
OneToOne == \A p, q \in AllPeers : (p # q /\ reg[p] # 0) => reg[p] # reg[q]

\* a registration is never taken away or moved
RegStable == [][\A p \in AllPeers : reg[p] # 0 => reg'[p] = reg[p]]_vars

\* action property: a step changes the totals of at most the cheque's issuer, and only upwards
Monotone == [][\A k \in Keys : last'[k] >= last[k] /\ (last'[k] # last[k] => res'.issuer = k /\ res'.accepted)]_vars
=============================================================================
