SPECIFICATION Spec
CONSTANTS
  Keys <- MCKeys
  RegPeers <- MCNoPeers
  AllPeers <- MCAllPeers
  Cums <- MCCumsSmall
  ClaimKeys <- MCKeys
VIEW MCView
INVARIANTS TypeOK CreditedOnce RightPeer OnlyRegisteredIssuers OneToOne
PROPERTIES Monotone RegStable
