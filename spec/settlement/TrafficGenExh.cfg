SPECIFICATION GSpec
CONSTANTS
  NP = 2
  Threads <- GThreads
  Thr = 2
  InitBal = 9
  PersistUnderLock = FALSE
  RefreshReadsUnderLock = TRUE
  Amounts <- GAmounts
  MaxOps = 0
INVARIANT EmitFull
CHECK_DEADLOCK FALSE
