--------------------------- MODULE MCChequeStore ---------------------------
EXTENDS ChequeStore
MCKeys == 1..3
MCRegPeers == 1..2
MCNoPeers == {}
MCAllPeers == 1..3
MCCums == {1, 2, 3, 5}
MCCumsSmall == {1, 2}
\* the ghost `claim` is not part of the design's state
MCView == <<last, credited, recv, reg, res>>
=============================================================================
