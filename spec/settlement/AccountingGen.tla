---------------------------- MODULE AccountingGen ----------------------------
(* Schedule generator for C32: behaviours of the lock-granularity model with a *)
(* history variable.  A behaviour is a list of steps                           *)
(*   call {t, kind, p, x, traff, avail} | release {t} | grant {t}              *)
(* that the driver forces on the real object.                                  *)
(*  edges (cfg with VIEW): one shortest behaviour per (model state, step)      *)
(*  sim   (tlc -simulate): random behaviours                                   *)
(*  VERIF_SLOW=1: the slow settlement layer -- bursts of credits, payrelease     *)
(*  (the Pay call in progress returns), paydrain (every Pay call is released     *)
(*  until nothing is left); no gates for the scenario goroutines                 *)
EXTENDS Accounting, TLC, Json, IOUtils
VARIABLES hist, nrel

GThreads == 1..3
GCredits == {1, 2}
GPays == {1, 3}
GReserves == {1}
GAvails == {1, 3}
GTraffs == {1, 2}

EnvOr(n, d) == IF n \in DOMAIN IOEnv THEN IOEnv[n] ELSE d
Depth == atoi(EnvOr("VERIF_DEPTH", "16"))
GMaxOps == atoi(EnvOr("VERIF_MAXOPS", "6"))
\* VERIF_FRESH=1: accounting has not seen the peers yet; the first contact (RetrieveTraffic under the map mutex)
\* is then part of the behaviour, and the driver does not touch a peer before the scenario does
GFresh == EnvOr("VERIF_FRESH", "0") = "1"

\* VERIF_SLOW=1: Pay calls stay in progress until released; the queue holds VERIF_QCAP requests (the code's pay channel:
\* 1000); credits arrive as bursts of 1 / exactly what the idle layer absorbs (QCap + 1) / more than that (QCap + 3)
GSlow == EnvOr("VERIF_SLOW", "0") = "1"
GQCap == atoi(EnvOr("VERIF_QCAP", "1000"))
GBursts == IF GSlow THEN {1, GQCap + 1, GQCap + 3} ELSE {}
MaxRel == atoi(EnvOr("VERIF_MAXREL", "2"))
\* slow alphabet: bursts at/above the threshold per credit (x = 2), a single credit below it, payment notifications
SlowCalls == {c \in Calls : \/ c.kind = "burst" /\ (c.x = 2 \/ c.n = 1)
                            \/ c.kind = "notify" /\ c.x = 3}

\* VERIF_ONEPEER=1: every call targets peer 1 (all goroutines meet on the same, possibly fresh, peer)
GCalls == IF GSlow THEN SlowCalls ELSE IF EnvOr("VERIF_ONEPEER", "0") = "1" THEN {c \in Calls : c.p = 1} ELSE Calls
\* slow: goroutines are interchangeable (no gates): a call is started by the lowest idle one; so are the peers: the
\* first call goes to peer 1
ThreadOK(t) == GSlow => \A t2 \in Threads : (t2 < t) => A.pc[t2] # "idle"
PeerOK(c) == (GSlow /\ nops = 0) => c.p = 1

CallOp(t, c) == [op |-> "call", t |-> t, kind |-> c.kind, p |-> c.p, x |-> c.x, traff |-> c.traff, avail |-> c.avail, n |-> c.n]

GInit == Init /\ hist = <<>> /\ nrel = 0
GNext ==
  /\ Len(hist) < Depth
  /\ \/ /\ A.granted # 0 /\ Do(Grant(A, A.granted), "grant") /\ UNCHANGED <<nops, nrel>>
        /\ hist' = Append(hist, [op |-> "grant", t |-> A.granted])
     \/ /\ nops < GMaxOps /\ nops' = nops + 1 /\ UNCHANGED nrel
        /\ \E t \in Threads, c \in GCalls :
             ThreadOK(t) /\ PeerOK(c) /\ StartAllowed(A, t, c) /\ Do(Start(A, t, c), "call") /\ hist' = Append(hist, CallOp(t, c))
     \/ /\ UNCHANGED <<nops, nrel>>
        /\ \E t \in Threads : ReleaseOK(A, t) /\ Do(Release(A, t), "release")
                              /\ hist' = Append(hist, [op |-> "release", t |-> t])
     \/ /\ GSlow /\ nrel < MaxRel /\ nrel' = nrel + 1 /\ UNCHANGED nops
        /\ PayReleaseOK(A) /\ Do(PayRelease(A), "payrelease") /\ hist' = Append(hist, [op |-> "payrelease"])
     \/ /\ GSlow /\ UNCHANGED <<nops, nrel>>
        /\ DrainOK(A) /\ A.inpay # 0 /\ Do(Drain(A), "paydrain") /\ hist' = Append(hist, [op |-> "paydrain"])
GSpec == GInit /\ [][GNext]_<<vars, nops, hist, nrel>>

\* counters are not part of the view: two states that differ only in them continue alike
EdgeView == <<A.unpaid, A.lock, A.known, A.maplock, A.pc, A.loc, A.granted, A.q, A.inpay, A.sendq, nrel,
              IF hist = <<>> THEN <<>> ELSE <<hist[Len(hist)]>> >>

Scn == [par |-> [thr |-> Thr, tol |-> Tol, init |-> <<0, 0>>, fresh |-> GFresh, slow |-> GSlow, qcap |-> QCap], ops |-> hist]
EmitAll  == hist # <<>> => PrintT(<<"SCN", ToJson(Scn)>>)
\* simulation: behaviours that used all their calls, or are long
EmitFull == (Len(hist) = Depth \/ (nops = GMaxOps /\ \A t \in Threads : A.pc[t] = "idle")) => PrintT(<<"SCN", ToJson(Scn)>>)
=============================================================================
