---------------------------- MODULE AccountingGen ----------------------------
(* Schedule generator for C32: behaviours of the lock-granularity model with a *)
(* history variable.  A behaviour is a list of steps                           *)
(*   call {t, kind, p, x, traff, avail} | release {t} | grant {t}              *)
(* that the driver forces on the real object.                                  *)
(*  edges (cfg with VIEW): one shortest behaviour per (model state, step)      *)
(*  sim   (tlc -simulate): random behaviours                                   *)
EXTENDS Accounting, TLC, Json, IOUtils
VARIABLE hist

GThreads == 1..3
GCredits == {1, 2}
GPays == {1, 3}
GReserves == {1}
GAvails == {1, 3}
GTraffs == {1, 2}

EnvOr(n, d) == IF n \in DOMAIN IOEnv THEN IOEnv[n] ELSE d
Depth == atoi(EnvOr("VERIF_DEPTH", "16"))
GMaxOps == atoi(EnvOr("VERIF_MAXOPS", "6"))
\* VERIF_FRESH=1: accounting has not seen the peers yet; the first contact (RetrieveTraffic under the map mutex)
\* is then part of the behaviour, and the driver does not touch a peer before the scenario does
GFresh == EnvOr("VERIF_FRESH", "0") = "1"

\* VERIF_ONEPEER=1: every call targets peer 1 (all goroutines meet on the same, possibly fresh, peer)
GCalls == IF EnvOr("VERIF_ONEPEER", "0") = "1" THEN {c \in Calls : c.p = 1} ELSE Calls

CallOp(t, c) == [op |-> "call", t |-> t, kind |-> c.kind, p |-> c.p, x |-> c.x, traff |-> c.traff, avail |-> c.avail]

GInit == Init /\ hist = <<>>
GNext ==
  /\ Len(hist) < Depth
  /\ \/ /\ A.granted # 0 /\ Do(Grant(A, A.granted), "grant") /\ UNCHANGED nops
        /\ hist' = Append(hist, [op |-> "grant", t |-> A.granted])
     \/ /\ nops < GMaxOps /\ nops' = nops + 1
        /\ \E t \in Threads, c \in GCalls :
             StartAllowed(A, t, c) /\ Do(Start(A, t, c), "call") /\ hist' = Append(hist, CallOp(t, c))
     \/ /\ UNCHANGED nops
        /\ \E t \in Threads : ReleaseOK(A, t) /\ Do(Release(A, t), "release")
                              /\ hist' = Append(hist, [op |-> "release", t |-> t])
GSpec == GInit /\ [][GNext]_<<vars, nops, hist>>

\* counters are not part of the view: two states that differ only in them continue alike
EdgeView == <<A.unpaid, A.lock, A.known, A.maplock, A.pc, A.loc, A.granted, IF hist = <<>> THEN <<>> ELSE <<hist[Len(hist)]>> >>

Scn == [par |-> [thr |-> Thr, tol |-> Tol, init |-> <<0, 0>>, fresh |-> GFresh], ops |-> hist]
EmitAll  == hist # <<>> => PrintT(<<"SCN", ToJson(Scn)>>)
\* simulation: behaviours that used all their calls, or are long
EmitFull == (Len(hist) = Depth \/ (nops = GMaxOps /\ \A t \in Threads : A.pc[t] = "idle")) => PrintT(<<"SCN", ToJson(Scn)>>)
=============================================================================
