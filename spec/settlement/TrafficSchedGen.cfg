SPECIFICATION GSpec
CONSTANTS
  NP = 2
  Threads <- GThreads
  Thr = 2
  InitBal = 20
  PersistUnderLock = FALSE
  RefreshReadsUnderLock = FALSE
  Amounts <- GAmounts
  MaxOps = 0
INVARIANT EmitAll
CHECK_DEADLOCK FALSE
