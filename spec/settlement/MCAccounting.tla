---------------------------- MODULE MCAccounting ----------------------------
EXTENDS Accounting
MCThreads == 1..3
MCCredits == {1, 2}
MCPays == {1, 3}
MCReserves == {1}
MCAvails == {1, 3}
MCTraffs == {1, 2}
MCNone == {}
\* slow settlement layer: queue of 2, bursts of 1 and 4 credits
MCSlowBursts == {1, 4}
MCSlowPays == {3}
=============================================================================
