SPECIFICATION TSpec
CONSTANTS
  NP = 2
  Threads <- JThreads
  Thr = 2
  InitBal = 9
  PersistUnderLock = FALSE
  Amounts <- JAmounts
  MaxOps = 0
INVARIANT Report
POSTCONDITION AllConsumed
CHECK_DEADLOCK FALSE
