--------------------------- MODULE AccountingTrace ---------------------------
(* Judge for C32: replays what acctdrv recorded while a TLC behaviour was       *)
(* forced on the real accounting.Accounting.  Monitor mode (see TraceKit).      *)
(*                                                                            *)
(* Every event is a fact that was observed, in the order it happened:           *)
(*   call / grant / release with `arrived` = where the goroutine is afterwards  *)
(*   ("gate" + the settlement call it is parked in, "ret", "blocked"), the      *)
(*   result of a returned call, the Pay requests that reached the settlement    *)
(*   stub (`pays`, behind a sentinel), and -- whenever nothing is in flight --   *)
(*   a probe of both unpaid balances through Reserve(peer, 0).                  *)
(* The model A is advanced with Accounting's own operators at the moment the    *)
(* corresponding section was observed to have run (a credit has added when it   *)
(* is parked in PutRetrieveTraffic; a notification has subtracted when it has   *)
(* returned), which is the linearisation order the statement speaks of.         *)
(*                                                                            *)
(* Slow settlement layer (reset.slow): the events are call (burst | notify) /    *)
(* grant (a goroutine that waited for room in the pay channel has moved on) /    *)
(* payrelease / paydrain; `arrived` = "ret" | "send" (observed in state "chan    *)
(* send") | "blocked", `done` = credits of the burst performed so far.  The      *)
(* model follows the observation (Advance with the observed position); what the  *)
(* queue model predicted instead is a conformance note.  The statement is judged *)
(* at quiescence (paydrain): per peer, at least as many Pay calls were made as   *)
(* credits left the balance at or above the threshold, and the balance measured  *)
(* through Reserve equals credits minus notified payments.                       *)
EXTENDS Accounting, TraceKit

JThreads == 1..3
JNone == {0}

VARIABLES l, bad, notes,
          win,    \* per goroutine: the values the peer's unpaid balance had while its Reserve was in flight
          due     \* peers for which a payment request is owed but the pay channel could not be inspected yet

ProbeLo == 0 - 2
TrueCount(s) == Cardinality({i \in DOMAIN s : s[i]})
ProbeVal(s) == TrueCount(s) + ProbeLo
ProbeShape(s) == \A i, j \in DOMAIN s : (i < j /\ s[j]) => s[i]      \* refused exactly below the balance
PaySet(e) == {e.pays[i] : i \in DOMAIN e.pays}

CallOfEv(e) == Call(e.kind, e.p, e.x, e.traff, e.avail)
ThreadEv(e) == e.op \in {"call", "grant", "release"}
HasPays(e) == ThreadEv(e) \/ e.op = "probe"

\* ------------------------------------------------------------------ the model follows the observed sections
\* where goroutine t (call c) was observed after it went on: parked in its first contact, in a section, or blocked
Arrive(a, t, c, e) ==
  IF e.arrived = "blocked" THEN [a EXCEPT !.pc[t] = IF a.maplock # 0 THEN "mwait" ELSE "wait", !.loc[t] = c]
  ELSE IF e.arrived = "gate" /\ e.gate = "retrieve_traffic" THEN [a EXCEPT !.pc[t] = "init", !.loc[t] = c, !.maplock = t]
  ELSE IF e.arrived \in {"gate", "ret"} THEN Enter([a EXCEPT !.known[c.p] = TRUE], t, c)
  ELSE a

Model(e, a) ==
  IF ~ThreadEv(e) THEN a
  ELSE LET t == e.t
           c == CallOfEv(e)
           a0 == [a EXCEPT !.granted = 0]
       IN CASE e.op = "call" -> Arrive(a, t, c, e)
            [] e.op = "grant" -> Arrive(a0, t, c, e)
            [] e.op = "release" ->
                 IF ~e.done THEN a
                 ELSE IF e.from = "retrieve_traffic"          \* first contact over: peer inserted, map mutex released
                 THEN Arrive([a0 EXCEPT !.known[c.p] = TRUE, !.maplock = IF @ = t THEN 0 ELSE @, !.pc[t] = "idle"], t, c, e)
                 ELSE IF AtGate(a, t) /\ a.pc[t] # "init" THEN Release(a0, t)
                 ELSE a

\* the balance of peer p while a Reserve of goroutine t is (still) in flight
InFlightReserve(a, t) == a.loc[t].kind = "reserve" /\ a.pc[t] \in {"r_bal", "wait", "mwait", "init"}
WinAfter(e, a, post) ==
  [t \in Threads |->
     IF ThreadEv(e) /\ e.t = t /\ e.op = "call" /\ e.kind = "reserve" THEN {a.unpaid[e.p], post.unpaid[e.p]}
     ELSE IF InFlightReserve(a, t) THEN win[t] \cup {post.unpaid[a.loc[t].p]}
     ELSE win[t]]

\* peers for which a payment request must have been issued by now: a credit returned with the balance at or
\* above the threshold (the request is observed with the first event at which the pay channel could be flushed)
DueAfter(e, a) ==
  IF ThreadEv(e) /\ e.kind = "credit" /\ e.arrived = "ret" /\ e.err = "" /\ a.unpaid[e.p] >= Thr
  THEN due \cup {e.p} ELSE due

\* ------------------------------------------------------------------ verdict: the statement of C32
Verdict(e, a, post) ==
  IF e.op = "race" THEN Clause("C32:free_of_data_races", ~e.raceReported)
  ELSE IF e.op = "probe" THEN
       (IF ~e.deferred
        THEN Clause("C32:payment_requested_when_credit_reaches_threshold", due \subseteq PaySet(e)) ELSE <<>>)
    \o Clause("C32:unpaid_balance_is_credits_minus_payments_never_negative",
               \A p \in Peers : e.probe[p] # <<>> =>
                                /\ ProbeShape(e.probe[p])
                                /\ ProbeVal(e.probe[p]) = post.unpaid[p]
                                /\ ProbeVal(e.probe[p]) >= 0)
  ELSE IF ~ThreadEv(e) THEN <<>>
  ELSE
     \* a payment is requested whenever a credit leaves the unpaid balance at or above the threshold
     (IF ~e.deferred
      THEN Clause("C32:payment_requested_when_credit_reaches_threshold", DueAfter(e, a) \subseteq PaySet(e))
      ELSE <<>>)
     \* a request from a peer whose unsettled served traffic has reached the tolerance is refused and not recorded
  \o (IF e.op = "release" /\ e.done /\ e.from = "transfer_traffic"
      THEN Clause("C32:debit_refused_at_tolerance_and_not_recorded", e.traff >= Tol => (e.arrived = "ret" /\ e.refused))
      ELSE <<>>)
     \* a reservation is judged against a balance the peer had while the call was in flight
  \o (IF e.kind = "reserve" /\ e.arrived = "ret"
      THEN LET W == IF e.op = "call" THEN {a.unpaid[e.p]} ELSE win[e.t]
           IN Clause("C32:reserve_judged_against_current_unpaid_balance",
                     IF e.refused THEN \E u \in W : e.avail < u + e.x
                     ELSE e.err = "" /\ \E u \in W : e.avail >= u + e.x)
      ELSE <<>>)
     \* the unpaid balance equals credits minus notified payments and is never negative
  \o (IF e.probe # <<>>
      THEN Clause("C32:unpaid_balance_is_credits_minus_payments_never_negative",
                  \A p \in Peers : e.probe[p] # <<>> =>
                                   /\ ProbeShape(e.probe[p])
                                   /\ ProbeVal(e.probe[p]) = post.unpaid[p]
                                   /\ ProbeVal(e.probe[p]) >= 0)
      ELSE <<>>)

\* ------------------------------------------------------------------ conformance notes (never alarm)
Notes(e, a, post) ==
  IF e.op = "stuck" THEN <<"goroutines_left_blocked">>
  ELSE IF e.op = "skipped" THEN <<"call_skipped_goroutine_still_busy">>
  ELSE IF ~ThreadEv(e) THEN <<>>
  ELSE
     (IF e.op = "call"
      THEN Clause("blocks_exactly_when_a_needed_lock_is_held",
                  (e.arrived = "blocked") = (a.maplock # 0 \/ (a.known[e.p] /\ Blocks(a, e.t, CallOfEv(e)))))
      ELSE <<>>)
  \o (IF e.op \in {"call", "grant"} /\ e.arrived = "gate" /\ e.gate = "retrieve_traffic"
      THEN Clause("one_first_contact_at_a_time", a.maplock = 0 \/ a.maplock = e.t)
      ELSE <<>>)
  \o (IF e.kind = "credit" /\ e.arrived = "ret"
      THEN    Clause("payment_requested_only_at_threshold", e.p \in PaySet(e) => a.unpaid[e.p] >= Thr)
           \o Clause("payment_request_carries_the_threshold", \A i \in DOMAIN e.paythr : e.paythr[i] = Thr)
      ELSE <<>>)
  \o (IF e.op = "release" /\ e.done /\ e.from = "transfer_traffic"
      THEN Clause("debit_below_tolerance_is_recorded", e.traff < Tol => (e.arrived = "gate" /\ e.gate = "put_transfer"))
      ELSE <<>>)
  \o (IF e.op = "release" THEN Clause("release_found_the_goroutine_at_its_gate", e.done) ELSE <<>>)
  \o Clause("pay_channel_flushed", e.flushed)

\* ------------------------------------------------------------------ slow settlement layer
SlowCallOf(e) == IF e.kind = "burst" THEN BurstCall(e.p, e.x, e.n) ELSE CallOfEv(e)
\* the burst of e.t as it starts: the balance before its first credit is remembered
BurstStart(a, e) == [a EXCEPT !.loc[e.t] = [SlowCallOf(e) EXCEPT !.u = a.unpaid[e.p], !.d = 0]]
WithoutSender(a, t) == [a EXCEPT !.sendq = SelectSeq(@, LAMBDA x : x # t)]
\* what the queue model predicts for a goroutine that goes on: <<where it ends up, credits performed>>
PredOf(b, t, n) == IF b.pc[t] = "idle" THEN <<"ret", n>> ELSE <<"send", b.loc[t].d>>

SlowModel(e, a) ==
  CASE e.op = "call" /\ e.kind = "burst" ->
         IF e.arrived \in {"ret", "send"} /\ e.done >= 1 THEN Advance(BurstStart(a, e), e.t, 1, e.done, e.arrived = "ret")
         ELSE IF e.arrived = "ret" THEN a ELSE [a EXCEPT !.pc[e.t] = "wait", !.loc[e.t] = SlowCallOf(e)]
    [] e.op = "call" /\ e.kind # "burst" ->
         IF e.arrived = "ret" THEN Enter(a, e.t, SlowCallOf(e)) ELSE [a EXCEPT !.pc[e.t] = "wait", !.loc[e.t] = SlowCallOf(e)]
    [] e.op = "grant" ->
         IF a.pc[e.t] = "c_send" /\ e.arrived \in {"ret", "send"} /\ e.done >= a.loc[e.t].d
         THEN Advance(WithoutSender(a, e.t), e.t, a.loc[e.t].d, e.done, e.arrived = "ret")
         ELSE IF a.pc[e.t] = "wait" /\ e.arrived = "ret" /\ a.loc[e.t].kind = "notify"
         THEN Enter([a EXCEPT !.pc[e.t] = "idle"], e.t, a.loc[e.t])
         ELSE a
    [] e.op = "payrelease" -> IF e.rel /\ a.inpay # 0 THEN WorkerNext(a) ELSE a
    [] e.op = "paydrain" -> [a EXCEPT !.q = <<>>, !.inpay = 0, !.paid = [p \in Peers |-> e.npaid[p]]]
    [] OTHER -> a

SlowVerdict(e, a, post) ==
  IF e.op = "paydrain" /\ e.quiet THEN
       \* a payment is requested whenever a credit leaves the unpaid balance at or above the threshold: at quiescence
       \* every such credit of a peer has had its Pay call
       Clause("C32:payment_requested_when_credit_reaches_threshold", \A p \in Peers : e.npaid[p] >= post.due[p])
    \o (IF e.bal # <<>>
        THEN Clause("C32:unpaid_balance_is_credits_minus_payments_never_negative",
                    \A p \in Peers : e.bal[p] = post.unpaid[p] /\ e.bal[p] >= 0)
        ELSE <<>>)
  ELSE <<>>

SlowNotes(e, a, post) ==
  IF e.op = "stuck" THEN <<"goroutines_left_blocked">>
  ELSE IF e.op = "skipped" THEN <<"call_skipped_goroutine_still_busy">>
  ELSE IF e.op = "call" /\ e.kind = "burst" THEN
       Clause("credit_waits_exactly_when_the_pay_queue_is_full",
              <<e.arrived, e.done>> = PredOf(BurstGo(BurstStart(a, e), e.t, FALSE), e.t, e.n))
  ELSE IF e.op = "call" THEN Clause("call_returned", e.arrived = "ret")
  ELSE IF e.op = "grant" THEN
       \* (during a drain the goroutines finish before the queue is seen empty: no prediction)
       Clause("waiting_credit_goes_on_as_modelled",
              /\ a.pc[e.t] = "c_send"
              /\ e.after = "payrelease" => <<e.arrived, e.done>> = PredOf(BurstGo(WithoutSender(a, e.t), e.t, TRUE), e.t, a.loc[e.t].n))
  ELSE IF e.op = "payrelease" THEN
          Clause("pay_release_found_a_call_in_progress", e.rel /\ a.inpay = e.peer)
       \o Clause("requests_are_served_in_fifo_order", e.rel => e.inpay = WorkerNext(a).inpay)
  ELSE IF e.op = "paydrain" THEN
          Clause("drain_left_nothing_in_flight", e.quiet /\ e.idle)
       \o Clause("one_pay_call_per_request", \A p \in Peers : e.npaid[p] = a.pays[p])
  ELSE <<>>

\* ------------------------------------------------------------------ monitor
TInit == /\ l = 1 /\ A = InitA /\ res = [op |-> "init"] /\ nops = 0 /\ bad = <<>> /\ notes = <<>>
         /\ win = [t \in Threads |-> {}] /\ due = {}

TStep ==
  /\ l <= NEvents
  /\ LET e == Trace[l]
         start == e.op = "reset"
         a0 == IF start THEN [InitA EXCEPT !.unpaid = [p \in Peers |-> e.init[p]], !.known = [p \in Peers |-> ~e.fresh],
                                            !.slow = e.slow] ELSE A
         post == IF start THEN a0 ELSE IF a0.slow THEN SlowModel(e, a0) ELSE Model(e, a0)
         cs == IF start /\ a0.slow
               THEN Clause("C32:unpaid_balance_is_credits_minus_payments_never_negative", \A p \in Peers : e.bal[p] = a0.unpaid[p])
               ELSE IF start
               THEN Clause("C32:unpaid_balance_is_credits_minus_payments_never_negative",
                           \A p \in Peers : e.probe[p] # <<>> => ProbeVal(e.probe[p]) = a0.unpaid[p])
               ELSE IF a0.slow THEN SlowVerdict(e, a0, post)
               ELSE Verdict(e, a0, post)
         ns == IF start THEN <<>> ELSE IF a0.slow THEN SlowNotes(e, a0, post) ELSE Notes(e, a0, post)
         probed == (start \/ HasPays(e)) /\ e.probe # <<>>
     IN /\ l' = l + 1
        /\ bad' = IF cs = <<>> THEN bad ELSE Append(bad, BadRec(l, e, cs))
        /\ notes' = IF ns = <<>> \/ Len(notes) >= 20 THEN notes ELSE Append(notes, BadRec(l, e, ns))
        /\ A' = IF probed /\ cs # <<>>                          \* resynchronise to the probed balances
                THEN [post EXCEPT !.unpaid = [p \in Peers |-> IF e.probe[p] # <<>> THEN ProbeVal(e.probe[p]) ELSE @[p]]]
                ELSE IF a0.slow /\ ~start /\ cs # <<>> /\ e.bal # <<>>  \* ... to the measured balances
                THEN [post EXCEPT !.unpaid = [p \in Peers |-> e.bal[p]]]
                ELSE post
        /\ win' = IF start THEN [t \in Threads |-> {}] ELSE WinAfter(e, a0, post)
        /\ due' = IF start THEN {}
                  ELSE IF ~HasPays(e) THEN due
                  ELSE IF e.deferred THEN DueAfter(e, a0) ELSE {}
        /\ res' = [op |-> e.op]
        /\ UNCHANGED nops

TSpec == TInit /\ [][TStep]_<<vars, nops, l, bad, notes, win, due>>

Report == ReportBad(l, bad, notes)
=============================================================================
