--------------------------- MODULE AccountingTrace ---------------------------
(* Judge for C32: replays what acctdrv recorded while a TLC behaviour was       *)
(* forced on the real accounting.Accounting.  Monitor mode (see TraceKit).      *)
(*                                                                            *)
(* Every event is a fact that was observed, in the order it happened:           *)
(*   call / grant / release with `arrived` = where the goroutine is afterwards  *)
(*   ("gate" + the settlement call it is parked in, "ret", "blocked"), the      *)
(*   result of a returned call, the Pay requests that reached the settlement    *)
(*   stub (`pays`, behind a sentinel), and -- whenever nothing is in flight --   *)
(*   a probe of both unpaid balances through Reserve(peer, 0).                  *)
(* The model A is advanced with Accounting's own operators at the moment the    *)
(* corresponding section was observed to have run (a credit has added when it   *)
(* is parked in PutRetrieveTraffic; a notification has subtracted when it has   *)
(* returned), which is the linearisation order the statement speaks of.         *)
EXTENDS Accounting, TraceKit

JThreads == 1..3
JNone == {0}

VARIABLES l, bad, notes,
          win     \* per goroutine: the values the peer's unpaid balance had while its Reserve was in flight

ProbeLo == 0 - 2
TrueCount(s) == Cardinality({i \in DOMAIN s : s[i]})
ProbeVal(s) == TrueCount(s) + ProbeLo
ProbeShape(s) == \A i, j \in DOMAIN s : (i < j /\ s[j]) => s[i]      \* refused exactly below the balance
PaySet(e) == {e.pays[i] : i \in DOMAIN e.pays}

CallOfEv(e) == Call(e.kind, e.p, e.x, e.traff, e.avail)
ThreadEv(e) == e.op \in {"call", "grant", "release"}

\* ------------------------------------------------------------------ the model follows the observed sections
Model(e, a) ==
  IF ~ThreadEv(e) THEN a
  ELSE LET t == e.t
           c == CallOfEv(e)
       IN CASE e.op = "call" ->
                 IF e.arrived = "blocked" THEN [a EXCEPT !.pc[t] = "wait", !.loc[t] = c]
                 ELSE IF e.arrived \in {"gate", "ret"} THEN Enter(a, t, c)
                 ELSE a
            [] e.op = "grant" ->
                 IF e.arrived \in {"gate", "ret"}
                 THEN IF a.granted = t THEN Grant(a, t) ELSE Enter([a EXCEPT !.granted = 0], t, c)
                 ELSE a
            [] e.op = "release" ->
                 IF e.done /\ AtGate(a, t) THEN Release([a EXCEPT !.granted = 0], t) ELSE a

\* the balance of peer p while a Reserve of goroutine t is (still) in flight
InFlightReserve(a, t) == a.loc[t].kind = "reserve" /\ a.pc[t] \in {"r_bal", "wait"}
WinAfter(e, a, post) ==
  [t \in Threads |->
     IF ThreadEv(e) /\ e.t = t /\ e.op = "call" /\ e.kind = "reserve" THEN {a.unpaid[e.p], post.unpaid[e.p]}
     ELSE IF InFlightReserve(a, t) THEN win[t] \cup {post.unpaid[a.loc[t].p]}
     ELSE win[t]]

\* ------------------------------------------------------------------ verdict: the statement of C32
Verdict(e, a, post) ==
  IF e.op = "race" THEN Clause("C32:free_of_data_races", ~e.raceReported)
  ELSE IF ~ThreadEv(e) THEN <<>>
  ELSE
     \* a payment is requested whenever a credit leaves the unpaid balance at or above the threshold
     (IF e.kind = "credit" /\ e.arrived = "ret" /\ e.err = ""
      THEN Clause("C32:payment_requested_when_credit_reaches_threshold", a.unpaid[e.p] >= Thr => e.p \in PaySet(e))
      ELSE <<>>)
     \* a request from a peer whose unsettled served traffic has reached the tolerance is refused and not recorded
  \o (IF e.op = "release" /\ e.done /\ e.from = "transfer_traffic"
      THEN Clause("C32:debit_refused_at_tolerance_and_not_recorded", e.traff >= Tol => (e.arrived = "ret" /\ e.refused))
      ELSE <<>>)
     \* a reservation is judged against a balance the peer had while the call was in flight
  \o (IF e.kind = "reserve" /\ e.arrived = "ret"
      THEN LET W == IF e.op = "call" THEN {a.unpaid[e.p]} ELSE win[e.t]
           IN Clause("C32:reserve_judged_against_current_unpaid_balance",
                     IF e.refused THEN \E u \in W : e.avail < u + e.x
                     ELSE e.err = "" /\ \E u \in W : e.avail >= u + e.x)
      ELSE <<>>)
     \* the unpaid balance equals credits minus notified payments and is never negative
  \o (IF e.probe # <<>>
      THEN Clause("C32:unpaid_balance_is_credits_minus_payments_never_negative",
                  \A p \in Peers : /\ ProbeShape(e.probe[p])
                                   /\ ProbeVal(e.probe[p]) = post.unpaid[p]
                                   /\ ProbeVal(e.probe[p]) >= 0)
      ELSE <<>>)

\* ------------------------------------------------------------------ conformance notes (never alarm)
Notes(e, a, post) ==
  IF e.op = "stuck" THEN <<"goroutines_left_blocked">>
  ELSE IF e.op = "skipped" THEN <<"call_skipped_goroutine_still_busy">>
  ELSE IF ~ThreadEv(e) THEN <<>>
  ELSE
     (IF e.op = "call" THEN Clause("blocks_exactly_when_the_peer_lock_is_held", (e.arrived = "blocked") = Blocks(a, e.t, CallOfEv(e)))
      ELSE <<>>)
  \o (IF e.kind = "credit" /\ e.arrived = "ret"
      THEN    Clause("payment_requested_only_at_threshold", e.p \in PaySet(e) => a.unpaid[e.p] >= Thr)
           \o Clause("payment_request_carries_the_threshold", \A i \in DOMAIN e.paythr : e.paythr[i] = Thr)
      ELSE <<>>)
  \o (IF e.op = "release" /\ e.done /\ e.from = "transfer_traffic"
      THEN Clause("debit_below_tolerance_is_recorded", e.traff < Tol => (e.arrived = "gate" /\ e.gate = "put_transfer"))
      ELSE <<>>)
  \o (IF e.op = "release" THEN Clause("release_found_the_goroutine_at_its_gate", e.done) ELSE <<>>)
  \o Clause("pay_channel_flushed", e.flushed)
  \o Clause("all_idle_as_modelled", e.idle = (\A t \in Threads : post.pc[t] = "idle"))

\* ------------------------------------------------------------------ monitor
TInit == /\ l = 1 /\ A = InitA /\ res = [op |-> "init"] /\ nops = 0 /\ bad = <<>> /\ notes = <<>>
         /\ win = [t \in Threads |-> {}]

TStep ==
  /\ l <= NEvents
  /\ LET e == Trace[l]
         start == e.op = "reset"
         a0 == IF start THEN [InitA EXCEPT !.unpaid = [p \in Peers |-> e.init[p]]] ELSE A
         post == IF start THEN a0 ELSE Model(e, a0)
         cs == IF start
               THEN Clause("C32:unpaid_balance_is_credits_minus_payments_never_negative",
                           \A p \in Peers : ProbeVal(e.probe[p]) = a0.unpaid[p])
               ELSE Verdict(e, a0, post)
         ns == IF start THEN <<>> ELSE Notes(e, a0, post)
         probed == (start \/ ThreadEv(e)) /\ e.probe # <<>>
     IN /\ l' = l + 1
        /\ bad' = IF cs = <<>> THEN bad ELSE Append(bad, BadRec(l, e, cs))
        /\ notes' = IF ns = <<>> \/ Len(notes) >= 20 THEN notes ELSE Append(notes, BadRec(l, e, ns))
        /\ A' = IF probed /\ cs # <<>>                          \* resynchronise to the probed balances
                THEN [post EXCEPT !.unpaid = [p \in Peers |-> ProbeVal(e.probe[p])]]
                ELSE post
        /\ win' = IF start THEN [t \in Threads |-> {}] ELSE WinAfter(e, a0, post)
        /\ res' = [op |-> e.op]
        /\ UNCHANGED nops

TSpec == TInit /\ [][TStep]_<<vars, nops, l, bad, notes, win>>

Report == ReportBad(l, bad, notes)
=============================================================================
