--------------------------- MODULE TrafficSchedGen ---------------------------
(* Schedule generator for C33.  The implementation-shaped model               *)
(* (PersistUnderLock = FALSE: totals are written after the peer lock is        *)
(* released) is explored with a history variable; every reachable state is a   *)
(* restart point, so every prefix of every interleaving of the steps           *)
(*   start(t) persist(t)            two updaters, NUpd updates each            *)
(*   paystart emit(ok|fail) persistcheque      one payer (VERIF_PAY=1)         *)
(*   refstart refget refget        a live refresh (TrafficInit) of peer 1 by a *)
(*                                 goroutine of its own (VERIF_REFRESH=1): its *)
(*                                 two reads of the persisted totals are gates *)
(* is emitted as a scenario, followed by the fixed suffix                      *)
(*   restart; for each peer: reconnect, pay, credit Thr, pay                   *)
(* which observes the restored totals, whether a payment right after the       *)
(* reconnect handshake (nothing new consumed) issues a cheque, and the first    *)
(* cheque for new traffic after the restart.                                    *)
(* VERIF_PRIOR=1: before the concurrent phase peer 1 has already been paid once *)
(* (credit Thr, pay, credit Thr): the payment that is cut by the restart is     *)
(* then not the first cheque to that peer.                                      *)
(* par.lost tells whether the model itself predicts a forgotten update for the *)
(* behaviour (the lost update  start1 start2 persist2 persist1  is expected);  *)
(* only the real code decides.                                                 *)
EXTENDS Traffic, TLC, Json, IOUtils
VARIABLES hist, cnt

GThreads == {1, 2, 3, 4}
GAmounts == {1, 2}
Updaters == {1, 2}
Payer == 3
Refresher == 4

EnvOr(n, d) == IF n \in DOMAIN IOEnv THEN IOEnv[n] ELSE d
NUpd    == atoi(EnvOr("VERIF_NUPD", "2"))
WithPay == EnvOr("VERIF_PAY", "0") = "1"
Wide    == EnvOr("VERIF_WIDE", "0") = "1"
WithRefresh == EnvOr("VERIF_REFRESH", "0") = "1"
\* updates of the second updater (default: as many as the first)
NUpd2   == atoi(EnvOr("VERIF_NUPD2", EnvOr("VERIF_NUPD", "2")))
NUpdOf(t) == IF t = 2 THEN NUpd2 ELSE NUpd

\* what an updater may do: <<kind, peer, amount>>; thread 1 adds 1s, thread 2 adds 2s
Choices(t) ==
  IF ~Wide THEN {<<"owed", 1, t>>}
  ELSE IF t = 1 THEN {<<"owed", 1, 1>>, <<"served", 1, 1>>}
  ELSE {<<"owed", 1, 2>>, <<"served", 1, 2>>, <<"owed", 2, 2>>}

\* sequential prefix: with a payer, peer 1 is owed the threshold already
\* (likewise with a refresher: the refresh only visits peers that have a record)
Prior == EnvOr("VERIF_PRIOR", "0") = "1"
PreCredit == [op |-> "credit", p |-> 1, x |-> Thr]
Pre == IF Prior THEN <<PreCredit, [op |-> "pay", p |-> 1, x |-> 0], PreCredit>>
       ELSE IF WithPay \/ WithRefresh THEN <<PreCredit>> ELSE <<>>
Start0 == IF Prior
          THEN [Credit(PaySeq(Credit(InitS, "owed", 1, Thr), 1, TRUE), "owed", 1, Thr) EXCEPT !.ack = InitS.ack, !.ackSent = InitS.ackSent]
          ELSE IF WithPay \/ WithRefresh THEN [Credit(InitS, "owed", 1, Thr) EXCEPT !.ack = InitS.ack] ELSE InitS

GInit == S = Start0 /\ res = [op |-> "init"] /\ nops = 0 /\ hist = <<>> /\ cnt = [t \in GThreads |-> 0]

Step(s2, o) == S' = s2 /\ hist' = Append(hist, o) /\ res' = [op |-> o.op] /\ UNCHANGED nops

GNext ==
  \/ \E t \in Updaters : \E c \in Choices(t) :
       /\ cnt[t] < NUpdOf(t) /\ UpdStartOK(S, t, c[2])
       /\ Step(UpdStart(S, t, c[1], c[2], c[3]), [op |-> "start", t |-> t, k |-> c[1], p |-> c[2], x |-> c[3]])
       /\ cnt' = [cnt EXCEPT ![t] = @ + 1]
  \/ \E t \in Updaters : UpdPersistOK(S, t) /\ Step(UpdPersist(S, t), [op |-> "persist", t |-> t]) /\ UNCHANGED cnt
  \/ /\ WithPay /\ cnt[Payer] < 1 /\ PayStartOK(S, Payer, 1) /\ PayIssues(S, 1)
     /\ Step(PayStart(S, Payer, 1), [op |-> "paystart", t |-> Payer, p |-> 1])
     /\ cnt' = [cnt EXCEPT ![Payer] = @ + 1]
  \/ \E ok \in BOOLEAN : PayEmitOK(S, Payer) /\ Step(PayEmit(S, Payer, ok), [op |-> "emit", t |-> Payer, ok |-> ok]) /\ UNCHANGED cnt
  \/ PayPersistOK(S, Payer) /\ Step(PayPersist(S, Payer), [op |-> "persistcheque", t |-> Payer]) /\ UNCHANGED cnt
  \/ /\ WithRefresh /\ cnt[Refresher] < 1 /\ RefStartOK(S, Refresher, 1)
     /\ Step(RefStart(S, Refresher, 1), [op |-> "refstart", t |-> Refresher, p |-> 1])
     /\ cnt' = [cnt EXCEPT ![Refresher] = @ + 1]
  \/ RefGet1OK(S, Refresher) /\ Step(RefGet1(S, Refresher), [op |-> "refget", t |-> Refresher]) /\ UNCHANGED cnt
  \/ RefGet2OK(S, Refresher) /\ Step(RefGet2(S, Refresher), [op |-> "refget", t |-> Refresher]) /\ UNCHANGED cnt
GSpec == GInit /\ [][GNext]_<<vars, nops, hist, cnt>>

RECURSIVE SuffixFrom(_)
SuffixFrom(p) == IF p > NP THEN <<>>
                 ELSE <<[op |-> "reconnect", p |-> p], [op |-> "pay", p |-> p],
                        [op |-> "credit", p |-> p, x |-> Thr], [op |-> "pay", p |-> p]>> \o SuffixFrom(p + 1)
Suffix == <<[op |-> "restart"]>> \o SuffixFrom(1)

\* does the model predict that a restart now forgets an acknowledged update?
Lost == \E k \in Kinds, p \in Peers : Restart(S).tot[k][p] < S.ack[k][p] + Start0.tot[k][p]

Scn == [par |-> [mode |-> "sched", thr |-> Thr, bal |-> InitBal, pre |-> Pre, lost |-> Lost], ops |-> hist \o Suffix]
EmitAll == PrintT(<<"SCN", ToJson(Scn)>>)
=============================================================================
