------------------------------- MODULE Traffic -------------------------------
(* The traffic settlement service (pkg/settlement/traffic/traffic.go) for the  *)
(* direction "what this node owes / has paid" plus the served-traffic total.   *)
(* Properties C31 (issued cheques) and C33 (restart).                          *)
(*                                                                            *)
(* Granularity: one step per critical section / per call into a dependency.   *)
(* Persistence is explicit:                                                    *)
(*   UpdStart   = PutRetrieveTraffic/PutTransferTraffic up to the store call:  *)
(*                lock the peer, add to the in-memory total, unlock, read the  *)
(*                total that is handed to the store (value captured here);     *)
(*   UpdPersist = the store write of the captured value, then the call returns;*)
(*   PayStart   = Pay/issue up to the protocol call: lock the peer, compute    *)
(*                the unpaid balance, add it to the cheque total, sign;        *)
(*   PayEmit    = the protocol call returns (delivered or failed);             *)
(*   PayPersist = the store write of the last sent cheque; unlock; return;     *)
(*   Restart    = crash (threads vanish, un-written values are lost) followed  *)
(*                by New + Init on the surviving store: totals := maximum of   *)
(*                chain, last cheque and stored total;                         *)
(*   Reconnect  = the init-stream handshake: the peer presents the last cheque *)
(*                it holds and the node adopts it if it is newer.              *)
(*   RefStart/RefGet1/RefGet2 = the live refresh of one peer (TrafficInit: 24 h   *)
(*                ticker / API) as a goroutine of its own: its two reads of the *)
(*                persisted totals are gates; the in-memory totals are          *)
(*                replaced by max(chain, cheque, what was read).                *)
(* PersistUnderLock = TRUE is the design in which the store write happens      *)
(* before the peer lock is released (the property C33 then follows); FALSE is  *)
(* the shape of the code (write after unlock), used to generate schedules.     *)
(*                                                                            *)
(* The whole state is one record S so that operations are pure functions of a *)
(* state; sequential histories (C31) are compositions of the same functions.  *)
EXTENDS Integers, Sequences, FiniteSets

CONSTANTS NP,                \* peers are 1..NP
          Threads,           \* goroutines that call into the service
          Thr,               \* payment threshold handed to Pay
          InitBal,           \* chain balance of this node
          PersistUnderLock,  \* see above
          RefreshReadsUnderLock  \* TRUE: the refresh reads the persisted totals of a peer while it holds the peer
                             \* lock (the design under which C33 follows); FALSE: it reads them before locking

Peers == 1..NP
Kinds == {"owed", "served"}   \* retrieveTraffic (what we owe) / transferTraffic (what we served)

VARIABLES S, res
vars == <<S, res>>

Zero  == [p \in Peers |-> 0]
NoLoc == [k |-> "owed", p |-> 0, x |-> 0, v |-> 0]

MaxI(a, b) == IF a > b THEN a ELSE b

RECURSIVE SumTo(_, _)
SumTo(f, n) == IF n = 0 THEN 0 ELSE f[n] + SumTo(f, n - 1)
SumP(f) == SumTo(f, NP)

InitS == [tot      |-> [k \in Kinds |-> Zero],   \* in-memory totals
          sent     |-> Zero,                     \* in-memory cumulative payout of the cheques sent (retrieveChequeTraffic)
          cashed   |-> Zero,                     \* the node's record of what peers cashed (retrieveChainTraffic)
          nbal     |-> InitBal,                  \* the node's record of its chain balance
          st       |-> [k \in Kinds |-> Zero],   \* persisted totals
          stSent   |-> Zero,                     \* persisted last sent cheque (cumulative payout)
          chCashed |-> Zero,                     \* chain: what each peer cashed from this node
          chBal    |-> InitBal,                  \* chain: balance of this node
          held     |-> Zero,                     \* highest cumulative payout delivered to (held by) each peer
          lock     |-> Zero,                     \* peer lock: holder thread or 0
          pc       |-> [t \in Threads |-> "idle"],
          loc      |-> [t \in Threads |-> NoLoc],
          ack      |-> [k \in Kinds |-> Zero],   \* sum of the updates whose call has returned
          ackSent  |-> Zero,                     \* highest cumulative payout of a Pay that has returned without error
          synced   |-> [p \in Peers |-> TRUE]]   \* handshake done since the last restart

(***************************************************************************)
(* Observables                                                             *)
(***************************************************************************)
Unpaid(s, p) == s.tot["owed"][p] - s.sent[p]
\* the statement's formula: chain balance + cashed amounts - total traffic owed
Avail(s) == s.nbal + SumP(s.cashed) - SumP(s.tot["owed"])

(***************************************************************************)
(* Traffic updates                                                         *)
(***************************************************************************)
UpdStartOK(s, t, p) == s.pc[t] = "idle" /\ s.lock[p] = 0
UpdStart(s, t, k, p, x) ==
  LET nv == s.tot[k][p] + x
  IN [s EXCEPT !.tot[k][p] = nv, !.pc[t] = "put", !.loc[t] = [k |-> k, p |-> p, x |-> x, v |-> nv],
               !.lock[p] = IF PersistUnderLock THEN t ELSE @]
UpdPersistOK(s, t) == s.pc[t] = "put"
UpdPersist(s, t) ==
  LET c == s.loc[t]
  IN [s EXCEPT !.st[c.k][c.p] = c.v, !.ack[c.k][c.p] = @ + c.x, !.pc[t] = "idle", !.loc[t] = NoLoc,
               !.lock[c.p] = IF PersistUnderLock THEN 0 ELSE @]

(***************************************************************************)
(* Payment                                                                 *)
(***************************************************************************)
PayDue(s, p)   == Unpaid(s, p) >= Thr
PayFunds(s, p) == Avail(s) >= Unpaid(s, p)
PayIssues(s, p) == PayDue(s, p) /\ PayFunds(s, p)
PayStartOK(s, t, p) == s.pc[t] = "idle" /\ s.lock[p] = 0 /\ s.synced[p]
\* only called when PayIssues: the cheque total is raised before signing and sending
PayStart(s, t, p) ==
  LET b == Unpaid(s, p)
      cum == s.sent[p] + b
  IN [s EXCEPT !.sent[p] = cum, !.lock[p] = t, !.pc[t] = "emit", !.loc[t] = [k |-> "owed", p |-> p, x |-> b, v |-> cum]]
PayEmitOK(s, t) == s.pc[t] = "emit"
PayEmit(s, t, ok) ==
  LET c == s.loc[t]
  IN IF ok THEN [s EXCEPT !.held[c.p] = c.v, !.tot["owed"][c.p] = MaxI(@, c.v), !.pc[t] = "cput"]
     ELSE [s EXCEPT !.pc[t] = "idle", !.loc[t] = NoLoc, !.lock[c.p] = 0]
PayPersistOK(s, t) == s.pc[t] = "cput"
PayPersist(s, t) ==
  LET c == s.loc[t]
  IN [s EXCEPT !.stSent[c.p] = c.v, !.ackSent[c.p] = c.v, !.pc[t] = "idle", !.loc[t] = NoLoc, !.lock[c.p] = 0]

(***************************************************************************)
(* Chain, refresh, restart, handshake                                      *)
(***************************************************************************)
AllIdle(s) == \A t \in Threads : s.pc[t] = "idle"

\* (re-)initialisation from chain and store: TrafficInit / Init
Reload(s) ==
  [s EXCEPT !.cashed = s.chCashed, !.nbal = s.chBal,
            !.sent = [p \in Peers |-> MaxI(s.chCashed[p], s.stSent[p])],
            !.tot = [k \in Kinds |-> [p \in Peers |->
                       IF k = "owed" THEN MaxI(MaxI(s.chCashed[p], s.stSent[p]), s.st[k][p]) ELSE s.st[k][p]]]]
Refresh(s) == Reload(s)
Restart(s) == Reload([s EXCEPT !.pc = [t \in Threads |-> "idle"], !.loc = [t \in Threads |-> NoLoc],
                               !.lock = Zero, !.synced = [p \in Peers |-> FALSE]])

\* the peer cashes the last cheque it holds (environment)
PeerCash(s, p) == [s EXCEPT !.chCashed[p] = s.held[p], !.chBal = @ - (s.held[p] - s.chCashed[p])]
\* receipt of one of our own cash-out transactions for peer p: chain values of p and the balance are re-read
CashOut(s, p) == [s EXCEPT !.cashed[p] = s.chCashed[p], !.nbal = s.chBal]

\* handshake: the peer presents the cheque it holds
Reconnect(s, p) ==
  IF s.held[p] > s.stSent[p]
  THEN [s EXCEPT !.sent[p] = s.held[p], !.stSent[p] = s.held[p], !.tot["owed"][p] = MaxI(@, s.held[p]), !.synced[p] = TRUE]
  ELSE [s EXCEPT !.synced[p] = TRUE]

(***************************************************************************)
(* Live refresh of one peer by a goroutine of its own (C33)                  *)
(*   loc.x = persisted owed total as read, loc.v = persisted served total    *)
(***************************************************************************)
RefStartOK(s, t, p) == s.pc[t] = "idle" /\ (RefreshReadsUnderLock => s.lock[p] = 0)
RefStart(s, t, p) == [s EXCEPT !.pc[t] = "g1", !.loc[t] = [k |-> "owed", p |-> p, x |-> 0, v |-> 0],
                               !.lock[p] = IF RefreshReadsUnderLock THEN t ELSE @]
RefGet1OK(s, t) == s.pc[t] = "g1"
RefGet1(s, t) == [s EXCEPT !.pc[t] = "g2", !.loc[t].x = s.st["owed"][s.loc[t].p]]
\* the second read, then (under the peer lock) the totals are replaced
RefGet2OK(s, t) == s.pc[t] = "g2" /\ (~RefreshReadsUnderLock => s.lock[s.loc[t].p] = 0)
RefGet2(s, t) ==
  LET c == s.loc[t]
      p == c.p
  IN [s EXCEPT !.tot["owed"][p] = MaxI(MaxI(s.chCashed[p], s.stSent[p]), c.x),
               !.tot["served"][p] = s.st["served"][p],
               !.sent[p] = MaxI(s.chCashed[p], s.stSent[p]),
               !.cashed[p] = s.chCashed[p], !.nbal = s.chBal,
               !.pc[t] = "idle", !.loc[t] = NoLoc,
               !.lock[p] = IF RefreshReadsUnderLock THEN 0 ELSE @]

(***************************************************************************)
(* Sequential calls (used for histories: C31)                               *)
(***************************************************************************)
SeqThread == CHOOSE t \in Threads : TRUE
Credit(s, k, p, x) == UpdPersist(UpdStart(s, SeqThread, k, p, x), SeqThread)
PayCum(s, p) == s.sent[p] + Unpaid(s, p)
PaySeq(s, p, ok) ==
  IF ~PayIssues(s, p) THEN s
  ELSE IF ok THEN PayPersist(PayEmit(PayStart(s, SeqThread, p), SeqThread, TRUE), SeqThread)
  ELSE PayEmit(PayStart(s, SeqThread, p), SeqThread, FALSE)

(***************************************************************************)
(* Next-state relation (bounded by the constraint of the MC module)         *)
(***************************************************************************)
CONSTANTS Amounts, MaxOps
VARIABLE nops

Init == S = InitS /\ res = [op |-> "init"] /\ nops = 0

Do(s2, name) == S' = s2 /\ res' = [op |-> name]

Next ==
  \/ /\ nops < MaxOps /\ nops' = nops + 1
     /\ \/ \E t \in Threads, k \in Kinds, p \in Peers, x \in Amounts :
             UpdStartOK(S, t, p) /\ Do(UpdStart(S, t, k, p, x), "start")
        \/ \E t \in Threads, p \in Peers :
             PayStartOK(S, t, p) /\ PayIssues(S, p) /\ Do(PayStart(S, t, p), "paystart")
        \/ AllIdle(S) /\ Do(Refresh(S), "refresh")
        \/ \E t \in Threads, p \in Peers : RefStartOK(S, t, p) /\ S.synced[p] /\ Do(RefStart(S, t, p), "refstart")
        \/ \E p \in Peers : Do(PeerCash(S, p), "peercash")
        \/ \E p \in Peers : AllIdle(S) /\ Do(CashOut(S, p), "cashout")
        \/ Do(Restart(S), "restart")
        \/ \E p \in Peers : AllIdle(S) /\ ~S.synced[p] /\ Do(Reconnect(S, p), "reconnect")
  \/ /\ UNCHANGED nops
     /\ \/ \E t \in Threads : UpdPersistOK(S, t) /\ Do(UpdPersist(S, t), "persist")
        \/ \E t \in Threads, ok \in BOOLEAN : PayEmitOK(S, t) /\ Do(PayEmit(S, t, ok), "emit")
        \/ \E t \in Threads : PayPersistOK(S, t) /\ Do(PayPersist(S, t), "persistcheque")
        \/ \E t \in Threads : RefGet1OK(S, t) /\ Do(RefGet1(S, t), "refget")
        \/ \E t \in Threads : RefGet2OK(S, t) /\ Do(RefGet2(S, t), "refget")

Spec == Init /\ [][Next]_<<vars, nops>>

(***************************************************************************)
(* Properties                                                              *)
(***************************************************************************)
TypeOK == /\ \A k \in Kinds, p \in Peers : S.tot[k][p] \in Nat /\ S.st[k][p] \in Nat
          /\ \A p \in Peers : S.sent[p] \in Nat /\ S.lock[p] \in Threads \cup {0}

\* C31: issuing a cheque never changes the record of what peers cashed
CashedFrame == [][S'.cashed # S.cashed => res'.op \in {"refresh", "refget", "cashout", "restart"}]_<<vars, nops>>
\* C31: cumulative payouts strictly increase ...
PayoutsIncrease == [][\A p \in Peers : S'.held[p] >= S.held[p]
                        /\ (res'.op = "emit" /\ S'.held[p] # S.held[p] => S'.held[p] > S.held[p])]_<<vars, nops>>
\* ... without exceeding the traffic owed
PayoutsWithinOwed == \A p \in Peers : S.held[p] <= S.tot["owed"][p] /\ S.sent[p] <= S.tot["owed"][p]
\* C31: what the peers cashed never exceeds what they hold
CashedWithinHeld == \A p \in Peers : S.chCashed[p] <= S.held[p] /\ S.cashed[p] <= S.chCashed[p]

\* C33: whatever a restart would restore now covers every acknowledged update ...
AckDurable == \A k \in Kinds, p \in Peers : Restart(S).tot[k][p] >= S.ack[k][p]
\* ... and every acknowledged cheque
AckChequeDurable == \A p \in Peers : Restart(S).stSent[p] >= S.ackSent[p]
\* C33: once the handshake is done the node knows every payout the peer holds, so the next cheque is for more
NoRepay == \A p \in Peers : S.synced[p] => S.sent[p] >= S.held[p]
=============================================================================
