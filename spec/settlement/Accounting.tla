------------------------------ MODULE Accounting ------------------------------
(* Per-peer accounting (pkg/accounting/accounting.go) at lock granularity. C32.*)
(*                                                                            *)
(* One step per critical section, cut at the calls into the settlement         *)
(* interface (which the harness supplies, so they are the gates of a forced    *)
(* schedule):                                                                  *)
(*   Credit : CreditEnter  lock the peer, add to the unpaid balance, call      *)
(*                         settlement.PutRetrieveTraffic        (lock held)    *)
(*            CreditExit   that call returns; if the unpaid balance is at or   *)
(*                         above the threshold request a payment; unlock       *)
(*   Debit  : DebitEnter   lock the peer, call settlement.TransferTraffic      *)
(*            DebitCheck   it returns the unsettled served traffic: at or      *)
(*                         above the tolerance -> refuse, unlock; otherwise    *)
(*                         call settlement.PutTransferTraffic   (lock held)    *)
(*            DebitExit    that call returns; unlock                           *)
(*   NotifyPayment : NotifyDo   lock, subtract (saturating at 0), unlock       *)
(*   Reserve: ReserveEnter read the unpaid balance (no lock), call             *)
(*                         settlement.AvailableBalance                         *)
(*            ReserveExit  it returns; refuse iff available < balance + amount *)
(*   first contact: every call starts in getAccountingPeer under the map mutex  *)
(*            (accountingPeersMu).  For a peer accounting has not seen yet it    *)
(*            calls settlement.RetrieveTraffic while holding that mutex (pc      *)
(*            "init", a gate); when it returns the peer is inserted, the mutex   *)
(*            released and the call goes on.  Any call that starts meanwhile     *)
(*            waits for the map mutex (pc "mwait").                              *)
(* Reserve takes the peer lock for its read (and releases it before the gate).  *)
(* A call that needs a held lock waits (pc "wait"); when the holder unlocks,   *)
(* the waiter runs its first section before anything else happens (that is     *)
(* what a forced schedule can reproduce deterministically; at most one waiter  *)
(* per lock is generated).                                                     *)
(*                                                                            *)
(* The whole state is one record A; the operations are pure functions.         *)
EXTENDS Integers, Sequences, FiniteSets

CONSTANTS NP,        \* peers 1..NP
          Threads,   \* goroutines
          Thr,       \* payment threshold
          Tol,       \* payment tolerance
          Fresh      \* TRUE: accounting has not seen any peer yet (first contact is part of the behaviour)

Peers == 1..NP

VARIABLES A, res
vars == <<A, res>>

ZeroP == [p \in Peers |-> 0]
NoCall == [kind |-> "none", p |-> 0, x |-> 0, traff |-> 0, avail |-> 0, u |-> 0]
MaxA(a, b) == IF a > b THEN a ELSE b

InitA == [unpaid   |-> ZeroP,                         \* accountingPeer.unPaidTraffic
          lock     |-> ZeroP,                         \* holder of accountingPeer.lock, or 0
          known    |-> [p \in Peers |-> ~Fresh],      \* the peer is in the accountingPeers map
          maplock  |-> 0,                             \* holder of accountingPeersMu across a first contact, or 0
          pc       |-> [t \in Threads |-> "idle"],    \* idle | init | mwait | c_put | d_get | d_put | r_bal | wait
          loc      |-> [t \in Threads |-> NoCall],
          granted  |-> 0,                             \* waiter that was handed a lock and runs next
          pays     |-> ZeroP,                         \* payment requests issued per peer
          due      |-> ZeroP,                         \* credits that left the balance at or above the threshold
          recorded |-> ZeroP,                         \* served traffic recorded per peer
          refused  |-> ZeroP]                         \* debits refused per peer

Call(kind, p, x, traff, avail) == [kind |-> kind, p |-> p, x |-> x, traff |-> traff, avail |-> avail, u |-> 0]

NeedsLock(kind) == kind \in {"credit", "debit", "notify", "reserve"}
MapWaiters(a) == {t \in Threads : a.pc[t] = "mwait"}
Waiters(a, p) == {t \in Threads : a.pc[t] = "wait" /\ a.loc[t].p = p}

(***************************************************************************)
(* first critical section of a call (the lock, if needed, is free or ours)  *)
(***************************************************************************)
Enter(a, t, c) ==
  CASE c.kind = "credit"  -> [a EXCEPT !.unpaid[c.p] = @ + c.x, !.lock[c.p] = t, !.pc[t] = "c_put", !.loc[t] = c]
    [] c.kind = "debit"   -> [a EXCEPT !.lock[c.p] = t, !.pc[t] = "d_get", !.loc[t] = c]
    [] c.kind = "notify"  -> [a EXCEPT !.unpaid[c.p] = IF @ <= 0 THEN @ ELSE MaxA(0, @ - c.x),
                                       !.lock[c.p] = 0, !.pc[t] = "idle", !.loc[t] = NoCall]
    [] c.kind = "reserve" -> [a EXCEPT !.pc[t] = "r_bal", !.loc[t] = [c EXCEPT !.u = a.unpaid[c.p]],
                                       !.lock[c.p] = IF @ = t THEN 0 ELSE @]

\* a goroutine starts a call: map mutex, first contact if the peer is new, then the call's first section
CallOK(a, t) == a.pc[t] = "idle" /\ a.granted = 0
Blocks(a, t, c) == NeedsLock(c.kind) /\ a.lock[c.p] # 0
Start2(a, t, c) == IF Blocks(a, t, c) THEN [a EXCEPT !.pc[t] = "wait", !.loc[t] = c] ELSE Enter(a, t, c)
Start(a, t, c) ==
  IF a.maplock # 0 THEN [a EXCEPT !.pc[t] = "mwait", !.loc[t] = c]
  ELSE IF ~a.known[c.p] THEN [a EXCEPT !.maplock = t, !.pc[t] = "init", !.loc[t] = c]
  ELSE Start2(a, t, c)

\* the holder unlocks: a waiter (if any) is handed the lock
Unlock(a, p) ==
  LET W == Waiters(a, p)
  IN IF W = {} THEN [a EXCEPT !.lock[p] = 0]
     ELSE LET w == CHOOSE t \in W : TRUE IN [a EXCEPT !.lock[p] = w, !.granted = w]

\* the map mutex is released: a goroutine waiting for it goes on
MapUnlock(a) ==
  LET W == MapWaiters(a)
  IN IF W = {} THEN [a EXCEPT !.maplock = 0]
     ELSE LET w == CHOOSE t \in W : TRUE IN [a EXCEPT !.maplock = 0, !.granted = w]

\* the waiter runs: a map waiter looks the peer up (again a first contact if it is still new); a peer-lock
\* waiter runs its first section; a notify / reserve unlocks again at once
Grant(a, w) ==
  LET c == a.loc[w]
      a0 == [a EXCEPT !.granted = 0]
  IN IF a.pc[w] = "mwait"
     THEN IF ~a.known[c.p] THEN [a0 EXCEPT !.maplock = w, !.pc[w] = "init"]
          ELSE MapUnlock(Start2([a0 EXCEPT !.pc[w] = "idle"], w, c))
     ELSE LET b == Enter(a0, w, c)
          IN IF c.kind \in {"notify", "reserve"} THEN Unlock([b EXCEPT !.lock[c.p] = w], c.p) ELSE b

(***************************************************************************)
(* release of a gate: the settlement call returns                           *)
(***************************************************************************)
AtGate(a, t) == a.pc[t] \in {"init", "c_put", "d_get", "d_put", "r_bal"}
ReleaseOK(a, t) == AtGate(a, t) /\ a.granted = 0

ReserveRefuses(c) == c.avail < c.u + c.x
DebitRefuses(c) == c.traff >= Tol

Release(a, t) ==
  LET c == a.loc[t] IN
  CASE a.pc[t] = "init" ->      \* RetrieveTraffic returns: insert the peer, release the map mutex, go on with the call
         MapUnlock(Start2([a EXCEPT !.known[c.p] = TRUE, !.pc[t] = "idle"], t, c))
    [] a.pc[t] = "c_put" ->
         LET due == a.unpaid[c.p] >= Thr
         IN Unlock([a EXCEPT !.pays[c.p] = IF due THEN @ + 1 ELSE @, !.due[c.p] = IF due THEN @ + 1 ELSE @,
                             !.pc[t] = "idle", !.loc[t] = NoCall], c.p)
    [] a.pc[t] = "d_get" ->
         IF DebitRefuses(c)
         THEN Unlock([a EXCEPT !.refused[c.p] = @ + 1, !.pc[t] = "idle", !.loc[t] = NoCall], c.p)
         ELSE [a EXCEPT !.pc[t] = "d_put"]
    [] a.pc[t] = "d_put" ->
         Unlock([a EXCEPT !.recorded[c.p] = @ + c.x, !.pc[t] = "idle", !.loc[t] = NoCall], c.p)
    [] a.pc[t] = "r_bal" -> [a EXCEPT !.pc[t] = "idle", !.loc[t] = NoCall]

(***************************************************************************)
(* Next-state relation                                                      *)
(***************************************************************************)
CONSTANTS Credits, Pays, Reserves, Avails, Traffs, MaxOps
VARIABLE nops

Calls == [kind : {"credit"}, p : Peers, x : Credits, traff : {0}, avail : {0}, u : {0}]
    \cup [kind : {"notify"}, p : Peers, x : Pays, traff : {0}, avail : {0}, u : {0}]
    \cup [kind : {"debit"}, p : Peers, x : {1}, traff : Traffs, avail : {0}, u : {0}]
    \cup [kind : {"reserve"}, p : Peers, x : Reserves, traff : {0}, avail : Avails, u : {0}]

Init == A = InitA /\ res = [op |-> "init"] /\ nops = 0

Do(a2, name) == A' = a2 /\ res' = [op |-> name]

\* few waiters per lock: which of several waiters a mutex wakes first is not under the controller's control
StartAllowed(a, t, c) ==
  /\ CallOK(a, t)
  /\ a.maplock # 0 => Cardinality(MapWaiters(a)) < 2
  /\ (a.maplock = 0 /\ a.known[c.p] /\ Blocks(a, t, c)) => Waiters(a, c.p) = {}

Next ==
  \/ /\ A.granted # 0 /\ Do(Grant(A, A.granted), "grant") /\ UNCHANGED nops
  \/ /\ nops < MaxOps /\ nops' = nops + 1
     /\ \E t \in Threads, c \in Calls : StartAllowed(A, t, c) /\ Do(Start(A, t, c), "call")
  \/ /\ UNCHANGED nops
     /\ \E t \in Threads : ReleaseOK(A, t) /\ Do(Release(A, t), "release")

Spec == Init /\ [][Next]_<<vars, nops>>

(***************************************************************************)
(* Properties                                                              *)
(***************************************************************************)
Held(t) == {p \in Peers : A.lock[p] = t}

TypeOK == /\ \A p \in Peers : A.unpaid[p] \in Int /\ A.lock[p] \in Threads \cup {0}
          /\ A.granted \in Threads \cup {0}

\* the unpaid balance is never negative
NonNegative == \A p \in Peers : A.unpaid[p] >= 0

\* the lock protocol: exactly the goroutines inside a locked section hold their peer's lock
LockProtocol ==
  /\ \A t \in Threads : A.pc[t] \in {"c_put", "d_get", "d_put"} => A.lock[A.loc[t].p] = t
  /\ \A p \in Peers : A.lock[p] # 0 => \/ A.pc[A.lock[p]] \in {"c_put", "d_get", "d_put"} /\ A.loc[A.lock[p]].p = p
                                       \/ A.granted = A.lock[p]
  /\ \A p \in Peers : Cardinality(Waiters(A, p)) <= 2
  /\ \A t \in Threads : A.pc[t] = "wait" => A.lock[A.loc[t].p] # 0
  \* the map mutex is held exactly across a first contact, and only new peers have one
  /\ \A t \in Threads : A.pc[t] = "init" <=> A.maplock = t
  /\ \A t \in Threads : A.pc[t] = "init" => ~A.known[A.loc[t].p]
  /\ \A t \in Threads : A.pc[t] = "mwait" => (A.maplock # 0 \/ A.granted # 0)
  /\ \A t \in Threads : A.pc[t] \in {"c_put", "d_get", "d_put", "r_bal", "wait"} => A.known[A.loc[t].p]

\* a payment is requested for every credit that leaves the balance at or above the threshold
PaymentRequested == \A p \in Peers : A.pays[p] = A.due[p]

\* nothing is stuck: when no step is possible every goroutine is idle
NoDeadlock == (~ENABLED Next) => \A t \in Threads : A.pc[t] = "idle"

\* the balance moves only by a credit entering, or a payment notification (never below zero)
BalanceFrame == [][\A p \in Peers : A'.unpaid[p] # A.unpaid[p] => res'.op \in {"call", "grant", "release"}]_<<vars, nops>>
\* a refused debit is not recorded; a served one is
DebitFrame == [][\A p \in Peers : A'.recorded[p] # A.recorded[p] => A'.refused[p] = A.refused[p]]_<<vars, nops>>
=============================================================================
