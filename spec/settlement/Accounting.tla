------------------------------ MODULE Accounting ------------------------------
(* Per-peer accounting (pkg/accounting/accounting.go) at lock granularity. C32.*)
(*                                                                            *)
(* One step per critical section, cut at the calls into the settlement         *)
(* interface (which the harness supplies, so they are the gates of a forced    *)
(* schedule):                                                                  *)
(*   Credit : CreditEnter  lock the peer, add to the unpaid balance, call      *)
(*                         settlement.PutRetrieveTraffic        (lock held)    *)
(*            CreditExit   that call returns; if the unpaid balance is at or   *)
(*                         above the threshold request a payment; unlock       *)
(*   Debit  : DebitEnter   lock the peer, call settlement.TransferTraffic      *)
(*            DebitCheck   it returns the unsettled served traffic: at or      *)
(*                         above the tolerance -> refuse, unlock; otherwise    *)
(*                         call settlement.PutTransferTraffic   (lock held)    *)
(*            DebitExit    that call returns; unlock                           *)
(*   NotifyPayment : NotifyDo   lock, subtract (saturating at 0), unlock       *)
(*   Reserve: ReserveEnter read the unpaid balance (no lock), call             *)
(*                         settlement.AvailableBalance                         *)
(*            ReserveExit  it returns; refuse iff available < balance + amount *)
(*   first contact: every call starts in getAccountingPeer under the map mutex  *)
(*            (accountingPeersMu).  For a peer accounting has not seen yet it    *)
(*            calls settlement.RetrieveTraffic while holding that mutex (pc      *)
(*            "init", a gate); when it returns the peer is inserted, the mutex   *)
(*            released and the call goes on.  Any call that starts meanwhile     *)
(*            waits for the map mutex (pc "mwait").                              *)
(* Reserve takes the peer lock for its read (and releases it before the gate).  *)
(* A call that needs a held lock waits (pc "wait"); when the holder unlocks,   *)
(* the waiter runs its first section before anything else happens (that is     *)
(* what a forced schedule can reproduce deterministically; at most one waiter  *)
(* per lock is generated).                                                     *)
(*                                                                            *)
(*                                                                            *)
(* The settlement layer can be SLOW (A.slow): payment requests travel through   *)
(* a bounded queue (the pay channel, capacity QCap) to one worker that calls    *)
(* settlement.Pay for one request at a time, and a Pay call then stays in       *)
(* progress until it is released (PayRelease).  A credit that leaves the        *)
(* balance at or above the threshold puts its request into the queue while it   *)
(* holds the peer lock; when the queue is full it WAITS there (pc "c_send")     *)
(* until the worker has taken a request -- a request is never dropped.  In a    *)
(* slow behaviour credits arrive as bursts: call kind "burst" = n credits of x  *)
(* by one goroutine back to back (no gate in between; the burst is one step     *)
(* unless it has to wait for the queue).  When the layer is not slow a Pay call *)
(* returns at once and the queue never fills (the fields q/inpay/paid stay      *)
(* untouched).                                                                  *)
(*                                                                            *)
(* The whole state is one record A; the operations are pure functions.         *)
EXTENDS Integers, Sequences, FiniteSets

CONSTANTS NP,        \* peers 1..NP
          Threads,   \* goroutines
          Thr,       \* payment threshold
          Tol,       \* payment tolerance
          Fresh,     \* TRUE: accounting has not seen any peer yet (first contact is part of the behaviour)
          Slow,      \* TRUE: the settlement layer is slow (see above)
          QCap       \* capacity of the payment-request queue (>= 1)

Peers == 1..NP

VARIABLES A, res
vars == <<A, res>>

ZeroP == [p \in Peers |-> 0]
\* u: the balance a Reserve read / the balance before the first credit of a burst; n: credits of a burst;
\* d: credits of the burst that have been added to the balance so far
NoCall == [kind |-> "none", p |-> 0, x |-> 0, traff |-> 0, avail |-> 0, u |-> 0, n |-> 1, d |-> 0]
MaxA(a, b) == IF a > b THEN a ELSE b

InitA == [unpaid   |-> ZeroP,                         \* accountingPeer.unPaidTraffic
          lock     |-> ZeroP,                         \* holder of accountingPeer.lock, or 0
          known    |-> [p \in Peers |-> ~Fresh],      \* the peer is in the accountingPeers map
          maplock  |-> 0,                             \* holder of accountingPeersMu across a first contact, or 0
          pc       |-> [t \in Threads |-> "idle"],    \* idle | init | mwait | c_put | d_get | d_put | r_bal | wait
          loc      |-> [t \in Threads |-> NoCall],
          granted  |-> 0,                             \* waiter that was handed a lock and runs next
          pays     |-> ZeroP,                         \* payment requests issued per peer
          due      |-> ZeroP,                         \* credits that left the balance at or above the threshold
          recorded |-> ZeroP,                         \* served traffic recorded per peer
          refused  |-> ZeroP,                         \* debits refused per peer
          slow     |-> Slow,
          q        |-> <<>>,                          \* slow: requests waiting in the queue (peers, FIFO)
          inpay    |-> 0,                             \* slow: peer whose Pay call is in progress, or 0
          paid     |-> ZeroP,                         \* slow: Pay calls made per peer
          sendq    |-> <<>>]                          \* slow: goroutines waiting for room in the queue, in order

Call(kind, p, x, traff, avail) == [kind |-> kind, p |-> p, x |-> x, traff |-> traff, avail |-> avail, u |-> 0, n |-> 1, d |-> 0]
BurstCall(p, x, n) == [Call("burst", p, x, 0, 0) EXCEPT !.n = n]

NeedsLock(kind) == kind \in {"credit", "debit", "notify", "reserve", "burst"}
MapWaiters(a) == {t \in Threads : a.pc[t] = "mwait"}
Waiters(a, p) == {t \in Threads : a.pc[t] = "wait" /\ a.loc[t].p = p}

\* the holder unlocks: a waiter (if any) is handed the lock
Unlock(a, p) ==
  LET W == Waiters(a, p)
  IN IF W = {} THEN [a EXCEPT !.lock[p] = 0]
     ELSE LET w == CHOOSE t \in W : TRUE IN [a EXCEPT !.lock[p] = w, !.granted = w]

(***************************************************************************)
(* the payment-request queue and the worker (slow settlement layer)          *)
(***************************************************************************)
Rep(p, k) == [i \in 1..k |-> p]
CountQ(a, p) == Cardinality({i \in DOMAIN a.q : a.q[i] = p})
BigRoom == 1000000
\* how many more requests can be put before a sender has to wait (an idle worker takes the first one at once)
Room(a) == IF ~a.slow THEN BigRoom ELSE IF a.inpay = 0 THEN QCap + 1 ELSE QCap - Len(a.q)
\* k <= Room requests for peer p are put
Enqueue(a, p, k) ==
  IF k = 0 THEN a
  ELSE IF ~a.slow THEN [a EXCEPT !.pays[p] = @ + k]
  ELSE IF a.inpay = 0
  THEN [a EXCEPT !.inpay = p, !.paid[p] = @ + 1, !.q = Rep(p, k - 1), !.pays[p] = @ + k]
  ELSE [a EXCEPT !.q = @ \o Rep(p, k), !.pays[p] = @ + k]
\* k credits have left the balance of peer p at or above the threshold
AddDue(a, p, k) == [a EXCEPT !.due[p] = @ + k]

\* credits i = 1..n of a burst c leave the balance at c.u + i * c.x; those at or above the threshold are i >= I0(c)
I0(c) == IF c.u + c.x >= Thr THEN 1 ELSE (Thr - c.u + c.x - 1) \div c.x
DueIn(c, lo, hi) == LET f == MaxA(lo, I0(c)) IN IF hi >= f THEN hi - f + 1 ELSE 0

\* goroutine t has added k credits of its burst; the requests of credits lo..hi are put (hi = k when the burst is
\* over, k - 1 when credit k waits for room); shared with the judge, which takes k and `over` from the observation
Advance(a, t, lo, k, over) ==
  LET c == a.loc[t]
      hi == IF over THEN k ELSE k - 1
      a1 == AddDue(Enqueue([a EXCEPT !.unpaid[c.p] = c.u + k * c.x], c.p, DueIn(c, lo, hi)), c.p, DueIn(c, lo, hi))
  IN IF over THEN LET a2 == [a1 EXCEPT !.pc[t] = "idle", !.loc[t] = NoCall] IN IF a.lock[c.p] = t THEN Unlock(a2, c.p) ELSE a2
     ELSE [a1 EXCEPT !.pc[t] = "c_send", !.loc[t] = [c EXCEPT !.d = k], !.lock[c.p] = t,
                     !.sendq = IF \E i \in DOMAIN @ : @[i] = t THEN @ ELSE Append(@, t)]

\* goroutine t goes on with its burst (woken = it was waiting for room and the request of credit c.d is put first)
\* until the burst is over or the request of a credit finds the queue full
BurstGo(a, t, woken) ==
  LET c == a.loc[t]
      lo == IF woken THEN c.d ELSE c.d + 1
      kb == MaxA(lo, I0(c)) + Room(a)         \* the credit whose request finds no room
  IN IF kb > c.n THEN Advance(a, t, lo, c.n, TRUE) ELSE Advance(a, t, lo, kb, FALSE)

\* the Pay call in progress returns; the worker takes the next request, and the goroutine that has waited longest
\* for room puts its request and goes on
PayReleaseOK(a) == a.slow /\ a.inpay # 0 /\ a.granted = 0
WorkerNext(a) == IF a.q = <<>> THEN [a EXCEPT !.inpay = 0]
                 ELSE [a EXCEPT !.inpay = Head(a.q), !.paid[Head(a.q)] = @ + 1, !.q = Tail(a.q)]
PayRelease(a) ==
  LET a1 == WorkerNext(a)
  IN IF a1.sendq = <<>> THEN a1
     ELSE BurstGo([a1 EXCEPT !.sendq = Tail(@)], Head(a1.sendq), TRUE)

\* every Pay call is released until nothing is left (closed form of iterating PayRelease; MC checks that it is)
DrainOK(a) == a.slow /\ a.granted = 0 /\ \A t \in Threads : a.pc[t] \in {"idle", "c_send"}
RECURSIVE FinishSenders(_)
FinishSenders(a) ==
  IF a.sendq = <<>> THEN a
  ELSE LET t == Head(a.sendq)
           c == a.loc[t]
           k == DueIn(c, c.d, c.n)
       IN FinishSenders([a EXCEPT !.sendq = Tail(@), !.unpaid[c.p] = c.u + c.n * c.x, !.pays[c.p] = @ + k, !.due[c.p] = @ + k,
                                  !.pc[t] = "idle", !.loc[t] = NoCall, !.lock[c.p] = 0])
Drain(a) == LET b == FinishSenders(a) IN [b EXCEPT !.q = <<>>, !.inpay = 0, !.paid = b.pays]

(***************************************************************************)
(* first critical section of a call (the lock, if needed, is free or ours)  *)
(***************************************************************************)
Enter(a, t, c) ==
  CASE c.kind = "credit"  -> [a EXCEPT !.unpaid[c.p] = @ + c.x, !.lock[c.p] = t, !.pc[t] = "c_put",
                                       !.loc[t] = [c EXCEPT !.u = a.unpaid[c.p], !.n = 1, !.d = 1]]
    [] c.kind = "burst"   -> BurstGo([a EXCEPT !.loc[t] = [c EXCEPT !.u = a.unpaid[c.p], !.d = 0]], t, FALSE)
    [] c.kind = "debit"   -> [a EXCEPT !.lock[c.p] = t, !.pc[t] = "d_get", !.loc[t] = c]
    [] c.kind = "notify"  -> [a EXCEPT !.unpaid[c.p] = IF @ <= 0 THEN @ ELSE MaxA(0, @ - c.x),
                                       !.lock[c.p] = 0, !.pc[t] = "idle", !.loc[t] = NoCall]
    [] c.kind = "reserve" -> [a EXCEPT !.pc[t] = "r_bal", !.loc[t] = [c EXCEPT !.u = a.unpaid[c.p]],
                                       !.lock[c.p] = IF @ = t THEN 0 ELSE @]

\* a goroutine starts a call: map mutex, first contact if the peer is new, then the call's first section
CallOK(a, t) == a.pc[t] = "idle" /\ a.granted = 0
Blocks(a, t, c) == NeedsLock(c.kind) /\ a.lock[c.p] # 0
Start2(a, t, c) == IF Blocks(a, t, c) THEN [a EXCEPT !.pc[t] = "wait", !.loc[t] = c] ELSE Enter(a, t, c)
Start(a, t, c) ==
  IF a.maplock # 0 THEN [a EXCEPT !.pc[t] = "mwait", !.loc[t] = c]
  ELSE IF ~a.known[c.p] THEN [a EXCEPT !.maplock = t, !.pc[t] = "init", !.loc[t] = c]
  ELSE Start2(a, t, c)

\* the map mutex is released: a goroutine waiting for it goes on
MapUnlock(a) ==
  LET W == MapWaiters(a)
  IN IF W = {} THEN [a EXCEPT !.maplock = 0]
     ELSE LET w == CHOOSE t \in W : TRUE IN [a EXCEPT !.maplock = 0, !.granted = w]

\* the waiter runs: a map waiter looks the peer up (again a first contact if it is still new); a peer-lock
\* waiter runs its first section; a notify / reserve unlocks again at once
Grant(a, w) ==
  LET c == a.loc[w]
      a0 == [a EXCEPT !.granted = 0]
  IN IF a.pc[w] = "mwait"
     THEN IF ~a.known[c.p] THEN [a0 EXCEPT !.maplock = w, !.pc[w] = "init"]
          ELSE MapUnlock(Start2([a0 EXCEPT !.pc[w] = "idle"], w, c))
     ELSE LET b == Enter(a0, w, c)
          IN IF c.kind \in {"notify", "reserve"} THEN Unlock([b EXCEPT !.lock[c.p] = w], c.p) ELSE b

(***************************************************************************)
(* release of a gate: the settlement call returns                           *)
(***************************************************************************)
AtGate(a, t) == a.pc[t] \in {"init", "c_put", "d_get", "d_put", "r_bal"}
ReleaseOK(a, t) == AtGate(a, t) /\ a.granted = 0

ReserveRefuses(c) == c.avail < c.u + c.x
DebitRefuses(c) == c.traff >= Tol

Release(a, t) ==
  LET c == a.loc[t] IN
  CASE a.pc[t] = "init" ->      \* RetrieveTraffic returns: insert the peer, release the map mutex, go on with the call
         MapUnlock(Start2([a EXCEPT !.known[c.p] = TRUE, !.pc[t] = "idle"], t, c))
    [] a.pc[t] = "c_put" ->
         LET due == a.unpaid[c.p] >= Thr
         IN IF due /\ Room(a) = 0
            THEN [a EXCEPT !.pc[t] = "c_send", !.sendq = Append(@, t)]      \* waits for room, the peer lock held
            ELSE LET k == IF due THEN 1 ELSE 0
                 IN Unlock(AddDue(Enqueue([a EXCEPT !.pc[t] = "idle", !.loc[t] = NoCall], c.p, k), c.p, k), c.p)
    [] a.pc[t] = "d_get" ->
         IF DebitRefuses(c)
         THEN Unlock([a EXCEPT !.refused[c.p] = @ + 1, !.pc[t] = "idle", !.loc[t] = NoCall], c.p)
         ELSE [a EXCEPT !.pc[t] = "d_put"]
    [] a.pc[t] = "d_put" ->
         Unlock([a EXCEPT !.recorded[c.p] = @ + c.x, !.pc[t] = "idle", !.loc[t] = NoCall], c.p)
    [] a.pc[t] = "r_bal" -> [a EXCEPT !.pc[t] = "idle", !.loc[t] = NoCall]

(***************************************************************************)
(* Next-state relation                                                      *)
(***************************************************************************)
CONSTANTS Credits, Pays, Reserves, Avails, Traffs, MaxOps,
          Bursts     \* burst sizes (slow behaviours)
VARIABLE nops

Calls == [kind : {"credit"}, p : Peers, x : Credits, traff : {0}, avail : {0}, u : {0}, n : {1}, d : {0}]
    \cup [kind : {"notify"}, p : Peers, x : Pays, traff : {0}, avail : {0}, u : {0}, n : {1}, d : {0}]
    \cup [kind : {"debit"}, p : Peers, x : {1}, traff : Traffs, avail : {0}, u : {0}, n : {1}, d : {0}]
    \cup [kind : {"reserve"}, p : Peers, x : Reserves, traff : {0}, avail : Avails, u : {0}, n : {1}, d : {0}]
    \cup [kind : {"burst"}, p : Peers, x : Credits, traff : {0}, avail : {0}, u : {0}, n : Bursts, d : {0}]

Init == A = InitA /\ res = [op |-> "init"] /\ nops = 0

Do(a2, name) == A' = a2 /\ res' = [op |-> name]

\* few waiters per lock: which of several waiters a mutex wakes first is not under the controller's control
StartAllowed(a, t, c) ==
  /\ CallOK(a, t)
  /\ a.maplock # 0 => Cardinality(MapWaiters(a)) < 2
  /\ (a.maplock = 0 /\ a.known[c.p] /\ Blocks(a, t, c)) => Waiters(a, c.p) = {}
  \* a goroutine that waits for room in the queue holds its peer's lock for as long as the settlement layer likes:
  \* no call is started on that peer meanwhile (which waiter goes first afterwards is not under control)
  /\ a.slow => a.lock[c.p] = 0

Next ==
  \/ /\ A.granted # 0 /\ Do(Grant(A, A.granted), "grant") /\ UNCHANGED nops
  \/ /\ nops < MaxOps /\ nops' = nops + 1
     /\ \E t \in Threads, c \in Calls : StartAllowed(A, t, c) /\ Do(Start(A, t, c), "call")
  \/ /\ UNCHANGED nops
     /\ \E t \in Threads : ReleaseOK(A, t) /\ Do(Release(A, t), "release")
  \/ /\ UNCHANGED nops
     /\ PayReleaseOK(A) /\ Do(PayRelease(A), "payrelease")

Spec == Init /\ [][Next]_<<vars, nops>>

(***************************************************************************)
(* Properties                                                              *)
(***************************************************************************)
Held(t) == {p \in Peers : A.lock[p] = t}

TypeOK == /\ \A p \in Peers : A.unpaid[p] \in Int /\ A.lock[p] \in Threads \cup {0}
          /\ A.granted \in Threads \cup {0}

\* the unpaid balance is never negative
NonNegative == \A p \in Peers : A.unpaid[p] >= 0

\* the lock protocol: exactly the goroutines inside a locked section hold their peer's lock
LockProtocol ==
  /\ \A t \in Threads : A.pc[t] \in {"c_put", "c_send", "d_get", "d_put"} => A.lock[A.loc[t].p] = t
  /\ \A p \in Peers : A.lock[p] # 0 => \/ A.pc[A.lock[p]] \in {"c_put", "c_send", "d_get", "d_put"} /\ A.loc[A.lock[p]].p = p
                                       \/ A.granted = A.lock[p]
  /\ \A p \in Peers : Cardinality(Waiters(A, p)) <= 2
  /\ \A t \in Threads : A.pc[t] = "wait" => A.lock[A.loc[t].p] # 0
  \* the map mutex is held exactly across a first contact, and only new peers have one
  /\ \A t \in Threads : A.pc[t] = "init" <=> A.maplock = t
  /\ \A t \in Threads : A.pc[t] = "init" => ~A.known[A.loc[t].p]
  /\ \A t \in Threads : A.pc[t] = "mwait" => (A.maplock # 0 \/ A.granted # 0)
  /\ \A t \in Threads : A.pc[t] \in {"c_put", "c_send", "d_get", "d_put", "r_bal", "wait"} => A.known[A.loc[t].p]

\* a payment is requested for every credit that leaves the balance at or above the threshold
PaymentRequested == \A p \in Peers : A.pays[p] = A.due[p]

\* the queue is bounded; the worker is idle only when nothing waits; exactly the goroutines in "c_send" wait for room,
\* and they wait only while the queue is full
QueueProtocol ==
  /\ Len(A.q) <= QCap
  /\ A.inpay = 0 => (A.q = <<>> /\ A.sendq = <<>>)
  /\ \A t \in Threads : A.pc[t] = "c_send" <=> \E i \in DOMAIN A.sendq : A.sendq[i] = t
  /\ A.sendq # <<>> => Len(A.q) = QCap
  /\ ~A.slow => (A.q = <<>> /\ A.inpay = 0 /\ A.sendq = <<>>)
\* no request is lost: every request that was put has been handed to Pay or is still in the queue
NothingLost == A.slow => \A p \in Peers : A.paid[p] + CountQ(A, p) = A.pays[p]
\* at quiescence (every Pay released, nobody waiting) every credit that left the balance at or above the threshold
\* has had its Pay call
RECURSIVE IterRelease(_)
IterRelease(a) == IF a.inpay = 0 THEN a ELSE IterRelease(PayRelease(a))
DrainSettlesAll ==
  DrainOK(A) => LET b == Drain(A)
                IN /\ b = IterRelease(A)
                   /\ \A p \in Peers : b.paid[p] = b.due[p]
                   /\ \A t \in Threads : b.pc[t] = "idle"

\* nothing is stuck: when no step is possible every goroutine is idle
NoDeadlock == (~ENABLED Next) => \A t \in Threads : A.pc[t] = "idle"

\* the balance moves only by a credit entering, or a payment notification (never below zero)
BalanceFrame == [][\A p \in Peers : A'.unpaid[p] # A.unpaid[p] => res'.op \in {"call", "grant", "release", "payrelease"}]_<<vars, nops>>
\* a refused debit is not recorded; a served one is
DebitFrame == [][\A p \in Peers : A'.recorded[p] # A.recorded[p] => A'.refused[p] = A.refused[p]]_<<vars, nops>>
=============================================================================
