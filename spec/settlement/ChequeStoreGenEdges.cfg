SPECIFICATION GSpec
CONSTANTS
  Keys <- MCKeys
  RegPeers <- MCRegPeers
  AllPeers <- MCAllPeers
  Cums <- MCCums
VIEW EdgeView
INVARIANT EmitAll
CHECK_DEADLOCK FALSE
