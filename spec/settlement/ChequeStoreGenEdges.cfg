SPECIFICATION GSpec
CONSTANTS
  Keys <- MCKeys
  RegPeers <- MCRegPeers
  AllPeers <- MCAllPeers
  Cums <- MCCums
  ClaimKeys <- HsKeys
VIEW EdgeView
INVARIANT EmitAll
CHECK_DEADLOCK FALSE
