SPECIFICATION GSpec
CONSTANTS
  Keys <- MCKeys
  RegPeers <- MCRegPeers
  AllPeers <- MCAllPeers
  Cums <- MCCums
INVARIANT EmitFull
CHECK_DEADLOCK FALSE
