SPECIFICATION GSpec
CONSTANTS
  Keys <- MCKeys
  RegPeers <- MCRegPeers
  AllPeers <- MCAllPeers
  Cums <- MCCums
  ClaimKeys <- HsKeys
INVARIANT EmitFull
CHECK_DEADLOCK FALSE
