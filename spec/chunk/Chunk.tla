------------------------------- MODULE Chunk -------------------------------
(* Chunk validity (pkg/cac, pkg/soc, pkg/crypto).  Properties C04, C05; the   *)
(* validity predicates are reused by Ingest (C06).                             *)
(*                                                                             *)
(* Part 1 (module ChunkDefs): the defining equations over observable values,  *)
(* evaluated by the judges over recorded executions.                           *)
(*                                                                             *)
(* Part 2 (here): a symbolic algebra (injective hash, signatures Sig(k,m) that        *)
(* recover k exactly on m) and a two-state machine "take a well-formed chunk,  *)
(* apply one single-field mutation", on which TLC checks that the binding      *)
(* claims of C04/C05 are consequences of the definitions, and that the         *)
(* implementation-shaped validity (a hasher that silently truncates beyond its *)
(* capacity, guarded by the length bound) coincides with the definition.       *)
EXTENDS ChunkDefs, Sequences, FiniteSets

(***************************************************************************)
(* Part 2 - symbolic algebra and mutation machine                          *)
(***************************************************************************)
CONSTANTS Keys,        \* signing keys (positive integers)
          Ids,         \* SOC identifiers
          Contents,    \* payload contents (identities of byte strings)
          Lens         \* payload lengths considered

Foreign == 0           \* "some key outside the universe" (what a wrong message recovers)
NoKey   == -1          \* recovery failed

\* a payload is its length and its content identity; the hash is injective on payloads
Payloads == [len : Lens, ct : Contents]
H(p)     == <<p.len, p.ct>>

\* the implementation hashes through a writer that ignores bytes beyond its capacity:
\* two payloads that agree on the first MaxPayload bytes get the same digest.  Contents of
\* an over-long payload are read as "prefix identity"; the tail is not part of it.
Clip(n)      == IF n > MaxPayload THEN MaxPayload ELSE n
ImplHash(p)  == <<Clip(p.len), p.ct>>

CacChunks == [addr : {H(p) : p \in Payloads} \cup {ImplHash(p) : p \in Payloads}, p : Payloads]
CacValid(c)      == LenOK(c.p.len) /\ c.addr = H(c.p)                       \* the definition
CacValidImpl(c)  == LenOK(c.p.len) /\ c.addr = ImplHash(c.p)                \* pkg/cac as read
CacValidNoUpper(c) == c.p.len >= SpanSize /\ c.addr = ImplHash(c.p)         \* a check without the upper bound

\* signatures: Sig(k, m) recovers k on m, a foreign key on any other message; junk recovers nothing
Msgs     == Ids \X {H(p) : p \in Payloads}
Sigs     == [k : Keys, m : Msgs] \cup {[k |-> NoKey, m |-> mm] : mm \in Msgs}
Recover(s, m) == IF s.k = NoKey THEN NoKey ELSE IF s.m = m THEN s.k ELSE Foreign
OwnerOf(k)    == k                                                             \* injective
SocAddr(id, o) == <<id, o>>                                                    \* injective

SocChunks == [id : Ids, sig : Sigs, w : Payloads, addr : Ids \X (Keys \cup {Foreign})]
SocValid(c) ==
  LET o == Recover(c.sig, <<c.id, H(c.w)>>)
  IN LenOK(c.w.len) /\ o # NoKey /\ c.addr = SocAddr(c.id, OwnerOf(o))
Signed(k, id, w) == [id |-> id, sig |-> [k |-> k, m |-> <<id, H(w)>>], w |-> w, addr |-> SocAddr(id, OwnerOf(k))]
\* what parsing a chunk gives back
ParsedOwner(c) == Recover(c.sig, <<c.id, H(c.w)>>)

VARIABLES kind,     \* "cac" | "soc"
          orig,     \* the well-formed chunk the behaviour started from
          cur       \* the chunk after at most one single-field mutation
cvars == <<kind, orig, cur>>

GoodLens == {n \in Lens : LenOK(n)}

CInit == \/ /\ kind = "cac"
            /\ \E p \in Payloads : p.len \in GoodLens /\ orig = [addr |-> H(p), p |-> p]
            /\ cur = orig
         \/ /\ kind = "soc"
            /\ \E k \in Keys, id \in Ids, w \in Payloads : w.len \in GoodLens /\ orig = Signed(k, id, w)
            /\ cur = orig

MutateCac == /\ kind = "cac" /\ cur = orig
             /\ \/ \E ct \in Contents \ {orig.p.ct} : cur' = [orig EXCEPT !.p.ct = ct]         \* a payload byte
                \/ \E n \in Lens \ {orig.p.len} : cur' = [orig EXCEPT !.p.len = n]              \* truncate / extend
                \/ \E a \in {c.addr : c \in CacChunks} \ {orig.addr} : cur' = [orig EXCEPT !.addr = a]
MutateSoc == /\ kind = "soc" /\ cur = orig
             /\ \/ \E id \in Ids \ {orig.id} : cur' = [orig EXCEPT !.id = id]
                \/ \E s \in Sigs \ {orig.sig} : cur' = [orig EXCEPT !.sig = s]
                \/ \E w \in Payloads \ {orig.w} : cur' = [orig EXCEPT !.w = w]
                \/ \E a \in (Ids \X (Keys \cup {Foreign})) \ {orig.addr} : cur' = [orig EXCEPT !.addr = a]
CNext == (MutateCac \/ MutateSoc) /\ UNCHANGED <<kind, orig>>
CSpec == CInit /\ [][CNext]_cvars

\* C04 / C05 as consequences of the definitions
WellFormedIsValid == cur = orig => IF kind = "cac" THEN CacValid(cur) ELSE SocValid(cur)
MutationInvalidates == cur # orig => IF kind = "cac" THEN ~CacValid(cur) ELSE ~SocValid(cur)
ParsesBack == (kind = "soc" /\ cur = orig) => \E k \in Keys : /\ orig = Signed(k, orig.id, orig.w)
                                                               /\ ParsedOwner(orig) = k
                                                               /\ orig.addr = SocAddr(orig.id, OwnerOf(k))
\* the length-guarded truncating implementation is the definition; without the guard it is not
ImplIsDefinition == \A c \in CacChunks : CacValidImpl(c) = CacValid(c)
NoUpperBoundGap  == \A c \in CacChunks : (CacValidNoUpper(c) /\ ~CacValid(c)) =>
                                          (c.p.len > MaxPayload /\ c.addr = H([c.p EXCEPT !.len = MaxPayload]))
=============================================================================
