\* the pyramid entry check as read in traversal.GetChunkHashes (no upper length bound):
\* (quick: pyramid entry points only, the retrieval part does not depend on the constant)
\* C06 holds except for over-long pyramid entries with a valid CS+8-byte prefix
SPECIFICATION Spec
CONSTANTS PyramidUpperBound = FALSE
  RetrAddrs = {}
  PairMode = "few"
INVARIANTS SafeUpToOverlongPyramidEntries RetrievalCheckIsDefinition
CHECK_DEADLOCK FALSE
