SPECIFICATION KSpec
INVARIANT Emit
CHECK_DEADLOCK FALSE
