------------------------------ MODULE MCChunk ------------------------------
(* Bounded configuration of Chunk: 3 keys, 3 ids, 2 contents, boundary lengths. *)
EXTENDS Chunk
MCKeys     == {1, 2, 3}
MCIds      == {1, 2, 3}
MCContents == {1, 2}
MCLens     == {0, 7, 8, 9, 40, MaxPayload - 1, MaxPayload, MaxPayload + 1, 2 * CS}
MCLensThorough == MCLens \cup {1, 104, 105, 106, 4104, CS, CS + 7, 2 * CS + 8}
=============================================================================
