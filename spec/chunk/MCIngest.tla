------------------------------ MODULE MCIngest ------------------------------
(* Bounded exhaustive configurations of Ingest (the fixture universe is       *)
(* fixed in the module; the configurations choose the pyramid entry check).   *)
EXTENDS Ingest
=============================================================================
