----------------------------- MODULE IngestTrace -----------------------------
(* Judge for C06 (monitor mode, see TraceKit): replays the events recorded by  *)
(* harness/cmd/ingestdrv while remote peers answered the real retrieval,       *)
(* traversal and chunkinfo code with the bytes prescribed by a TLC-generated   *)
(* history.                                                                    *)
(*                                                                             *)
(* Verdict clauses = the statement of C06 over observables: every chunk put    *)
(* into the recording store and every chunk handed to the requester (local     *)
(* caller, or the peer a delivery was relayed to) is a valid content-addressed *)
(* or single-owner chunk *for the address it is stored / was requested under*. *)
(* Validity is ValidChunkObs (ChunkDefs) over the payload length and the       *)
(* booleans computed by the driver's independent evaluator.                    *)
(*                                                                             *)
(* Conformance notes (never alarm): the Ingest model predicts, from the class  *)
(* of every reply / pyramid map, whether the node accepts it; an observed      *)
(* acceptance that matches neither the pyramid check as read nor the bounded   *)
(* one is reported as drift (also guards against a wiring that accepts         *)
(* nothing, which would make the verdict vacuous).                             *)
EXTENDS Ingest, TraceKit

VARIABLES l, bad, notes

\* ------------------------------------------------------------------ verdict
PutsValid(e) == \A i \in 1..Len(e.puts) : ValidChunkObs(e.puts[i])
Verdict(e) ==
  IF e.op \in {"retrieve", "pyramid"}
  THEN    Clause("C06:delivered_chunk_is_valid_for_the_requested_address", e.got => (ValidChunkObs(e.d) /\ e.addrEq))
       \o Clause("C06:stored_chunks_are_valid_for_their_address", PutsValid(e))
  ELSE <<>>

\* ------------------------------------------------------------------ model
Post(e, s) ==
  CASE e.op = "reset"                                -> S0
    [] e.op = "retrieve" /\ e.via = "relay"          -> RelayPost(s, e.addr, e.replies)
    [] e.op = "retrieve"                             -> RetrPost(s, e.addr, e.replies)
    [] e.op = "pyramid" /\ e.via = "relay"           -> PyrRespPost(s, e.file, e.map)
    [] e.op = "pyramid" /\ e.via = "direct"          -> PyrDirectPost(s, e.file, e.map)
    [] e.op = "pyramid" /\ e.via = "retrieved"       -> RetrievedPost(s, e.file, e.map)
    [] OTHER                                         -> s

\* acceptance predicted by the model, for either pyramid entry check
PredictedOK(e, s) ==
  IF e.op = "retrieve" THEN {FirstAccepted(e.addr, e.replies) # 0 \/ (e.via = "relay" /\ HeldUnder(s, e.addr) # {})}
  ELSE LET m == MapOf(e.file, e.map)
       IN IF e.via # "direct" /\ e.file \in s.known THEN {TRUE}
          ELSE {PyramidAcceptsB(TRUE, e.file, m), PyramidAcceptsB(FALSE, e.file, m)}
ObservedOK(e) == IF e.op = "retrieve" THEN e.got ELSE e.ok

Notes(e, s) ==
  IF e.op = "crash" THEN Clause("node_crashed_while_handling_peer_data", FALSE) ELSE
  IF e.op \in {"retrieve", "pyramid"}
  THEN    Clause("acceptance_differs_from_model", ObservedOK(e) \in PredictedOK(e, s))
       \o Clause("delivered_reply_is_not_the_first_acceptable_one",
                 (e.op = "retrieve" /\ e.got /\ ~(e.via = "relay" /\ HeldUnder(s, e.addr) # {}))
                    => e.from = FirstAccepted(e.addr, e.replies))
       \o Clause("panicked", ~e.panicked)
       \o Clause("accepted_pyramid_stored_nothing",
                 (e.op = "pyramid" /\ e.ok /\ ~(e.via # "direct" /\ e.file \in s.known)) => Len(e.puts) > 0)
  ELSE <<>>

\* resynchronise: the registration of a file follows what was observed
Resync(e, s, post) ==
  IF e.op = "pyramid" /\ e.via # "direct"
  THEN [post EXCEPT !.known = IF e.ok THEN s.known \cup {e.file} ELSE s.known]
  ELSE post

TInit == l = 1 /\ stored = {} /\ delivered = {} /\ known = {} /\ bad = <<>> /\ notes = <<>>

TStep == /\ l <= NEvents
         /\ LET e == Trace[l]
                post == Post(e, Cur)
                cs == Verdict(e)
                ns == Notes(e, Cur)
            IN /\ l' = l + 1
               /\ bad' = IF cs = <<>> THEN bad ELSE Append(bad, BadRec(l, e, cs))
               /\ notes' = IF ns = <<>> \/ Len(notes) >= 50 THEN notes ELSE Append(notes, BadRec(l, e, ns))
               /\ Becomes(Resync(e, Cur, post))

TSpec == TInit /\ [][TStep]_<<vars, l, bad, notes>>

Report == ReportBad(l, bad, notes)
=============================================================================
