\* the design that satisfies C06: every pyramid entry must be a valid chunk
SPECIFICATION Spec
CONSTANTS PyramidUpperBound = TRUE
  RetrAddrs = {"c2", "s1"}
  PairMode = "few"
INVARIANTS Safe SafeUpToOverlongPyramidEntries RetrievalCheckIsDefinition
CHECK_DEADLOCK FALSE
