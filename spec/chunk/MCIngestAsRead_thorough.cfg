\* the pyramid entry check as read in traversal.GetChunkHashes (no upper length bound):
\* C06 holds except for over-long pyramid entries with a valid CS+8-byte prefix
SPECIFICATION Spec
CONSTANTS PyramidUpperBound = FALSE
  RetrAddrs = {"c1", "c2", "l3", "s1"}
  PairMode = "all"
INVARIANTS SafeUpToOverlongPyramidEntries RetrievalCheckIsDefinition
CHECK_DEADLOCK FALSE
