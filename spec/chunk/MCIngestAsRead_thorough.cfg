\* the pyramid entry check as read in traversal.GetChunkHashes (no upper length bound):
\* (thorough: pyramid entry points + retrieval of the full chunk and the single-owner chunk, which interact
\*  with them through the store; the complete retrieval part is checked in MCIngest_thorough.cfg)
\* C06 holds except for over-long pyramid entries with a valid CS+8-byte prefix
SPECIFICATION Spec
CONSTANTS PyramidUpperBound = FALSE
  RetrAddrs = {"c2", "s1"}
  PairMode = "few"
INVARIANTS SafeUpToOverlongPyramidEntries RetrievalCheckIsDefinition
CHECK_DEADLOCK FALSE
