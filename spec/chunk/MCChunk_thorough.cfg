SPECIFICATION CSpec
CONSTANTS
  Keys <- MCKeys
  Ids <- MCIds
  Contents <- MCContents
  Lens <- MCLensThorough
INVARIANTS WellFormedIsValid MutationInvalidates ParsesBack ImplIsDefinition NoUpperBoundGap
CHECK_DEADLOCK FALSE
