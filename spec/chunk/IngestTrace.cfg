SPECIFICATION TSpec
CONSTANTS PyramidUpperBound = FALSE
  RetrAddrs = {"c1", "c2", "l3", "s1"}
  PairMode = "few"
INVARIANT Report
POSTCONDITION AllConsumed
CHECK_DEADLOCK FALSE
