\* the design that satisfies C06: every pyramid entry must be a valid chunk
SPECIFICATION Spec
CONSTANTS PyramidUpperBound = TRUE
  RetrAddrs = {"c1", "c2", "l3", "s1"}
  PairMode = "all"
INVARIANTS Safe SafeUpToOverlongPyramidEntries RetrievalCheckIsDefinition
CHECK_DEADLOCK FALSE
