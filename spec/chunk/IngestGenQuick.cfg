SPECIFICATION GSpec
CONSTANTS PyramidUpperBound = FALSE
  RetrAddrs = {"c2", "s1"}
  PairMode = "one"
VIEW EdgeView
INVARIANT EmitAll
CHECK_DEADLOCK FALSE
