SPECIFICATION CSpec
CONSTANTS
  Keys <- MCKeys
  Ids <- MCIds
  Contents <- MCContents
  Lens <- MCLens
INVARIANTS WellFormedIsValid MutationInvalidates ParsesBack ImplIsDefinition NoUpperBoundGap
CHECK_DEADLOCK FALSE
