------------------------------ MODULE ChunkGen ------------------------------
(* Enumerator of the case classes of C04 / C05 (exploration level: TLA+ is    *)
(* the generator and, in ChunkTrace, the oracle).  Every state of this spec   *)
(* holds one case; TLC enumerates the product of classes, pruned by the       *)
(* applicability predicates below.  The driver concretises a class with       *)
(* seeded random bytes and positions (rep distinguishes repetitions).         *)
EXTENDS ChunkDefs, TLC, Json, IOUtils
VARIABLE hist

Thorough == "VERIF_THOROUGH" \in DOMAIN IOEnv /\ IOEnv.VERIF_THOROUGH = "1"
Reps     == IF Thorough THEN 0..3 ELSE {0}

(***************************** C04 ******************************************)
\* data lengths for cac.New
DLens == {0, 1, 2, 31, 32, 33, 63, 64, 65, 4095, 4096, 4097, CS - 1, CS, CS + 1, 2 * CS}
         \cup (IF Thorough THEN {127, 128, 129, 1023, 1024, 1025, 131071, 131072, 131073, CS - 33, CS - 32, CS - 31, CS + 8, CS + 9}
               ELSE {})
\* payload lengths (span included) for NewWithDataSpan / Valid
PLens == {0, 7, 8, 9, 40, CS + 7, CS + 8, CS + 9, 2 * CS}
         \cup (IF Thorough THEN {1, 39, 41, 72, 73, 4104, 131080, 131081, CS - 24, CS + 6, CS + 16, CS + 8 + 4096, 2 * CS + 8}
               ELSE {})
\* span values: the data length, zero, all ones, random (the span is hashed, never interpreted)
SpanVals == {"len", "zero", "max", "rand"}

\* address classes: own = BMT of the payload (of its first CS+8 bytes when over-long);
\* flip* = own with one byte changed; other = address of a different payload
AddrClasses == {"own", "flipFirst", "flipMid", "flipLast", "other"}
\* payload mutations applied after the address was fixed
PayMuts == {"span0", "span1", "span2", "span3", "span4", "span5", "span6", "span7",
            "dataFirst", "dataMid", "dataLast", "trunc1", "ext1", "extZero"}

MutApplies(plen, m) ==
  CASE m \in {"dataFirst", "dataMid", "dataLast", "trunc1"} -> plen > SpanSize
    [] m \in {"span0", "span1", "span2", "span3", "span4", "span5", "span6", "span7"} -> plen >= SpanSize
    [] OTHER -> TRUE

CacCases ==
       {[op |-> "new", dlen |-> n, rep |-> r] : n \in DLens, r \in Reps}
  \cup {[op |-> "newspan", plen |-> n, spanv |-> sv, rep |-> r] : n \in PLens, sv \in SpanVals, r \in Reps}
  \cup {[op |-> "valid", plen |-> n, spanv |-> sv, addr |-> a, mut |-> "none", rep |-> r] :
            n \in PLens, sv \in {"len", "rand"}, a \in AddrClasses, r \in Reps}
  \cup {c \in {[op |-> "valid", plen |-> n, spanv |-> sv, addr |-> "own", mut |-> m, rep |-> r] :
            n \in PLens, sv \in {"len", "rand"}, m \in PayMuts, r \in Reps} : MutApplies(c.plen, c.mut)}

(***************************** C05 ******************************************)
GKeys == {1, 2, 3}
GIds  == {1, 2, 3}
\* wrapped payload lengths (span included)
WLens == {8, 9, 40, CS + 8} \cup (IF Thorough THEN {72, 4104, CS + 7} ELSE {})
\* mutations of the serialised single-owner chunk / its address.  sigVaddN replace the recovery
\* byte v by v+N mod 256 (a single-byte change, like every id/sig/w/addr class); ownerSwap / idSwap / sigByOtherKey / sigOverOtherId are the "composed by an
\* adversary" classes (address of another owner, signature of another key...)
SocMuts == {"none", "idFirst", "idMid", "idLast", "sigR", "sigS",
            "sigVadd1", "sigVadd2", "sigVadd3", "sigVadd4", "sigVadd5", "sigVadd8", "sigVadd128", "sigVadd229", "sigVadd252", "sigVadd255",
            "wspan", "wdataFirst", "wdataLast", "addrFirst", "addrMid", "addrLast",
            "truncBelowMin", "trunc1", "ext1",
            "ownerSwap", "idSwap", "sigByOtherKey", "sigOverOtherId", "sigOverOtherWrapped", "sigZero"}
SocMutApplies(wlen, m) ==
  CASE m \in {"wdataFirst", "wdataLast", "trunc1"} -> wlen > SpanSize
    [] m = "ext1" -> TRUE
    [] OTHER -> TRUE

SocCases ==
  {c \in {[op |-> "soc", key |-> k, id |-> i, wlen |-> w, mut |-> m, rep |-> r] :
            k \in GKeys, i \in GIds, w \in WLens, m \in SocMuts, r \in Reps} :
     /\ SocMutApplies(c.wlen, c.mut)
     \* the full product only for the small wrapped payloads; the large one with key 1 / id 1
     /\ (c.wlen > 4096 => (c.key = 1 /\ c.id = 1))}

Family == IF "VERIF_FAMILY" \in DOMAIN IOEnv THEN IOEnv.VERIF_FAMILY ELSE "cac"
Cases  == IF Family = "soc" THEN SocCases ELSE CacCases

GInit == hist = <<>>
GNext == hist = <<>> /\ \E c \in Cases : hist' = <<c>>
GSpec == GInit /\ [][GNext]_hist

Emit == hist # <<>> => PrintT(<<"SCN", ToJson(hist)>>)
=============================================================================
