------------------------------ MODULE IngestGen ------------------------------
(* Scenario generator for C06: Ingest's actions plus a history variable.      *)
(* edges mode (cfg with VIEW): one shortest history per (model state, last    *)
(* operation); the operation records carry the entry point (`via`) through    *)
(* which the driver makes the real code perform the action.                   *)
EXTENDS Ingest, TLC, Json, IOUtils
VARIABLE hist

Depth == IF "VERIF_DEPTH" \in DOMAIN IOEnv THEN atoi(IOEnv.VERIF_DEPTH) ELSE 2

GRetr1 == \E a \in RetrAddrs : \E p \in RepliesFor(a) :
             \/ RetrieveReply(a, <<p>>) /\ hist' = Append(hist, [op |-> "retrieve", via |-> "client", addr |-> a, replies |-> <<p>>])
             \/ RelayReply(a, p)        /\ hist' = Append(hist, [op |-> "retrieve", via |-> "relay", addr |-> a, replies |-> <<p>>])
GRetr2 == \E a \in RetrAddrs : \E p \in FirstReplies(a), q \in RepliesFor(a) :
             /\ RetrieveReply(a, <<p, q>>)
             /\ hist' = Append(hist, [op |-> "retrieve", via |-> "client", addr |-> a, replies |-> <<p, q>>])
GPyr   == \E f \in Files, mc \in MapClasses :
             /\ MapApplies(f, mc)
             /\ \/ PyramidResponse(f, mc)      /\ hist' = Append(hist, [op |-> "pyramid", via |-> "relay", file |-> f, map |-> mc])
                \/ PyramidDirect(f, mc)        /\ hist' = Append(hist, [op |-> "pyramid", via |-> "direct", file |-> f, map |-> mc])
                \/ RetrievedWithPyramid(f, mc) /\ hist' = Append(hist, [op |-> "pyramid", via |-> "retrieved", file |-> f, map |-> mc])

GInit == Init /\ hist = <<>>
GNext == Len(hist) < Depth /\ (GRetr1 \/ GRetr2 \/ GPyr)
GSpec == GInit /\ [][GNext]_<<vars, hist>>

LastOp == IF hist = <<>> THEN [op |-> "none"] ELSE hist[Len(hist)]
\* one history per (what the node holds and knows, last operation)
EdgeView == <<{e[1] : e \in stored}, known, LastOp>>

EmitAll == hist # <<>> => PrintT(<<"SCN", ToJson(hist)>>)
=============================================================================
