----------------------------- MODULE ChunkDefs -----------------------------
(* Chunk validity as defining equations over observable values (no state, no   *)
(* constants): shared by Chunk (design model), the generators and the judges   *)
(* of C04, C05 and C06.  Payload lengths are integers; "the address is the BMT *)
(* hash of the payload", "the signature recovers a key", "the address commits  *)
(* to the recovered owner" are booleans computed by the drivers' independent   *)
(* evaluator (keccak/BMT reference, btcec), never by the packages under test.  *)
EXTENDS Integers

CS          == 262144          \* maximum data bytes of a chunk
SpanSize    == 8
MaxPayload  == CS + SpanSize
SocHeader   == 97              \* id (32) + signature (65)
SocMin      == SocHeader + SpanSize

LenOK(plen) == SpanSize <= plen /\ plen <= MaxPayload

\* C04: valid exactly when the payload is 8 .. CS+8 bytes and the address is its BMT hash
ValidCAC(plen, addrIsBMT) == LenOK(plen) /\ addrIsBMT

\* cac.New(data) succeeds exactly for 1 .. CS bytes of data; NewWithDataSpan(p) for 8 .. CS+8
NewOK(dlen)      == 1 <= dlen /\ dlen <= CS
NewSpanOK(plen)  == LenOK(plen)

\* C05: id || signature || wrapped payload; the signature over keccak(id || wrapped address)
\* recovers an owner and the address is keccak(id || that owner)
ValidSOC(plen, wrappedOK, recovered, commits) ==
  plen >= SocMin /\ wrappedOK /\ recovered /\ commits

\* a (address, payload) pair may be stored / delivered iff it is a valid chunk of either kind
\* o: record of observables [plen, am, wok, rec, com]
ValidChunkObs(o) == ValidCAC(o.plen, o.am) \/ ValidSOC(o.plen, o.wok, o.rec, o.com)

=============================================================================
