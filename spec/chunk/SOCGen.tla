------------------------------- MODULE SOCGen -------------------------------
(* Key-class cases of C05.  ChunkGen's single-owner cases draw three keys     *)
(* from the seed: "ordinary" keys, whose secret scalar and public coordinates *)
(* all fill their 32 bytes.  The owner of a single-owner chunk is the key's   *)
(* Ethereum address, keccak256(X || Y)[12:] over the two coordinates PADDED   *)
(* to 32 bytes each, and the signature is made with the 32-byte scalar: the   *)
(* classes in which a shortest-form encoding differs from the fixed-width one *)
(* are the keys with leading zero bytes.  A key class is the triple           *)
(*   dz, xz, yz = number of leading zero bytes of the secret scalar, of X,    *)
(*                of Y (exactly that many),                                   *)
(* the driver finds the key of a class deterministically in a stream derived  *)
(* from VERIF_SEED.  Every case is ChunkGen's "soc" case (sign, parse back,   *)
(* address, one alteration, validate) with such a key; it is judged by        *)
(* ChunkTrace!VerdictSoc, whose owner / address observables come from the     *)
(* driver's independent evaluator (padded coordinates).                       *)
EXTENDS ChunkGen

KClass(dz, xz, yz) == [dz |-> dz, xz |-> xz, yz |-> yz]
\* one leading zero byte in one of the three numbers (1/256 of all keys each); thorough: two bytes, two numbers at once
KeyClasses == {KClass(0, 1, 0), KClass(0, 0, 1), KClass(1, 0, 0)}
              \cup (IF Thorough THEN {KClass(0, 2, 0), KClass(0, 0, 2), KClass(2, 0, 0), KClass(0, 1, 1), KClass(1, 1, 0), KClass(1, 0, 1)}
                    ELSE {})
\* which key of the class in the stream (1 = first found)
KeyIdx == IF Thorough THEN {1, 2} ELSE {1}
KWLens == {8, 40} \cup (IF Thorough THEN {9, 72, 4104} ELSE {})
KIds   == IF Thorough THEN {1, 2} ELSE {1}
KReps  == IF Thorough THEN {0, 1} ELSE {0}

KeyClassCases ==
  {c \in {[op |-> "soc", key |-> k, dz |-> kc.dz, xz |-> kc.xz, yz |-> kc.yz, id |-> i, wlen |-> w, mut |-> m, rep |-> r] :
            k \in KeyIdx, kc \in KeyClasses, i \in KIds, w \in KWLens, m \in SocMuts, r \in KReps} :
     /\ SocMutApplies(c.wlen, c.mut)
     \* the second key of a class only where finding it is cheap (one zero byte in all)
     /\ (c.key > 1 => c.dz + c.xz + c.yz = 1)}

KNext == hist = <<>> /\ \E c \in KeyClassCases : hist' = <<c>>
KSpec == GInit /\ [][KNext]_hist
=============================================================================
