----------------------------- MODULE ChunkTrace -----------------------------
(* Judge for C04 and C05 (monitor mode, see TraceKit).  Each event is one     *)
(* case executed by harness/cmd/chunkdrv on pkg/cac / pkg/soc.  The verdict   *)
(* clauses are the statements of the two properties over                      *)
(*   - what the package returned (ok, valid, ...), and                        *)
(*   - observables of the same bytes computed by the driver's independent     *)
(*     evaluator: payload length plen, am ("address is the BMT hash of the    *)
(*     payload"), wok / rec / com (wrapped payload hashable, signature        *)
(*     recovers a key, address = keccak(id || recovered owner)),              *)
(*   - byte-equality of returned data with the bytes the driver supplied.     *)
(* There is no model state: these are pure functions (level: exploration).    *)
EXTENDS ChunkDefs, TraceKit

VARIABLES l, bad

SpanMuts == {"span0", "span1", "span2", "span3", "span4", "span5", "span6", "span7"}
\* "changing any payload byte or address byte": byte changes, not truncation / extension
CacByteChange(e) == e.mut \in SpanMuts \cup {"dataFirst", "dataMid", "dataLast"}
                    \/ (e.mut = "none" /\ e.addr \in {"flipFirst", "flipMid", "flipLast"})

\* "altering the id, signature, wrapped payload or address": every class except the unmutated one
SocAltered(e) == e.mut # "none"

VerdictNew(e) ==
     Clause("C04:new_succeeds_iff_1_to_CS_bytes", ~e.panicked /\ e.ok = NewOK(e.dlen))
  \o (IF e.ok THEN
           Clause("C04:new_chunk_is_span_then_data", e.plen = e.dlen + SpanSize /\ e.dataMatch /\ e.spanIsLen)
        \o Clause("C04:new_chunk_is_valid", e.valid /\ ValidCAC(e.plen, e.am))
      ELSE <<>>)

VerdictNewSpan(e) ==
     Clause("C04:newspan_succeeds_iff_8_to_CS_plus_8_bytes", ~e.panicked /\ e.ok = NewSpanOK(e.plen))
  \o (IF e.ok THEN
           Clause("C04:newspan_keeps_payload", e.rlen = e.plen /\ e.dataMatch)
        \o Clause("C04:newspan_chunk_is_valid", e.valid /\ ValidCAC(e.rlen, e.am))
      ELSE <<>>)

VerdictValid(e) ==
     Clause("C04:valid_iff_length_in_range_and_address_is_bmt", ~e.panicked /\ e.valid = ValidCAC(e.plen, e.am))
  \o (IF LenOK(e.blen) /\ CacByteChange(e)
      THEN Clause("C04:byte_change_invalidates", ~e.valid) ELSE <<>>)
  \o (IF LenOK(e.blen) /\ e.addr = "own" /\ e.mut = "none"
      THEN Clause("C04:wellformed_is_valid", e.valid) ELSE <<>>)

VerdictSoc(e) ==
     Clause("C05:sign_succeeds", e.signOK)
  \o (IF e.signOK THEN
           Clause("C05:signed_chunk_is_valid", e.valid0)
        \o Clause("C05:signed_chunk_parses_back", e.parseOK /\ e.reAddr /\ e.reData /\ e.wrappedMatch)
        \o Clause("C05:address_is_keccak_id_owner", e.addrIsKeccak /\ e.createAddr)
        \o Clause("C05:valid_iff_signature_recovers_committed_owner",
                  ~e.panicked /\ e.valid = ValidSOC(e.plen, e.wok, e.rec, e.com))
        \o (IF SocAltered(e) THEN Clause("C05:alteration_invalidates", ~e.valid) ELSE <<>>)
      ELSE <<>>)

Verdict(e) == CASE e.op = "new"     -> VerdictNew(e)
                [] e.op = "newspan" -> VerdictNewSpan(e)
                [] e.op = "valid"   -> VerdictValid(e)
                [] e.op = "soc"     -> VerdictSoc(e)
                [] OTHER            -> <<>>

TInit == l = 1 /\ bad = <<>>
TStep == /\ l <= NEvents
         /\ LET e == Trace[l]
                cs == Verdict(e)
            IN /\ l' = l + 1
               /\ bad' = IF cs = <<>> THEN bad ELSE Append(bad, BadRec(l, e, cs))
TSpec == TInit /\ [][TStep]_<<l, bad>>

Report == ReportBad(l, bad, <<>>)
=============================================================================
