------------------------------- MODULE Ingest -------------------------------
(* What may reach the local store / the local requester from a remote peer.   *)
(* Property C06.  Code: pkg/retrieval (retrieveChunk: client side and relay),  *)
(* pkg/traversal (GetChunkHashes with a peer-supplied pyramid), pkg/chunkinfo  *)
(* (onChunkPyramidResp), pkg/file/pipeline/bmt + pkg/bmt (the hasher).         *)
(*                                                                             *)
(* Bytes are symbolic.  A payload term [of, cls] is "the honest payload of     *)
(* chunk `of`, altered according to class cls"; three facts about a term are   *)
(* all the mechanisms look at: its length class, the address its bytes hash to *)
(* (HashTo, defined by the BMT on payloads of 8..CS+8 bytes) and the address   *)
(* the *implementation's hasher* computes (ClipHashTo: bmt.Hasher.Write        *)
(* silently drops everything beyond CS data bytes).                            *)
(*                                                                             *)
(* One action per entry point:                                                 *)
(*   RetrieveReply(a, replies)   retrieval.Service asks up to Len(replies)     *)
(*                               peers for address a; peer i answers           *)
(*                               replies[i]; the first accepted one is stored  *)
(*                               and handed to the requester                   *)
(*   RelayReply(a, reply)        a peer asks the node for a chunk held by      *)
(*                               another peer: served from the store if held,  *)
(*                               else fetched as above and relayed             *)
(*   PyramidResponse(f, map)     a peer answers a pyramid request for file f   *)
(*                               with the entries `map` (key -> payload term); *)
(*                               accepted maps are traversed from the root and *)
(*                               every entry read on the way is stored         *)
(*                               (chunkinfo.onChunkPyramidResp)                *)
(*   PyramidDirect(f, map)       traversal.GetChunkHashes alone on such a map  *)
(*   RetrievedWithPyramid(f,map) retrieval wired to chunkinfo: the root chunk  *)
(*                               arrives (honest reply), chunkinfo asks the    *)
(*                               same peer for the pyramid before the chunk is *)
(*                               stored                                        *)
(* PyramidUpperBound selects the pyramid entry check: TRUE = every entry must  *)
(* be a valid chunk (the design that satisfies C06), FALSE = as read in        *)
(* traversal.GetChunkHashes (length >= 8 and the clipping hasher's digest      *)
(* equals the key; no upper length bound).                                     *)
EXTENDS ChunkDefs, Sequences, FiniteSets

CONSTANTS PyramidUpperBound,   \* see above
          RetrAddrs,           \* addresses requested through retrieval: subset of {"c1" small, "c2" full, "l3" leaf of F3, "s1" single-owner}
          PairMode             \* two-peer requests: "all" ordered pairs of replies, "few" / "one": first reply from a small set

(***************************************************************************)
(* Fixture universe (the driver builds exactly these, see internal/ingest) *)
(***************************************************************************)
\* F1: 1 small chunk; F2: 1 full chunk; F3: manifest with one 3-chunk file; M: manifest with a small and a full file
Files == {"F1", "F2", "F3", "M"}
Root(f) == CASE f = "F1" -> "c1" [] f = "F2" -> "c2" [] f = "F3" -> "m3" [] f = "M" -> "m0"
\* the honest pyramid of a file: the chunks a traversal reads (all but the leaves of a multi-chunk file).
\* "mn"/"mn3" stand for all manifest nodes below the root, "fa"/"fb" for the two files of M, "r3" for the
\* intermediate chunk of the 3-chunk file (its leaves l1, l2 (full) and l3 are not part of a pyramid).
Entries(f) == CASE f = "F1" -> {"c1"} [] f = "F2" -> {"c2"} [] f = "F3" -> {"m3", "mn3", "r3"}
                [] f = "M" -> {"m0", "mn", "fa", "fb"}
CacAddrs == {"c1", "c2", "r3", "l1", "l3", "m3", "mn3", "m0", "mn", "fa", "fb", "x", "xf"}
SocAddrs == {"s1", "s2"}
Addrs    == CacAddrs \cup SocAddrs
Full     == {"c2", "fb", "l1", "xf"}   \* chunks whose honest payload is CS+8 bytes
None     == "none"

(***************************************************************************)
(* Payload terms                                                           *)
(***************************************************************************)
CacClasses == {"correct", "trunc1", "ext1", "extZero", "bitflip", "empty", "short7", "short5", "overlong", "overlongBig"}
SocClasses == {"correct", "wrongOwner", "sigflip", "trunc1", "ext1", "empty", "short7"}
P(a, c) == [of |-> a, cls |-> c]

\* which alterations make sense for which chunk
Applies(a, c) ==
  IF a \in SocAddrs THEN c \in SocClasses
  ELSE /\ c \in CacClasses
       /\ (c \in {"ext1", "extZero"} => a \notin Full)          \* stays within CS+8
       /\ (c \in {"overlong", "overlongBig"} => a \in Full)     \* a valid CS+8 prefix followed by junk

LenCls(p) == CASE p.cls \in {"empty", "short7", "short5"} -> "short"     \* < 8 bytes
               [] p.cls \in {"overlong", "overlongBig"}   -> "over"      \* > CS+8 bytes
               [] OTHER                                    -> "ok"

\* address the bytes hash to as a content-addressed payload (meaningful when LenCls = "ok")
HashTo(p) == IF p.of \in CacAddrs /\ p.cls \in {"correct", "extZero"} THEN p.of ELSE None
\* digest computed by the implementation's hasher (meaningful when LenCls # "short")
ClipHashTo(p) == IF p.of \in CacAddrs /\ p.cls \in {"correct", "extZero", "overlong", "overlongBig"} THEN p.of ELSE None

\* the definition (C04 / C05 lifted to terms): may (a, p) be stored / delivered ?
CacOKFor(a, p) == LenCls(p) = "ok" /\ HashTo(p) = a /\ a # None
SocOKFor(a, p) == p.of \in SocAddrs /\ p.cls = "correct" /\ a = p.of
ValidFor(a, p) == CacOKFor(a, p) \/ SocOKFor(a, p)

(***************************************************************************)
(* The checks as implemented                                               *)
(***************************************************************************)
\* retrieval.retrieveChunk: cac.Valid (length bounds, clipping hasher) or soc.Valid
RetrAccepts(a, p) == (LenCls(p) = "ok" /\ ClipHashTo(p) = a) \/ SocOKFor(a, p)

\* traversal.GetChunkHashes: every entry through bmtWriter; bounded = "the entry must also be at most CS+8 bytes"
PyrEntryAcceptsB(bounded, k, p) == /\ LenCls(p) # "short"
                                   /\ (bounded => LenCls(p) = "ok")
                                   /\ ClipHashTo(p) = k

(***************************************************************************)
(* Pyramid maps (sets of <<key, payload term>>)                            *)
(***************************************************************************)
MapClasses == {"honest", "extraConsistent", "extraWrongHash", "extraOverlong", "altered", "rootMissing",
               "childMissing", "overlong", "overlongBig", "shortEntry"}
Honest(f)  == {<<k, P(k, "correct")>> : k \in Entries(f)}
\* the entry that is altered: a full one when the class needs it, else a non-root one when there is one
NonRoot(f)    == Entries(f) \ {Root(f)}
Victim(f)     == IF NonRoot(f) # {} THEN CHOOSE k \in NonRoot(f) : TRUE ELSE Root(f)
FullEntries(f) == Entries(f) \cap Full
FullVictim(f) == CHOOSE k \in FullEntries(f) : TRUE
Replace(m, k, p) == {e \in m : e[1] # k} \cup {<<k, p>>}

MapApplies(f, mc) == /\ (mc \in {"overlong", "overlongBig"} => FullEntries(f) # {})
                     /\ (mc = "childMissing" => NonRoot(f) # {})
MapOf(f, mc) ==
  CASE mc = "honest"          -> Honest(f)
    [] mc = "extraConsistent" -> Honest(f) \cup {<<"x", P("x", "correct")>>}
    [] mc = "extraWrongHash"  -> Honest(f) \cup {<<"x", P("x", "bitflip")>>}
    [] mc = "extraOverlong"   -> Honest(f) \cup {<<"xf", P("xf", "overlong")>>}
    [] mc = "altered"         -> Replace(Honest(f), Victim(f), P(Victim(f), "bitflip"))
    [] mc = "rootMissing"     -> {e \in Honest(f) : e[1] # Root(f)}
    [] mc = "childMissing"    -> {e \in Honest(f) : e[1] # Victim(f)}
    [] mc = "overlong"        -> Replace(Honest(f), FullVictim(f), P(FullVictim(f), "overlong"))
    [] mc = "overlongBig"     -> Replace(Honest(f), FullVictim(f), P(FullVictim(f), "overlongBig"))
    [] mc = "shortEntry"      -> Replace(Honest(f), Victim(f), P(Victim(f), "short5"))

KeysOf(m) == {e[1] : e \in m}
PyramidAcceptsB(bounded, f, m) == /\ Root(f) \in KeysOf(m)
                                  /\ \A e \in m : PyrEntryAcceptsB(bounded, e[1], e[2])
                                  /\ Entries(f) \subseteq KeysOf(m)   \* the traversal finds every chunk it reads
PyramidAccepts(f, m) == PyramidAcceptsB(PyramidUpperBound, f, m)
StoredBy(f, m) == {e \in m : e[1] \in Entries(f)}                  \* root + every entry read on the way

(***************************************************************************)
(* State and actions                                                       *)
(***************************************************************************)
\* Model state as a record s = [stored, delivered, known]; the transition functions are shared with the judge.
\*   stored     set of <<address, payload term>> put into the local store
\*   delivered  set of <<address, payload term>> handed to the local requester / relayed to a requesting peer
\*   known      files whose pyramid is registered with chunkinfo (later pyramid responses for them are ignored)
S0 == [stored |-> {}, delivered |-> {}, known |-> {}]

\* index of the first accepted reply, 0 if none
FirstAccepted(a, rs) == IF \E i \in 1..Len(rs) : RetrAccepts(a, rs[i])
                        THEN CHOOSE i \in 1..Len(rs) : RetrAccepts(a, rs[i]) /\ \A j \in 1..(i - 1) : ~RetrAccepts(a, rs[j])
                        ELSE 0

\* retrieval.Service: the first accepted reply is stored and handed over
RetrPost(s, a, rs) ==
  LET i == FirstAccepted(a, rs)
  IN IF i = 0 THEN s
     ELSE [s EXCEPT !.stored = @ \cup {<<a, rs[i]>>}, !.delivered = @ \cup {<<a, rs[i]>>}]

\* retrieval handler asked by a peer for a chunk held elsewhere: what the store holds is served as it is,
\* otherwise the chunk is fetched like above (one peer) and the accepted delivery is relayed
HeldUnder(s, a) == {e \in s.stored : e[1] = a}
RelayPost(s, a, rs) == IF HeldUnder(s, a) # {} THEN [s EXCEPT !.delivered = @ \cup HeldUnder(s, a)]
                       ELSE RetrPost(s, a, rs)

\* chunkinfo.onChunkPyramidResp (a registered file is not processed again)
PyrRespPost(s, f, mc) ==
  LET m == MapOf(f, mc)
  IN IF f \notin s.known /\ PyramidAccepts(f, m)
     THEN [s EXCEPT !.stored = @ \cup StoredBy(f, m), !.known = @ \cup {f}]
     ELSE s

\* traversal.GetChunkHashes(ctx, root, map) by itself: no registration, no "already known" shortcut
PyrDirectPost(s, f, mc) ==
  LET m == MapOf(f, mc)
  IN IF PyramidAccepts(f, m) THEN [s EXCEPT !.stored = @ \cup StoredBy(f, m)] ELSE s

\* retrieval.retrieveChunk with the real chunkinfo: valid delivery -> OnChunkRetrieved -> (file unknown: pyramid
\* request to the source; a rejected pyramid fails the retrieval) -> Put -> chunk returned
RetrievedPost(s, f, mc) ==
  LET m    == MapOf(f, mc)
      root == <<Root(f), P(Root(f), "correct")>>
  IN IF f \in s.known
     THEN [s EXCEPT !.stored = @ \cup {root}, !.delivered = @ \cup {root}]
     ELSE IF PyramidAccepts(f, m)
          THEN [s EXCEPT !.stored = @ \cup StoredBy(f, m) \cup {root}, !.delivered = @ \cup {root}, !.known = @ \cup {f}]
          ELSE s

VARIABLES stored, delivered, known
vars == <<stored, delivered, known>>
Cur == [stored |-> stored, delivered |-> delivered, known |-> known]
Becomes(n) == stored' = n.stored /\ delivered' = n.delivered /\ known' = n.known

Init == stored = S0.stored /\ delivered = S0.delivered /\ known = S0.known

RetrieveReply(a, rs)        == Becomes(RetrPost(Cur, a, rs))
RelayReply(a, p)            == Becomes(RelayPost(Cur, a, <<p>>))
PyramidResponse(f, mc)      == Becomes(PyrRespPost(Cur, f, mc))
PyramidDirect(f, mc)        == Becomes(PyrDirectPost(Cur, f, mc))
RetrievedWithPyramid(f, mc) == Becomes(RetrievedPost(Cur, f, mc))

\* what a peer may send in answer to a request for a
Others(a) == IF a \in SocAddrs THEN {"c1", "s2"} ELSE IF a \in Full THEN {"xf", "s1"} ELSE {"x", "s1"}
RepliesFor(a) == {P(a, c) : c \in {c \in CacClasses \cup SocClasses : Applies(a, c)}} \cup {P(b, "correct") : b \in Others(a)}
\* two-peer requests: what the first peer answers
FirstReplies(a) == CASE PairMode = "all" -> RepliesFor(a)
                     [] PairMode = "few" -> {p \in RepliesFor(a) : (p.of = a /\ p.cls \in {"bitflip", "sigflip", "overlong", "empty"}) \/ p.of # a}
                     [] OTHER            -> {p \in RepliesFor(a) : p.of = a /\ p.cls \in {"bitflip", "sigflip"}}

Next == \/ \E a \in RetrAddrs : \E p \in RepliesFor(a) : RetrieveReply(a, <<p>>) \/ RelayReply(a, p)
        \/ \E a \in RetrAddrs : \E p \in FirstReplies(a), q \in RepliesFor(a) : RetrieveReply(a, <<p, q>>)
        \/ \E f \in Files, mc \in MapClasses :
              MapApplies(f, mc) /\ (PyramidResponse(f, mc) \/ PyramidDirect(f, mc) \/ RetrievedWithPyramid(f, mc))
Spec == Init /\ [][Next]_vars

(***************************************************************************)
(* Properties                                                              *)
(***************************************************************************)
\* C06: everything stored or delivered is valid for its address
Safe == \A e \in stored \cup delivered : ValidFor(e[1], e[2])

\* As read (PyramidUpperBound = FALSE) Safe does not hold; what holds is: the only invalid things are
\* over-long pyramid entries whose first CS+8 bytes are the honest payload of the key; they are stored and,
\* from then on, served as they are to peers asking the node for that address (RelayReply).
OverlongPrefixOK(e) == e[2].cls \in {"overlong", "overlongBig"} /\ e[2].of = e[1] /\ e[1] \in Full
SafeUpToOverlongPyramidEntries ==
  /\ \A e \in stored : ValidFor(e[1], e[2]) \/ OverlongPrefixOK(e)
  /\ \A e \in delivered : ValidFor(e[1], e[2]) \/ (OverlongPrefixOK(e) /\ e \in stored)
\* ... and the gap is real in that reading (used as a reachability witness, expected to be violated when FALSE)
NoInvalidStored == \A e \in stored : ValidFor(e[1], e[2])

\* the retrieval check coincides with the definition on every reply
RetrievalCheckIsDefinition == \A a \in RetrAddrs : \A p \in RepliesFor(a) : RetrAccepts(a, p) = ValidFor(a, p)
=============================================================================
