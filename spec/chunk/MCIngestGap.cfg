\* witness (expected to FAIL): with the check as read an invalid chunk is stored
SPECIFICATION Spec
CONSTANTS PyramidUpperBound = FALSE
  RetrAddrs = {"c2", "s1"}
  PairMode = "few"
INVARIANTS NoInvalidStored
CHECK_DEADLOCK FALSE
