SPECIFICATION GSpec
CONSTANTS PyramidUpperBound = FALSE
  RetrAddrs = {"c1", "c2", "l3", "s1"}
  PairMode = "all"
VIEW EdgeView
INVARIANT EmitAll
CHECK_DEADLOCK FALSE
