---------------------------- MODULE EncryptTrace ----------------------------
(* Judge for C08: replays what encdrv recorded from pkg/encryption and       *)
(* pkg/encryption/store against the definitions of Encrypt / EncryptLen.     *)
(* Monitor mode (TraceKit).  Real constants.                                 *)
EXTENDS Encrypt, TraceKit

RealCS == 262144
GPads == {0, 4096, RealCS}
GLens == {0}

VARIABLES l, bad, notes

\* reference model after the event: <<state, predicted result>>
Post(e, s) == CASE e.op = "reset"  -> <<Fresh(IF Has(e, "pad") THEN e.pad ELSE 0), [op |-> "reset"]>>
                [] e.op = "enc"    -> EncStep(s, e.n)
                [] e.op = "dec"    -> DecStep(s)
                [] e.op = "resetE" -> ResetEStep(s)
                [] e.op = "resetD" -> ResetDStep(s)
                [] OTHER           -> <<s, [op |-> e.op]>>

(***************************************************************************)
(* Verdict clauses: the statement of C08 over what the callers observed.   *)
(***************************************************************************)
Verdict(e, pre, r) ==
     \* a payload up to the padding size is encrypted, and with padding the ciphertext has exactly the padded length
     (IF e.op = "enc" /\ ~EncFails(e.n, pre.pad)
      THEN    Clause("C08:payload_up_to_padding_is_encrypted", ~e.err)
           \o (IF pre.pad > 0 THEN Clause("C08:ciphertext_has_exactly_the_padded_length", e.err \/ e.outLen = pre.pad)
               ELSE <<>>)
      ELSE <<>>)
     \* decrypting with the same key (same key stream position) gives the payload back as the prefix
  \o (IF e.op = "dec" /\ ~r.err /\ r.prefix
      THEN Clause("C08:decryption_restores_payload_as_prefix", ~e.err /\ e.prefix /\ e.outLen >= pre.ct.plen)
      ELSE <<>>)
     \* the decrypting reader restores the chunk's payload to exactly the length the writer stored
  \o (IF e.op = "get"
      THEN    Clause("C08:reader_restores_stored_length",
                     ~e.panicked /\ e.err = "" /\ e.gotLen = 8 + StoredLenD(e.md, e.t))
           \o Clause("C08:reader_restores_span_and_payload_bytes",
                     e.panicked \/ e.err # "" \/ (e.spanEcho /\ e.prefix))
      ELSE <<>>)
     \* the encrypted writer encrypts every chunk of a file (each is at most the padding size)
  \o (IF e.op = "upload" THEN Clause("C08:payload_up_to_padding_is_encrypted", e.werr = "" /\ e.err = "") ELSE <<>>)
     \* the same for the chunks the real encrypted writer stored: the length it handed over before encryption
  \o (IF e.op = "chunk"
      THEN    Clause("C08:reader_restores_stored_length",
                     ~e.panicked /\ e.err = "" /\ e.gotLen = 8 + e.storedLen)
           \o Clause("C08:reader_restores_span_and_payload_bytes",
                     e.panicked \/ e.err # "" \/ (e.spanEcho /\ e.prefix))
      ELSE <<>>)

\* conformance notes: implementation-shaped predictions that are not part of the statement
Drift(e, pre, r) ==
     (IF e.op = "enc" /\ e.err # r.err THEN <<"enc_error_iff_longer_than_padding">> ELSE <<>>)
  \o (IF e.op = "enc" /\ ~e.err /\ ~r.err /\ e.outLen # r.outLen THEN <<"unpadded_ciphertext_has_plaintext_length">> ELSE <<>>)
  \o (IF e.op = "dec" /\ (e.err # r.err \/ (~e.err /\ e.outLen # r.outLen)) THEN <<"dec_length_rule">> ELSE <<>>)
  \o (IF e.op = "dec" /\ ~r.err /\ ~r.prefix /\ e.prefix /\ pre.ct.plen >= 4 THEN <<"prefix_restored_at_other_index">> ELSE <<>>)
  \o (IF e.op = "get" /\ e.plen # StoredLenD(e.md, e.t) THEN <<"scenario_payload_is_not_StoredLen">> ELSE <<>>)
  \o (IF e.op = "get" /\ ~e.panicked /\ e.chunkLen # 8 + RealCS THEN <<"stored_chunk_is_padded_to_chunk_size">> ELSE <<>>)
     \* the closed form StoredLen (checked against the writer model by MCEncryptTree) describes the real writer
  \o (IF e.op = "chunk" /\ e.storedLen # StoredLenD(e.md, e.t) THEN <<"writer_stores_StoredLen_of_span">> ELSE <<>>)
  \o (IF e.op = "chunk" /\ e.refLen # 64 THEN <<"encrypted_reference_is_64_bytes">> ELSE <<>>)
  \o (IF e.op = "upload" /\ e.err = "" /\ e.werr = "" /\ e.rootLen # 64 THEN <<"encrypted_root_reference_is_64_bytes">> ELSE <<>>)

TInit == l = 1 /\ c = Fresh(0) /\ resA = [op |-> "init"] /\ bad = <<>> /\ notes = <<>>

TStep == /\ l <= NEvents
         /\ LET e == Trace[l]
                pr == Post(e, c)
                cs == Verdict(e, c, pr[2])
                ds == Drift(e, c, pr[2])
            IN /\ l' = l + 1
               /\ bad' = IF cs = <<>> THEN bad ELSE Append(bad, BadRec(l, e, cs))
               /\ notes' = IF ds = <<>> \/ Len(notes) >= 20 THEN notes ELSE Append(notes, BadRec(l, e, ds))
               \* the objects' counters are not observable: the model keeps its own; but an Encrypt that was
               \* refused produced no ciphertext, whatever the model says (resynchronise)
               /\ c' = IF e.op = "enc" /\ e.err THEN c ELSE pr[1]
               /\ resA' = [op |-> e.op]

TSpec == TInit /\ [][TStep]_<<varsA, l, bad, notes>>

Report == ReportBad(l, bad, notes)
=============================================================================
