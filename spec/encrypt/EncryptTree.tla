----------------------------- MODULE EncryptTree -----------------------------
(* Property C08, second half: the encrypted file writer against the length    *)
(* recovery of the decrypting reader.                                         *)
(*                                                                            *)
(* hashTrieWriter (pkg/file/pipeline/hashtrie) with its cursors abstracted to *)
(* the list of spans waiting on each level: data chunks arrive on level 1, a  *)
(* level holding B references is wrapped into a chunk whose reference goes    *)
(* one level up, Sum carries a lone reference up unwrapped and wraps the      *)
(* rest.  Every chunk the writer emits is handed to the reader's loop         *)
(* (EncryptLen!LoopLen) and to the closed form the judge uses                 *)
(* (EncryptLen!StoredLen).                                                    *)
EXTENDS EncryptLen, Sequences, FiniteSets

CONSTANT MaxLeaves    \* data chunks written at most

(***************************************************************************)
(* lv[k] = spans of the references waiting on level k (k = 1..8), oldest    *)
(* first; emitted = the chunks stored by the last step, lowest level first. *)
(***************************************************************************)
VARIABLES lv, leaves, phase, cur, full, emitted

varsB == <<lv, leaves, phase, cur, full, emitted>>

Levels == 1..8

SumSeq(s) == LET RECURSIVE F(_) F(i) == IF i = 0 THEN 0 ELSE s[i] + F(i - 1) IN F(Len(s))

InitB == /\ lv = [k \in Levels |-> <<>>] /\ leaves = 0 /\ phase = "write" /\ cur = 1
         /\ full = FALSE /\ emitted = <<>>

\* writeToLevel(k, span) followed by the cascade of wrapFullLevel calls it triggers, as one function:
\* returns the new levels; wrapping a full level k emits a chunk (recorded through `emit`)
RECURSIVE PushRef(_, _, _)
PushRef(l, k, span) ==
  LET l1 == [l EXCEPT ![k] = Append(@, span)]
  IN IF Len(l1[k]) = B /\ k < 8
       THEN PushRef([l1 EXCEPT ![k] = <<>>], k + 1, SumSeq(l1[k]))
       ELSE l1

\* chunks emitted by that cascade, lowest level first: <<span, stored, level>>
RECURSIVE PushEmits(_, _, _)
PushEmits(l, k, span) ==
  LET l1 == [l EXCEPT ![k] = Append(@, span)]
  IN IF Len(l1[k]) = B /\ k < 8
       THEN <<[span |-> SumSeq(l1[k]), stored |-> R * Len(l1[k]), level |-> k]>>
            \o PushEmits([l1 EXCEPT ![k] = <<>>], k + 1, SumSeq(l1[k]))
       ELSE <<>>

\* the feeder hands over one data chunk of n bytes (n = CS except for the last one)
WriteLeaf(n, last) ==
  /\ phase = "write" /\ ~full /\ leaves < MaxLeaves
  /\ leaves' = leaves + 1
  /\ emitted' = <<[span |-> n, stored |-> n, level |-> 0]>> \o PushEmits(lv, 1, n)
  /\ lv' = PushRef(lv, 1, n)
  /\ full' = (Len(lv'[8]) > 0)
  /\ phase' = IF last THEN "sum" ELSE "write"
  /\ UNCHANGED cur

\* the empty file: one data chunk of span 0
WriteEmpty ==
  /\ phase = "write" /\ leaves = 0
  /\ leaves' = 1
  /\ emitted' = <<[span |-> 0, stored |-> 0, level |-> 0]>>
  /\ lv' = PushRef(lv, 1, 0)
  /\ phase' = "sum"
  /\ UNCHANGED <<cur, full>>

\* one iteration of the loop in hashTrieWriter.Sum, level cur = 1..7
SumStep ==
  /\ phase = "sum" /\ cur <= 7
  /\ LET n == Len(lv[cur])
     IN IF n = 0 THEN UNCHANGED lv /\ emitted' = <<>>
        ELSE IF n = 1
          THEN \* carry the lone reference: it joins the references of the next level
               /\ lv' = [lv EXCEPT ![cur] = <<>>, ![cur + 1] = @ \o lv[cur]]
               /\ emitted' = <<>>
          ELSE \* wrap this level (a full level here only arises through a carry)
               /\ emitted' = <<[span |-> SumSeq(lv[cur]), stored |-> R * n, level |-> cur]>>
                             \o PushEmits([lv EXCEPT ![cur] = <<>>], cur + 1, SumSeq(lv[cur]))
               /\ lv' = PushRef([lv EXCEPT ![cur] = <<>>], cur + 1, SumSeq(lv[cur]))
  /\ cur' = cur + 1
  /\ phase' = IF cur = 7 THEN "done" ELSE "sum"
  /\ UNCHANGED <<leaves, full>>

NextB == \/ WriteLeaf(CS, FALSE)
         \/ \E n \in 1..CS : WriteLeaf(n, TRUE)
         \/ WriteEmpty
         \/ SumStep

SpecB == InitB /\ [][NextB]_varsB

\* properties
\* every chunk the writer emits is restored by the reader's loop to exactly what was stored ...
EveryChunkRestored == \A i \in 1..Len(emitted) : LET c == emitted[i] IN
                         /\ LoopSettled(c.span)
                         /\ LoopLen(c.span) = c.stored
\* ... and the closed form used by the judge describes the writer
ClosedFormIsWriter == \A i \in 1..Len(emitted) : LET c == emitted[i] IN
                         /\ StoredLen(c.span) = c.stored
                         /\ LevelOf(c.span) = c.level
                         /\ c.stored <= CS
\* Sum ends with exactly one reference, on level 8, spanning the whole file
RootIsWholeFile == phase = "done" => /\ Len(lv[8]) = 1
                                     /\ \A k \in 1..7 : lv[k] = <<>>
=============================================================================
