SPECIFICATION GSpecFile
CONSTANTS
  B = 4096
  R = 64
  CS = 262144
  KeyLen = 32
  Pads <- GPads
  Lens <- GLens
INVARIANT EmitFile
CHECK_DEADLOCK FALSE
