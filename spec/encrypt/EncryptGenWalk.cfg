SPECIFICATION GSpecWalk
CONSTANTS
  B = 4096
  R = 64
  CS = 262144
  KeyLen = 32
  Pads <- GPads
  Lens <- WLens
INVARIANT EmitWalk
CHECK_DEADLOCK FALSE
