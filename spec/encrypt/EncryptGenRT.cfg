SPECIFICATION GSpecRT
CONSTANTS
  B = 4096
  R = 64
  CS = 262144
  KeyLen = 32
  Pads <- GPads
  Lens <- GLens
INVARIANT EmitRT
CHECK_DEADLOCK FALSE
