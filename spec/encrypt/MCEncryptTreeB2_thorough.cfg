SPECIFICATION SpecB
CONSTANTS
  B = 2
  R = 3
  CS = 6
  MaxLeaves = 130
INVARIANTS EveryChunkRestored ClosedFormIsWriter RootIsWholeFile
CHECK_DEADLOCK FALSE
