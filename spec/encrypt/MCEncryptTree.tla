---------------------------- MODULE MCEncryptTree ----------------------------
(* Bounded configurations of the encrypted writer against the reader's loop  *)
(* (C08, second half): scaled constants with CS = B * R as in the code       *)
(* (4096 * 64 = 262144), every file of up to MaxLeaves chunks and every size *)
(* of the last chunk.                                                        *)
EXTENDS EncryptTree, TLC

\* the digit form the judge uses (spans beyond 32 bits) agrees with the closed form on every span
\* that four base-B digits can carry
ASSUME StoredLenD(<<0, 0, 0, 0>>, 0) = StoredLen(0)
ASSUME \A s \in 1..(B * B * B * B * CS) :
          LET md == DigitsOf((s - 1) \div CS)  t == ((s - 1) % CS) + 1
          IN /\ StoredLenD(md, t) = StoredLen(s)
             /\ LevelOfD(md, t) = LevelOf(s)
\* and on those spans the reader's loop restores the stored length
ASSUME \A s \in 0..(B * B * B * B * CS) : LengthRestored(s)
=============================================================================
