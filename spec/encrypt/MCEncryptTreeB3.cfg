SPECIFICATION SpecB
CONSTANTS
  B = 3
  R = 2
  CS = 6
  MaxLeaves = 250
INVARIANTS EveryChunkRestored ClosedFormIsWriter RootIsWholeFile
CHECK_DEADLOCK FALSE
