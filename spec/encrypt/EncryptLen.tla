----------------------------- MODULE EncryptLen -----------------------------
(* Pure length arithmetic of chunk encryption (property C08).  No recursion  *)
(* and no state: the same text is read by TLC (scaled and real constants)     *)
(* and by Apalache (real constants, 64-bit spans).                            *)
(*                                                                            *)
(*   pkg/encryption/encryption.go         Encrypt / Decrypt length rules      *)
(*   pkg/file/pipeline/hashtrie           what the encrypted writer stores    *)
(*   pkg/encryption/store/decrypt_store.go  decryptChunkData length recovery  *)
EXTENDS Integers

CONSTANTS
  \* @type: Int;
  B,       \* branching of the encrypted trie (4096)
  \* @type: Int;
  R,       \* size of one encrypted reference, address + key (64)
  \* @type: Int;
  CS       \* chunk size (262144); every encrypted chunk is padded to CS bytes

\* @type: (Int, Int) => Int;
CeilDiv(a, b) == (a + b - 1) \div b

(***************************************************************************)
(* (a) Encryption.Encrypt / Decrypt (pad = 0 means "no padding").           *)
(***************************************************************************)
\* @type: (Int, Int) => Bool;
EncFails(len, pad) == pad > 0 /\ len > pad
\* @type: (Int, Int) => Int;
EncLen(len, pad)   == IF pad > 0 THEN pad ELSE len
\* @type: (Int, Int) => Bool;
DecFails(len, pad) == pad > 0 /\ len # pad
\* @type: (Int, Int) => Int;
DecLen(len, pad)   == len
\* number of key-stream segments (counter values) one transform of len bytes consumes
\* @type: (Int, Int) => Int;
SegsOf(len, keyLen) == CeilDiv(len, keyLen)

(***************************************************************************)
(* (b1) What the writer stores in a chunk whose span is s.                  *)
(* A chunk of level k >= 1 is wrapped from at least two references, the     *)
(* first of which is a full level-(k-1) subtree, and holds at most B of     *)
(* them; a lone reference is carried up unwrapped.  Hence the level is the  *)
(* least k with s <= B^k * CS and the chunk holds one reference per started *)
(* level-(k-1) subtree.  (MCEncrypt checks this closed form against the     *)
(* cursor algorithm of hashTrieWriter.)                                     *)
(***************************************************************************)
P0 == 1
P1 == B
P2 == B * P1
P3 == B * P2
P4 == B * P3
P5 == B * P4
P6 == B * P5
P7 == B * P6

\* bytes of data under one full reference of a level-k chunk, k = 1..8
\* @type: Int => Int;
SubSpan(k) == CS * (IF k = 1 THEN P0 ELSE IF k = 2 THEN P1 ELSE IF k = 3 THEN P2 ELSE IF k = 4 THEN P3
                    ELSE IF k = 5 THEN P4 ELSE IF k = 6 THEN P5 ELSE IF k = 7 THEN P6 ELSE P7)

\* level of the chunk with span s: 0 = data chunk
\* @type: Int => Int;
LevelOf(s) == IF s <= CS THEN 0
              ELSE IF s <= B * SubSpan(1) THEN 1 ELSE IF s <= B * SubSpan(2) THEN 2
              ELSE IF s <= B * SubSpan(3) THEN 3 ELSE IF s <= B * SubSpan(4) THEN 4
              ELSE IF s <= B * SubSpan(5) THEN 5 ELSE IF s <= B * SubSpan(6) THEN 6
              ELSE IF s <= B * SubSpan(7) THEN 7 ELSE 8

\* payload bytes (without the 8-byte span) of the chunk with span s, before padding
\* @type: Int => Int;
StoredLen(s) == IF s <= CS THEN s ELSE R * CeilDiv(s, SubSpan(LevelOf(s)))

(***************************************************************************)
(* (b2) decryptChunkData:  for length > ChunkSize {                         *)
(*         length = (length + ChunkSize - 1) / ChunkSize * refSize }        *)
(* unrolled; LoopSettled says the unrolling was deep enough.                *)
(***************************************************************************)
\* @type: Int => Int;
LoopStep(l) == IF l > CS THEN CeilDiv(l, CS) * R ELSE l
\* the loop after 1, 2, ... iterations (LoopStep is the identity once the value is <= CS)
\* @type: Int => Int;
Loop1(s) == LoopStep(s)
\* @type: Int => Int;
Loop2(s) == LoopStep(Loop1(s))
\* @type: Int => Int;
Loop3(s) == LoopStep(Loop2(s))
\* @type: Int => Int;
Loop4(s) == LoopStep(Loop3(s))
\* @type: Int => Int;
Loop5(s) == LoopStep(Loop4(s))
\* @type: Int => Int;
LoopLen(s) == LoopStep(LoopStep(LoopStep(LoopStep(Loop5(s)))))
\* @type: Int => Bool;
LoopSettled(s) == LoopLen(s) <= CS

\* the property, per span
\* @type: Int => Bool;
LengthRestored(s) == LoopSettled(s) /\ LoopLen(s) = StoredLen(s)
\* the same when five iterations are known to suffice (real constants, s < 2^63: four do)
\* @type: Int => Bool;
LengthRestored5(s) == Loop5(s) <= CS /\ Loop5(s) = StoredLen(s)

(***************************************************************************)
(* Spans beyond 32 bits (the judge runs in TLC): s = m * CS + t with        *)
(* t \in 1..CS (t = 0 only for s = 0) and m = <<d0, d1, d2, d3>> in base B, *)
(* least significant first: m full chunks precede the last chunk of t bytes.*)
(* Then the chunk is a data chunk iff m = 0, and otherwise its level is the *)
(* position of m's top digit and it holds top digit + 1 references.         *)
(***************************************************************************)
\* @type: Seq(Int) => Int;
TopPos(md) == IF md[4] > 0 THEN 4 ELSE IF md[3] > 0 THEN 3 ELSE IF md[2] > 0 THEN 2 ELSE IF md[1] > 0 THEN 1 ELSE 0
\* @type: (Seq(Int), Int) => Int;
StoredLenD(md, t) == IF TopPos(md) = 0 THEN t ELSE R * (md[TopPos(md)] + 1)
\* @type: (Seq(Int), Int) => Int;
LevelOfD(md, t) == TopPos(md)
\* digits of a (small) number
\* @type: Int => Seq(Int);
DigitsOf(m) == <<m % B, (m \div B) % B, (m \div (B * B)) % B, m \div (B * B * B)>>
=============================================================================
