SPECIFICATION SpecA
CONSTANTS
  B = 2
  R = 2
  CS = 4
  KeyLen = 2
  Pads <- MCPads
  Lens <- MCLens
CONSTRAINT IdxBound
INVARIANTS CipherLen EncErrExact DecAccepts RoundTrip
CHECK_DEADLOCK FALSE
