----------------------------- MODULE EncryptGen -----------------------------
(* Scenario generators for C08 (real constants).                             *)
(*  GSpecRT    every (length, padding, key, counter) class: Encrypt then     *)
(*             Decrypt on fresh objects                          (exh mode)  *)
(*  GSpecWalk  random walks over Encrypt / Decrypt / Reset of the two        *)
(*             objects: the cipher state machine of module Encrypt (sim)     *)
(*  GSpecGet   one encrypted chunk of a TLC-chosen span, fetched through the *)
(*             decrypting store; spans are chosen digit-wise around every    *)
(*             level boundary of the encrypted trie              (exh mode)  *)
(*  GSpecFile  small files through the real encrypted pipeline, every chunk  *)
(*             the writer stored read back                       (exh mode)  *)
EXTENDS Encrypt, TLC, Json, IOUtils

VARIABLES hist, par

RealCS == 262144
GPads == {0, 4096, RealCS}
GLens == {0, 1, 31, 32, 33, 4095, 4096, 4097, RealCS - 1, RealCS, RealCS + 1}
WLens == {0, 1, 33, 4096, RealCS}      \* fewer lengths in the walks, so that Decrypt / Reset are drawn often
Keys  == 1..3
Ctrs  == {"zero", "c4096", "max"}       \* initial counter 0, 4096 (the span counter), 2^32 - 1 (wraps)

Depth == IF "VERIF_DEPTH" \in DOMAIN IOEnv THEN atoi(IOEnv.VERIF_DEPTH) ELSE 2

Op(r) == IF r.op = "enc" THEN [op |-> "enc", n |-> r.n] ELSE [op |-> r.op]

CipherPar(p, k, x) == [kind |-> "cipher", pad |-> p, key |-> k, ctr |-> x]

GInitC == /\ InitA /\ hist = <<>>
          /\ par \in {CipherPar(c.pad, k, x) : k \in Keys, x \in Ctrs}

\* round trips: Encrypt(n) then Decrypt
GNextRT == /\ UNCHANGED par
           /\ \/ Len(hist) = 0 /\ (\E n \in Lens : Enc(n)) /\ hist' = Append(hist, Op(resA'))
              \/ Len(hist) = 1 /\ Dec /\ hist' = Append(hist, Op(resA'))
GSpecRT == GInitC /\ [][GNextRT]_<<varsA, hist, par>>

\* walks
GNextWalk == /\ Len(hist) < Depth /\ UNCHANGED par
             /\ NextA
             /\ hist' = Append(hist, Op(resA'))
GSpecWalk == GInitC /\ [][GNextWalk]_<<varsA, hist, par>>

EmitRT   == (Len(hist) = 2 \/ (Len(hist) = 1 /\ resA.err)) => PrintT(<<"SCN", ToJson([par |-> par, ops |-> hist])>>)
EmitWalk == Len(hist) = Depth => PrintT(<<"SCN", ToJson([par |-> par, ops |-> hist])>>)

(***************************************************************************)
(* Spans: s = m * CS + t, m = <<d0, d1, d2, d3>> base 4096, t \in 1..CS    *)
(* (EncryptLen).  Digits 0/1/2/4094/4095 put m on both sides of every      *)
(* power of 4096 (a level boundary), t on both sides of a chunk boundary;  *)
(* d3 <= 511 keeps s below 2^63.  plen is what the writer stores there.    *)
(***************************************************************************)
DigitCls == {0, 1, 2, 4094, 4095}
TopCls   == {0, 1, 2, 510, 511}
LastCls  == {1, 2, 63, 64, 65, 4096, RealCS - 1, RealCS}

GetOp(md, t) == [op |-> "get", md |-> md, t |-> t, plen |-> StoredLenD(md, t)]

GInitG == /\ c = Fresh(0) /\ resA = [op |-> "new"]
          /\ par = [kind |-> "get"]
          /\ hist \in {<<GetOp(<<0, 0, 0, 0>>, 0)>>}
                  \cup {<<GetOp(<<d0, d1, d2, d3>>, t)>> : d0 \in DigitCls, d1 \in DigitCls, d2 \in DigitCls,
                                                           d3 \in TopCls, t \in LastCls}
\* files written through the real encrypted pipeline: full chunks + a last chunk of `last` bytes
FullCls == IF "VERIF_BIGFILES" \in DOMAIN IOEnv THEN {0, 1, 2, 3, 7, 33, 64} ELSE {0, 1, 2, 3, 7}
LastOfFile == {0, 1, 63, 4096, RealCS - 1}
GInitF == /\ c = Fresh(0) /\ resA = [op |-> "new"]
          /\ par = [kind |-> "file"]
          /\ hist \in {<<[op |-> "upload", full |-> f, last |-> x]>> : f \in FullCls, x \in LastOfFile}
GSpecFile == GInitF /\ [][UNCHANGED <<varsA, hist, par>>]_<<varsA, hist, par>>
EmitFile  == PrintT(<<"SCN", ToJson([par |-> par, ops |-> hist])>>)

GSpecGet == GInitG /\ [][UNCHANGED <<varsA, hist, par>>]_<<varsA, hist, par>>
EmitGet  == PrintT(<<"SCN", ToJson([par |-> par, ops |-> hist])>>)
=============================================================================
