------------------------------ MODULE MCEncrypt ------------------------------
(* Bounded configuration of the cipher object (C08, first half).             *)
EXTENDS Encrypt, TLC

MCPads == {0, 6}
MCLens == {0, 1, 2, 3, 5, 6, 7}

\* the index only grows between resets: bound it
IdxBound == c.idxE <= 9 /\ c.idxD <= 9

\* XOR key stream is an involution, padding is arbitrary, lengths are exact: all plaintexts up to
\* 3 positions (key length 2: a full segment and a partial one), every key stream, every padding
\* content, two starting indexes; unpadded, and padded to 4
ASSUME ByteAlgebra(3, 0)
ASSUME ByteAlgebra(3, 4)
=============================================================================
