------------------------------- MODULE Encrypt -------------------------------
(* Chunk encryption, property C08.                                            *)
(*                                                                            *)
(* Part A (this module) - the counter-mode cipher object of                   *)
(*   pkg/encryption/encryption.go: two objects built with the same (key,      *)
(*   padding, initial counter), one encrypting, one decrypting.  Each keeps a *)
(*   segment index that advances with every transform and that only Reset     *)
(*   clears.  Bytes are symbolic: a ciphertext remembers the length of the    *)
(*   plaintext it came from and the index it was made at; the byte algebra    *)
(*   that justifies this abstraction is ByteAlgebra below.                    *)
(* Part B (module EncryptTree) - the encrypted file writer against the        *)
(*   decrypting reader's length recovery.                                     *)
EXTENDS EncryptLen, Sequences, FiniteSets

CONSTANTS KeyLen,      \* key = key-stream segment length (32)
          Pads,        \* padding values explored (0 = none)
          Lens         \* plaintext lengths explored

(***************************************************************************)
(* Pure definitions, shared with the trace specification.  A cipher state  *)
(* is [pad, idxE, idxD, ct]; ct = [len, plen, at] or NoCt.                 *)
(***************************************************************************)
NoCt == [len |-> -1, plen |-> -1, at |-> -1]

Fresh(p) == [pad |-> p, idxE |-> 0, idxD |-> 0, ct |-> NoCt]

\* one transform over n input bytes moves the index by the segments consumed
AdvanceIdx(i, n) == i + SegsOf(n, KeyLen)

\* a ciphertext made at index `at` from plen plaintext bytes, decrypted by an object whose index
\* is i, starts with the plaintext iff the key streams coincide
PrefixRestored(x, i) == x.plen = 0 \/ x.at = i

\* Encrypt(n bytes) on the encrypting object: <<state after, result>>
EncStep(s, n) ==
  IF EncFails(n, s.pad)
    THEN <<s, [op |-> "enc", n |-> n, err |-> TRUE, outLen |-> 0]>>
    ELSE <<[s EXCEPT !.ct = [len |-> EncLen(n, s.pad), plen |-> n, at |-> s.idxE],
                     !.idxE = AdvanceIdx(s.idxE, n)],
           [op |-> "enc", n |-> n, err |-> FALSE, outLen |-> EncLen(n, s.pad)]>>

\* Decrypt(last ciphertext) on the decrypting object
DecStep(s) ==
  IF DecFails(s.ct.len, s.pad)
    THEN <<s, [op |-> "dec", err |-> TRUE, outLen |-> 0, at |-> s.idxD, prefix |-> FALSE]>>
    ELSE <<[s EXCEPT !.idxD = AdvanceIdx(s.idxD, s.ct.len)],
           [op |-> "dec", err |-> FALSE, outLen |-> DecLen(s.ct.len, s.pad), at |-> s.idxD,
            prefix |-> PrefixRestored(s.ct, s.idxD)]>>

ResetEStep(s) == <<[s EXCEPT !.idxE = 0], [op |-> "resetE"]>>
ResetDStep(s) == <<[s EXCEPT !.idxD = 0], [op |-> "resetD"]>>

(***************************************************************************)
(* Actions.                                                                *)
(***************************************************************************)
VARIABLES c,       \* cipher state
          resA     \* what the last call returned

varsA == <<c, resA>>

InitA == c \in {Fresh(p) : p \in Pads} /\ resA = [op |-> "new"]

Apply(pair) == c' = pair[1] /\ resA' = pair[2]

Enc(n) == Apply(EncStep(c, n))
Dec    == c.ct # NoCt /\ Apply(DecStep(c))
ResetE == Apply(ResetEStep(c))
ResetD == Apply(ResetDStep(c))

NextA == (\E n \in Lens : Enc(n)) \/ Dec \/ ResetE \/ ResetD

SpecA == InitA /\ [][NextA]_varsA

(***************************************************************************)
(* Properties of part A.                                                   *)
(***************************************************************************)
\* with padding every ciphertext has exactly the padded length; without, the plaintext's
CipherLen == resA.op = "enc" /\ ~resA.err => resA.outLen = (IF c.pad > 0 THEN c.pad ELSE resA.n)
\* Encrypt fails exactly for payloads longer than the padding
EncErrExact == resA.op = "enc" => (resA.err <=> (c.pad > 0 /\ resA.n > c.pad))
\* what Encrypt produced is always accepted by Decrypt and decrypts to at least the payload length
DecAccepts == resA.op = "dec" => ~resA.err /\ resA.outLen >= c.ct.plen
\* decrypting from the index the ciphertext was made at (both objects fresh, or both reset)
\* gives the payload back as the prefix
RoundTrip == resA.op = "dec" /\ resA.at = c.ct.at => resA.prefix

(***************************************************************************)
(* Byte-level algebra behind PrefixRestored, on bits: the key stream is an *)
(* arbitrary function of (counter, position); XOR with it is an involution; *)
(* the padding bytes are arbitrary.  Checked for every plaintext, every     *)
(* padding content and every key stream over a tiny universe (ASSUME in    *)
(* MCEncrypt).                                                             *)
(***************************************************************************)
Bit == {0, 1}
Xor(a, b) == (a + b) % 2
\* transform(in, out) of encryption.go with the index starting at i0; ks[k][j] is the key-stream bit of
\* counter k, position j; fill[i] are the random padding bits
XForm(in, outLen, i0, ks, fill) ==
  [i \in 1..outLen |-> IF i <= Len(in) THEN Xor(in[i], ks[i0 + ((i - 1) \div KeyLen)][(i - 1) % KeyLen])
                       ELSE fill[i]]
ByteAlgebra(maxLen, padding) ==
  LET outLen(n) == EncLen(n, padding)
      ctrs == 0..CeilDiv(IF padding > 0 THEN padding ELSE maxLen, KeyLen)
  IN \A n \in 0..maxLen : ~EncFails(n, padding) =>
       \A p \in [1..n -> Bit], fill \in [1..outLen(n) -> Bit], ks \in [ctrs -> [0..(KeyLen - 1) -> Bit]], i0 \in {0, 1} :
          LET x == XForm(p, outLen(n), i0, ks, fill)
              d == XForm(x, Len(x), i0, ks, fill)
          IN /\ Len(x) = outLen(n)
             /\ ~DecFails(Len(x), padding)
             /\ \A i \in 1..n : d[i] = p[i]
=============================================================================
