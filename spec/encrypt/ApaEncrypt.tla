----------------------------- MODULE ApaEncrypt -----------------------------
(* C08, symbolic design check with the real constants (Apalache, SMT):       *)
(* for EVERY span 0 <= s < 2^63 (spans are int64 in the reader) the length   *)
(* recovery loop of decryptChunkData gives exactly what the encrypted writer *)
(* stored.  TLC cannot do this (32-bit integers); it checks the same         *)
(* operators of EncryptLen on scaled constants against the writer algorithm. *)
(*   apalache-mc check --inv=Inv --length=0 ApaEncrypt.tla                   *)
EXTENDS Integers

VARIABLE
  \* @type: Int;
  s

INSTANCE EncryptLen WITH B <- 4096, R <- 64, CS <- 262144

Init == s \in Int /\ 0 <= s /\ s < 2^63
Next == UNCHANGED s
Inv  == LengthRestored5(s)
=============================================================================
