SPECIFICATION SpecB
CONSTANTS
  B = 3
  R = 2
  CS = 6
  MaxLeaves = 2200
INVARIANTS EveryChunkRestored ClosedFormIsWriter RootIsWholeFile
CHECK_DEADLOCK FALSE
