SPECIFICATION SpecB
CONSTANTS
  B = 4
  R = 2
  CS = 8
  MaxLeaves = 16400
INVARIANTS EveryChunkRestored ClosedFormIsWriter RootIsWholeFile
CHECK_DEADLOCK FALSE
