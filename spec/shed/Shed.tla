-------------------------------- MODULE Shed --------------------------------
(* pkg/shed: named indexes (sorted maps from encoded key to value), named      *)
(* fields and vectors, write batches, reopen.  Property C19.                   *)
(*                                                                             *)
(* The reference model keeps every index as its own map - isolation is what    *)
(* the property demands, so the flat key space of the implementation (one      *)
(* LevelDB, 1-byte index prefixes) is deliberately NOT modelled.  Keys are     *)
(* sequences of byte codes ordered byte-lexicographically (Lex).               *)
(* One action per exported method; Commit writes the batch; Reopen closes and  *)
(* opens the database again (staged, uncommitted writes are gone).             *)
EXTENDS Integers, Sequences, FiniteSets, SequencesExt, Lex

CONSTANTS Idx,          \* index numbers (1, 2, 3 = the order in which the driver creates them)
          KeysOf(_),    \* key universe of an index
          PfxOf(_),     \* prefixes used with Iterate / First / Last on an index
          Vals,         \* item values (positive integers)
          FVals,        \* values written to the uint64 field and vector
          SVals,        \* values written to the string field (0 = "", see StrOf)
          VecIdx,       \* vector positions used
          MaxPend,      \* bound on the number of staged writes
          Mode          \* "index", "field": which part of the alphabet Next uses ("all": both)

None == 0               \* absent (index item) / never written (fields read 0 / "")

VARIABLES idx,          \* [Idx -> [KeysOf(i) -> Vals \cup {None}]]
          u64,          \* the uint64 field
          str,          \* the string field (as a number, see StrOf)
          vec,          \* the uint64 vector: [VecIdx -> Nat]
          pend,         \* staged writes of the current batch, in order
          res           \* what the caller observed from the last call

vars == <<idx, u64, str, vec, pend, res>>

(***************************************************************************)
(* Pure definitions, shared with the trace specification.                  *)
(***************************************************************************)
StrOf(s) == CASE s = 0 -> "" [] s = 1 -> "x" [] s = 2 -> "yy" [] OTHER -> "?"

Present(m) == {k \in DOMAIN m : m[k] # None}
Matching(m, pfx) == {k \in Present(m) : IsPrefixOf(pfx, k)}

\* the keys an iteration is about: those with the prefix, from the start item on (in the
\* direction of travel), without the start item if it is to be skipped
Candidates(m, pfx, start, hs, skip, rev) ==
  {k \in Matching(m, pfx) :
     /\ (hs => IF rev THEN LexLeq(k, start) ELSE LexLeq(start, k))
     /\ ~(hs /\ skip /\ k = start)}

InOrder(S, rev) == IF rev THEN LexReverse(LexSort(S)) ELSE LexSort(S)

Cut(all, kind, at) == IF kind = "none" \/ at > Len(all) THEN all ELSE SubSeq(all, 1, at)

\* visited keys of Iterate with a callback script (stop / error at the at-th item)
IterKeys(m, pfx, start, hs, skip, rev, kind, at) == Cut(InOrder(Candidates(m, pfx, start, hs, skip, rev), rev), kind, at)
IterErr(m, pfx, start, hs, skip, rev, kind, at) == kind = "err" /\ at <= Cardinality(Candidates(m, pfx, start, hs, skip, rev))

WithVals(m, ks) == [j \in 1..Len(ks) |-> <<ks[j], m[ks[j]]>>]

NoKey == <<-1>>
FirstOf(m, pfx) == IF Matching(m, pfx) = {} THEN NoKey ELSE InOrder(Matching(m, pfx), FALSE)[1]
LastOf(m, pfx)  == IF Matching(m, pfx) = {} THEN NoKey ELSE InOrder(Matching(m, pfx), TRUE)[1]

CountFromOf(m, start) == Cardinality({k \in Present(m) : LexLeq(start, k)})

Dec1(v) == IF v = 0 THEN 0 ELSE v - 1

\* the whole store as one record, and the effect of one (staged or direct) write on it
Store(i, u, s, v) == [idx |-> i, u64 |-> u, str |-> s, vec |-> v]

Write(S, w) ==
  CASE w.t = "put"  -> [S EXCEPT !.idx[w.x][w.k] = w.v]
    [] w.t = "del"  -> [S EXCEPT !.idx[w.x][w.k] = None]
    [] w.t = "uput" -> [S EXCEPT !.u64 = w.v]
    [] w.t = "sput" -> [S EXCEPT !.str = w.v]
    [] w.t = "vput" -> [S EXCEPT !.vec[w.x] = w.v]

W(t, x, k, v) == [t |-> t, x |-> x, k |-> k, v |-> v]

RECURSIVE WriteAll(_, _)
WriteAll(S, ws) == IF ws = <<>> THEN S ELSE WriteAll(Write(S, Head(ws)), Tail(ws))

(***************************************************************************)
(* Actions.                                                                *)
(***************************************************************************)
EmptyIdx == [i \in Idx |-> [k \in KeysOf(i) |-> None]]
Cur == Store(idx, u64, str, vec)

Init == /\ idx = EmptyIdx /\ u64 = 0 /\ str = 0 /\ vec = [j \in VecIdx |-> 0] /\ pend = <<>>
        /\ res = [op |-> "init"]

Becomes(S) == idx' = S.idx /\ u64' = S.u64 /\ str' = S.str /\ vec' = S.vec
Same == UNCHANGED <<idx, u64, str, vec>>

\* direct writes
Direct(w, r) == Becomes(Write(Cur, w)) /\ UNCHANGED pend /\ res' = r
\* staged writes
Staged(w, r) == Len(pend) < MaxPend /\ Same /\ pend' = Append(pend, w) /\ res' = r
\* reads
Read(r) == Same /\ UNCHANGED pend /\ res' = r

Put(x, k, v)  == Direct(W("put", x, k, v), [op |-> "put", x |-> x, k |-> k, v |-> v])
Del(x, k)     == Direct(W("del", x, k, 0), [op |-> "del", x |-> x, k |-> k])
BPut(x, k, v) == Staged(W("put", x, k, v), [op |-> "bput", x |-> x, k |-> k, v |-> v])
BDel(x, k)    == Staged(W("del", x, k, 0), [op |-> "bdel", x |-> x, k |-> k])

Commit == Becomes(WriteAll(Cur, pend)) /\ pend' = <<>> /\ res' = [op |-> "commit"]
Reopen == Same /\ pend' = <<>> /\ res' = [op |-> "reopen"]

Get(x, k) == Read([op |-> "get", x |-> x, k |-> k, found |-> idx[x][k] # None, v |-> idx[x][k]])
HasKey(x, k) == Read([op |-> "has", x |-> x, k |-> k, found |-> idx[x][k] # None])
HasMulti(x, ks) == Read([op |-> "hasmulti", x |-> x, ks |-> ks, found |-> [j \in 1..Len(ks) |-> idx[x][ks[j]] # None]])
Fill(x, ks) == Read([op |-> "fill", x |-> x, ks |-> ks, ok |-> \A j \in 1..Len(ks) : idx[x][ks[j]] # None,
                     vs |-> [j \in 1..Len(ks) |-> idx[x][ks[j]]]])
Iterate(x, pfx, start, hs, skip, rev, kind, at) ==
  Read([op |-> "iter", x |-> x, pfx |-> pfx, start |-> start, hs |-> hs, skip |-> skip, rev |-> rev, kind |-> kind, at |-> at,
        visited |-> WithVals(idx[x], IterKeys(idx[x], pfx, start, hs, skip, rev, kind, at)),
        err |-> IterErr(idx[x], pfx, start, hs, skip, rev, kind, at)])
FirstItem(x, pfx) == Read([op |-> "first", x |-> x, pfx |-> pfx, k |-> FirstOf(idx[x], pfx)])
LastItem(x, pfx)  == Read([op |-> "last", x |-> x, pfx |-> pfx, k |-> LastOf(idx[x], pfx)])
Count(x) == Read([op |-> "count", x |-> x, n |-> Cardinality(Present(idx[x]))])
CountFrom(x, k) == Read([op |-> "countfrom", x |-> x, k |-> k, n |-> CountFromOf(idx[x], k)])

\* uint64 field
UGet     == Read([op |-> "uget", v |-> u64])
UPut(v)  == Direct(W("uput", 0, <<>>, v), [op |-> "uput", v |-> v])
UBPut(v) == Staged(W("uput", 0, <<>>, v), [op |-> "ubput", v |-> v])
UInc     == Direct(W("uput", 0, <<>>, u64 + 1), [op |-> "uinc", v |-> u64 + 1])
UDec     == Direct(W("uput", 0, <<>>, Dec1(u64)), [op |-> "udec", v |-> Dec1(u64)])
\* the batched increments read the committed value and stage the new one
UBInc    == Staged(W("uput", 0, <<>>, u64 + 1), [op |-> "ubinc", v |-> u64 + 1])
UBDec    == Staged(W("uput", 0, <<>>, Dec1(u64)), [op |-> "ubdec", v |-> Dec1(u64)])
\* string field
SGet     == Read([op |-> "sget", v |-> str])
SPut(v)  == Direct(W("sput", 0, <<>>, v), [op |-> "sput", v |-> v])
SBPut(v) == Staged(W("sput", 0, <<>>, v), [op |-> "sbput", v |-> v])
\* uint64 vector
VGet(j)     == Read([op |-> "vget", j |-> j, v |-> vec[j]])
VPut(j, v)  == Direct(W("vput", j, <<>>, v), [op |-> "vput", j |-> j, v |-> v])
VBPut(j, v) == Staged(W("vput", j, <<>>, v), [op |-> "vbput", j |-> j, v |-> v])
VInc(j)     == Direct(W("vput", j, <<>>, vec[j] + 1), [op |-> "vinc", j |-> j, v |-> vec[j] + 1])
VDec(j)     == Direct(W("vput", j, <<>>, Dec1(vec[j])), [op |-> "vdec", j |-> j, v |-> Dec1(vec[j])])
VBInc(j)    == Staged(W("vput", j, <<>>, vec[j] + 1), [op |-> "vbinc", j |-> j, v |-> vec[j] + 1])
VBDec(j)    == Staged(W("vput", j, <<>>, Dec1(vec[j])), [op |-> "vbdec", j |-> j, v |-> Dec1(vec[j])])

\* start items used together with a prefix have that prefix (what Iterate does with a start item outside
\* the prefix range is not specified anywhere; observed: it may visit nothing)
StartsFor(x, pfx) == {k \in KeysOf(x) : IsPrefixOf(pfx, k)}
IterKinds == {<<"none", 0>>, <<"stop", 1>>, <<"stop", 2>>, <<"err", 1>>}
KeyLists(x) == {<<a>> : a \in KeysOf(x)} \cup {<<a, b>> : a \in KeysOf(x), b \in KeysOf(x)}
MaxField == 3          \* bound on counters (keeps the state space finite)

IndexWrites == \E x \in Idx : \E k \in KeysOf(x) : \/ \E v \in Vals : Put(x, k, v) \/ BPut(x, k, v)
                                               \/ Del(x, k) \/ BDel(x, k)
IndexReads ==
  \E x \in Idx :
     \/ \E k \in KeysOf(x) : Get(x, k) \/ HasKey(x, k) \/ CountFrom(x, k)
     \/ \E ks \in KeyLists(x) : HasMulti(x, ks) \/ Fill(x, ks)
     \/ \E pfx \in PfxOf(x) : FirstItem(x, pfx) \/ LastItem(x, pfx)
     \/ Count(x)
     \/ \E pfx \in PfxOf(x), skip \in BOOLEAN, rev \in BOOLEAN, ka \in IterKinds :
           \/ Iterate(x, pfx, <<>>, FALSE, skip, rev, ka[1], ka[2])
           \/ \E start \in StartsFor(x, pfx) : Iterate(x, pfx, start, TRUE, skip, rev, ka[1], ka[2])
FieldWrites ==
  \/ \E v \in FVals : UPut(v) \/ UBPut(v)
  \/ u64 < MaxField /\ (UInc \/ UBInc)
  \/ UDec \/ UBDec
  \/ \E v \in SVals : SPut(v) \/ SBPut(v)
  \/ \E j \in VecIdx : \/ \E v \in FVals : VPut(j, v) \/ VBPut(j, v)
                       \/ vec[j] < MaxField /\ (VInc(j) \/ VBInc(j))
                       \/ VDec(j) \/ VBDec(j)
FieldReads == UGet \/ SGet \/ \E j \in VecIdx : VGet(j)

\* a little of the other half, so that both kinds of keys are present in either mode
FewIndexOps == \E x \in Idx : \E k \in {CHOOSE k \in KeysOf(x) : TRUE} : Put(x, k, CHOOSE v \in Vals : TRUE) \/ BDel(x, k) \/ Count(x)
FewFieldOps == UPut(CHOOSE v \in FVals : v > 0) \/ UBPut(0) \/ UGet

Next == \/ Commit \/ Reopen
        \/ Mode \in {"index", "all"} /\ (IndexWrites \/ IndexReads)
        \/ Mode \in {"field", "all"} /\ (FieldWrites \/ FieldReads)
        \/ Mode = "index" /\ FewFieldOps
        \/ Mode = "field" /\ FewIndexOps

Spec == Init /\ [][Next]_vars

(***************************************************************************)
(* Properties of the model (bounded design check).  The read contracts are *)
(* state predicates over EVERY read of the alphabet, so the design check   *)
(* can hide `res` (VIEW) without losing any of them.                       *)
(***************************************************************************)
TypeOK == /\ \A x \in Idx : idx[x] \in [KeysOf(x) -> Vals \cup {None}]
          /\ u64 \in Nat /\ str \in SVals \cup {0} /\ \A j \in VecIdx : vec[j] \in Nat
          /\ Len(pend) <= MaxPend

\* an iteration, characterised without LexSort: only matching keys on the right side of the start
\* item, strictly monotone in the direction of travel, nothing skipped up to the stop point
IterContractFor(m, pfx, start, hs, skip, rev, kind, at) ==
  LET v == IterKeys(m, pfx, start, hs, skip, rev, kind, at)
      before(a, b) == IF rev THEN LexLess(b, a) ELSE LexLess(a, b)
      dom == {k \in Present(m) : /\ IsPrefixOf(pfx, k)
                                 /\ (hs => k = start \/ before(start, k))
                                 /\ ~(hs /\ skip /\ k = start)}
  IN /\ \A i \in 1..Len(v) : v[i] \in dom
     /\ \A i, j \in 1..Len(v) : i < j => before(v[i], v[j])
     /\ \A k \in dom : \/ \E i \in 1..Len(v) : v[i] = k
                       \/ Len(v) > 0 /\ before(v[Len(v)], k) /\ kind # "none" /\ Len(v) = at
     /\ (kind = "none" => Len(v) = Cardinality(dom))
     /\ (IterErr(m, pfx, start, hs, skip, rev, kind, at) <=> (kind = "err" /\ Len(v) = at))

IterContract ==
  \A x \in Idx : \A pfx \in PfxOf(x), skip \in BOOLEAN, rev \in BOOLEAN, ka \in IterKinds :
     /\ IterContractFor(idx[x], pfx, <<>>, FALSE, skip, rev, ka[1], ka[2])
     /\ \A start \in StartsFor(x, pfx) : IterContractFor(idx[x], pfx, start, TRUE, skip, rev, ka[1], ka[2])

FirstLastContract ==
  \A x \in Idx : \A pfx \in PfxOf(x) :
     LET M == Matching(idx[x], pfx)  f == FirstOf(idx[x], pfx)  l == LastOf(idx[x], pfx)
     IN IF M = {} THEN f = NoKey /\ l = NoKey
        ELSE f \in M /\ l \in M /\ \A k \in M : LexLeq(f, k) /\ LexLeq(k, l)

\* staged writes are invisible: whatever happens, the visible store changes only by direct
\* writes and by Commit, and Commit applies exactly the staged writes, in order
BatchOK ==
  [][/\ (res'.op \in {"bput", "bdel", "ubput", "ubinc", "ubdec", "sbput", "vbput", "vbinc", "vbdec"}
            => Cur' = Cur /\ Len(pend') = Len(pend) + 1)
     /\ (res'.op = "commit" => Cur' = WriteAll(Cur, pend) /\ pend' = <<>>)
     /\ (res'.op = "reopen" => Cur' = Cur /\ pend' = <<>>)]_vars

\* isolation: a call on one index never changes another index, a field or the vector, and vice versa
FrameOK ==
  [][/\ (res'.op \in {"put", "del"} => /\ \A y \in Idx \ {res'.x} : idx'[y] = idx[y]
                                       /\ \A k \in KeysOf(res'.x) \ {res'.k} : idx'[res'.x][k] = idx[res'.x][k]
                                       /\ u64' = u64 /\ str' = str /\ vec' = vec)
     /\ (res'.op \in {"uput", "uinc", "udec"} => idx' = idx /\ str' = str /\ vec' = vec)
     /\ (res'.op = "sput" => idx' = idx /\ u64' = u64 /\ vec' = vec)
     /\ (res'.op \in {"vput", "vinc", "vdec"} => idx' = idx /\ u64' = u64 /\ str' = str
                                                  /\ \A j \in VecIdx \ {res'.j} : vec'[j] = vec[j])
     /\ (res'.op \in {"get", "has", "hasmulti", "fill", "iter", "first", "last", "count", "countfrom", "uget", "sget", "vget"}
            => Cur' = Cur /\ pend' = pend)]_vars
=============================================================================
