------------------------------- MODULE ShedGen -------------------------------
(* Scenario generator for C19: Shed's actions plus a history variable.          *)
(*  edges: BFS with VIEW = the store (no `res`, no history): every state is      *)
(*         expanded once and EVERY transition prints its history (ACTION_        *)
(*         CONSTRAINT), i.e. one shortest history per (state, operation) edge    *)
(*  sim:   random walks over the large universe; the arguments of each call are  *)
(*         drawn with RandomElement, so a step has one successor per call kind   *)
EXTENDS Shed, TLC, Json, IOUtils
VARIABLE hist

\* large universe (walks): index ids are 2, 3, 4 in the database, field keys start with 1 -
\* the key bytes 0, 1, 2, 3, 4, 255 collide with them on purpose
GIdx == {1, 2, 3}
GKeysOf(x) == CASE x = 1 -> {<<0>>, <<0, 255>>, <<1>>, <<3>>, <<255>>, <<255, 255>>}
                [] x = 2 -> {<<0>>, <<2>>, <<4>>, <<255>>}
                [] x = 3 -> {<<0, 0>>, <<0, 255>>, <<1, 0>>, <<255, 255>>}
GPfxOf(x) == CASE x = 1 -> {<<>>, <<0>>, <<0, 255>>, <<1>>, <<2>>, <<255>>, <<255, 255>>}
               [] x = 2 -> {<<>>, <<0>>, <<3>>, <<255>>}
               [] x = 3 -> {<<>>, <<0>>, <<0, 255>>, <<1>>, <<255>>, <<255, 255>>}
\* medium universe (edges, thorough)
EKeysOf(x) == CASE x = 1 -> {<<0>>, <<0, 255>>, <<1>>, <<255>>}
                [] x = 2 -> {<<255>>}
                [] x = 3 -> {<<0, 255>>, <<255, 255>>}
EPfxOf(x) == CASE x = 1 -> {<<>>, <<0>>, <<0, 255>>, <<1>>, <<255>>}
               [] x = 2 -> {<<>>, <<255>>}
               [] x = 3 -> {<<>>, <<0>>, <<255, 255>>}
\* small universe (edges, quick)
QKeysOf(x) == CASE x = 1 -> {<<0>>, <<0, 255>>, <<1>>}
                [] x = 2 -> {<<255>>}
                [] x = 3 -> {<<0, 255>>}
QPfxOf(x) == CASE x = 1 -> {<<>>, <<0>>, <<0, 255>>, <<255>>}
               [] x = 2 -> {<<>>, <<255>>}
               [] x = 3 -> {<<>>, <<0>>}

\* tiny universe (edges with a two-write batch: every ordered pair of staged writes incl. put-then-delete of one key)
TIdx == {1}
TKeysOf(x) == {<<0>>, <<1>>}
TPfxOf(x) == {<<>>, <<0>>}

Depth == IF "VERIF_DEPTH" \in DOMAIN IOEnv THEN atoi(IOEnv.VERIF_DEPTH) ELSE 4

\* the operation as the driver needs it (no expected results)
Op(r) == CASE r.op = "get"       -> [op |-> "get", x |-> r.x, k |-> r.k]
           [] r.op = "has"       -> [op |-> "has", x |-> r.x, k |-> r.k]
           [] r.op = "hasmulti"  -> [op |-> "hasmulti", x |-> r.x, ks |-> r.ks]
           [] r.op = "fill"      -> [op |-> "fill", x |-> r.x, ks |-> r.ks]
           [] r.op = "iter"      -> [op |-> "iter", x |-> r.x, pfx |-> r.pfx, start |-> r.start, hs |-> r.hs, skip |-> r.skip,
                                     rev |-> r.rev, kind |-> r.kind, at |-> r.at]
           [] r.op = "first"     -> [op |-> "first", x |-> r.x, pfx |-> r.pfx]
           [] r.op = "last"      -> [op |-> "last", x |-> r.x, pfx |-> r.pfx]
           [] r.op = "count"     -> [op |-> "count", x |-> r.x]
           [] r.op = "countfrom" -> [op |-> "countfrom", x |-> r.x, k |-> r.k]
           [] r.op \in {"uget", "sget"} -> [op |-> r.op]
           [] r.op = "vget"      -> [op |-> "vget", j |-> r.j]
           [] r.op \in {"uinc", "udec", "ubinc", "ubdec"} -> [op |-> r.op]
           [] r.op \in {"vinc", "vdec", "vbinc", "vbdec"} -> [op |-> r.op, j |-> r.j]
           [] OTHER -> r

Pick(S) == RandomElement(S)

\* one successor per call kind, arguments drawn at random
RNext ==
  \E x \in {Pick(Idx)} : \E k \in {Pick(KeysOf(x))}, k2 \in {Pick(KeysOf(x))}, v \in {Pick(Vals)}, pfx \in {Pick(PfxOf(x))},
     hs \in {Pick(BOOLEAN)}, skip \in {Pick(BOOLEAN)}, rev \in {Pick(BOOLEAN)}, ka \in {Pick(IterKinds)}, ks \in {Pick(KeyLists(x))},
     fv \in {Pick(FVals)}, sv \in {Pick(SVals)}, j \in {Pick(VecIdx)} :
     \E pk \in {Pick({p \in PfxOf(x) : IsPrefixOf(p, k)})}, pk2 \in {Pick({p \in PfxOf(x) : IsPrefixOf(p, k2)})} :
       \/ Put(x, k, v) \/ Put(x, k2, v) \/ BPut(x, k, v) \/ BPut(x, k2, v) \/ Del(x, k) \/ BDel(x, k2)
       \/ Commit \/ Reopen
       \/ Get(x, k) \/ HasKey(x, k) \/ HasMulti(x, ks) \/ Fill(x, ks) \/ Count(x) \/ CountFrom(x, k)
       \/ FirstItem(x, pfx) \/ LastItem(x, pfx)
       \/ Iterate(x, pfx, <<>>, FALSE, skip, rev, ka[1], ka[2])
       \/ Iterate(x, pk, k, TRUE, skip, rev, ka[1], ka[2])
       \/ Iterate(x, <<>>, k2, TRUE, skip, ~rev, ka[1], ka[2])
       \/ Iterate(x, pk2, k2, TRUE, ~skip, rev, "none", 0)
       \/ (Mode # "index" /\ \/ UGet \/ UPut(fv) \/ UBPut(fv) \/ UDec \/ UBDec \/ (u64 < MaxField /\ (UInc \/ UBInc))
                             \/ SGet \/ SPut(sv) \/ SBPut(sv)
                             \/ VGet(j) \/ VPut(j, fv) \/ VBPut(j, fv) \/ VDec(j) \/ VBDec(j) \/ (vec[j] < MaxField /\ (VInc(j) \/ VBInc(j))))
       \/ (Mode = "index" /\ (UPut(fv) \/ UGet))

GInit == Init /\ hist = <<>>
GNext == /\ Len(hist) < Depth
         /\ Next
         /\ hist' = Append(hist, Op(res'))
GSpec == GInit /\ [][GNext]_<<vars, hist>>

SNext == /\ Len(hist) < Depth
         /\ RNext
         /\ hist' = Append(hist, Op(res'))
SSpec == GInit /\ [][SNext]_<<vars, hist>>

StoreView == <<idx, u64, str, vec, pend>>

KeySeqs == [x \in 1..3 |-> IF x \in Idx THEN SetToSeq(KeysOf(x)) ELSE <<>>]   \* the driver always opens three indexes
Scn(h) == [par |-> [keys |-> KeySeqs, vecidx |-> SetToSeq(VecIdx)], ops |-> h]
\* reads whose answer does not depend on staged writes / fields are printed from the states without them only
Heavy(r) == r.op \in {"iter", "first", "last", "hasmulti", "fill", "countfrom"}
EmitEdge == (Heavy(res') /\ (pend # <<>> \/ u64 # 0 \/ str # 0)) \/ PrintT(<<"SCN", ToJson(Scn(hist'))>>)
EmitFull == Len(hist) = Depth => PrintT(<<"SCN", ToJson(Scn(hist))>>)
=============================================================================
