------------------------------- MODULE MCShed -------------------------------
EXTENDS Shed
\* small universe for the exhaustive design check (keys share prefixes; 0x00 / 0xFF edges)
MCIdx == {1, 2, 3}
MCKeysOf(x) == CASE x = 1 -> {<<0>>, <<0, 255>>, <<255>>}
                 [] x = 2 -> {<<0>>, <<255>>}
                 [] x = 3 -> {<<0, 255>>, <<255, 255>>}
MCPfxOf(x) == CASE x = 1 -> {<<>>, <<0>>, <<255>>, <<0, 255>>}
                [] x = 2 -> {<<>>, <<255>>}
                [] x = 3 -> {<<>>, <<0>>, <<255, 255>>}
DesignView == <<idx, u64, str, vec, pend>>
=============================================================================
