SPECIFICATION Spec
CONSTANTS
  Idx <- MCIdx
  KeysOf <- MCKeysOf
  PfxOf <- MCPfxOf
  Vals = {1, 2}
  FVals = {0, 2}
  SVals = {1}
  VecIdx = {0}
  MaxPend = 1
  Mode = "index"
VIEW DesignView
INVARIANTS TypeOK IterContract FirstLastContract
PROPERTIES BatchOK FrameOK
