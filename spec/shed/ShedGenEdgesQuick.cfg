SPECIFICATION GSpec
CONSTANTS
  Idx <- GIdx
  KeysOf <- QKeysOf
  PfxOf <- QPfxOf
  Vals = {1}
  FVals = {2}
  SVals = {1}
  VecIdx = {0}
  MaxPend = 1
  Mode = "index"
VIEW StoreView
ACTION_CONSTRAINT EmitEdge
CHECK_DEADLOCK FALSE
