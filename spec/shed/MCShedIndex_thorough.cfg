SPECIFICATION Spec
CONSTANTS
  Idx <- MCIdx
  KeysOf <- MCKeysOfT
  PfxOf <- MCPfxOfT
  Vals = {1}
  FVals = {0, 2}
  SVals = {1}
  VecIdx = {0}
  MaxPend = 1
  Mode = "index"
VIEW DesignView
INVARIANTS TypeOK IterContract FirstLastContract
PROPERTIES BatchOK FrameOK
