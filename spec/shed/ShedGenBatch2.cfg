SPECIFICATION GSpec
CONSTANTS
  Idx <- TIdx
  KeysOf <- TKeysOf
  PfxOf <- TPfxOf
  Vals = {1, 2}
  FVals = {2}
  SVals = {1}
  VecIdx = {0}
  MaxPend = 2
  Mode = "index"
VIEW StoreView
ACTION_CONSTRAINT EmitEdge
CHECK_DEADLOCK FALSE
