SPECIFICATION TSpec
CONSTANTS
  Idx <- TIdx
  KeysOf <- TKeysOf
  PfxOf <- TPfxOf
  Vals = {1, 2}
  FVals = {0}
  SVals = {0, 1, 2}
  VecIdx = {0, 1}
  MaxPend = 3
  Mode = "all"
INVARIANT Report
POSTCONDITION AllConsumed
CHECK_DEADLOCK FALSE
