SPECIFICATION GSpec
CONSTANTS
  Idx <- GIdx
  KeysOf <- QKeysOf
  PfxOf <- QPfxOf
  Vals = {1}
  FVals = {0, 2}
  SVals = {0, 1, 2}
  VecIdx = {1}
  MaxPend = 1
  Mode = "field"
VIEW StoreView
ACTION_CONSTRAINT EmitEdge
CHECK_DEADLOCK FALSE
