SPECIFICATION SSpec
CONSTANTS
  Idx <- GIdx
  KeysOf <- GKeysOf
  PfxOf <- GPfxOf
  Vals = {1, 2}
  FVals = {0, 1, 2}
  SVals = {0, 1, 2}
  VecIdx = {0, 1}
  MaxPend = 3
  Mode = "all"
INVARIANT EmitFull
CHECK_DEADLOCK FALSE
