------------------------------ MODULE ShedTrace ------------------------------
(* Judge for C19: replays what the driver recorded from pkg/shed against Shed's  *)
(* definitions.  Monitor mode (see TraceKit).                                    *)
(*                                                                               *)
(* Projection logged after every call: st = <<<<x, key, val>>, ...>> (Get of     *)
(* every universe key that is found), dump = per index the full Iterate(nil),    *)
(* cnt = per index Count(), fu / fs / fv = the fields and the vector.            *)
EXTENDS Shed, TraceKit

VARIABLES l, bad, notes

TIdx == {1, 2, 3}
TKeysOf(x) == CASE x = 1 -> {<<0>>, <<0, 255>>, <<1>>, <<3>>, <<255>>, <<255, 255>>}
                [] x = 2 -> {<<0>>, <<2>>, <<4>>, <<255>>}
                [] x = 3 -> {<<0, 0>>, <<0, 255>>, <<1, 0>>, <<255, 255>>}
TPfxOf(x) == {<<>>}

NumOfStr(s) == IF s = "" THEN 0 ELSE IF s = "x" THEN 1 ELSE IF s = "yy" THEN 2 ELSE 99

\* the observed store
ObsIdx(e) == [x \in Idx |-> [k \in KeysOf(x) |->
                LET J == {j \in DOMAIN e.st : e.st[j][1] = x /\ e.st[j][2] = k}
                IN IF J = {} THEN None ELSE e.st[CHOOSE j \in J : TRUE][3]]]
Obs(e) == Store(ObsIdx(e), e.fu, NumOfStr(e.fs), [j \in VecIdx |-> e.fv[j + 1]])

Staging == {"bput", "bdel", "ubput", "ubinc", "ubdec", "sbput", "vbput", "vbinc", "vbdec"}

\* the write an event performs or stages (counters: the value the call reported writing)
WriteOf(e) ==
  CASE e.op \in {"put", "bput"}  -> W("put", e.x, e.k, e.v)
    [] e.op \in {"del", "bdel"}  -> W("del", e.x, e.k, 0)
    [] e.op \in {"uput", "ubput", "uinc", "udec", "ubinc", "ubdec"} -> W("uput", 0, <<>>, e.v)
    [] e.op \in {"sput", "sbput"} -> W("sput", 0, <<>>, e.v)
    [] e.op \in {"vput", "vbput", "vinc", "vdec", "vbinc", "vbdec"} -> W("vput", e.j, <<>>, e.v)

DirectOps == {"put", "del", "uput", "uinc", "udec", "sput", "vput", "vinc", "vdec"}

\* reference model after the event: S = visible store, p = staged writes
PostStore(e, S, p) ==
  CASE e.op = "reset"  -> Store(EmptyIdx, 0, 0, [j \in VecIdx |-> 0])
    [] e.op \in DirectOps -> Write(S, WriteOf(e))
    [] e.op = "commit" -> WriteAll(S, p)
    [] OTHER           -> S
PostPend(e, p) ==
  CASE e.op \in {"reset", "commit", "reopen"} -> <<>>
    [] e.op \in Staging -> Append(p, WriteOf(e))
    [] OTHER -> p

StoreClauseName(op) ==
  CASE op \in Staging  -> "staged_writes_are_invisible_before_commit"
    [] op = "commit"   -> "commit_applies_the_whole_batch"
    [] op = "reopen"   -> "contents_survive_reopen_and_uncommitted_writes_do_not"
    [] op \in DirectOps   -> "write_changes_exactly_its_own_item"
    [] OTHER           -> "reads_change_nothing"

SortedPairs(m) == WithVals(m, InOrder(Present(m), FALSE))

\* verdict clauses: the statement of C19 over what the caller observed
Verdict(e, S, post) ==
     Clause("no_unexpected_error", e.err = "")
  \o (CASE e.op = "get" -> Clause("get_returns_the_stored_item",
                                  e.found = (S.idx[e.x][e.k] # None) /\ e.v = S.idx[e.x][e.k])
        [] e.op = "has" -> Clause("has_agrees_with_the_map", e.found = (S.idx[e.x][e.k] # None))
        [] e.op = "hasmulti" -> Clause("hasmulti_agrees_with_the_map",
                                       e.found = [j \in 1..Len(e.ks) |-> S.idx[e.x][e.ks[j]] # None])
        [] e.op = "fill" -> Clause("fill_agrees_with_the_map",
                                   LET ok == \A j \in 1..Len(e.ks) : S.idx[e.x][e.ks[j]] # None
                                   IN e.ok = ok /\ (ok => e.vs = [j \in 1..Len(e.ks) |-> S.idx[e.x][e.ks[j]]]))
        [] e.op = "iter" ->
                LET agrees == e.visited = WithVals(S.idx[e.x], IterKeys(S.idx[e.x], e.pfx, e.start, e.hs, e.skip, e.rev, e.kind, e.at))
                IN    Clause("iterate_agrees_with_the_sorted_map", agrees)
                   \* (whether the callback ever ran its at-th time follows from the visit sequence)
                   \o Clause("iterate_returns_the_callback_error",
                             agrees => e.cberr = IterErr(S.idx[e.x], e.pfx, e.start, e.hs, e.skip, e.rev, e.kind, e.at))
        [] e.op = "first" -> Clause("first_is_the_least_item_with_the_prefix",
                                    LET f == FirstOf(S.idx[e.x], e.pfx)
                                    IN e.found = (f # NoKey) /\ (e.found => e.k = f /\ e.v = S.idx[e.x][f]))
        [] e.op = "last" -> Clause("last_is_the_greatest_item_with_the_prefix",
                                   LET f == LastOf(S.idx[e.x], e.pfx)
                                   IN e.found = (f # NoKey) /\ (e.found => e.k = f /\ e.v = S.idx[e.x][f]))
        [] e.op = "count" -> Clause("count_agrees_with_the_map", e.n = Cardinality(Present(S.idx[e.x])))
        [] e.op = "countfrom" -> Clause("countfrom_agrees_with_the_map", e.n = CountFromOf(S.idx[e.x], e.k))
        [] e.op = "uget" -> Clause("uint64_field_returns_the_last_written_value", e.v = S.u64)
        [] e.op = "sget" -> Clause("string_field_returns_the_last_written_value", NumOfStr(e.v) = S.str)
        [] e.op = "vget" -> Clause("vector_returns_the_last_written_value", e.v = S.vec[e.j])
        [] OTHER -> <<>>)
  \o Clause(StoreClauseName(e.op), Obs(e) = post)
  \o Clause("full_iteration_lists_every_index_in_key_order", \A x \in Idx : e.dump[x] = SortedPairs(post.idx[x]))
  \o Clause("count_agrees_with_the_map", \A x \in Idx : e.cnt[x] = Cardinality(Present(post.idx[x])))

\* conformance notes: what the counters are predicted to write
Drift(e, S) ==
  LET note(n) == <<[line |-> l, scn |-> e.scn, op |-> e.op, note |-> n]>>
  IN CASE e.op \in {"uinc", "ubinc"} /\ e.v # S.u64 + 1 -> note("increment_is_not_plus_one")
       [] e.op \in {"udec", "ubdec"} /\ e.v # Dec1(S.u64) -> note("decrement_is_not_saturating_minus_one")
       [] e.op \in {"vinc", "vbinc"} /\ e.v # S.vec[e.j] + 1 -> note("increment_is_not_plus_one")
       [] e.op \in {"vdec", "vbdec"} /\ e.v # Dec1(S.vec[e.j]) -> note("decrement_is_not_saturating_minus_one")
       [] OTHER -> <<>>

TInit == /\ l = 1 /\ idx = EmptyIdx /\ u64 = 0 /\ str = 0 /\ vec = [j \in VecIdx |-> 0] /\ pend = <<>>
         /\ res = [op |-> "init"] /\ bad = <<>> /\ notes = <<>>

TStep == /\ l <= NEvents
         /\ LET e == Trace[l]
                post == PostStore(e, Cur, pend)
                cs == Verdict(e, Cur, post)
                nx == IF cs = <<>> THEN post ELSE Obs(e)          \* resynchronise
            IN /\ l' = l + 1
               /\ bad' = IF cs = <<>> THEN bad ELSE Append(bad, BadRec(l, e, cs))
               /\ notes' = IF Len(notes) < 20 THEN notes \o Drift(e, Cur) ELSE notes
               /\ Becomes(nx)
               /\ pend' = PostPend(e, pend)
               /\ res' = [op |-> e.op]

TSpec == TInit /\ [][TStep]_<<vars, l, bad, notes>>

Report == ReportBad(l, bad, notes)
=============================================================================
