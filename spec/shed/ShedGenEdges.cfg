SPECIFICATION GSpec
CONSTANTS
  Idx <- GIdx
  KeysOf <- EKeysOf
  PfxOf <- EPfxOf
  Vals = {1}
  FVals = {2}
  SVals = {1}
  VecIdx = {0}
  MaxPend = 0
  Mode = "index"
VIEW StoreView
ACTION_CONSTRAINT EmitEdge
CHECK_DEADLOCK FALSE
