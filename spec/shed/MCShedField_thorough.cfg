SPECIFICATION Spec
CONSTANTS
  Idx <- MCIdx
  KeysOf <- MCKeysOf
  PfxOf <- MCPfxOf
  Vals = {1}
  FVals = {0, 2}
  SVals = {0, 1}
  VecIdx = {0, 1}
  MaxPend = 2
  Mode = "field"
VIEW DesignView
INVARIANTS TypeOK
PROPERTIES BatchOK FrameOK
