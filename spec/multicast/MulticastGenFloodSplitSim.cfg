SPECIFICATION GLSpec
CONSTANTS
  Peer = {}
  Group = {}
  MaxKnown = 0
  HsDirs = {}
  FNode <- F4
  Overlays <- Cyclic4
  Joined <- AnyJoined
  MaxMsgs = 2
  MaxWindows = 0
  MaxFLoss = 1
  Split <- Yes

INVARIANT EmitFDone
CHECK_DEADLOCK FALSE
