SPECIFICATION FFairSpec
CONSTANTS
  Peer = {}
  Group = {}
  MaxKnown = 0
  HsDirs = {}
  FNode <- F4
  Overlays <- Iso4
  Joined <- AnyJoined
  MaxMsgs = 1
  MaxWindows = 1
  MaxFLoss = 1
VIEW FView
INVARIANTS DeliveredAtMostOncePerWindow ForwardedAtMostOncePerWindow OriginNeverNotified FloodBounded
PROPERTIES NotBackToSender FloodQuiesces
CHECK_DEADLOCK FALSE
