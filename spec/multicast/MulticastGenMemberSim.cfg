SPECIFICATION GMSpec
CONSTANTS
  Peer <- P3
  Group <- G2
  MaxKnown = 2
  HsDirs = {"in", "out"}
  FNode = {}
  Overlays = {}
  Joined = {}
  MaxMsgs = 0
  MaxWindows = 0
  MaxFLoss = 0

INVARIANT EmitMFull
CHECK_DEADLOCK FALSE
