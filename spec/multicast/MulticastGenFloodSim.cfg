SPECIFICATION GLSpec
CONSTANTS
  Peer = {}
  Group = {}
  MaxKnown = 0
  HsDirs = {}
  FNode <- F4
  Overlays <- Iso4
  Joined <- AnyJoined
  MaxMsgs = 2
  MaxWindows = 1
  MaxFLoss = 1

INVARIANT EmitFDone
CHECK_DEADLOCK FALSE
