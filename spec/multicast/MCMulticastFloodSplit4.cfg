SPECIFICATION FFairSpec
CONSTANTS
  Peer = {}
  Group = {}
  MaxKnown = 0
  HsDirs = {}
  FNode <- F4
  Overlays <- Cyclic4
  Joined <- AnyJoined
  MaxMsgs = 1
  MaxWindows = 0
  MaxFLoss = 0
  Split <- Yes
VIEW FView
INVARIANTS DeliveredAtMostOncePerWindow ForwardedAtMostOncePerWindow OriginNeverNotified FloodBounded
PROPERTIES NotBackToSender FloodQuiesces
CHECK_DEADLOCK FALSE
