---------------------------- MODULE MCMulticast ----------------------------
(* Bounded configurations of Multicast (design check of C38).              *)
EXTENDS Multicast

P2 == {1, 2}
P3 == {1, 2, 3}
G1 == {1}
G2 == {1, 2}

F3 == {1, 2, 3}
F4 == {1, 2, 3, 4}
FAllLinks == {{a, b} : a, b \in FNode} \ {{a} : a \in FNode}
\* every overlay (connected or not) on the node set
AllOverlays == SUBSET FAllLinks
Iso4 == { {{1,2},{2,3},{3,4}}, {{1,2},{1,3},{1,4}}, {{1,2},{2,3},{3,4},{4,1}}, {{1,2},{2,3},{3,1},{3,4}},
          {{1,2},{2,3},{3,4},{4,1},{1,3}}, {{1,2},{1,3},{1,4},{2,3},{2,4},{3,4}} }
\* overlays with a cycle: a node gets the same message from two peers
Cyclic4 == { {{1,2},{2,3},{3,1},{3,4}}, {{1,2},{2,3},{3,4},{4,1}}, {{1,2},{2,3},{3,4},{4,1},{1,3}} }
AllJoined == {FNode}
AnyJoined == SUBSET FNode

MView == <<nbr, pend, grp, ann>>
FView == <<olinks, members, win, fnet, act, dcount, fcount, norig, nwin, nfloss, fsent>>
=============================================================================
