SPECIFICATION GFSpec
CONSTANTS
  Peer <- PFill
  Group <- G1
  MaxKnown = 20
  HsDirs = {"in", "out"}
  FNode = {}
  Overlays = {}
  Joined = {}
  MaxMsgs = 0
  MaxWindows = 0
  MaxFLoss = 0

INVARIANT EmitMFull
CHECK_DEADLOCK FALSE
