SPECIFICATION FFairSpec
CONSTANTS
  Peer = {}
  Group = {}
  MaxKnown = 0
  HsDirs = {}
  FNode <- F3
  Overlays <- AllOverlays
  Joined <- AnyJoined
  MaxMsgs = 1
  MaxWindows = 1
  MaxFLoss = 1
  Split <- Yes
VIEW FView
INVARIANTS DeliveredAtMostOncePerWindow ForwardedAtMostOncePerWindow OriginNeverNotified FloodBounded
PROPERTIES NotBackToSender FloodQuiesces
CHECK_DEADLOCK FALSE
