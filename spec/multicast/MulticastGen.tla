---------------------------- MODULE MulticastGen ----------------------------
(* Scenario generators for C38.                                               *)
(*  membership: histories of connect / disconnect / notify / handshake / add  *)
(*              / remove / prune over few peers and groups (edges + walks),   *)
(*              and "fill" histories that bring the known list over the real  *)
(*              prune threshold                                               *)
(*  flooding:   behaviours of the multi-node flooding model (edges + walks),  *)
(*              printed when the network is empty again; with Split (cfg) the  *)
(*              receive handlers are two steps (begin / finish) and overlap   *)
EXTENDS Multicast, Json, IOUtils
VARIABLES hist, pre     \* pre: the model state before the last step (edges mode: one history per (source state, step))

P1 == {1}
P2 == {1, 2}
P3 == {1, 2, 3}
G2 == {1, 2}
PFill == 1..23
G1 == {1}
F3 == {1, 2, 3}
F4 == {1, 2, 3, 4}
FAllLinks == {{a, b} : a, b \in FNode} \ {{a} : a \in FNode}
AllOverlays == SUBSET FAllLinks
Iso4 == { {{1,2},{2,3},{3,4}}, {{1,2},{1,3},{1,4}}, {{1,2},{2,3},{3,4},{4,1}}, {{1,2},{2,3},{3,1},{3,4}},
          {{1,2},{2,3},{3,4},{4,1},{1,3}}, {{1,2},{1,3},{1,4},{2,3},{2,4},{3,4}} }
\* overlays with a cycle: a node gets the same message from two peers
Tri3 == { {{1,2},{2,3},{1,3}} }
Cyclic4 == { {{1,2},{2,3},{3,1},{3,4}}, {{1,2},{2,3},{3,4},{4,1}}, {{1,2},{2,3},{3,4},{4,1},{1,3}} }
AllJoined == {FNode}
AnyJoined == SUBSET FNode

Depth == IF "VERIF_DEPTH" \in DOMAIN IOEnv THEN atoi(IOEnv.VERIF_DEPTH) ELSE 6

\* ---- membership ---------------------------------------------------------------
GMInit == MInit /\ FIdle /\ hist = <<>> /\ pre = <<>>
GMNext == /\ Len(hist) < Depth
          /\ MNext /\ UNCHANGED fvars
          /\ hist' = Append(hist, mlast') /\ pre' = <<nbr, pend, grp, ann>>
GMSpec == GMInit /\ [][GMNext]_<<mvars, fvars, hist, pre>>
MEdgeView == <<pre, nbr, pend, grp, ann, mlast>>
MScn == [par |-> [kind |-> "member", peers |-> Peer, groups |-> Group, maxknown |-> MaxKnown], ops |-> hist]
EmitMAll  == hist # <<>> => PrintT(<<"SCN", ToJson(MScn)>>)
EmitMFull == Len(hist) = Depth => PrintT(<<"SCN", ToJson(MScn)>>)

\* fill: group 1 gets k known peers at once (k around the threshold), then the usual transitions
Fill(k) == /\ hist = <<>>
           /\ grp' = [grp EXCEPT ![1] = [ex |-> TRUE, conn |-> {}, kept |-> {}, known |-> 1..k]]
           /\ UNCHANGED <<nbr, pend, ann>>
           /\ mlast' = [op |-> "fill", g |-> 1, k |-> k]
\* generator's prune: one admissible outcome (drop the smallest ids), no enumeration of subsets
RECURSIVE DropMin(_, _)
DropMin(S, k) == IF k <= 0 \/ S = {} THEN S ELSE DropMin(S \ {CHOOSE x \in S : \A y \in S : x <= y}, k - 1)
GPrune(g) == /\ grp[g].ex
             /\ grp' = [grp EXCEPT ![g].known = DropMin(@, Cardinality(@) - MaxKnown)]
             /\ UNCHANGED <<nbr, pend, ann>>
             /\ mlast' = [op |-> "prune", g |-> g]
GFNext == /\ Len(hist) < Depth
          /\ \/ \E k \in {MaxKnown - 1, MaxKnown, MaxKnown + 1, MaxKnown + 3} : Fill(k)
             \/ hist # <<>> /\ \/ GPrune(1)
                               \/ \E p \in {1, 2, MaxKnown + 2} : Connect(p) \/ NbrDown(p) \/ DisconnectEvent(p) \/ Notify(p, TRUE, {1}) \/ Notify(p, FALSE, {1})
                               \/ \E p \in {1, 2, MaxKnown + 2}, b \in BOOLEAN : Add(1, p, b) \/ Remove(1, p, b)
          /\ UNCHANGED fvars
          /\ hist' = Append(hist, mlast') /\ pre' = <<>>
GFSpec == GMInit /\ [][GFNext]_<<mvars, fvars, hist, pre>>

\* ---- flooding -----------------------------------------------------------------
GLInit == FInit /\ MIdle /\ hist = <<>> /\ pre = <<>>
FlatCopy(m) == [origin |-> m.id[1], serial |-> m.id[2], from |-> m.from, to |-> m.to]
FOp == IF flast'.op = "originate" THEN [op |-> "originate", n |-> flast'.n]
       ELSE IF flast'.op = "deliver" THEN [op |-> "deliver", m |-> FlatCopy(flast'.m)]
       ELSE IF flast'.op \in {"lose", "begin", "finish"} THEN [op |-> flast'.op, m |-> FlatCopy(flast'.m)]
       ELSE flast'
GLNext == /\ Len(hist) < Depth
          /\ FNext /\ UNCHANGED mvars
          /\ hist' = Append(hist, FOp) /\ pre' = <<win, fnet, act>>
GLSpec == GLInit /\ [][GLNext]_<<mvars, fvars, hist, pre>>
FEdgeView == <<pre, olinks, members, win, fnet, act, norig, nwin, nfloss, flast>>
FScn == [par |-> [kind |-> "flood", nodes |-> FNode, links |-> olinks, joined |-> members], ops |-> hist]
FQuiet == fnet = <<>> /\ hist # <<>> /\ \A n \in FNode : act[n] = {}
EmitFQuiet == FQuiet => PrintT(<<"SCN", ToJson(FScn)>>)
EmitFAll   == hist # <<>> => PrintT(<<"SCN", ToJson(FScn)>>)
EmitFDone  == (FQuiet /\ TotalOrig = MaxMsgs) => PrintT(<<"SCN", ToJson(FScn)>>)
=============================================================================
