SPECIFICATION TSpec
CONSTANTS
  Peer = {}
  Group = {}
  MaxKnown = 20
  HsDirs = {}
  FNode = {}
  Overlays = {}
  Joined = {}
  MaxMsgs = 0
  MaxWindows = 0
  MaxFLoss = 0
INVARIANT Report
POSTCONDITION AllConsumed
CHECK_DEADLOCK FALSE
