SPECIFICATION MSpec
CONSTANTS
  Peer <- P2
  Group <- G1
  MaxKnown = 1
  HsDirs = {"in"}
  FNode = {}
  Overlays = {}
  Joined = {}
  MaxMsgs = 0
  MaxWindows = 0
  MaxFLoss = 0
VIEW MView
INVARIANT MembershipOK
PROPERTY KnownBounded
CHECK_DEADLOCK FALSE
