SPECIFICATION GLSpec
CONSTANTS
  Peer = {}
  Group = {}
  MaxKnown = 0
  HsDirs = {}
  FNode <- F3
  Overlays <- AllOverlays
  Joined <- AnyJoined
  MaxMsgs = 1
  MaxWindows = 1
  MaxFLoss = 0
VIEW FEdgeView
INVARIANT EmitFAll
CHECK_DEADLOCK FALSE
