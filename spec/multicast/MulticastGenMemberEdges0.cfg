SPECIFICATION GMSpec
CONSTANTS
  Peer <- P1
  Group <- G1
  MaxKnown = 1
  HsDirs = {"in", "out"}
  FNode = {}
  Overlays = {}
  Joined = {}
  MaxMsgs = 0
  MaxWindows = 0
  MaxFLoss = 0
VIEW MEdgeView
INVARIANT EmitMAll
CHECK_DEADLOCK FALSE
