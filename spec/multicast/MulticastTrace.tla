--------------------------- MODULE MulticastTrace ---------------------------
(* Judge for C38 (monitor mode, see TraceKit): replays what mcastdrv recorded  *)
(* from real multicast.Service instances.                                      *)
(*  kind "member": after every step, for every group, the three lists (verif    *)
(*                 accessor) and GetGroupPeers, plus the neighbour set          *)
(*  kind "flood":  per step the copies a node sent and the messages it handed   *)
(*                 to its subscribers; windows are history: what the node has   *)
(*                 received / forwarded / handed to its subscribers since its   *)
(*                 caches were last cleared.  A receive handler is one event    *)
(*                 (deliver) or two (begin: up to its first outgoing stream,    *)
(*                 finish: the rest), other handlers of the node in between     *)
(* Verdict clauses transcribe the statement; the comparison with the module's   *)
(* own transition operators only yields notes.                                  *)
EXTENDS Multicast, TraceKit

VARIABLES l, kind, mg, mann, wn, fcfg, bad, notes
\* mg   : group id -> group (model of the membership part), mann : peer -> announced groups
\* wn   : node -> window [recv, fwd, dlv] (history; dlv = ids handed to the subscribers), fcfg : [lk, joined] of the running flooding scenario

ToSet(s) == {s[i] : i \in DOMAIN s}
NoDup(s) == \A i, j \in DOMAIN s : i # j => s[i] # s[j]

\* ---------------------------------------------------------------- membership
GroupsOf(e) == {e.groups[i].g : i \in DOMAIN e.groups}
ObsGroup(e, g) == LET r == e.groups[CHOOSE i \in DOMAIN e.groups : e.groups[i].g = g]
                  IN [ex |-> r.ex, conn |-> ToSet(r.conn), kept |-> ToSet(r.kept), known |-> ToSet(r.known)]
ObsGroups(e) == [g \in GroupsOf(e) |-> ObsGroup(e, g)]

MVerdict(e) ==
  LET nb == ToSet(e.nbr) \cup ToSet(e.pend)    \* neighbours, incl. those whose disconnect notification is still queued
  IN    Clause("C38:no_panic", ~e.panicked)
     \o Clause("C38:peer_in_at_most_one_list",
               \A i \in DOMAIN e.groups :
                  LET r == e.groups[i]
                  IN /\ ListsDisjoint(ToSet(r.conn), ToSet(r.kept), ToSet(r.known))
                     /\ NoDup(r.conn) /\ NoDup(r.kept) /\ NoDup(r.known)
                     /\ ToSet(r.gp_conn) \cap ToSet(r.gp_keep) = {} /\ NoDup(r.gp_conn) /\ NoDup(r.gp_keep))
     \o Clause("C38:connected_peer_is_direct_neighbour",
               \A i \in DOMAIN e.groups :
                  /\ ConnectedAreNeighbours(ToSet(e.groups[i].conn), nb)
                  /\ ConnectedAreNeighbours(ToSet(e.groups[i].gp_conn), nb))

\* model of the step (isnbr: neighbour relation AFTER a connect, BEFORE the lists are touched otherwise)
MPost(e, G, A) ==
  LET nb == ToSet(e.nbr)
      gs == IF Has(e, "gs") THEN ToSet(e.gs) ELSE {}
  IN CASE e.op = "reset"      -> [G |-> [g \in GroupsOf(e) |-> NoGroup], A |-> <<>>]
       [] e.op = "connect"    -> [G |-> G, A |-> A]
       [] e.op = "nbrdown"    -> [G |-> G, A |-> A]
       [] e.op \in {"event", "disconnect"} -> [G |-> DisconnectIn(G, e.p), A |-> A]
       [] e.op = "notify"     -> [G |-> NotifyIn(G, e.p, e.join, gs, e.p \in nb), A |-> A]
       [] e.op = "handshake"  -> [G |-> HandshakeIn(G, IF e.p \in DOMAIN A THEN A[e.p] ELSE {}, e.p, gs, e.p \in nb),
                                  A |-> (e.p :> gs) @@ A]
       [] e.op = "add"        -> [G |-> [G EXCEPT ![e.g] = AddIn(@, e.p, e.keep, e.p \in nb)], A |-> A]
       [] e.op = "remove"     -> [G |-> [G EXCEPT ![e.g] = RemoveIn(@, e.p, e.into)], A |-> A]
       [] e.op = "fill"       -> [G |-> [G EXCEPT ![e.g] = [ex |-> TRUE, conn |-> @.conn \ (1..e.k), kept |-> @.kept \ (1..e.k),
                                                            known |-> @.known \cup (1..e.k)]], A |-> A]
       [] OTHER               -> [G |-> G, A |-> A]

MDrift(e, G, post) ==
  IF e.op = "prune"
  THEN Clause("prune_differs_from_model", G[e.g].ex => PruneOK(G[e.g], ObsGroup(e, e.g), e.maxknown))
       \o Clause("lists_differ_from_model", \A g \in GroupsOf(e) \ {e.g} : ObsGroup(e, g) = G[g])
  ELSE    Clause("lists_differ_from_model", ObsGroups(e) = post.G)
       \o Clause("group_peers_differ_from_lists",
                 \A i \in DOMAIN e.groups : LET r == e.groups[i]
                                            IN r.gp_ok = r.ex /\ (r.gp_ok => ToSet(r.gp_conn) = ToSet(r.conn) /\ ToSet(r.gp_keep) = ToSet(r.kept)))

\* ---------------------------------------------------------------- flooding
FCfg(e) == [lk |-> {{e.links[i][1], e.links[i][2]} : i \in DOMAIN e.links}, joined |-> ToSet(e.joined), nodes |-> ToSet(e.nodes),
            peers |-> [n \in ToSet(e.nodes) |->
                          LET r == e.peers[CHOOSE i \in DOMAIN e.peers : e.peers[i][1] = n]
                          IN ToSet(r[2]) \cup ToSet(r[3])]]
NoFCfg == [lk |-> {}, joined |-> {}, nodes |-> {}, peers |-> <<>>]

IdOf(x) == <<x.origin, x.serial>>
SentCopies(e) == {Copy(IdOf(e.sent[i]), e.sent[i].from, e.sent[i].to) : i \in DOMAIN e.sent}
NotifiedIds(e) == [i \in DOMAIN e.notified |-> IdOf(e.notified[i])]

JNoWindow == [recv |-> {}, fwd |-> {}, dlv |-> {}]
IsHandle(e) == e.op \in {"deliver", "begin", "finish"} /\ e.node # 0

FVerdict(c, e, W) ==
  Clause("C38:no_panic", ~e.panicked)
  \o (IF IsHandle(e) THEN
        LET n == e.node
            id == IdOf(e.m)
            dup == e.op # "finish" /\ id \in W[n].recv     \* a copy of a message this node has already received in this window
            ids == NotifiedIds(e)
        IN    Clause("C38:delivered_to_subscribers_at_most_once_per_window",
                     /\ Len(ids) <= 1 /\ \A i \in DOMAIN ids : ids[i] = id
                     /\ (dup => Len(ids) = 0)
                     /\ \A i \in DOMAIN ids : ids[i] \notin W[n].dlv)
           \o Clause("C38:forwarded_at_most_once_per_window",
                     /\ \A i \in DOMAIN e.sent : IdOf(e.sent[i]) = id /\ e.sent[i].from = n
                     /\ \A i, j \in DOMAIN e.sent : i # j => e.sent[i].to # e.sent[j].to
                     /\ ((dup \/ id \in W[n].fwd) => e.sent = <<>>))
           \o Clause("C38:never_forwarded_back_to_the_sender",
                     \A i \in DOMAIN e.sent : e.sent[i].to # e.m.from /\ e.sent[i].to # n)
           \o Clause("C38:own_message_neither_delivered_nor_forwarded_again",
                     e.m.origin = n => (e.sent = <<>> /\ ids = <<>>))
      ELSE IF e.op = "originate" THEN
           Clause("C38:forwarded_at_most_once_per_window",
                  /\ \A i, j \in DOMAIN e.sent : i # j => e.sent[i].to # e.sent[j].to
                  /\ \A i \in DOMAIN e.sent : e.sent[i].origin = e.n /\ e.sent[i].from = e.n)
           \o Clause("C38:own_message_neither_delivered_nor_forwarded_again", e.notified = <<>>)
      ELSE IF e.op = "end" THEN
           Clause("C38:flooding_stops",
                  e.left = 0 /\ ~e.capped /\ e.total_sent <= FloodBound(e.norig, e.nwin, e.nlinks))
      ELSE <<>>)

\* history windows after the event (the module's own step functions; dlv: what was observed)
FPostW(c, e, W) ==
  CASE e.op = "reset" -> [n \in c.nodes |-> JNoWindow]
    [] IsHandle(e) ->
         LET n == e.node
             m == Copy(IdOf(e.m), e.m.from, n)
             W1 == CASE e.op = "deliver" -> ReceiveStep(W[n], n, c.peers[n], n \in c.joined, m).W
                     [] e.op = "begin"   -> [W[n] EXCEPT !.recv = @ \cup {m.id}]
                     [] e.op = "finish"  -> FinishStep(W[n], n, c.peers[n], m).W
         IN [W EXCEPT ![n] = [W1 EXCEPT !.dlv = @ \cup ToSet(NotifiedIds(e))]]
    [] e.op = "originate" /\ e.sent # <<>> ->
         [W EXCEPT ![e.n] = [@ EXCEPT !.fwd = @ \cup {IdOf(e.sent[1])}]]
    [] e.op = "expire" -> [W EXCEPT ![e.n] = JNoWindow]
    [] OTHER -> W

FDrift(c, e, W) ==
  IF IsHandle(e) /\ e.op = "deliver" THEN
     LET n == e.node
         r == ReceiveStep(W[n], n, c.peers[n], n \in c.joined, Copy(IdOf(e.m), e.m.from, n))
     IN    Clause("sent_copies_differ_from_model", r.out = SentCopies(e))
        \o Clause("notification_differs_from_model", r.notify = (e.notified # <<>>))
  ELSE IF IsHandle(e) /\ e.op = "begin" THEN
     LET n == e.node
         m == Copy(IdOf(e.m), e.m.from, n)
         r == BeginStep(W[n], n, n \in c.joined, m)
     IN    Clause("sent_copies_differ_from_model", SentCopies(e) = {})
        \o Clause("notification_differs_from_model", r.notify = (e.notified # <<>>))
        \* the handler is held up iff it goes on to forward and there is somebody to forward to
        \o Clause("handler_progress_differs_from_model",
                  e.blocked = (r.go /\ m.id \notin W[n].fwd /\ c.peers[n] \ {m.from} # {}))
  ELSE IF IsHandle(e) /\ e.op = "finish" THEN
     LET n == e.node
         r == FinishStep(W[n], n, c.peers[n], Copy(IdOf(e.m), e.m.from, n))
     IN    Clause("sent_copies_differ_from_model", r.out = SentCopies(e))
        \o Clause("notification_differs_from_model", e.notified = <<>>)
  ELSE IF e.op = "originate" THEN
     Clause("sent_copies_differ_from_model", {e.sent[i].to : i \in DOMAIN e.sent} = c.peers[e.n])
  ELSE IF e.op = "miss" THEN <<"scheduled_copy_was_not_in_the_queue">>
  ELSE IF e.op = "reset" THEN
     Clause("group_peers_differ_from_overlay",
            \A n \in c.nodes : c.peers[n] = {v \in c.nodes : v # n /\ {n, v} \in c.lk})
  ELSE <<>>

\* ---------------------------------------------------------------- step
TInit == /\ l = 1 /\ kind = "none" /\ mg = <<>> /\ mann = <<>> /\ wn = <<>> /\ fcfg = NoFCfg /\ bad = <<>> /\ notes = <<>>
         /\ MIdle /\ FIdle

TStep == /\ l <= NEvents
         /\ LET e == Trace[l]
                isM == e.kind = "member"
                mp == IF isM THEN MPost(e, mg, mann) ELSE [G |-> mg, A |-> mann]
                c == IF ~isM /\ e.op = "reset" THEN FCfg(e) ELSE fcfg
                cs == IF isM THEN MVerdict(e) ELSE FVerdict(c, e, wn)
                dr == IF isM THEN (IF e.op = "reset" THEN <<>> ELSE MDrift(e, mg, mp)) ELSE FDrift(c, e, wn)
            IN /\ l' = l + 1
               /\ kind' = e.kind
               /\ bad' = IF cs = <<>> THEN bad ELSE Append(bad, BadRec(l, e, cs))
               /\ notes' = IF dr = <<>> \/ Len(notes) >= 20 THEN notes ELSE Append(notes, BadRec(l, e, dr))
               /\ mg' = IF isM THEN (IF dr = <<>> /\ e.op # "prune" THEN mp.G ELSE ObsGroups(e)) ELSE mg
               /\ mann' = mp.A
               /\ fcfg' = c
               /\ wn' = IF isM THEN wn ELSE FPostW(c, e, wn)
         /\ UNCHANGED <<mvars, fvars>>

TSpec == TInit /\ [][TStep]_<<mvars, fvars, l, kind, mg, mann, wn, fcfg, bad, notes>>

Report == ReportBad(l, bad, notes)
=============================================================================
