SPECIFICATION GLSpec
CONSTANTS
  Peer = {}
  Group = {}
  MaxKnown = 0
  HsDirs = {}
  FNode <- F3
  Overlays <- Tri3
  Joined <- AllJoined
  MaxMsgs = 1
  MaxWindows = 0
  MaxFLoss = 0
  Split <- Yes
VIEW FEdgeView
INVARIANT EmitFAll
CHECK_DEADLOCK FALSE
