------------------------------ MODULE Multicast ------------------------------
(* pkg/multicast: group membership of one node (group.go, handshake.go,       *)
(* kademlia.go:onNotify, peer-state events) and flooding of multicast         *)
(* messages between several nodes (kademlia.go:Multicast/onMulticast).        *)
(* Property C38.                                                              *)
(*                                                                            *)
(* Part I  - membership: per group three lists connected / kept / known; the  *)
(*           transitions Group.add, Group.remove, Group.pruneKnown and the    *)
(*           entry points that reach them.                                    *)
(* Part II - flooding: nodes with a group overlay, per node the two           *)
(*           de-duplication caches (received / forwarded, one-minute window), *)
(*           a bag of message copies.  A receive handler is one step          *)
(*           (OnMulticast) or, with Split, two: Begin (claim the message,     *)
(*           hand it to the subscribers) and Finish (forward), so that the    *)
(*           handlers of two copies at one node overlap.                      *)
(* The pure operators are shared with the judge.                              *)
EXTENDS Integers, Sequences, FiniteSets, TLC

(***************************************************************************)
(* Part I: membership                                                      *)
(***************************************************************************)
\* a group as one node sees it
NoGroup == [ex |-> FALSE, conn |-> {}, kept |-> {}, known |-> {}]
NewGroup == [NoGroup EXCEPT !.ex = TRUE]

\* Group.add(p, keep); isnbr = the route table says p is a direct neighbour
AddIn(g, p, keep, isnbr) ==
  IF ~keep      THEN [ex |-> TRUE, conn |-> g.conn \ {p},    kept |-> g.kept \ {p},    known |-> g.known \cup {p}]
  ELSE IF isnbr THEN [ex |-> TRUE, conn |-> g.conn \cup {p}, kept |-> g.kept \ {p},    known |-> g.known \ {p}]
  ELSE               [ex |-> TRUE, conn |-> g.conn \ {p},    kept |-> g.kept \cup {p}, known |-> g.known \ {p}]

\* Group.remove(p, intoKnown)
RemoveIn(g, p, into) ==
  LET was == p \in g.conn \cup g.kept
  IN [ex |-> TRUE, conn |-> g.conn \ {p}, kept |-> g.kept \ {p},
      known |-> IF p \in g.known THEN (IF into THEN g.known ELSE g.known \ {p})
                ELSE IF into /\ was THEN g.known \cup {p} ELSE g.known]

\* Group.pruneKnown: the known list is cut down to maxKnown, nothing else moves
PruneOK(pre, post, maxKnown) ==
  /\ post.conn = pre.conn /\ post.kept = pre.kept
  /\ post.known \subseteq pre.known
  /\ Cardinality(post.known) = (IF Cardinality(pre.known) > maxKnown THEN maxKnown ELSE Cardinality(pre.known))

\* updatePeerGroupsJoin(p, gids): p's handshake says it has joined exactly gids
\*   G : group id -> group ;  old : the groups p had announced before
HandshakeIn(G, old, p, gids, isnbr) ==
  [g \in DOMAIN G |-> IF g \in gids THEN AddIn(IF g \in old \ gids THEN RemoveIn(G[g], p, FALSE) ELSE G[g], p, TRUE, isnbr)
                      ELSE IF g \in old THEN RemoveIn(G[g], p, FALSE)
                      ELSE G[g]]

\* onNotify(p, join/leave, gids)
NotifyIn(G, p, join, gids, isnbr) ==
  [g \in DOMAIN G |-> IF g \notin gids THEN G[g]
                      ELSE IF join THEN AddIn(G[g], p, TRUE, isnbr) ELSE RemoveIn(G[g], p, FALSE)]

\* peer-state event "disconnected": remove(p, intoKnown) in every group the node holds
DisconnectIn(G, p) == [g \in DOMAIN G |-> IF G[g].ex THEN RemoveIn(G[g], p, TRUE) ELSE G[g]]

\* the property, as predicates over one group's observed lists
ListsDisjoint(conn, kept, known) == conn \cap kept = {} /\ conn \cap known = {} /\ kept \cap known = {}
\* (nbrs: the current neighbours plus those whose disconnect notification has not been handled yet)
ConnectedAreNeighbours(conn, nbrs) == conn \subseteq nbrs

CONSTANTS Peer,       \* the other nodes, as seen from the node under consideration
          Group,      \* group ids
          MaxKnown,   \* prune threshold of the known list (maxKnownPeers)
          HsDirs      \* handshake directions distinguished ("in": HandshakeIncoming, "out": Handshake); same transition

VARIABLES nbr,        \* direct neighbours (what the route table answers to IsNeighbor)
          pend,       \* peers that stopped being neighbours and whose "disconnected" peer-state event is still queued
          grp,        \* Group -> group
          ann,        \* Peer -> groups announced in the peer's last handshake (peerGroups)
          mlast
mvars == <<nbr, pend, grp, ann, mlast>>

MInit == /\ nbr = {} /\ pend = {} /\ grp = [g \in Group |-> NoGroup] /\ ann = [p \in Peer |-> {}]
         /\ mlast = [op |-> "init"]

Connect(p) == /\ p \notin nbr /\ nbr' = nbr \cup {p} /\ UNCHANGED <<pend, grp, ann>>
              /\ mlast' = [op |-> "connect", p |-> p]

\* the neighbour goes away: the route table says so at once, the peer-state event is only queued ...
NbrDown(p) == /\ p \in nbr /\ nbr' = nbr \ {p} /\ pend' = pend \cup {p} /\ UNCHANGED <<grp, ann>>
              /\ mlast' = [op |-> "nbrdown", p |-> p]
\* ... and handled later (any other step may come in between)
DisconnectEvent(p) == /\ p \in pend /\ pend' = pend \ {p} /\ grp' = DisconnectIn(grp, p) /\ UNCHANGED <<nbr, ann>>
                      /\ mlast' = [op |-> "event", p |-> p]

Notify(p, join, gs) == /\ grp' = NotifyIn(grp, p, join, gs, p \in nbr) /\ UNCHANGED <<nbr, pend, ann>>
                       /\ mlast' = [op |-> "notify", p |-> p, join |-> join, gs |-> gs]

\* a handshake with p in either direction (dir = "in": HandshakeIncoming, "out": Handshake)
Handshake(p, gs, dir) == /\ grp' = HandshakeIn(grp, ann[p], p, gs, p \in nbr)
                         /\ ann' = [ann EXCEPT ![p] = gs] /\ UNCHANGED <<nbr, pend>>
                         /\ mlast' = [op |-> "handshake", p |-> p, gs |-> gs, dir |-> dir]

\* the bare transitions (reached by configuration, discovery, failed keep-alive handshakes)
Add(g, p, keep) == /\ grp' = [grp EXCEPT ![g] = AddIn(@, p, keep, p \in nbr)] /\ UNCHANGED <<nbr, pend, ann>>
                   /\ mlast' = [op |-> "add", g |-> g, p |-> p, keep |-> keep]
Remove(g, p, into) == /\ grp' = [grp EXCEPT ![g] = RemoveIn(@, p, into)] /\ UNCHANGED <<nbr, pend, ann>>
                      /\ mlast' = [op |-> "remove", g |-> g, p |-> p, into |-> into]
Prune(g) == /\ grp[g].ex
            /\ \E K \in SUBSET grp[g].known :
                  /\ PruneOK(grp[g], [grp[g] EXCEPT !.known = K], MaxKnown)
                  /\ grp' = [grp EXCEPT ![g].known = K]
            /\ UNCHANGED <<nbr, pend, ann>>
            /\ mlast' = [op |-> "prune", g |-> g]

MNext == \/ \E p \in Peer : Connect(p) \/ NbrDown(p) \/ DisconnectEvent(p)
         \/ \E p \in Peer, gs \in SUBSET Group, j \in BOOLEAN : gs # {} /\ Notify(p, j, gs)
         \/ \E p \in Peer, gs \in SUBSET Group, d \in HsDirs : Handshake(p, gs, d)
         \/ \E g \in Group, p \in Peer, b \in BOOLEAN : Add(g, p, b) \/ Remove(g, p, b)
         \/ \E g \in Group : Prune(g)


\* C38, first sentence
MembershipOK == \A g \in Group : /\ ListsDisjoint(grp[g].conn, grp[g].kept, grp[g].known)
                                 /\ ConnectedAreNeighbours(grp[g].conn, nbr \cup pend)
KnownBounded == [][mlast'.op = "prune" => Cardinality(grp'[mlast'.g].known) <= MaxKnown]_mvars

(***************************************************************************)
(* Part II: flooding                                                       *)
(***************************************************************************)
\* a message copy in flight; id = <<origin, serial>>
Copy(id, f, t) == [id |-> id, from |-> f, to |-> t]

\* node-local state W = [recv, fwd] : ids seen by onMulticast / by Multicast in the current window
NoWindow == [recv |-> {}, fwd |-> {}]

\* Multicast(info, skip): forward once per window
ForwardStep(W, n, peers, id, skip) ==
  IF id \in W.fwd THEN [W |-> W, out |-> {}]
  ELSE [W |-> [W EXCEPT !.fwd = @ \cup {id}], out |-> {Copy(id, n, v) : v \in peers \ skip}]

\* onMulticast(copy): returns [W, out, notify]; notify = the subscribers of n get the message
ReceiveStep(W, n, peers, joined, m) ==
  IF m.id \in W.recv THEN [W |-> W, out |-> {}, notify |-> FALSE]
  ELSE LET W1 == [W EXCEPT !.recv = @ \cup {m.id}]
       IN IF m.id[1] = n THEN [W |-> W1, out |-> {}, notify |-> FALSE]
          ELSE LET r == ForwardStep(W1, n, peers, m.id, {m.from})
               IN [W |-> r.W, out |-> r.out, notify |-> joined]

CONSTANTS FNode,        \* nodes
          Overlays,     \* group overlays explored: sets of links {a,b} (who lists whom as connected/kept peer)
          Joined,       \* sets of nodes that have joined the group (the others only know / observe it)
          MaxMsgs,      \* originated messages per behaviour
          MaxWindows,   \* window expiries per behaviour
          MaxFLoss      \* lost copies per behaviour

VARIABLES olinks, members, win, fnet, act, dcount, fcount, norig, nwin, nfloss, fsent, flast
\* act : node -> the copies whose receive handler has begun and not finished (it is about to forward)
fvars == <<olinks, members, win, fnet, act, dcount, fcount, norig, nwin, nfloss, fsent, flast>>

\* Split: receive handlers take two steps (Begin / Finish) instead of one; a configuration overrides it (Split <- Yes)
Split == FALSE
\* ClaimFirst: the handler marks the message as received in the step in which it looks whether it has been received
\* (the design).  FALSE = check first, mark when the handler finishes: only to show what the split steps can tell apart
ClaimFirst == TRUE
Yes == TRUE
No == FALSE

PeersOf(lk, n) == {v \in FNode : v # n /\ {n, v} \in lk}

FBagAdd(b, m) == IF m \in DOMAIN b THEN [b EXCEPT ![m] = @ + 1] ELSE (m :> 1) @@ b
RECURSIVE FBagAddAll(_, _)
FBagAddAll(b, ms) == IF ms = {} THEN b ELSE LET m == CHOOSE x \in ms : TRUE IN FBagAddAll(FBagAdd(b, m), ms \ {m})
FBagRemove(b, m) == IF b[m] = 1 THEN [x \in (DOMAIN b) \ {m} |-> b[x]] ELSE [b EXCEPT ![m] = @ - 1]

Ids == FNode \X (1..MaxMsgs)
Zero == [n \in FNode |-> [i \in Ids |-> 0]]

FIdle == /\ olinks = {} /\ members = {} /\ win = <<>> /\ fnet = <<>> /\ act = <<>> /\ dcount = <<>> /\ fcount = <<>>
         /\ norig = <<>> /\ nwin = 0 /\ nfloss = 0 /\ fsent = 0 /\ flast = [op |-> "idle"]
\* membership specification (the flooding variables stay idle)
MSpec == MInit /\ FIdle /\ [][MNext /\ UNCHANGED fvars]_<<mvars, fvars>>

FInit == /\ olinks \in Overlays /\ members \in Joined
         /\ win = [n \in FNode |-> NoWindow] /\ fnet = <<>> /\ act = [n \in FNode |-> {}]
         /\ dcount = Zero /\ fcount = Zero
         /\ norig = [n \in FNode |-> 0] /\ nwin = 0 /\ nfloss = 0 /\ fsent = 0
         /\ flast = [op |-> "init"]

RECURSIVE SumOver(_, _)
SumOver(f, S) == IF S = {} THEN 0 ELSE LET x == CHOOSE y \in S : TRUE IN f[x] + SumOver(f, S \ {x})
TotalOrig == SumOver(norig, FNode)

Originate(n) ==
  /\ TotalOrig < MaxMsgs
  /\ LET id == <<n, norig[n] + 1>>
         r == ForwardStep(win[n], n, PeersOf(olinks, n), id, {})
     IN /\ win' = [win EXCEPT ![n] = r.W]
        /\ fnet' = FBagAddAll(fnet, r.out)
        /\ fsent' = fsent + Cardinality(r.out)
        /\ fcount' = [fcount EXCEPT ![n][id] = @ + 1]
        /\ flast' = [op |-> "originate", n |-> n, id |-> id]
  /\ norig' = [norig EXCEPT ![n] = @ + 1]
  /\ UNCHANGED <<olinks, members, act, dcount, nwin, nfloss>>

OnMulticast(m) ==
  /\ LET n == m.to
         r == ReceiveStep(win[n], n, PeersOf(olinks, n), n \in members, m)
         forwarded == m.id \notin win[n].recv /\ m.id[1] # n /\ m.id \notin win[n].fwd
     IN /\ win' = [win EXCEPT ![n] = r.W]
        /\ fnet' = FBagAddAll(FBagRemove(fnet, m), r.out)
        /\ fsent' = fsent + Cardinality(r.out)
        /\ dcount' = IF r.notify THEN [dcount EXCEPT ![n][m.id] = @ + 1] ELSE dcount
        /\ fcount' = IF forwarded THEN [fcount EXCEPT ![n][m.id] = @ + 1] ELSE fcount
        /\ flast' = [op |-> "deliver", m |-> m, out |-> r.out]
  /\ UNCHANGED <<olinks, members, act, norig, nwin, nfloss>>

FDeliver == ~Split /\ \E m \in DOMAIN fnet : OnMulticast(m)

\* the same handler in two steps.  Begin: look whether the message has been received in this window (and claim it);
\* a new message of another origin is handed to the subscribers and the handler goes on to forward it ...
BeginStep(W, n, joined, m) ==
  IF m.id \in W.recv THEN [W |-> W, go |-> FALSE, notify |-> FALSE]
  ELSE LET W1 == IF ClaimFirst THEN [W EXCEPT !.recv = @ \cup {m.id}] ELSE W
       IN IF m.id[1] = n THEN [W |-> [W EXCEPT !.recv = @ \cup {m.id}], go |-> FALSE, notify |-> FALSE]
          ELSE [W |-> W1, go |-> TRUE, notify |-> joined]
OnBegin(m) ==
  /\ LET n == m.to
         r == BeginStep(win[n], n, n \in members, m)
     IN /\ win' = [win EXCEPT ![n] = r.W]
        /\ fnet' = FBagRemove(fnet, m)
        /\ act' = IF r.go THEN [act EXCEPT ![n] = @ \cup {m}] ELSE act
        /\ dcount' = IF r.notify THEN [dcount EXCEPT ![n][m.id] = @ + 1] ELSE dcount
        /\ flast' = [op |-> "begin", m |-> m, out |-> {}]
  /\ UNCHANGED <<olinks, members, fcount, norig, nwin, nfloss, fsent>>
\* ... Finish: Multicast(info, skip sender), i.e. forward unless forwarded in this window
FinishStep(W, n, peers, m) ==
  LET r == ForwardStep(W, n, peers, m.id, {m.from})
  IN [W |-> [r.W EXCEPT !.recv = @ \cup {m.id}], out |-> r.out]
OnFinish(m) ==
  /\ LET n == m.to
         r == FinishStep(win[n], n, PeersOf(olinks, n), m)
     IN /\ win' = [win EXCEPT ![n] = r.W]
        /\ fnet' = FBagAddAll(fnet, r.out)
        /\ act' = [act EXCEPT ![n] = @ \ {m}]
        /\ fsent' = fsent + Cardinality(r.out)
        /\ fcount' = IF m.id \notin win[n].fwd THEN [fcount EXCEPT ![n][m.id] = @ + 1] ELSE fcount
        /\ flast' = [op |-> "finish", m |-> m, out |-> r.out]
  /\ UNCHANGED <<olinks, members, dcount, norig, nwin, nfloss>>
FBegin  == Split /\ \E m \in DOMAIN fnet : m \notin act[m.to] /\ OnBegin(m)
FFinish == Split /\ \E n \in FNode : \E m \in act[n] : OnFinish(m)
FHandle == FDeliver \/ FBegin \/ FFinish

FLose == /\ nfloss < MaxFLoss
         /\ \E m \in DOMAIN fnet : /\ fnet' = FBagRemove(fnet, m)
                                   /\ flast' = [op |-> "lose", m |-> m]
         /\ nfloss' = nfloss + 1
         /\ UNCHANGED <<olinks, members, win, act, dcount, fcount, norig, nwin, fsent>>

\* the one-minute window of node n is over: both caches forget everything
WindowExpire(n) ==
  /\ nwin < MaxWindows
  /\ win[n] # NoWindow
  /\ win' = [win EXCEPT ![n] = NoWindow]
  /\ dcount' = [dcount EXCEPT ![n] = [i \in Ids |-> 0]]
  /\ fcount' = [fcount EXCEPT ![n] = [i \in Ids |-> 0]]
  /\ nwin' = nwin + 1
  /\ flast' = [op |-> "expire", n |-> n]
  /\ UNCHANGED <<olinks, members, fnet, act, norig, nfloss, fsent>>

FNext == \/ \E n \in FNode : Originate(n) \/ WindowExpire(n)
         \/ FHandle
         \/ FLose

MIdle == nbr = {} /\ pend = {} /\ grp = <<>> /\ ann = <<>> /\ mlast = [op |-> "idle"]
FSpec == FInit /\ MIdle /\ [][FNext /\ UNCHANGED mvars]_<<mvars, fvars>>
FFairSpec == FSpec /\ WF_<<mvars, fvars>>(FHandle /\ UNCHANGED mvars)

\* C38, second sentence
DeliveredAtMostOncePerWindow == \A n \in FNode : \A i \in Ids : dcount[n][i] <= 1
ForwardedAtMostOncePerWindow == \A n \in FNode : \A i \in Ids : fcount[n][i] <= 1
OriginNeverNotified == \A n \in FNode : \A i \in Ids : i[1] = n => dcount[n][i] = 0
NotBackToSender == [][flast'.op \in {"deliver", "finish"} => \A c \in flast'.out : c.to # flast'.m.from /\ c.to # c.from]_fvars

\* every node forwards an id at most once per window, to each of its peers at most once:
\* at most (1 + expiries) rounds of at most 2 * |links| copies per message
FloodBound(msgs, windows, nlinks) == msgs * (1 + windows) * 2 * nlinks
FloodBounded == fsent <= FloodBound(MaxMsgs, MaxWindows, Cardinality(olinks))
FloodQuiesces == <>[](fnet = <<>> /\ \A n \in FNode : act[n] = {})
=============================================================================
