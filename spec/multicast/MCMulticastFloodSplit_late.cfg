SPECIFICATION FFairSpec
CONSTANTS
  Peer = {}
  Group = {}
  MaxKnown = 0
  HsDirs = {}
  FNode <- F3
  Overlays <- AllOverlays
  Joined <- AnyJoined
  MaxMsgs = 1
  MaxWindows = 0
  MaxFLoss = 0
  Split <- Yes
  ClaimFirst <- No
VIEW FView
INVARIANTS DeliveredAtMostOncePerWindow ForwardedAtMostOncePerWindow OriginNeverNotified FloodBounded
PROPERTIES NotBackToSender FloodQuiesces
CHECK_DEADLOCK FALSE
