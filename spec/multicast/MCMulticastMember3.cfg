SPECIFICATION MSpec
CONSTANTS
  Peer <- P3
  Group <- G2
  MaxKnown = 2
  FNode = {}
  Overlays = {}
  Joined = {}
  MaxMsgs = 0
  MaxWindows = 0
  MaxFLoss = 0
VIEW MView
INVARIANT MembershipOK
PROPERTY KnownBounded
CHECK_DEADLOCK FALSE
