SPECIFICATION MSpec
CONSTANTS
  Peer <- P3
  Group <- G1
  MaxKnown = 2
  HsDirs = {"in"}
  FNode = {}
  Overlays = {}
  Joined = {}
  MaxMsgs = 0
  MaxWindows = 0
  MaxFLoss = 0
VIEW MView
INVARIANT MembershipOK
PROPERTY KnownBounded
CHECK_DEADLOCK FALSE
