SPECIFICATION DSpec
CONSTANTS
  Peers <- MCPeers3
  T = 3
  MaxSeq = 100000
INVARIANT EmitFullDet
CHECK_DEADLOCK FALSE
