------------------------------ MODULE BlockerGen ------------------------------
(* Scenario generators for C26.                                                  *)
(*  det: Blocker's own actions; the driver advances the sequence and runs the    *)
(*       sweeps through hooks (sequencer resolution = a day, nothing fires by    *)
(*       itself).  "adv" stands for ticks counted while the network is available *)
(*       and is only generated then (the clock is the environment here).         *)
(*  rt:  the real sequencer and wake-up goroutines run (resolution of a few ms); *)
(*       "wait k" sleeps k resolutions, "await p" waits for p's blocklisting.    *)
(*       The model state only steers the generation (which peer is flagged).     *)
EXTENDS Blocker, TLC, Json, IOUtils
VARIABLES ops, dirty, alt, pre

MCPeers == {1, 2}
MCPeers1 == {1}
MCPeers3 == {1, 2, 3}

Depth == IF "VERIF_DEPTH" \in DOMAIN IOEnv THEN atoi(IOEnv.VERIF_DEPTH) ELSE 6

SetToSeq(S) == LET n == Cardinality(S)
                   f == CHOOSE g \in [1..n -> S] : \A i, j \in 1..n : i < j => g[i] < g[j]
               IN [i \in 1..n |-> f[i]]

---------------------------------------------------------------------------
\* Ghost used only to steer the edge cover: alt[p] is a deadline a faulty implementation might hold
\* for p instead of fl[p] -- the one just cancelled by Unflag/Prune or consumed by a blocklisting, or
\* the one an ignored Flag (peer already flagged, network unavailable) would have set -- together
\* with the reason, so that the continuations after an Unflag and after a Prune are both kept.  With alt in
\* the VIEW the cover contains, for each such leftover, the continuations in which it would fire.
NoAlt == [d |-> 0, why |-> ""]
GhostPeers == IF Cardinality(Peers) > 1 THEN {1} ELSE Peers    \* peers are symmetric: one carries the ghost
AltNext ==
  alt' = [p \in Peers |->
            CASE p \notin GhostPeers -> NoAlt
              [] res'.op = "flag" /\ res'.p = p /\ fl'[p] = fl[p]            -> [d |-> seq + T, why |-> "ignored"]
              [] res'.op \in {"unflag", "prune"} /\ fl[p] # 0 /\ fl'[p] = 0 -> [d |-> fl[p], why |-> res'.op]
              [] res'.op = "sweep" /\ p \in cbs'                             -> [d |-> fl[p], why |-> "consumed"]
              [] res'.op = "sweep" /\ alt[p].d # 0 /\ alt[p].d < seq         -> NoAlt      \* would have fired
              [] OTHER                                                      -> alt[p]]

---------------------------------------------------------------------------
\* deterministic mode
Adv(n) == /\ net = "up" /\ seq + n <= MaxSeq
          /\ seq' = seq + n
          /\ cbs' = {} /\ res' = [op |-> "adv", n |-> n]
          /\ UNCHANGED <<net, fl, fseq>>

DetNext == \/ \E n \in {1, 2} : Adv(n)
           \/ \E s \in NetStates : s # net /\ SetNet(s)
           \/ \E p \in Peers : Flag(p) \/ Unflag(p)
           \/ \E S \in SUBSET Peers : Prune(S)
           \/ Sweep

DetOp(r) == IF r.op = "prune" THEN [op |-> "prune", seen |-> SetToSeq(r.seen)] ELSE r

\* `pre` is the state the last call started from: with it in the VIEW the cover has one history per
\* (source state, call) edge -- not merely per (target state, call), which would drop e.g. every
\* Unflag of a flagged peer in favour of the shorter Unflag of a peer that was never flagged
DInit == Init /\ ops = <<>> /\ dirty = {} /\ alt = [p \in Peers |-> NoAlt] /\ pre = <<>>
DNext == /\ Len(ops) < Depth
         /\ DetNext
         /\ AltNext
         /\ pre' = <<seq, net, fl, alt>>
         /\ ops' = Append(ops, DetOp(res'))
         /\ UNCHANGED dirty
DSpec == DInit /\ [][DNext]_<<vars, ops, dirty, alt, pre>>

DetView == <<seq, net, fl, alt, pre, res>>
DetPar == [mode |-> "det", T |-> T]

---------------------------------------------------------------------------
\* real-time mode.  A peer is flagged only when it is certainly not flagged (never flagged, or
\* unflagged/pruned since): whether the background sweep already took it is not known here.
RFlag(p) == /\ p \notin dirty
            /\ Flag(p) /\ dirty' = dirty \cup {p}
RUnflag(p) == Unflag(p) /\ dirty' = dirty \ {p}
RPrune(S) == Prune(S) /\ dirty' = dirty \cap S
RNet(s) == s # net /\ SetNet(s) /\ UNCHANGED dirty

\* the background sweep is assumed to have taken what is overdue after a wait
Swept(f, s) == [p \in Peers |-> IF p \in Overdue(f, s) THEN 0 ELSE f[p]]

Wait(k) == /\ seq + k <= MaxSeq
           /\ seq' = IF net = "up" THEN seq + k ELSE seq
           /\ fl' = Swept(fl, seq') /\ fseq' = [p \in Peers |-> IF fl'[p] = 0 THEN -1 ELSE fseq[p]]
           /\ cbs' = {} /\ res' = [op |-> "wait", k |-> k]
           /\ UNCHANGED <<net, dirty>>

Await(p) == /\ net = "up" /\ fl[p] # 0 /\ fl[p] + 1 <= MaxSeq
            /\ seq' = IF seq > fl[p] THEN seq ELSE fl[p] + 1
            /\ fl' = Swept(fl, seq') /\ fseq' = [q \in Peers |-> IF fl'[q] = 0 THEN -1 ELSE fseq[q]]
            /\ cbs' = {} /\ res' = [op |-> "await", p |-> p]
            /\ UNCHANGED <<net, dirty>>

RtNext == \/ \E k \in {2, 5} : Wait(k)
          \/ \E s \in NetStates : RNet(s)
          \/ \E p \in Peers : RFlag(p) \/ RUnflag(p) \/ Await(p)
          \/ \E S \in SUBSET Peers : RPrune(S)
          \/ (Sweep /\ UNCHANGED dirty)

RInit == Init /\ ops = <<>> /\ dirty = {} /\ alt = [p \in Peers |-> NoAlt] /\ pre = <<>>
RNext == /\ Len(ops) < Depth
         /\ RtNext
         /\ ops' = Append(ops, DetOp(res'))
         /\ pre' = <<seq, net, fl, dirty>>
         /\ UNCHANGED alt
RSpec == RInit /\ [][RNext]_<<vars, ops, dirty, alt, pre>>

RtView == <<seq, net, fl, dirty, pre, res>>
RtPar == [mode |-> "rt", T |-> T]

---------------------------------------------------------------------------
EmitAllDet  == ops # <<>> => PrintT(<<"SCN", ToJson([par |-> DetPar, ops |-> ops])>>)
EmitFullDet == Len(ops) = Depth => PrintT(<<"SCN", ToJson([par |-> DetPar, ops |-> ops])>>)
EmitAllRt   == ops # <<>> => PrintT(<<"SCN", ToJson([par |-> RtPar, ops |-> ops])>>)
EmitFullRt  == Len(ops) = Depth => PrintT(<<"SCN", ToJson([par |-> RtPar, ops |-> ops])>>)
=============================================================================
