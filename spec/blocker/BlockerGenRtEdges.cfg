SPECIFICATION RSpec
CONSTANTS
  Peers <- MCPeers
  T = 3
  MaxSeq = 12
VIEW RtView
INVARIANT EmitAllRt
CHECK_DEADLOCK FALSE
