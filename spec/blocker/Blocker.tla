-------------------------------- MODULE Blocker --------------------------------
(* pkg/blocker: peers that fail health checks are flagged; a monotonic sequence   *)
(* counts sequencer ticks, but only while the network is available; a sweep       *)
(* blocklists every peer whose flag is older than the flag timeout (T ticks).     *)
(* Property C26.                                                                  *)
(*                                                                                *)
(* One action per critical section: the sequencer tick, Flag, Unflag, PruneUnseen,*)
(* the sweep (block), and the environment changing the network status.            *)
EXTENDS Integers, Sequences, FiniteSets

CONSTANTS Peers,     \* finite set of peers
          T,         \* flag timeout in ticks (flagTimeout / sequencerResolution), >= 2
          MaxSeq     \* bound on the sequence (design check / generator only)

VARIABLES seq,       \* the monotonic sequence
          net,       \* network status: "up" (available), "down" (unavailable), "unk" (unknown)
          fl,        \* Peers -> 0 (not flagged) or blockAfter = sequence at flag time + T
          fseq,      \* history: Peers -> sequence at which the current flag period began (-1: none)
          cbs,       \* the peers blocklisted by the last action (non-empty only after a sweep)
          res        \* last action

vars == <<seq, net, fl, fseq, cbs, res>>

NetStates == {"up", "down", "unk"}

\* pure pieces shared with the generator / judge
Overdue(f, s) == {p \in Peers : 0 < f[p] /\ f[p] < s}        \* "0 < blockAfter && blockAfter < sequence"

Init == /\ seq = 0 /\ net = "up"
        /\ fl = [p \in Peers |-> 0]
        /\ fseq = [p \in Peers |-> -1]
        /\ cbs = {}
        /\ res = [op |-> "init"]

\* the sequencer goroutine: one tick; counts only while the network is available
Tick == /\ seq < MaxSeq
        /\ seq' = IF net = "up" THEN seq + 1 ELSE seq
        /\ cbs' = {} /\ res' = [op |-> "tick"]
        /\ UNCHANGED <<net, fl, fseq>>

SetNet(s) == /\ net' = s /\ cbs' = {} /\ res' = [op |-> "net", s |-> s]
             /\ UNCHANGED <<seq, fl, fseq>>

\* Flag: ignored while the network is not available, and for a peer already flagged
Flag(p) == /\ IF net = "up" /\ fl[p] = 0
              THEN fl' = [fl EXCEPT ![p] = seq + T] /\ fseq' = [fseq EXCEPT ![p] = seq]
              ELSE UNCHANGED <<fl, fseq>>
           /\ cbs' = {} /\ res' = [op |-> "flag", p |-> p]
           /\ UNCHANGED <<seq, net>>

Unflag(p) == /\ fl' = [fl EXCEPT ![p] = 0] /\ fseq' = [fseq EXCEPT ![p] = -1]
             /\ cbs' = {} /\ res' = [op |-> "unflag", p |-> p]
             /\ UNCHANGED <<seq, net>>

Prune(seen) == /\ fl' = [p \in Peers |-> IF p \in seen THEN fl[p] ELSE 0]
               /\ fseq' = [p \in Peers |-> IF p \in seen THEN fseq[p] ELSE -1]
               /\ cbs' = {} /\ res' = [op |-> "prune", seen |-> seen]
               /\ UNCHANGED <<seq, net>>

\* block(): every overdue peer is blocklisted (callback) and forgotten
Sweep == /\ cbs' = Overdue(fl, seq)
         /\ fl' = [p \in Peers |-> IF p \in Overdue(fl, seq) THEN 0 ELSE fl[p]]
         /\ fseq' = [p \in Peers |-> IF p \in Overdue(fl, seq) THEN -1 ELSE fseq[p]]
         /\ res' = [op |-> "sweep"]
         /\ UNCHANGED <<seq, net>>

Next == \/ Tick
        \/ \E s \in NetStates : SetNet(s)
        \/ \E p \in Peers : Flag(p) \/ Unflag(p)
        \/ \E S \in SUBSET Peers : Prune(S)
        \/ Sweep

Spec == Init /\ [][Next]_vars

(***************************************************************************)
(* Properties.                                                             *)
(***************************************************************************)
TypeOK == /\ seq \in 0..MaxSeq /\ net \in NetStates
          /\ \A p \in Peers : (fl[p] = 0 /\ fseq[p] = -1) \/ (fseq[p] >= 0 /\ fl[p] = fseq[p] + T)

\* a blocklisting happens only in a flag period older than the timeout: the peer was flagged at
\* fseq, no Unflag/Prune since (those reset fseq), and more than T ticks were counted since
OnlyAfterTimeout == [][\A p \in cbs' : fseq[p] >= 0 /\ seq > fseq[p] + T]_vars

\* at most one blocklisting per flag period: the period ends with the blocklisting
PeriodEnds == [][\A p \in cbs' : fl'[p] = 0 /\ fseq'[p] = -1]_vars

\* a sweep leaves no overdue peer behind (every peer flagged for longer than the timeout is blocklisted)
SweepComplete == res.op = "sweep" => Overdue(fl, seq) = {}

\* the sequence never moves while the network is not available, and never backwards
FrozenWhileDown == [][(net # "up" => seq' = seq) /\ seq' >= seq]_vars

\* ticks counted while flagged: the timeout is counted in available-network ticks only
\* (history-free formulation: a flagged peer's deadline never changes while it stays flagged)
DeadlineStable == [][\A p \in Peers : (fl[p] # 0 /\ fl'[p] # 0) => fl'[p] = fl[p]]_vars
=============================================================================
