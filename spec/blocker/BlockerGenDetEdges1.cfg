SPECIFICATION DSpec
CONSTANTS
  Peers <- MCPeers1
  T = 3
  MaxSeq = 9
VIEW DetView
INVARIANT EmitAllDet
CHECK_DEADLOCK FALSE
