SPECIFICATION DSpec
CONSTANTS
  Peers <- MCPeers1
  T = 3
  MaxSeq = 7
VIEW DetView
INVARIANT EmitAllDet
CHECK_DEADLOCK FALSE
