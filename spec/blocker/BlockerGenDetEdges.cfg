SPECIFICATION DSpec
CONSTANTS
  Peers <- MCPeers
  T = 3
  MaxSeq = 8
VIEW DetView
INVARIANT EmitAllDet
CHECK_DEADLOCK FALSE
