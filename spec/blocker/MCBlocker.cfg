SPECIFICATION Spec
CONSTANTS
  Peers <- MCPeers
  T = 3
  MaxSeq = 9
INVARIANTS TypeOK SweepComplete
PROPERTIES OnlyAfterTimeout PeriodEnds FrozenWhileDown DeadlineStable
