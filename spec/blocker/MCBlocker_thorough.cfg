SPECIFICATION Spec
CONSTANTS
  Peers <- MCPeers3
  T = 3
  MaxSeq = 12
INVARIANTS TypeOK SweepComplete
PROPERTIES OnlyAfterTimeout PeriodEnds FrozenWhileDown DeadlineStable
