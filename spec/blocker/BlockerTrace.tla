----------------------------- MODULE BlockerTrace -----------------------------
(* Judge for C26: replays what blockerdrv recorded from the real pkg/blocker.      *)
(* Monitor mode (see TraceKit), deterministic: every Blocklist call of the Blocker *)
(* is a logged "cb" event carrying the sequence value read at the call; the        *)
(* driver's own calls carry the sequence sampled before (s0) and after (s1).       *)
(*                                                                                 *)
(* The verdict is the statement over these observables, written as an envelope:    *)
(* per peer the judge keeps the flag period the statement talks about              *)
(*   k  = "none" (not flagged: never, or unflagged / pruned since)                 *)
(*        "flag" (in a flag period)   "done" (period consumed by a blocklisting)   *)
(*   lo = earliest sequence value at which the period can have begun               *)
(*   hi = latest such value if the peer *must* count as flagged (flagged while the *)
(*        network was available), -1 if it only *may* (flagged while unavailable:  *)
(*        the code ignores such a Flag; honouring it would also meet the statement)*)
(* In det mode s0 = s1, so lo = hi = the exact sequence at the Flag.               *)
EXTENDS Integers, Sequences, FiniteSets, TraceKit

Peers == {1, 2, 3}

VARIABLES l, mode, T, resus, net, ps, lastc, mech, bad, notes
vars == <<l, mode, T, resus, net, ps, lastc, mech, bad, notes>>

NoPeriod == [k |-> "none", lo |-> -1, hi |-> -1]
Consumed == [k |-> "done", lo |-> -1, hi |-> -1]

SetOf(t) == {t[i] : i \in DOMAIN t}

Owed(s, sq) == s.k = "flag" /\ s.hi >= 0 /\ s.hi + T < sq     \* must have been blocklisted by a sweep reading sq

(***************************************************************************)
(* verdict clauses                                                         *)
(***************************************************************************)
VerdictCb(e) ==
  IF e.p \notin Peers THEN <<"C26:never_blocklisted_after_success_or_prune">>
  ELSE LET s == ps[e.p] IN
          Clause("C26:blocklisted_only_after_flag_timeout", s.k = "flag" => e.sq > s.lo + T)
       \o Clause("C26:never_blocklisted_after_success_or_prune", s.k # "none")
       \o Clause("C26:at_most_one_blocklisting_per_flag_period", s.k # "done")

VerdictOp(e) ==
  CASE e.op = "sweep" ->
         Clause("C26:sweep_blocklists_every_overdue_peer", \A p \in Peers : ~Owed(ps[p], e.s0))
    [] e.op = "await" ->
         Clause("C26:blocklisted_once_flagged_longer_than_timeout",
                ~(ps[e.p].k = "flag" /\ ps[e.p].hi >= 0 /\ net = "up"))
    [] e.op = "wait" ->
            Clause("C26:sequence_frozen_while_network_unavailable", net # "up" => e.sw = e.s0)
         \o Clause("C26:sequence_counts_whole_resolution_ticks", (e.sw - e.s0) * resus <= e.el_us + resus)
    [] OTHER -> <<>>

(***************************************************************************)
(* the flag periods after an event                                         *)
(***************************************************************************)
PostFlag(e, s) ==
  IF s.k = "flag"
  THEN IF s.hi < 0 /\ e.net = "up" THEN [s EXCEPT !.hi = e.s1] ELSE s
  ELSE [k |-> "flag", lo |-> e.s0,
        hi |-> IF e.net = "up" /\ ~(lastc[e.p] > e.t0) THEN e.s1 ELSE -1]

PostPs(e) ==
  CASE e.op = "reset"  -> [p \in Peers |-> NoPeriod]
    [] e.op = "cb"     -> IF e.p \in Peers /\ ps[e.p].k = "flag" THEN [ps EXCEPT ![e.p] = Consumed] ELSE ps
    [] e.op = "flag"   -> [ps EXCEPT ![e.p] = PostFlag(e, ps[e.p])]
    [] e.op = "unflag" -> [ps EXCEPT ![e.p] = NoPeriod]
    [] e.op = "prune"  -> [p \in Peers |-> IF p \in SetOf(e.seen) THEN ps[p] ELSE NoPeriod]
    [] OTHER           -> ps

(***************************************************************************)
(* conformance notes (det mode only; never alarm, never touch `ps`): the   *)
(* flag table the code holds is the one the mechanism model (Blocker.tla:  *)
(* Flag ignored while unavailable or already flagged) predicts.  `mech` is *)
(* Peers -> 0 or blockAfter and is resynchronised to the projection.       *)
(***************************************************************************)
ObsMech(e) == [p \in Peers |->
                 LET J == {j \in DOMAIN e.st : e.st[j][1] = p}
                 IN IF J = {} THEN 0 ELSE e.st[CHOOSE j \in J : TRUE][2]]

PostMech(e) ==
  CASE e.op = "reset"  -> [p \in Peers |-> 0]
    [] e.op = "cb"     -> IF e.p \in Peers THEN [mech EXCEPT ![e.p] = 0] ELSE mech
    [] e.op = "flag"   -> IF e.net = "up" /\ mech[e.p] = 0 THEN [mech EXCEPT ![e.p] = e.s0 + T] ELSE mech
    [] e.op = "unflag" -> [mech EXCEPT ![e.p] = 0]
    [] e.op = "prune"  -> [p \in Peers |-> IF p \in SetOf(e.seen) THEN mech[p] ELSE 0]
    [] OTHER           -> mech

TInit == /\ l = 1 /\ mode = "det" /\ T = 2 /\ resus = 1 /\ net = "up"
         /\ ps = [p \in Peers |-> NoPeriod] /\ lastc = [p \in Peers |-> 0]
         /\ mech = [p \in Peers |-> 0]
         /\ bad = <<>> /\ notes = <<>>

TStep ==
  /\ l <= NEvents
  /\ LET e == Trace[l] IN
       /\ l' = l + 1
       /\ mode' = IF e.op = "reset" THEN e.mode ELSE mode
       /\ T' = IF e.op = "reset" THEN e.T ELSE T
       /\ resus' = IF e.op = "reset" THEN e.res_us ELSE resus
       /\ net' = CASE e.op = "reset" -> "up" [] e.op = "net" -> e.s [] OTHER -> net
       /\ lastc' = CASE e.op = "reset" -> [p \in Peers |-> 0]
                     [] e.op = "cb" /\ e.p \in Peers -> [lastc EXCEPT ![e.p] = e.c]
                     [] OTHER -> lastc
       /\ ps' = PostPs(e)
       /\ LET cs == IF e.op = "cb" THEN VerdictCb(e) ELSE IF e.op = "reset" THEN <<>> ELSE VerdictOp(e)
              pm == PostMech(e)
              drift == mode' = "det" /\ e.op # "cb" /\ pm # ObsMech(e)
          IN /\ bad' = IF cs = <<>> THEN bad ELSE Append(bad, BadRec(l, e, cs))
             /\ mech' = IF mode' = "det" /\ e.op # "cb" THEN ObsMech(e) ELSE pm
             /\ notes' = IF Len(notes) >= 20 THEN notes
                         ELSE IF drift
                         THEN Append(notes, [line |-> l, scn |-> e.scn, i |-> e.i, op |-> e.op,
                                             note |-> "flagged peers / deadlines differ from the Blocker model"])
                         ELSE IF mode' = "det" /\ e.op = "adv" /\ e.s1 # e.s0 + e.n
                         THEN Append(notes, [line |-> l, scn |-> e.scn, i |-> e.i, op |-> e.op,
                                             note |-> "hook advance did not add n"])
                         ELSE notes

TSpec == TInit /\ [][TStep]_vars

Report == ReportBad(l, bad, notes)
=============================================================================
