SPECIFICATION RSpec
CONSTANTS
  Peers <- MCPeers3
  T = 3
  MaxSeq = 100000
INVARIANT EmitFullRt
CHECK_DEADLOCK FALSE
