SPECIFICATION DSpec
CONSTANTS
  Peers <- MCPeers1
  T = 2
  MaxSeq = 5
VIEW DetView
INVARIANT EmitAllDet
CHECK_DEADLOCK FALSE
