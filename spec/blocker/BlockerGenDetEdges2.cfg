SPECIFICATION DSpec
CONSTANTS
  Peers <- MCPeers
  T = 2
  MaxSeq = 5
VIEW DetView
INVARIANT EmitAllDet
CHECK_DEADLOCK FALSE
