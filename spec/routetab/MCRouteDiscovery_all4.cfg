SPECIFICATION Spec
CONSTANTS
  Node <- N4
  Graphs <- AllConnected
  Alpha = 1
  MaxTTL = 4
  MaxFinds = 1
  MaxInjects = 0
  MaxExpires = 1
  MaxLosses = 1
  MaxLinkChanges = 0
  AsBuilt = FALSE
VIEW DesignView
INVARIANTS RecordedPathsOK InFlightPathsOK RelaySkipOK BoundedMessages
CHECK_DEADLOCK FALSE

