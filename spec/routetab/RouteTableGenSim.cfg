SPECIFICATION SSpec
CONSTANTS
  Node <- GNode
  Alpha = 2
  MaxTTL = 10
  PathU <- AllPaths
  PersistOnDelete = TRUE
INVARIANT EmitFull
CHECK_DEADLOCK FALSE
