SPECIFICATION RSpec
CONSTANTS
  Node <- N5
  Graphs <- Chain5
  Alpha = 2
  MaxTTL = 4
  MaxFinds = 1
  MaxInjects = 1
  MaxExpires = 0
  MaxLosses = 0
  MaxLinkChanges = 2
  AsBuilt = FALSE
VIEW EdgeView
INVARIANT EmitRelayDone
CHECK_DEADLOCK FALSE
