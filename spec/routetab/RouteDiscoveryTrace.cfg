SPECIFICATION TSpec
CONSTANTS
  Node <- TNodes
  Alpha = 2
  MaxTTL = 3
  AsBuilt = FALSE
  Graphs = {}
  MaxFinds = 0
  MaxInjects = 0
  MaxExpires = 0
  MaxLosses = 0
  MaxLinkChanges = 0
INVARIANT Report
POSTCONDITION AllConsumed
CHECK_DEADLOCK FALSE
