SPECIFICATION GSpec
CONSTANTS
  Node <- N4
  Graphs <- AllConnected
  Alpha = 1
  MaxTTL = 4
  MaxFinds = 2
  MaxInjects = 1
  MaxExpires = 1
  MaxLosses = 1
  MaxLinkChanges = 0
  AsBuilt = FALSE

INVARIANT EmitDone
CHECK_DEADLOCK FALSE
