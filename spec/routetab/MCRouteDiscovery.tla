------------------------- MODULE MCRouteDiscovery -------------------------
(* Bounded configurations of RouteDiscovery (design check of C28).         *)
EXTENDS RouteDiscovery

N3 == {1, 2, 3}
N4 == {1, 2, 3, 4}
N5 == {1, 2, 3, 4, 5}

\* every connected graph on the node set (labelled: initiators and targets range over all nodes)
AllConnected == ConnectedGraphs

\* the six connected graphs on four nodes up to isomorphism
Iso4 == { {{1,2},{2,3},{3,4}},                         \* path
          {{1,2},{1,3},{1,4}},                         \* star
          {{1,2},{2,3},{3,4},{4,1}},                   \* cycle
          {{1,2},{2,3},{3,1},{3,4}},                   \* triangle with a tail
          {{1,2},{2,3},{3,4},{4,1},{1,3}},             \* diamond
          {{1,2},{1,3},{1,4},{2,3},{2,4},{3,4}} }      \* complete
\* 4 nodes: initiator 1, two relays 2 and 3 that are also linked, target 4 behind 2 (double pending at 2)
Kite == { {{1,2},{1,3},{2,3},{2,4}} }
\* five nodes: two branches that meet again in front of the target
Braid5 == { {{1,2},{1,3},{2,4},{3,4},{4,5}}, {{1,2},{2,3},{3,4},{4,5}}, {{1,2},{2,3},{3,4},{4,5},{5,1}} }

\* S=1 - a=2 - X=3 - T=4, z=5 - T (relay that has to search: see RouteDiscoveryGen)
Chain5 == { {{1,2},{2,3},{3,4},{5,4}} }

\* a=1 - X=2, a - z=3 - T=4: a relay for T that reaches X from a has to search, and the search leads back through a
Fork4 == { {{1,2},{1,3},{3,4}} }
Path4 == { {{1,2},{2,3},{3,4}} }

\* every node has heard of every underlay (table answers wherever a usable path is stored)
HeardAll == Node \X Node

DesignView == <<links, everlinks, st, parked, net, nsent, nfinds, ninjects, nexp, nloss, nlink>>
=============================================================================
