SPECIFICATION ESpec
CONSTANTS
  Node <- GNode
  Alpha = 2
  MaxTTL = 10
  PathU <- SmallPaths
  PersistOnDelete = TRUE
VIEW EdgeView
INVARIANT EmitAll
CHECK_DEADLOCK FALSE
