SPECIFICATION MSpec
CONSTANTS
  Node <- N6
  Graphs <- Theta6
  Heard <- HeardTheta6
  FindPairs <- PairsTheta6
  Alpha = 2
  MaxTTL = 6
  MaxFinds = 3
  MaxInjects = 0
  MaxExpires = 0
  MaxLosses = 0
  MaxLinkChanges = 0
  AsBuilt = FALSE
VIEW MView
INVARIANT EmitLooped
CHECK_DEADLOCK FALSE
