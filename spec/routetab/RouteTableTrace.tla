-------------------------- MODULE RouteTableTrace --------------------------
(* Judge for C27 (monitor mode, see TraceKit): replays what routedrv recorded *)
(* from the real route table (pkg/routetab/table.go) over the mock and the    *)
(* LevelDB state stores.                                                      *)
(*                                                                            *)
(* Verdict state (history only, no implementation detail):                    *)
(*   st : path -> [k, t0, t1]   k = "live" (saved, not deleted/expired since),*)
(*        "dead" (deleted or definitely expired and not saved again), "maybe" *)
(*        (a Gc ran while the path's age straddled the expiry: either is ok); *)
(*        t0..t1 = the real-time interval (microseconds since the start of    *)
(*        the scenario) that contains its last save.                          *)
(* Conformance state: RouteTable's own table record T advanced with the       *)
(* module's pure operators (ticks as time); differences are notes only.       *)
EXTENDS RouteTable, TraceKit

TNode == {1, 2, 3, 4}

VARIABLES l, st, bad, notes
\* T, dead, last are RouteTable's variables (dead is not used by the judge: st carries it)

IsLive(s, p) == p \in DOMAIN s /\ s[p].k # "dead"
DeadSet(s)   == {p \in DOMAIN s : s[p].k = "dead"}

\* ---- history model -------------------------------------------------------
\* Gc(exp_ms) at real time [g0, g1]: the code deletes a path iff
\*   floor(age in ms) > exp_ms,  i.e.  age_us >= (exp_ms + 1) * 1000
GcClass(r, g0, g1, expms) ==
  LET lim == (expms + 1) * 1000
      minAge == g0 - r.t1
      maxAge == g1 - r.t0
  IN IF r.k = "dead" THEN "dead"
     ELSE IF minAge >= lim THEN "dead"
     ELSE IF maxAge < lim THEN r.k
     ELSE "maybe"

PostSt(e, s) ==
  CASE e.op = "reset" -> <<>>
    [] e.op = "save"  -> IF Len(e.p) < 2 THEN s ELSE (e.p :> [k |-> "live", t0 |-> e.us0, t1 |-> e.us1]) @@ s
    [] e.op = "del"   -> (e.p :> [k |-> "dead", t0 |-> 0, t1 |-> 0]) @@ s
    [] e.op = "gc"    -> [p \in DOMAIN s |-> [s[p] EXCEPT !.k = GcClass(s[p], e.us0, e.us1, e.exp_ms)]]
    [] OTHER          -> s

\* ---- conformance model ---------------------------------------------------
PostT(e, t) ==
  CASE e.op = "reset"  -> EmptyTable
    [] e.op = "save"   -> SaveIn(t, e.p, e.alpha)
    [] e.op = "del"    -> DeleteIn(t, e.p)
    [] e.op = "gc"     -> GcIn(t, e.th)
    [] e.op = "tick"   -> TickIn(t)
    [] e.op = "reload" -> ReloadIn(t, MaxTTL)
    [] OTHER           -> t

\* observed route lists -> [target -> sequence of paths]
ObsRoutes(e) == [t \in Node |->
   LET J == {j \in DOMAIN e.routes : e.routes[j][1] = t}
   IN IF J = {} THEN <<>>
      ELSE LET lst == e.routes[CHOOSE j \in J : TRUE][2]
           IN [i \in 1..Len(lst) |-> lst[i][3]]]

ObsStored(e) == {e.stored[i] : i \in DOMAIN e.stored}

ObsGet(e, t) == LET J == {j \in DOMAIN e.get : e.get[j][1] = t}
                IN IF J = {} THEN <<>> ELSE e.get[CHOOSE j \in J : TRUE][2]

\* (in the intended design the persisted copies equal the in-memory ones)
Resync(e, t) == LET m == [p \in ObsStored(e) |-> IF p \in DOMAIN t.mem THEN t.mem[p] ELSE t.now]
                IN [t EXCEPT !.routes = ObsRoutes(e), !.sr = ObsRoutes(e), !.mem = m, !.sp = m]

\* ---- verdict: the statement of C27 over what was observed -------------------
NoDup(s) == \A i, j \in 1..Len(s) : i # j => s[i] # s[j]

Verdict(e, post) ==
  LET alpha == e.alpha
      stored == ObsStored(e)
  IN    Clause("C27:no_panic", ~e.panicked)
     \o Clause("C27:at_most_alpha_routes_per_target",
               /\ \A j \in DOMAIN e.get : Len(e.get[j][2]) <= alpha
               /\ \A j \in DOMAIN e.routes : Len(e.routes[j][2]) <= alpha)
     \o Clause("C27:returned_path_contains_target_before_last_hop",
               \A j \in DOMAIN e.get : \A i \in DOMAIN e.get[j][2] :
                   PathHasTargetBeforeLast(e.get[j][2][i], e.get[j][1]))
     \o Clause("C27:deleted_or_expired_path_not_returned",
               \A j \in DOMAIN e.get : \A i \in DOMAIN e.get[j][2] : IsLive(post, e.get[j][2][i]))
     \o Clause("C27:next_hops_distinct", \A j \in DOMAIN e.hops : NoDup(e.hops[j][3]))
     \o Clause("C27:next_hops_not_skipped",
               \A j \in DOMAIN e.hops : \A i \in DOMAIN e.hops[j][3] :
                   \A k \in DOMAIN e.hops[j][2] : e.hops[j][3][i] # e.hops[j][2][k])
     \o Clause("C27:next_hop_is_last_hop_of_stored_path_with_target",
               \A j \in DOMAIN e.hops : \A i \in DOMAIN e.hops[j][3] :
                   HopJustified(e.hops[j][3][i], e.hops[j][1], stored, DeadSet(post)))

\* ---- conformance notes -------------------------------------------------------
\* the conformance model counts ticks; it is only comparable when the recorded real ages fall in the same
\* class as the tick ages (under machine load an operation may take longer than a tick)
GcAgrees(e, told, sold) ==
  e.op = "gc" =>
    \A p \in (DOMAIN told.mem) \cap (DOMAIN sold) :
       LET c == GcClass(sold[p], e.us0, e.us1, e.exp_ms)
       IN c # "maybe" /\ ((c = "dead") <=> (told.now - told.mem[p] > e.th))

Drift(e, t, s) ==
  LET ambiguous == \E p \in DOMAIN s : s[p].k = "maybe"
  IN IF ambiguous THEN <<>>
     ELSE    Clause("get_differs_from_model", \A n \in Node : ObsGet(e, n) = GetIn(t, n))
          \o Clause("stored_differs_from_model", ObsStored(e) = DOMAIN t.mem)
          \o Clause("nexthops_differ_from_model",
                    \A j \in DOMAIN e.hops :
                        {e.hops[j][3][i] : i \in DOMAIN e.hops[j][3]}
                          = NextHopsIn(t, e.hops[j][1], {e.hops[j][2][k] : k \in DOMAIN e.hops[j][2]}))

TInit == /\ l = 1 /\ st = <<>> /\ bad = <<>> /\ notes = <<>>
         /\ T = EmptyTable /\ dead = {} /\ last = [op |-> "init"]

TStep == /\ l <= NEvents
         /\ LET e == Trace[l]
                ps == PostSt(e, st)
                pt == PostT(e, T)
                cs == Verdict(e, ps)
                agree == GcAgrees(e, T, st)
                dr == IF agree THEN Drift(e, pt, ps) ELSE <<>>
            IN /\ l' = l + 1
               /\ bad' = IF cs = <<>> THEN bad ELSE Append(bad, BadRec(l, e, cs))
               /\ notes' = IF dr = <<>> \/ Len(notes) >= 20 THEN notes ELSE Append(notes, BadRec(l, e, dr))
               /\ st' = ps
               /\ T' = IF dr = <<>> /\ agree THEN pt ELSE Resync(e, pt)
               /\ dead' = {} /\ last' = [op |-> e.op]

TSpec == TInit /\ [][TStep]_<<vars, l, st, bad, notes>>

Report == ReportBad(l, bad, notes)
=============================================================================
