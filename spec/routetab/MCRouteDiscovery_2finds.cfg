SPECIFICATION FairSpec
CONSTANTS
  Node <- N4
  Graphs <- Iso4
  Alpha = 1
  MaxTTL = 2
  MaxFinds = 2
  MaxInjects = 0
  MaxExpires = 0
  MaxLosses = 1
  MaxLinkChanges = 0
  AsBuilt = FALSE
VIEW DesignView
INVARIANTS RecordedPathsOK InFlightPathsOK RelaySkipOK BoundedMessages
CHECK_DEADLOCK FALSE
PROPERTY Quiescence
