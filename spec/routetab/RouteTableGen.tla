--------------------------- MODULE RouteTableGen ---------------------------
(* Scenario generator for C27: RouteTable's transitions (the module's pure   *)
(* operators, with the configured Alpha chosen per scenario) plus a history  *)
(* variable.                                                                 *)
(*  edges  (cfg with VIEW): one shortest history per (state, operation) edge *)
(*         of the state graph over a small path universe                     *)
(*  sim    (tlc -simulate): random walks over all paths of length 2..3 (and  *)
(*         some of length 4) on four nodes; each step offers a random        *)
(*         handful of saves so that deletes/gc/reload/tick keep their weight *)
EXTENDS RouteTable, Json, IOUtils, Randomization
VARIABLES hist, ga, pre   \* pre: the model state before the last step (edges mode: one history per (source state, step))

GNode == {1, 2, 3, 4}
SmallPaths == {<<1, 2>>, <<1, 3>>, <<2, 1, 3>>, <<1, 1, 2>>, <<3, 1, 3>>, <<2, 3>>, <<1, 4, 2>>}
AllPaths == UNION {[1..k -> GNode] : k \in 2..3}
            \cup {<<1, 2, 3, 4>>, <<4, 3, 2, 1>>, <<1, 2, 1, 3>>, <<2, 2, 2, 2>>, <<1, 2, 3, 1>>, <<3, 4, 1, 2>>}

Depth == IF "VERIF_DEPTH" \in DOMAIN IOEnv THEN atoi(IOEnv.VERIF_DEPTH) ELSE 5

GInit == Init /\ hist = <<>> /\ ga \in {1, 2} /\ pre = <<>>

GSave(p) == /\ T' = SaveIn(T, p, ga)
            /\ dead' = dead \ {p}
            /\ last' = [op |-> "save", p |-> p]

Step == hist' = Append(hist, last') /\ UNCHANGED ga /\ pre' = <<T, dead>>

\* edges mode: over the cfg's PathU, time bounded
ENext == /\ Len(hist) < Depth
         /\ T.now <= 2
         /\ \/ \E p \in PathU : GSave(p) \/ Delete(p)
            \/ \E th \in GcAges : Gc(th)
            \/ Reload
            \/ Tick
         /\ Step
ESpec == GInit /\ [][ENext]_<<vars, hist, ga, pre>>
EdgeView == <<pre, T, dead, last, ga>>

\* simulate mode
SNext == /\ Len(hist) < Depth
         /\ \/ \E p \in RandomSubset(4, AllPaths) : GSave(p)
            \/ \E p \in (DOMAIN T.mem) \cup dead : Delete(p)
            \/ \E th \in GcAges : Gc(th)
            \/ Reload
            \/ Tick
         /\ Step
SSpec == GInit /\ [][SNext]_<<vars, hist, ga, pre>>

Scn == [par |-> [kind |-> "table", alpha |-> ga, maxttl |-> MaxTTL], ops |-> hist]
EmitAll  == hist # <<>> => PrintT(<<"SCN", ToJson(Scn)>>)
EmitFull == Len(hist) = Depth => PrintT(<<"SCN", ToJson(Scn)>>)
=============================================================================
