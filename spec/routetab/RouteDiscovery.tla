--------------------------- MODULE RouteDiscovery ---------------------------
(* pkg/routetab/route.go + pending.go: route discovery and relaying between   *)
(* several nodes.  Property C28.                                              *)
(*                                                                            *)
(* Nodes are joined by symmetric neighbour links.  Every node keeps a route   *)
(* table (RouteTable's route lists), a pending table (per target the sources  *)
(* waiting for a response, and the log of requests already sent), an address  *)
(* book (whose underlay it knows) and its outstanding FindRoute calls.  The   *)
(* network is a bag of messages:                                              *)
(*   req   (onRouteReq)   dest, the path of nodes the request went through    *)
(*   resp  (onRouteResp)  dest, paths (far end ... sender), u = carries the   *)
(*                        destination's underlay                              *)
(*   relay (onRelayConnChain) dest, the path the relayed stream went through  *)
(* One action per handler / public call; the handlers are node-local pure     *)
(* step functions (shared with the judge) applied to the node's state.        *)
EXTENDS Integers, Sequences, FiniteSets, TLC

CONSTANTS Node,      \* node identifiers
          Alpha,     \* NeighborAlpha: fan-out of a request
          MaxTTL,    \* hop limit
          AsBuilt    \* FALSE: intended design (a forwarded response extends the received paths once)
                     \* TRUE : as built (respForward re-extends the same response for every waiting source)

RT == INSTANCE RouteTable WITH PathU <- {}, PersistOnDelete <- TRUE, T <- 0, dead <- {}, last <- 0

SeqRange(s) == {s[i] : i \in 1..Len(s)}
Distinct(s) == \A i, j \in 1..Len(s) : i # j => s[i] # s[j]

(***************************************************************************)
(* Topology                                                                *)
(***************************************************************************)
NbrsIn(lk, n) == {m \in Node : m # n /\ {n, m} \in lk}

RECURSIVE ReachFrom(_, _)
ReachFrom(lk, S) == LET S2 == S \cup UNION {NbrsIn(lk, n) : n \in S}
                    IN IF S2 = S THEN S ELSE ReachFrom(lk, S2)
Connected(lk) == \A n \in Node : ReachFrom(lk, {n}) = Node
AllLinks == {{a, b} : a, b \in Node} \ {{a} : a \in Node}
ConnectedGraphs == {lk \in SUBSET AllLinks : Connected(lk)}

(***************************************************************************)
(* Messages                                                                *)
(***************************************************************************)
Req(f, t, d, path, a)  == [k |-> "req",   from |-> f, to |-> t, dest |-> d, paths |-> <<path>>, alpha |-> a, u |-> FALSE]
Resp(f, t, d, paths, u) == [k |-> "resp",  from |-> f, to |-> t, dest |-> d, paths |-> paths,    alpha |-> 0, u |-> u]
Relay(f, t, d, path)   == [k |-> "relay", from |-> f, to |-> t, dest |-> d, paths |-> <<path>>, alpha |-> 0, u |-> FALSE]

(***************************************************************************)
(* Node-local state and step functions (pure; shared with the judge)       *)
(*   S = [tb, resp, reqlog, book, finding]                                 *)
(*   a step returns [S, out, done] : new state, set of messages sent,      *)
(*   set of targets whose FindRoute call returned                          *)
(***************************************************************************)
\* c = [alpha, ttl, nodes]: the configuration the step functions run under (the judge takes it from
\* the scenario, the specification from its constants)
EmptyTab(c) == [paths |-> {}, routes |-> [t \in c.nodes |-> <<>>]]

InitNode(c, nb) == [tb |-> EmptyTab(c), resp |-> [t \in c.nodes |-> <<>>], reqlog |-> {}, book |-> nb, finding |-> <<>>]

TSave(c, tb, p) ==
  IF Len(p) < 2 THEN tb
  ELSE [paths |-> tb.paths \cup {p},
        routes |-> [t \in c.nodes |-> IF t \in RT!Targets(p) THEN RT!NewList(tb.routes[t], p, c.alpha) ELSE tb.routes[t]]]

RECURSIVE TSaveAll(_, _, _)
TSaveAll(c, tb, ps) == IF ps = <<>> THEN tb ELSE TSaveAll(c, TSave(c, tb, Head(ps)), Tail(ps))

TGet(tb, t) == SelectSeq(tb.routes[t], LAMBDA r : r \in tb.paths)

\* the alpha neighbours a request is sent to: any alpha of the eligible ones (all if fewer)
FwdChoices(c, elig, a) ==
  LET aa == IF a <= 0 THEN c.alpha ELSE a
  IN IF Cardinality(elig) <= aa THEN {elig} ELSE {F \in SUBSET elig : Cardinality(F) = aa}

Copies(x, k) == [i \in 1..k |-> x]

\* doRouteReq: register src as waiting for dest once per next hop, send to the next hops
\* that have not been asked for dest yet
DoReq(S, n, next, src, dest, path, a) ==
  LET fresh == {v \in next : <<dest, v>> \notin S.reqlog}
  IN [S   |-> [S EXCEPT !.resp[dest] = @ \o Copies(src, Cardinality(next)),
                        !.reqlog = @ \cup {<<dest, v>> : v \in next}],
      out |-> {Req(n, v, dest, path, a) : v \in fresh},
      done |-> {}]

Nothing(S) == [S |-> S, out |-> {}, done |-> {}]

\* FindRoute(t) at n, the alpha neighbours chosen being fwd
FindElig(nb, n, t) == nb \ {t}
FindStep(c, S, n, t, fwd) ==
  IF fwd = {} THEN [S |-> S, out |-> {}, done |-> {t}]      \* "neighbor notfound": returns at once
  ELSE LET r == DoReq(S, n, fwd, n, t, <<n>>, c.alpha)
       IN [r EXCEPT !.S.finding = (t :> fwd) @@ S.finding]

\* the first shortest of a sequence of paths
Shortest(ps) == LET m == CHOOSE i \in 1..Len(ps) : /\ \A j \in 1..Len(ps) : Len(ps[i]) <= Len(ps[j])
                                                   /\ \A j \in 1..(i-1) : Len(ps[j]) > Len(ps[i])
                IN ps[m]

\* which branch onRouteReq takes
ReqBranch(c, S, n, nb, m) ==
  LET rp == m.paths[1]
      usable == SelectSeq(TGet(S.tb, m.dest),
                          LAMBDA v : Len(v) + Len(rp) <= c.ttl /\ SeqRange(v) \cap SeqRange(rp) = {})
  IN IF Len(rp) > c.ttl \/ n \in SeqRange(rp) THEN "discard"
     ELSE IF n = m.dest THEN "target"
     ELSE IF m.dest \in nb THEN "neighbour"
     ELSE IF usable # <<>> /\ m.dest \in S.book THEN "table"
     ELSE "forward"

ReqElig(nb, m) == nb \ SeqRange(m.paths[1])

ReqStep(c, S, n, nb, m, fwd) ==
  LET rp == m.paths[1]
      br == ReqBranch(c, S, n, nb, m)
      S1 == [S EXCEPT !.tb = TSave(c, @, rp)]
      usable == SelectSeq(TGet(S.tb, m.dest),
                          LAMBDA v : Len(v) + Len(rp) <= c.ttl /\ SeqRange(v) \cap SeqRange(rp) = {})
  IN CASE br = "discard"   -> Nothing(S)
       [] br = "target"    -> [S |-> S1, out |-> {Resp(n, m.from, m.dest, <<<<n>>>>, FALSE)}, done |-> {}]
       [] br = "neighbour" -> DoReq(S1, n, {m.dest}, m.from, m.dest, rp \o <<n>>, m.alpha)
       [] br = "table"     -> [S |-> S1, out |-> {Resp(n, m.from, m.dest, <<Shortest(usable) \o <<n>>>>, FALSE)}, done |-> {}]
       [] br = "forward"   -> DoReq(S1, n, fwd, m.from, m.dest, rp \o <<n>>, m.alpha)

\* distinct elements of a sequence, in order of first appearance
RECURSIVE Dedup(_)
Dedup(s) == IF s = <<>> THEN <<>>
            ELSE LET r == Dedup(SubSeq(s, 1, Len(s) - 1))
                 IN IF s[Len(s)] \in SeqRange(r) THEN r ELSE Append(r, s[Len(s)])

RespStep(c, S, n, m) ==
  LET now == SelectSeq(m.paths, LAMBDA p : Len(p) <= c.ttl)
  IN IF now = <<>> \/ \E i \in 1..Len(now) : n \in SeqRange(now[i]) THEN Nothing(S)
     ELSE
       LET book2 == IF m.u THEN S.book \cup {m.dest} ELSE S.book
           S1 == [S EXCEPT !.tb = TSaveAll(c, @, now), !.book = book2]
           waiting == S.resp[m.dest]
       IN IF waiting = <<>> THEN [S |-> S1, out |-> {}, done |-> {}]
          ELSE
            LET srcs == Dedup(SelectSeq(waiting, LAMBDA x : x # n))
                u2 == IF m.dest = m.from /\ m.dest \in book2 THEN TRUE ELSE m.u
                ext(k) == [i \in 1..Len(now) |-> now[i] \o Copies(n, IF AsBuilt THEN k ELSE 1)]
                signalled == n \in SeqRange(waiting) /\ m.dest \in DOMAIN S.finding
            IN [S |-> [S1 EXCEPT !.resp[m.dest] = <<>>,
                                 !.reqlog = @ \ {<<m.dest, m.from>>},
                                 !.finding = IF signalled THEN [t \in (DOMAIN @) \ {m.dest} |-> @[t]] ELSE @],
                out |-> {Resp(n, srcs[k], m.dest, ext(k), u2) : k \in 1..Len(srcs)},
                done |-> IF signalled THEN {m.dest} ELSE {}]

\* the pending collectors with everything expired
ExpireStep(c, S) == [S EXCEPT !.resp = [t \in c.nodes |-> <<>>], !.reqlog = {}]

\* FindRoute(t) gives up (timeout / caller's context): its pending entries are removed
CancelStep(S, t) ==
  [S EXCEPT !.resp[t] = <<>>,
            !.reqlog = @ \ {<<t, v>> : v \in S.finding[t]},
            !.finding = [x \in (DOMAIN @) \ {t} |-> @[x]]]

\* onRelayConnChain: the next hops a relayed stream may be forwarded to
RelayChoices(S, n, nb, m) ==
  LET p2 == m.paths[1] \o <<n>>
  IN IF n = m.dest THEN {}
     ELSE IF m.dest \in nb THEN {m.dest}
     ELSE {h \in RT!NextHopsIn(S.tb, m.dest, SeqRange(p2)) : h \in nb}

RelayStep(S, n, m, nx) == [S |-> S, out |-> {Relay(n, nx, m.dest, m.paths[1] \o <<n>>)}, done |-> {}]

(***************************************************************************)
(* The property, as predicates over observations (shared with the judge)   *)
(***************************************************************************)
\* a path recorded or returned by node n, w.r.t. the link relation lk
PathDistinct(p)        == Distinct(p)
PathLinked(lk, n, p)   == /\ \A i \in 1..(Len(p) - 1) : {p[i], p[i+1]} \in lk
                          /\ Len(p) > 0 => {p[Len(p)], n} \in lk
PathWithinLimit(ttl, p) == Len(p) <= ttl
PathExcludesHolder(n, p) == n \notin SeqRange(p)
PathOK(lk, ttl, n, p) == PathDistinct(p) /\ PathLinked(lk, n, p) /\ PathWithinLimit(ttl, p) /\ PathExcludesHolder(n, p)

\* a relayed stream is not forwarded to a node on its path, except to deliver it
RelayMsgOK(m) == m.k = "relay" => (m.to \notin SeqRange(m.paths[1]) \/ m.to = m.dest)

\* bound on the messages sent on behalf of `finds` FindRoute calls and `injects` relayed streams:
\* a request carries a path that grows by one per hop and is dropped beyond MaxTTL, each hop
\* fans out to at most a neighbours; every received request causes at most one direct response and
\* at most a pending entries, every pending entry at most one forwarded response
RECURSIVE Pow(_, _)
Pow(b, e) == IF e = 0 THEN 1 ELSE b * Pow(b, e - 1)
RECURSIVE GeomSum(_, _)
GeomSum(a, k) == IF k = 0 THEN 0 ELSE Pow(a, k) + GeomSum(a, k - 1)
MsgBound(finds, injects, a, ttl, nn) == finds * GeomSum(a, ttl + 1) * (2 + a) + injects * nn

\* a relay parked at n (its handler waits in FindRoute) goes on when the search for its destination returned:
\* the next hop is chosen from the refreshed table, still skipping the relay's path; no hop = the stream fails
ResumeChoices(S, n, nb, m) == RelayChoices(S, n, nb, m)

(***************************************************************************)
(* Specification                                                           *)
(***************************************************************************)
CONSTANTS Graphs,        \* the link relations explored (initial)
          MaxFinds,      \* FindRoute calls made by applications per behaviour (relays start searches of their own)
          MaxInjects,    \* relayed streams entering the network per behaviour
          MaxExpires,    \* pending expiries / cancellations per behaviour
          MaxLosses,     \* lost messages per behaviour
          MaxLinkChanges \* neighbour links going down / coming up per behaviour (only while the network is quiet)

VARIABLES links, everlinks, st, parked, net, nsent, nfinds, ninjects, nexp, nloss, nlink, last
\* everlinks : every link that existed at some time (recorded paths follow links that existed)
\* parked    : node -> relay messages whose handler waits for a route search of that node
vars == <<links, everlinks, st, parked, net, nsent, nfinds, ninjects, nexp, nloss, nlink, last>>

Nbrs(n) == NbrsIn(links, n)
C == [alpha |-> Alpha, ttl |-> MaxTTL, nodes |-> Node]

BagAdd(b, m) == IF m \in DOMAIN b THEN [b EXCEPT ![m] = @ + 1] ELSE (m :> 1) @@ b
RECURSIVE BagAddAll(_, _)
BagAddAll(b, ms) == IF ms = {} THEN b ELSE LET m == CHOOSE x \in ms : TRUE IN BagAddAll(BagAdd(b, m), ms \ {m})
BagRemove(b, m) == IF b[m] = 1 THEN [x \in (DOMAIN b) \ {m} |-> b[x]] ELSE [b EXCEPT ![m] = @ - 1]

\* underlays a node has heard of without ever having been linked to their owner (peer gossip): pairs <<n, t>>;
\* a configuration overrides the definition (Heard <- ...)
Heard == {}
HeardBy(hd, n) == {t \in Node : <<n, t>> \in hd}

Init == /\ links \in Graphs /\ everlinks = links
        /\ st = [n \in Node |-> InitNode(C, NbrsIn(links, n) \cup HeardBy(Heard, n))]
        /\ parked = [n \in Node |-> {}]
        /\ net = <<>> /\ nsent = 0 /\ nfinds = 0 /\ ninjects = 0 /\ nexp = 0 /\ nloss = 0 /\ nlink = 0
        /\ last = [op |-> "init"]

Apply(n, r, rest) ==
  /\ st' = [st EXCEPT ![n] = r.S]
  /\ net' = BagAddAll(rest, r.out)
  /\ nsent' = nsent + Cardinality(r.out)

MsgRec(m) == [k |-> m.k, from |-> m.from, to |-> m.to, dest |-> m.dest, paths |-> m.paths, u |-> m.u]

Find(n, t) ==
  /\ nfinds < MaxFinds
  /\ n # t
  /\ t \notin DOMAIN st[n].finding
  /\ \E fwd \in FwdChoices(C, FindElig(Nbrs(n), n, t), Alpha) :
        /\ Apply(n, FindStep(C, st[n], n, t, fwd), net)
        /\ last' = [op |-> "find", n |-> n, t |-> t, fwd |-> fwd]
  /\ nfinds' = nfinds + 1
  /\ UNCHANGED <<links, everlinks, parked, ninjects, nexp, nloss, nlink>>

OnReq(m) ==
  /\ m.k = "req"
  /\ LET n == m.to
     IN \E fwd \in (IF ReqBranch(C, st[n], n, Nbrs(n), m) = "forward"
                    THEN FwdChoices(C, ReqElig(Nbrs(n), m), m.alpha) ELSE {{}}) :
          /\ Apply(n, ReqStep(C, st[n], n, Nbrs(n), m, fwd), BagRemove(net, m))
          /\ last' = [op |-> "deliver", m |-> MsgRec(m), fwd |-> fwd]
  /\ UNCHANGED <<links, everlinks, parked, nfinds, ninjects, nexp, nloss, nlink>>

\* a response; if it ends a search that a parked relay waits for, the relay goes on in the same step
OnResp(m) ==
  /\ m.k = "resp"
  /\ LET n == m.to
         r == RespStep(C, st[n], n, m)
         woken == {p \in parked[n] : p.dest \in r.done}
     IN /\ parked' = [parked EXCEPT ![n] = @ \ woken]
        /\ IF woken = {} THEN Apply(n, r, BagRemove(net, m))
           ELSE LET p == CHOOSE x \in woken : TRUE      \* at most one relay is parked per node
                    ch == ResumeChoices(r.S, n, Nbrs(n), p)
                IN \/ /\ ch = {}
                      /\ Apply(n, r, BagRemove(net, m))
                   \/ \E nx \in ch :
                         Apply(n, [r EXCEPT !.out = @ \cup RelayStep(r.S, n, p, nx).out], BagRemove(net, m))
  /\ last' = [op |-> "deliver", m |-> MsgRec(m), fwd |-> {}]
  /\ UNCHANGED <<links, everlinks, nfinds, ninjects, nexp, nloss, nlink>>

OnRelay(m) ==
  /\ m.k = "relay"
  /\ LET n == m.to
         ch == RelayChoices(st[n], n, Nbrs(n), m)
         \* (a relayed stream visits a node at most once, so it starts at most |Node| searches; these are not
         \* taken from the MaxFinds budget)
         canSearch == /\ n # m.dest /\ parked[n] = {}
                      /\ m.dest \notin DOMAIN st[n].finding
         canWait == n # m.dest /\ parked[n] = {} /\ m.dest \in DOMAIN st[n].finding
     IN \/ /\ ch = {} /\ canWait                \* a search for the destination is already running here: wait for it
           /\ Apply(n, Nothing(st[n]), BagRemove(net, m))
           /\ parked' = [parked EXCEPT ![n] = @ \cup {m}]
           /\ last' = [op |-> "deliver", m |-> MsgRec(m), fwd |-> {}]
           /\ UNCHANGED nfinds
        \/ /\ ch = {} /\ ~canSearch /\ ~canWait  \* delivered to the target, or the stream fails
           /\ Apply(n, Nothing(st[n]), BagRemove(net, m))
           /\ last' = [op |-> "deliver", m |-> MsgRec(m), fwd |-> {}]
           /\ UNCHANGED <<parked, nfinds>>
        \/ /\ ch = {} /\ canSearch              \* GetNextHopRandomOrFind: no stored hop off the path, search
           /\ \E fwd \in FwdChoices(C, FindElig(Nbrs(n), n, m.dest), Alpha) :
                 /\ Apply(n, FindStep(C, st[n], n, m.dest, fwd), BagRemove(net, m))
                 /\ parked' = [parked EXCEPT ![n] = IF fwd = {} THEN @ ELSE @ \cup {m}]
                 /\ last' = [op |-> "deliver", m |-> MsgRec(m), fwd |-> fwd]
           /\ nfinds' = nfinds + 1
        \/ \E nx \in ch :
              /\ Apply(n, RelayStep(st[n], n, m, nx), BagRemove(net, m))
              /\ last' = [op |-> "deliver", m |-> MsgRec(m), fwd |-> {}]
              /\ UNCHANGED <<parked, nfinds>>
  /\ UNCHANGED <<links, everlinks, ninjects, nexp, nloss, nlink>>

Deliver == \E m \in DOMAIN net : OnReq(m) \/ OnResp(m) \/ OnRelay(m)

Lose ==
  /\ nloss < MaxLosses
  /\ \E m \in DOMAIN net :
        /\ net' = BagRemove(net, m)
        /\ last' = [op |-> "lose", m |-> MsgRec(m)]
  /\ nloss' = nloss + 1
  /\ UNCHANGED <<links, everlinks, st, parked, nsent, nfinds, ninjects, nexp, nlink>>

PendingExpire(n) ==
  /\ nexp < MaxExpires
  /\ (st[n].reqlog # {} \/ \E t \in Node : st[n].resp[t] # <<>>)
  /\ st' = [st EXCEPT ![n] = ExpireStep(C, @)]
  /\ nexp' = nexp + 1
  /\ last' = [op |-> "expire", n |-> n]
  /\ UNCHANGED <<links, everlinks, parked, net, nsent, nfinds, ninjects, nloss, nlink>>

\* FindRoute gives up; a relay waiting for it fails with it
FindCancel(n, t) ==
  /\ nexp < MaxExpires
  /\ t \in DOMAIN st[n].finding
  /\ st' = [st EXCEPT ![n] = CancelStep(@, t)]
  /\ parked' = [parked EXCEPT ![n] = {p \in @ : p.dest # t}]
  /\ nexp' = nexp + 1
  /\ last' = [op |-> "cancel", n |-> n, t |-> t]
  /\ UNCHANGED <<links, everlinks, net, nsent, nfinds, ninjects, nloss, nlink>>

\* a relayed stream from an honest neighbour f that itself got it from x (or started it)
Inject(n, f, d) ==
  /\ ninjects < MaxInjects
  /\ f \in Nbrs(n) /\ d # f
  /\ \E x \in (Nbrs(f) \ {n, d}) \cup {f} :
        LET path == IF x = f THEN <<f>> ELSE <<x, f>>
            m == Relay(f, n, d, path)
        IN /\ net' = BagAdd(net, m)
           /\ last' = [op |-> "inject", m |-> MsgRec(m)]
  /\ ninjects' = ninjects + 1
  /\ nsent' = nsent + 1
  /\ UNCHANGED <<links, everlinks, st, parked, nfinds, nexp, nloss, nlink>>

\* the neighbour relation changes while nothing is in flight: a link goes down, or comes up (the two
\* nodes then know each other's address)
Quiet0 == net = <<>> /\ \A n \in Node : parked[n] = {}
LinkDown(a, b) ==
  /\ nlink < MaxLinkChanges /\ Quiet0 /\ a # b /\ {a, b} \in links
  /\ links' = links \ {{a, b}}
  /\ nlink' = nlink + 1
  /\ last' = [op |-> "linkdown", a |-> a, b |-> b]
  /\ UNCHANGED <<everlinks, st, parked, net, nsent, nfinds, ninjects, nexp, nloss>>
LinkUp(a, b) ==
  /\ nlink < MaxLinkChanges /\ Quiet0 /\ a # b /\ {a, b} \notin links
  /\ links' = links \cup {{a, b}} /\ everlinks' = everlinks \cup {{a, b}}
  /\ st' = [st EXCEPT ![a].book = @ \cup {b}, ![b].book = @ \cup {a}]
  /\ nlink' = nlink + 1
  /\ last' = [op |-> "linkup", a |-> a, b |-> b]
  /\ UNCHANGED <<parked, net, nsent, nfinds, ninjects, nexp, nloss>>

Next == \/ \E n, t \in Node : Find(n, t) \/ FindCancel(n, t)
        \/ Deliver
        \/ Lose
        \/ \E n \in Node : PendingExpire(n)
        \/ \E n, f, d \in Node : Inject(n, f, d)
        \/ \E a, b \in Node : a < b /\ (LinkDown(a, b) \/ LinkUp(a, b))

Spec == Init /\ [][Next]_vars
FairSpec == Spec /\ WF_vars(Deliver)

(***************************************************************************)
(* C28                                                                     *)
(***************************************************************************)
\* every recorded path (and therefore every path FindRoute/GetRoute returns) follows links that existed
RecordedPathsOK == \A n \in Node : \A p \in st[n].tb.paths : PathOK(everlinks, MaxTTL, n, p)

\* paths in flight: distinct, along links, at most one hop over the limit (the receiver discards those)
InFlightPathsOK ==
  \A m \in DOMAIN net : \A i \in 1..Len(m.paths) :
     LET p == m.paths[i]
     IN /\ Distinct(p)
        /\ \A j \in 1..(Len(p) - 1) : {p[j], p[j+1]} \in everlinks
        /\ m.k # "relay" => (p[Len(p)] = m.from /\ Len(p) <= MaxTTL + 1)

RelaySkipOK == \A m \in DOMAIN net : RelayMsgOK(m)

BoundedMessages == nsent <= MsgBound(MaxFinds + MaxInjects * Cardinality(Node), MaxInjects, Alpha, MaxTTL, Cardinality(Node))

\* discovery terminates: under fair delivery the network drains for good
Quiescence == <>[](net = <<>>)
=============================================================================
