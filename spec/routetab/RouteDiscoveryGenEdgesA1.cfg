SPECIFICATION GSpec
CONSTANTS
  Node <- N4
  Graphs <- Iso4
  Alpha = 1
  MaxTTL = 3
  MaxFinds = 1
  MaxInjects = 0
  MaxExpires = 1
  MaxLosses = 1
  MaxLinkChanges = 0
  AsBuilt = FALSE
VIEW EdgeView
INVARIANT EmitAll
CHECK_DEADLOCK FALSE
