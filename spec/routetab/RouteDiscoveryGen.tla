------------------------- MODULE RouteDiscoveryGen -------------------------
(* Scenario generator for C28: behaviours of RouteDiscovery (intended design) *)
(* with a history variable.  A scenario is the link relation plus the list of *)
(* steps (find / deliver / lose / expire / cancel / inject); deliveries name   *)
(* the message and the neighbours the receiving node picks.                   *)
(*  edges  (cfg with VIEW): one shortest history per (state, step) edge       *)
(*  sim    (tlc -simulate): random interleavings on a random graph            *)
(* Histories are printed in states where the network is empty again.          *)
EXTENDS RouteDiscovery, Json, IOUtils
VARIABLES hist, pre     \* pre: the model state before the last step (edges mode: one history per (source state, step))

N3 == {1, 2, 3}
N4 == {1, 2, 3, 4}
N5 == {1, 2, 3, 4, 5}
Iso4 == { {{1,2},{2,3},{3,4}}, {{1,2},{1,3},{1,4}}, {{1,2},{2,3},{3,4},{4,1}}, {{1,2},{2,3},{3,1},{3,4}},
          {{1,2},{2,3},{3,4},{4,1},{1,3}}, {{1,2},{1,3},{1,4},{2,3},{2,4},{3,4}} }
Kite  == { {{1,2},{1,3},{2,3},{2,4}} }
Small4 == Kite \cup { {{1,2},{2,3},{3,4}}, {{1,2},{2,3},{3,4},{4,1}} }
Braid5 == { {{1,2},{1,3},{2,4},{3,4},{4,5}}, {{1,2},{2,3},{3,4},{4,5}}, {{1,2},{2,3},{3,4},{4,5},{5,1}},
            {{1,2},{1,3},{2,3},{2,4},{4,5}} }
AllConnected == ConnectedGraphs

Depth == IF "VERIF_DEPTH" \in DOMAIN IOEnv THEN atoi(IOEnv.VERIF_DEPTH) ELSE 12

GInit == Init /\ hist = <<>> /\ pre = <<>>

\* (a relayed stream that finds no next hop starts a route search of its own in the implementation; the
\* model just drops it; the driver gives the search up and the judge counts it as one more FindRoute)

\* relayed streams are injected where they can be forwarded (a neighbour or some route to the destination)
InjectUseful == last'.op = "inject" =>
                  LET m == last'.m IN \/ (m.dest \notin Nbrs(m.to) /\ st[m.to].tb.routes[m.dest] # <<>>)
                                       \/ (m.dest \in Nbrs(m.to) /\ nfinds = 0)

GNext == /\ Len(hist) < Depth
         /\ Next
         /\ InjectUseful
         /\ hist' = Append(hist, last') /\ pre' = <<st, net>>
GSpec == GInit /\ [][GNext]_<<vars, hist, pre>>

EdgeView == <<pre, links, st, net, nfinds, ninjects, nexp, nloss, last>>

Scn == [par |-> [kind |-> "net", nodes |-> Node, links |-> links, alpha |-> Alpha, maxttl |-> MaxTTL], ops |-> hist]

Quiet == net = <<>> /\ hist # <<>>
EmitQuiet == Quiet => PrintT(<<"SCN", ToJson(Scn)>>)
EmitAll   == hist # <<>> => PrintT(<<"SCN", ToJson(Scn)>>)
EmitDone  == (Quiet /\ nfinds = MaxFinds /\ ninjects = MaxInjects) => PrintT(<<"SCN", ToJson(Scn)>>)
=============================================================================
