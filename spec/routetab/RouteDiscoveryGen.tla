------------------------- MODULE RouteDiscoveryGen -------------------------
(* Scenario generator for C28: behaviours of RouteDiscovery (intended design) *)
(* with a history variable.  A scenario is the link relation plus the list of *)
(* steps (find / deliver / lose / expire / cancel / inject); deliveries name   *)
(* the message and the neighbours the receiving node picks.                   *)
(*  edges  (cfg with VIEW): one shortest history per (state, step) edge       *)
(*  sim    (tlc -simulate): random interleavings on a random graph            *)
(* Histories are printed in states where the network is empty again.          *)
EXTENDS RouteDiscovery, Json, IOUtils
VARIABLES hist, links0, pre     \* pre: the model state before the last step (edges mode: one history per (source state, step))

N3 == {1, 2, 3}
N4 == {1, 2, 3, 4}
N5 == {1, 2, 3, 4, 5}
Iso4 == { {{1,2},{2,3},{3,4}}, {{1,2},{1,3},{1,4}}, {{1,2},{2,3},{3,4},{4,1}}, {{1,2},{2,3},{3,1},{3,4}},
          {{1,2},{2,3},{3,4},{4,1},{1,3}}, {{1,2},{1,3},{1,4},{2,3},{2,4},{3,4}} }
Kite  == { {{1,2},{1,3},{2,3},{2,4}} }
Small4 == Kite \cup { {{1,2},{2,3},{3,4}}, {{1,2},{2,3},{3,4},{4,1}} }
Braid5 == { {{1,2},{1,3},{2,4},{3,4},{4,5}}, {{1,2},{2,3},{3,4},{4,5}}, {{1,2},{2,3},{3,4},{4,5},{5,1}},
            {{1,2},{1,3},{2,3},{2,4},{4,5}} }
AllConnected == ConnectedGraphs

Depth == IF "VERIF_DEPTH" \in DOMAIN IOEnv THEN atoi(IOEnv.VERIF_DEPTH) ELSE 12

GInit == Init /\ hist = <<>> /\ pre = <<>> /\ links0 = links      \* links0: the initial link relation

\* (a relayed stream that finds no next hop starts a route search of its own in the implementation; the
\* model just drops it; the driver gives the search up and the judge counts it as one more FindRoute)

\* relayed streams are injected where they can be forwarded (a neighbour or some route to the destination)
InjectUseful == last'.op = "inject" =>
                  LET m == last'.m IN \/ (m.dest \notin Nbrs(m.to) /\ st[m.to].tb.routes[m.dest] # <<>>)
                                       \/ (m.dest \in Nbrs(m.to) /\ nfinds = 0)

GNext == /\ Len(hist) < Depth
         /\ Next
         /\ InjectUseful
         /\ hist' = Append(hist, last') /\ pre' = <<links, st, parked, net>> /\ UNCHANGED links0
GSpec == GInit /\ [][GNext]_<<vars, hist, links0, pre>>

EdgeView == <<pre, links, st, parked, net, nfinds, ninjects, nexp, nloss, nlink, last>>

\* ---- relay that has to fall back to discovery -----------------------------------------------
\* S=1 - a=2 - X=3 - T=4, z=5 - T.  Phase 1: FindRoute(S,T), everything delivered.  Phase 2: the link X-T
\* goes down and a-z comes up (either order).  Phase 3: a relayed stream S -> T enters at a; a forwards it
\* to X (its stored route), X has no hop left, searches, and learns a route that leads back through a.
Chain5 == { {{1,2},{2,3},{3,4},{5,4}} }
RPhaseOK ==
  /\ (last'.op = "find" => nfinds = 0 /\ last'.n = 1 /\ last'.t = 4)
  /\ (last'.op = "linkdown" => nfinds = 1 /\ <<last'.a, last'.b>> = <<3, 4>>)
  /\ (last'.op = "linkup"   => nfinds = 1 /\ <<last'.a, last'.b>> = <<2, 5>>)
  /\ (last'.op = "inject" => nlink = 2 /\ last'.m.to = 2 /\ last'.m.from = 1 /\ last'.m.dest = 4 /\ last'.m.paths = <<<<1>>>>)
  /\ last'.op \notin {"lose", "expire", "cancel"}
RNext == /\ Len(hist) < Depth
         /\ Next
         /\ RPhaseOK
         /\ hist' = Append(hist, last') /\ pre' = <<links, st, parked, net>> /\ UNCHANGED links0
RSpec == GInit /\ [][RNext]_<<vars, hist, links0, pre>>

Scn == [par |-> [kind |-> "net", nodes |-> Node, links |-> links0, alpha |-> Alpha, maxttl |-> MaxTTL], ops |-> hist]

Quiet == net = <<>> /\ hist # <<>>
EmitQuiet == Quiet => PrintT(<<"SCN", ToJson(Scn)>>)
EmitAll   == hist # <<>> => PrintT(<<"SCN", ToJson(Scn)>>)
EmitDone  == (Quiet /\ nfinds = MaxFinds /\ ninjects = MaxInjects) => PrintT(<<"SCN", ToJson(Scn)>>)
EmitRelayDone == ninjects = 1 => PrintT(<<"SCN", ToJson(Scn)>>)
=============================================================================
