------------------------- MODULE RouteDiscoveryGen -------------------------
(* Scenario generator for C28: behaviours of RouteDiscovery (intended design) *)
(* with a history variable.  A scenario is the link relation plus the list of *)
(* steps (find / deliver / lose / expire / cancel / inject); deliveries name   *)
(* the message and the neighbours the receiving node picks.                   *)
(*  edges  (cfg with VIEW): one shortest history per (state, step) edge       *)
(*  sim    (tlc -simulate): random interleavings on a random graph            *)
(* Histories are printed in states where the network is empty again.          *)
EXTENDS RouteDiscovery, Json, IOUtils
VARIABLES hist, links0, pre     \* pre: the model state before the last step (edges mode: one history per (source state, step))

N3 == {1, 2, 3}
N4 == {1, 2, 3, 4}
N5 == {1, 2, 3, 4, 5}
N6 == {1, 2, 3, 4, 5, 6}
N7 == {1, 2, 3, 4, 5, 6, 7}
Iso4 == { {{1,2},{2,3},{3,4}}, {{1,2},{1,3},{1,4}}, {{1,2},{2,3},{3,4},{4,1}}, {{1,2},{2,3},{3,1},{3,4}},
          {{1,2},{2,3},{3,4},{4,1},{1,3}}, {{1,2},{1,3},{1,4},{2,3},{2,4},{3,4}} }
Kite  == { {{1,2},{1,3},{2,3},{2,4}} }
Small4 == Kite \cup { {{1,2},{2,3},{3,4}}, {{1,2},{2,3},{3,4},{4,1}} }
Braid5 == { {{1,2},{1,3},{2,4},{3,4},{4,5}}, {{1,2},{2,3},{3,4},{4,5}}, {{1,2},{2,3},{3,4},{4,5},{5,1}},
            {{1,2},{1,3},{2,3},{2,4},{4,5}} }
AllConnected == ConnectedGraphs

Depth == IF "VERIF_DEPTH" \in DOMAIN IOEnv THEN atoi(IOEnv.VERIF_DEPTH) ELSE 12

GInit == Init /\ hist = <<>> /\ pre = <<>> /\ links0 = links      \* links0: the initial link relation

\* (a relayed stream that finds no next hop starts a route search of its own in the implementation; the
\* model just drops it; the driver gives the search up and the judge counts it as one more FindRoute)

\* relayed streams are injected where they can be forwarded (a neighbour or some route to the destination)
InjectUseful == last'.op = "inject" =>
                  LET m == last'.m IN \/ (m.dest \notin Nbrs(m.to) /\ st[m.to].tb.routes[m.dest] # <<>>)
                                       \/ (m.dest \in Nbrs(m.to) /\ nfinds = 0)

GNext == /\ Len(hist) < Depth
         /\ Next
         /\ InjectUseful
         /\ hist' = Append(hist, last') /\ pre' = <<links, st, parked, net>> /\ UNCHANGED links0
GSpec == GInit /\ [][GNext]_<<vars, hist, links0, pre>>

EdgeView == <<pre, links, st, parked, net, nfinds, ninjects, nexp, nloss, nlink, last>>

\* ---- relay that has to fall back to discovery -----------------------------------------------
\* S=1 - a=2 - X=3 - T=4, z=5 - T.  Phase 1: FindRoute(S,T), everything delivered.  Phase 2: the link X-T
\* goes down and a-z comes up (either order).  Phase 3: a relayed stream S -> T enters at a; a forwards it
\* to X (its stored route), X has no hop left, searches, and learns a route that leads back through a.
Chain5 == { {{1,2},{2,3},{3,4},{5,4}} }
RPhaseOK ==
  /\ (last'.op = "find" => nfinds = 0 /\ last'.n = 1 /\ last'.t = 4)
  /\ (last'.op = "linkdown" => nfinds = 1 /\ <<last'.a, last'.b>> = <<3, 4>>)
  /\ (last'.op = "linkup"   => nfinds = 1 /\ <<last'.a, last'.b>> = <<2, 5>>)
  /\ (last'.op = "inject" => nlink = 2 /\ last'.m.to = 2 /\ last'.m.from = 1 /\ last'.m.dest = 4 /\ last'.m.paths = <<<<1>>>>)
  /\ last'.op \notin {"lose", "expire", "cancel"}
RNext == /\ Len(hist) < Depth
         /\ Next
         /\ RPhaseOK
         /\ hist' = Append(hist, last') /\ pre' = <<links, st, parked, net>> /\ UNCHANGED links0
RSpec == GInit /\ [][RNext]_<<vars, hist, links0, pre>>


\* ---- a response that comes back to a node on its own path while others still wait there -----------------------
\* The branch of onRouteResp the other generators do not reach (they reach it only with nobody waiting): a response
\* arrives at a node n that is ON one of its paths while a node that is not on that path still waits at n for the
\* same target.  It needs a cycle through n and two request branches for one target that merge:
\*   - two searches for the same target whose requests cross (4 nodes with a triangle: the answer one searcher
\*     forwards to the other comes back while a third node's request is pending), or
\*   - a table answer: a node C holds a passively recorded path S ... T ... for a target T that is not its neighbour
\*     (an earlier request of S went that way) and has heard of T's underlay; at a node P of the cycle the branch that
\*     came through S merges with one that did not (P asks C only once), so C's answer (checked against the path of
\*     the request it answers, which does not contain S) is forwarded to S.
\* TLC searches the behaviours of the given graphs breadth first (shortest first) for states in which such a response
\* is in flight and prints the history plus its delivery; who searches for whom is restricted to FindPairs, everything
\* else (order, losses, neighbour choice) is free.  The driver drains the rest of the traffic.
\*   Theta7:  O=1 - S=2 - X=4 - T=5 - Y=6 - C=7 - P=3, P - O, P - S   (triangle O S P and cycle S X T Y C P)
Theta7 == { {{1,2},{1,3},{2,3},{2,4},{4,5},{5,6},{6,7},{7,3}} }
HeardTheta7 == {<<7, 5>>}
PairsTheta7 == {<<2, 7>>, <<1, 5>>}
\*   Theta6:  the same without X (S is T's neighbour: S's own search for T is the branch that merges at P)
Theta6 == { {{1,2},{1,3},{2,3},{2,4},{4,5},{5,6},{6,3}} }
HeardTheta6 == {<<6, 4>>}
PairsTheta6 == {<<2, 6>>, <<1, 4>>, <<2, 4>>}
FindPairs == {}     \* overridden by the configuration
AllPairs == Node \X Node
\*   4 nodes: graphs with a triangle, every search is for node 4
Tri4 == Kite \cup { {{1,2},{2,3},{3,1},{3,4}}, {{1,2},{2,3},{3,4},{4,1},{1,3}} }
PairsTo4 == {<<1, 4>>, <<2, 4>>, <<3, 4>>}

LoopedRespAtWaiter(m) ==
  /\ m.k = "resp"
  /\ \A i \in 1..Len(m.paths) : Len(m.paths[i]) <= MaxTTL
  \* ... the receiver is on a path, and somebody who is not on it waits here (and could record a forwarded copy, which would still be within the hop limit)
  /\ \E i \in 1..Len(m.paths) : /\ m.to \in SeqRange(m.paths[i]) /\ Len(m.paths[i]) < MaxTTL
                                /\ \E x \in SeqRange(st[m.to].resp[m.dest]) : x # m.to /\ x \notin SeqRange(m.paths[i])
LoopedPending == \E m \in DOMAIN net : LoopedRespAtWaiter(m)

\* (pre is not needed here and kept empty: the states of 7 nodes are large)
MNext == /\ Len(hist) < Depth
         /\ ~LoopedPending
         /\ \/ \E p \in FindPairs : Find(p[1], p[2])
            \/ Deliver
            \/ Lose
         /\ hist' = Append(hist, last') /\ pre' = <<>> /\ UNCHANGED links0
MSpec == GInit /\ [][MNext]_<<vars, hist, links0, pre>>
MView == <<st, net>>

Scn == [par |-> [kind |-> "net", nodes |-> Node, links |-> links0, alpha |-> Alpha, maxttl |-> MaxTTL, heard |-> Heard], ops |-> hist]

Quiet == net = <<>> /\ hist # <<>>
EmitQuiet == Quiet => PrintT(<<"SCN", ToJson(Scn)>>)
EmitAll   == hist # <<>> => PrintT(<<"SCN", ToJson(Scn)>>)
EmitDone  == (Quiet /\ nfinds = MaxFinds /\ ninjects = MaxInjects) => PrintT(<<"SCN", ToJson(Scn)>>)
EmitRelayDone == ninjects = 1 => PrintT(<<"SCN", ToJson(Scn)>>)
EmitLooped == \A m \in DOMAIN net : LoopedRespAtWaiter(m) =>
                 PrintT(<<"SCN", ToJson([Scn EXCEPT !.ops = Append(hist, [op |-> "deliver", m |-> MsgRec(m), fwd |-> {}])])>>)
=============================================================================
