SPECIFICATION FairSpec
CONSTANTS
  Node <- N5
  Graphs <- Braid5
  Alpha = 2
  MaxTTL = 4
  MaxFinds = 1
  MaxInjects = 0
  MaxExpires = 0
  MaxLosses = 0
  MaxLinkChanges = 0
  AsBuilt = FALSE
VIEW DesignView
INVARIANTS RecordedPathsOK InFlightPathsOK RelaySkipOK BoundedMessages
CHECK_DEADLOCK FALSE
PROPERTY Quiescence
