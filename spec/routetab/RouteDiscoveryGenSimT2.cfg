SPECIFICATION GSpec
CONSTANTS
  Node <- N4
  Graphs <- Iso4
  Alpha = 2
  MaxTTL = 2
  MaxFinds = 2
  MaxInjects = 1
  MaxExpires = 1
  MaxLosses = 0
  MaxLinkChanges = 0
  AsBuilt = FALSE

INVARIANT EmitDone
CHECK_DEADLOCK FALSE
