SPECIFICATION TSpec
CONSTANTS
  Node <- TNode
  Alpha = 2
  MaxTTL = 10
  PathU = {}
  PersistOnDelete = TRUE
INVARIANT Report
POSTCONDITION AllConsumed
CHECK_DEADLOCK FALSE
