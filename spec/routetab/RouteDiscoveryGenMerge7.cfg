SPECIFICATION MSpec
CONSTANTS
  Node <- N7
  Graphs <- Theta7
  Heard <- HeardTheta7
  FindPairs <- PairsTheta7
  Alpha = 2
  MaxTTL = 7
  MaxFinds = 2
  MaxInjects = 0
  MaxExpires = 0
  MaxLosses = 0
  MaxLinkChanges = 0
  AsBuilt = FALSE
VIEW MView
INVARIANT EmitLooped
CHECK_DEADLOCK FALSE
