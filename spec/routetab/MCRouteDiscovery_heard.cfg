SPECIFICATION FairSpec
CONSTANTS
  Node <- N4
  Graphs <- Iso4
  Alpha = 2
  MaxTTL = 3
  MaxFinds = 1
  MaxInjects = 0
  MaxExpires = 1
  MaxLosses = 1
  MaxLinkChanges = 0
  AsBuilt = FALSE
  Heard <- HeardAll
VIEW DesignView
INVARIANTS RecordedPathsOK InFlightPathsOK RelaySkipOK BoundedMessages
CHECK_DEADLOCK FALSE
PROPERTY Quiescence
