--------------------------- MODULE MCRouteTable ---------------------------
(* Bounded exhaustive configurations of RouteTable (design check of C27).  *)
EXTENDS RouteTable

MCNode == {1, 2, 3}
\* paths sharing targets and neighbours, a duplicate node, a loop through the neighbour
MCPaths == {<<1, 2>>, <<1, 3>>, <<2, 1, 3>>, <<1, 1, 2>>, <<3, 1, 3>>, <<2, 3>>}
MCPathsSmall == {<<1, 2>>, <<1, 3>>, <<2, 1, 3>>, <<1, 1, 2>>}

\* time is bounded: three ticks are enough to reach every Gc age class
TimeBound == T.now <= 2

\* the last-operation record is observation only
DesignView == <<T, dead>>
=============================================================================
