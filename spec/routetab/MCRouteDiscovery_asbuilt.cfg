\* NOT part of the pipeline: the response forwarding as built (the same response object is extended once
\* more for every waiting source).  TLC is expected to refute InFlightPathsOK / RecordedPathsOK on the kite.
SPECIFICATION Spec
CONSTANTS
  Node <- N4
  Graphs <- Kite
  Alpha = 2
  MaxTTL = 3
  MaxFinds = 1
  MaxInjects = 0
  MaxExpires = 0
  MaxLosses = 0
  MaxLinkChanges = 0
  AsBuilt = TRUE
VIEW DesignView
INVARIANTS RecordedPathsOK InFlightPathsOK RelaySkipOK BoundedMessages
CHECK_DEADLOCK FALSE
