----------------------------- MODULE RouteTable -----------------------------
(* pkg/routetab/table.go: the route table of one node.  Property C27.        *)
(*                                                                            *)
(* A path is a sequence of nodes <<far end, ..., neighbour>>: its last item   *)
(* is the next hop (a neighbour of the holder); every earlier item is a       *)
(* target reachable through that neighbour.  The table keeps                  *)
(*   mem    : stored paths -> time of their last save   (Table.paths)         *)
(*   routes : target -> list of routes, newest first    (Table.routes);       *)
(*            a route is identified with its path (its neighbour is the       *)
(*            path's last item, its key the hash of the path)                 *)
(*   sp, sr : what the state store holds under the path / route prefixes      *)
(* One action per public call: SavePath, Delete, Gc, the reload sequence      *)
(* ResumeRoutes;ResumePaths on a fresh table over the same store; Tick is the *)
(* passing of (coarse) time.  The pure operators are shared with the judge.   *)
EXTENDS Integers, Sequences, FiniteSets, TLC

CONSTANTS Node,             \* node identifiers (small integers)
          Alpha,            \* configured number of routes per target (NeighborAlpha)
          MaxTTL,           \* ResumePaths drops longer paths
          PathU,            \* universe of paths offered to SavePath
          PersistOnDelete   \* TRUE: Delete rewrites the persisted route lists (intended design)
                            \* FALSE: as built (only the in-memory lists are rewritten)

ASSUME Alpha \in Nat \ {0}

Targets(p) == {p[i] : i \in 1..(Len(p) - 1)}
Nbr(p)     == p[Len(p)]
SeqRange(s) == {s[i] : i \in 1..Len(s)}
SeqFilter(s, Keep(_)) == SelectSeq(s, Keep)
NoRoutes == [t \in Node |-> <<>>]

(***************************************************************************)
(* Table state: record [mem, routes, sp, sr, now]                          *)
(***************************************************************************)
EmptyTable == [mem |-> <<>>, routes |-> NoRoutes, sp |-> <<>>, sr |-> NoRoutes, now |-> 0]

Stored(T)  == DOMAIN T.mem

\* SavePath: list of routes for one target after offering route p
\* (a = the configured number of routes per target)
NewList(old, p, a) ==
  IF p \in SeqRange(old) THEN old
  ELSE IF Len(old) > a THEN <<p>> \o SubSeq(old, 1, a)
  ELSE IF Len(old) = a THEN <<p>> \o SubSeq(old, 1, a - 1)
  ELSE <<p>> \o old

SaveIn(T, p, a) ==
  IF Len(p) < 2 THEN T
  ELSE LET nr == [t \in Node |-> IF t \in Targets(p) THEN NewList(T.routes[t], p, a) ELSE T.routes[t]]
       IN [T EXCEPT !.mem = (p :> T.now) @@ T.mem,
                    !.sp  = (p :> T.now) @@ T.sp,
                    !.routes = nr,
                    \* the list is persisted only when it changed (existRoute returns early)
                    !.sr  = [t \in Node |-> IF t \in Targets(p) /\ nr[t] # T.routes[t] THEN nr[t] ELSE T.sr[t]]]

Without(f, p) == [q \in (DOMAIN f) \ {p} |-> f[q]]

DeleteIn(T, p) ==
  LET nr == [t \in Node |-> IF t \in Targets(p) THEN SelectSeq(T.routes[t], LAMBDA r : r # p) ELSE T.routes[t]]
  IN [T EXCEPT !.mem = Without(T.mem, p),
               !.sp  = Without(T.sp, p),
               !.routes = nr,
               !.sr = IF PersistOnDelete
                      THEN [t \in Node |-> IF t \in Targets(p) /\ nr[t] # T.routes[t] THEN nr[t] ELSE T.sr[t]]
                      ELSE T.sr]

\* Gc(th): every stored path older than th is deleted
Expired(T, th) == {p \in DOMAIN T.mem : T.now - T.mem[p] > th}

RECURSIVE DeleteAll(_, _)
DeleteAll(T, S) == IF S = {} THEN T ELSE LET p == CHOOSE q \in S : TRUE IN DeleteAll(DeleteIn(T, p), S \ {p})

GcIn(T, th) == DeleteAll(T, Expired(T, th))

\* a new table on the same store: ResumeRoutes; ResumePaths
ReloadIn(T, ttl) ==
  LET keep == {p \in DOMAIN T.sp : Len(p) <= ttl}
  IN [T EXCEPT !.routes = T.sr,
               !.mem = [p \in keep |-> T.sp[p]],
               !.sp  = [p \in keep |-> T.sp[p]]]

TickIn(T) == [T EXCEPT !.now = T.now + 1]

\* Table.Get(t): the stored paths of t's routes, in list order
GetIn(T, t) == SelectSeq(T.routes[t], LAMBDA r : r \in DOMAIN T.mem)

\* Table.GetNextHop(t, skips)
NextHopsIn(T, t, skips) == {Nbr(r) : r \in SeqRange(T.routes[t])} \ skips

(***************************************************************************)
(* The property, as predicates over observations (shared with the judge):  *)
(*   stored : set of paths the table holds                                 *)
(*   dead   : paths deleted or expired and not saved again since           *)
(***************************************************************************)
PathHasTargetBeforeLast(p, t) == \E i \in 1..(Len(p) - 1) : p[i] = t

GetOK(got, t, dead, a) ==
  /\ Len(got) <= a
  /\ \A i \in 1..Len(got) : PathHasTargetBeforeLast(got[i], t) /\ got[i] \notin dead

HopJustified(h, t, stored, dead) ==
  \E p \in stored : p \notin dead /\ Nbr(p) = h /\ PathHasTargetBeforeLast(p, t)

(***************************************************************************)
(* Specification                                                           *)
(***************************************************************************)
VARIABLES T,      \* the table and its store
          dead,   \* history: deleted / expired and not saved again
          last    \* last operation (for generators and coverage)
vars == <<T, dead, last>>

Init == T = EmptyTable /\ dead = {} /\ last = [op |-> "init"]

SavePath(p) == /\ T' = SaveIn(T, p, Alpha)
               /\ dead' = IF Len(p) < 2 THEN dead ELSE dead \ {p}
               /\ last' = [op |-> "save", p |-> p]

Delete(p) == /\ T' = DeleteIn(T, p)
             /\ dead' = dead \cup {p}
             /\ last' = [op |-> "del", p |-> p]

Gc(th) == /\ T' = GcIn(T, th)
          /\ dead' = dead \cup Expired(T, th)
          /\ last' = [op |-> "gc", th |-> th]

Reload == /\ T' = ReloadIn(T, MaxTTL)
          /\ dead' = dead
          /\ last' = [op |-> "reload"]

Tick == /\ T' = TickIn(T)
        /\ dead' = dead
        /\ last' = [op |-> "tick"]

GcAges == {0, 1, 2}

Next == \/ \E p \in PathU : SavePath(p) \/ Delete(p)
        \/ \E th \in GcAges : Gc(th)
        \/ Reload
        \/ Tick

Spec == Init /\ [][Next]_vars

(***************************************************************************)
(* C27 as invariants of the design                                         *)
(***************************************************************************)
BoundedRoutes == \A t \in Node : Len(T.routes[t]) <= Alpha /\ Len(T.sr[t]) <= Alpha

GetSound == \A t \in Node : GetOK(GetIn(T, t), t, dead, Alpha)

SkipSets == {{}} \cup {{n} : n \in Node}

NextHopSound ==
  \A t \in Node : \A sk \in SkipSets :
     \A h \in NextHopsIn(T, t, sk) : h \notin sk /\ HopJustified(h, t, Stored(T), dead)

\* the consistency that makes the above inductive: routes only reference stored paths,
\* persisted routes only persisted paths, and nothing dead is stored
RoutesConsistent ==
  /\ \A t \in Node : SeqRange(T.routes[t]) \subseteq DOMAIN T.mem
  /\ \A t \in Node : SeqRange(T.sr[t]) \subseteq DOMAIN T.sp
  /\ DOMAIN T.mem \cap dead = {}
  /\ DOMAIN T.sp \cap dead = {}
  /\ \A t \in Node : \A i, j \in 1..Len(T.routes[t]) : i # j => T.routes[t][i] # T.routes[t][j]
=============================================================================
