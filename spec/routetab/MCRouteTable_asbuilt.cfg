\* NOT part of the pipeline: the table as built (Delete leaves the persisted route lists alone).
\* TLC is expected to refute NextHopSound with  SavePath; Delete; Reload.
SPECIFICATION Spec
CONSTANTS
  Node <- MCNode
  Alpha = 2
  MaxTTL = 4
  PathU <- MCPathsSmall
  PersistOnDelete = FALSE
CONSTRAINT TimeBound
VIEW DesignView
INVARIANTS BoundedRoutes GetSound NextHopSound
