------------------------ MODULE RouteDiscoveryTrace ------------------------
(* Judge for C28 (monitor mode, see TraceKit): replays what routedrv recorded *)
(* from real routetab.Service instances joined by the queueing streamer.      *)
(*                                                                            *)
(* Verdict clauses use only the scenario's link relation and what the nodes   *)
(* recorded / returned / sent.  The conformance part keeps, per node, the     *)
(* state observed after its last step (table, pending table, address book)    *)
(* and compares the messages the node sent in a step with the node-local step *)
(* function of RouteDiscovery applied to that state (notes, never alarms).    *)
EXTENDS RouteDiscovery, TraceKit

TNodes == 1..7

VARIABLES l, cf, ms, pk, bad, notes
\* cf : configuration of the running scenario [alpha, ttl, nodes, lk]
\* ms : node -> node-local state as last observed (plus its outstanding FindRoute calls)
\* pk : node -> relay messages whose handler was observed to wait in FindRoute
\* cf.lk follows the scenario's linkdown / linkup steps; cf.ever collects every link that existed

ToSet(s) == {s[i] : i \in DOMAIN s}
LinkSet(e) == {{e.links[i][1], e.links[i][2]} : i \in DOMAIN e.links}

HeardSet(e) == {<<e.heard[i][1], e.heard[i][2]>> : i \in DOMAIN e.heard}
Cfg(e) == [alpha |-> e.alpha, ttl |-> e.maxttl, nodes |-> ToSet(e.nodes), lk |-> LinkSet(e), ever |-> LinkSet(e), heard |-> HeardSet(e)]
NoCfg  == [alpha |-> 1, ttl |-> 1, nodes |-> {}, lk |-> {}, ever |-> {}, heard |-> {}]
CfgAfter(c, e) == IF e.op = "linkdown" THEN [c EXCEPT !.lk = @ \ {{e.a, e.b}}]
                  ELSE IF e.op = "linkup" THEN [c EXCEPT !.lk = @ \cup {{e.a, e.b}}, !.ever = @ \cup {{e.a, e.b}}]
                  ELSE c

\* ---- observations ---------------------------------------------------------
ObsGetOf(get, t) == LET J == {j \in DOMAIN get : get[j][1] = t}
                    IN IF J = {} THEN <<>> ELSE get[CHOOSE j \in J : TRUE][2]
ObsResp(e, t) == LET J == {j \in DOMAIN e.pend_resp : e.pend_resp[j][1] = t}
                 IN IF J = {} THEN <<>> ELSE e.pend_resp[CHOOSE j \in J : TRUE][2]

ObsNode(c, e, finding) ==
  [tb |-> [paths |-> ToSet(e.tab), routes |-> [t \in c.nodes |-> ObsGetOf(e.get, t)]],
   resp |-> [t \in c.nodes |-> ObsResp(e, t)],
   reqlog |-> {<<e.pend_req[i][1], e.pend_req[i][2]>> : i \in DOMAIN e.pend_req},
   book |-> ToSet(e.book),
   finding |-> finding]

MsgOf(x) == [k |-> x.k, from |-> x.from, to |-> x.to, dest |-> x.dest, paths |-> x.paths, alpha |-> x.alpha, u |-> x.u]
SentSet(e) == {MsgOf(e.sent[i]) : i \in DOMAIN e.sent}

\* ---- verdict: the statement of C28 over what was observed ----------------------
\* all paths node n holds or returns in this event
PathsAt(e) ==
  IF e.op = "end"
  THEN UNION {{<<e.tabs[j][1], p>> : p \in ToSet(e.tabs[j][2])
                  \cup UNION {ToSet(e.tabs[j][3][k][2]) : k \in DOMAIN e.tabs[j][3]}} : j \in DOMAIN e.tabs}
  ELSE IF e.node = 0 THEN {}
  ELSE {<<e.node, p>> : p \in ToSet(e.tab) \cup UNION {ToSet(e.get[k][2]) : k \in DOMAIN e.get}}

Returned(e) == UNION {{<<e.finds[j].n, p>> : p \in ToSet(e.finds[j].paths)} : j \in DOMAIN e.finds}

Verdict(c, e) ==
  LET P == PathsAt(e) \cup Returned(e)
  IN    Clause("C28:no_panic", ~e.panicked)
     \o Clause("C28:recorded_path_has_distinct_nodes", \A x \in P : PathDistinct(x[2]))
     \o Clause("C28:recorded_path_follows_neighbour_links", \A x \in P : PathLinked(c.ever, x[1], x[2]))
     \o Clause("C28:recorded_path_within_hop_limit", \A x \in P : PathWithinLimit(c.ttl, x[2]))
     \o Clause("C28:recorded_path_excludes_holder", \A x \in P : PathExcludesHolder(x[1], x[2]))
     \o Clause("C28:relay_not_forwarded_to_node_on_its_path", \A m \in SentSet(e) : RelayMsgOK(m))
     \o (IF e.op = "end"
         THEN Clause("C28:discovery_terminates",
                     /\ e.left = 0 /\ ~e.capped
                     /\ e.total_sent <= MsgBound(e.nfinds + e.relay_searches, e.ninjects, c.alpha, c.ttl, Cardinality(c.nodes)))
         ELSE <<>>)

\* ---- conformance notes ------------------------------------------------------------
Predicted(c, e, S) ==
  LET n == e.node
      nb == {x \in c.nodes : x # n /\ {n, x} \in c.lk}
  IN CASE e.op = "find"    -> FindStep(c, S, n, e.t, ToSet(e.fwd))
       [] e.op = "deliver" /\ e.m.k = "req"  -> ReqStep(c, S, n, nb, MsgOf(e.m), ToSet(e.fwd))
       [] e.op = "deliver" /\ e.m.k = "resp" -> RespStep(c, S, n, MsgOf(e.m))
       [] e.op = "expire"  -> [S |-> ExpireStep(c, S), out |-> {}, done |-> {}]
       [] e.op = "cancel"  -> IF e.t \in DOMAIN S.finding
                              THEN [S |-> CancelStep(S, e.t), out |-> {}, done |-> {e.t}]
                              ELSE Nothing(S)
       [] OTHER -> Nothing(S)

IsRelayDeliver(e) == e.op = "deliver" /\ e.m.k = "relay"

Drift(c, e, S, P) ==
  IF e.op \in {"reset", "end", "miss", "lose", "inject", "linkdown", "linkup"} \/ e.node = 0 THEN
     (IF e.op = "miss" THEN <<"scheduled_message_was_not_in_the_queue">> ELSE <<>>)
  ELSE IF IsRelayDeliver(e) THEN
     LET n == e.node
         nb == {x \in c.nodes : x # n /\ {n, x} \in c.lk}
         ch == RelayChoices(S, n, nb, MsgOf(e.m))
         relays == {m \in SentSet(e) : m.k = "relay"}
     IN IF ch # {} \/ n = e.m.dest
        THEN Clause("relay_next_hop_differs_from_model",
                    /\ ~e.parked
                    /\ \/ (ch = {} /\ SentSet(e) = {})
                       \/ \E nx \in ch : RelayStep(S, n, MsgOf(e.m), nx).out = SentSet(e))
        ELSE IF e.m.dest \in DOMAIN S.finding
        THEN \* a search for the destination is already running at this node: the handler waits for it
             Clause("relay_search_differs_from_model", SentSet(e) = {} /\ e.parked)
        ELSE \* no stored hop off the path: the handler searches (FindStep) and waits
             Clause("relay_search_differs_from_model",
                    /\ relays = {}
                    /\ FindStep(c, S, n, e.m.dest, ToSet(e.fwd)).out = SentSet(e)
                    /\ e.parked = (ToSet(e.fwd) # {}))
  ELSE
     LET r == Predicted(c, e, S)
         n == e.node
         nb == {x \in c.nodes : x # n /\ {n, x} \in c.lk}
         o == ObsNode(c, e, r.S.finding)
         woken == IF e.op = "deliver" /\ e.m.k = "resp" THEN {p \in P[n] : p.dest \in r.done} ELSE {}
         relays == {m \in SentSet(e) : m.k = "relay"}
         relaysOK == IF woken = {} THEN relays = {}
                     ELSE LET p == CHOOSE x \in woken : TRUE
                              ch == ResumeChoices(r.S, n, nb, p)
                          IN IF ch = {} THEN relays = {} ELSE \E nx \in ch : RelayStep(r.S, n, p, nx).out = relays
     IN    Clause("sent_messages_differ_from_model", r.out = SentSet(e) \ relays)
        \o Clause("resumed_relay_differs_from_model", relaysOK /\ (e.op = "deliver" => e.resumed = (woken # {})))
        \o Clause("table_differs_from_model", r.S.tb = o.tb)
        \o Clause("pending_differs_from_model", r.S.resp = o.resp /\ r.S.reqlog = o.reqlog)
        \o Clause("address_book_differs_from_model", r.S.book = o.book)
        \o Clause("findroute_returns_differ_from_model",
                  LET obs == {e.finds[j].t : j \in DOMAIN e.finds}
                  IN obs \subseteq r.done /\ r.done \ {p.dest : p \in woken} \subseteq obs)

\* finding after the event: the model's, minus whatever was observed to return
FindingAfter(c, e, S) ==
  LET f == IF e.op = "find" /\ e.fwd # <<>> THEN (e.t :> ToSet(e.fwd)) @@ S.finding
           ELSE IF IsRelayDeliver(e) /\ e.parked /\ e.m.dest \notin DOMAIN S.finding THEN (e.m.dest :> ToSet(e.fwd)) @@ S.finding
           ELSE S.finding
      gone == {e.finds[j].t : j \in DOMAIN e.finds}
              \cup (IF e.op = "deliver" /\ e.resumed THEN {e.m.dest} ELSE {})
  IN [t \in (DOMAIN f) \ gone |-> f[t]]

TInit == l = 1 /\ cf = NoCfg /\ ms = <<>> /\ pk = <<>> /\ bad = <<>> /\ notes = <<>>
         /\ links = {} /\ everlinks = {} /\ st = <<>> /\ parked = <<>> /\ net = <<>> /\ nsent = 0 /\ nfinds = 0 /\ ninjects = 0
         /\ nexp = 0 /\ nloss = 0 /\ nlink = 0
         /\ last = [op |-> "init"]

TStep == /\ l <= NEvents
         /\ LET e == Trace[l]
                c == IF e.op = "reset" THEN Cfg(e) ELSE CfgAfter(cf, e)
                S == IF e.op # "reset" /\ e.op # "end" /\ e.node # 0 THEN ms[e.node] ELSE <<>>
                cs == Verdict(c, e)
                dr == Drift(c, e, S, pk)
            IN /\ l' = l + 1
               /\ cf' = c
               /\ bad' = IF cs = <<>> THEN bad ELSE Append(bad, BadRec(l, e, cs))
               /\ notes' = IF dr = <<>> \/ Len(notes) >= 20 THEN notes ELSE Append(notes, BadRec(l, e, dr))
               /\ pk' = IF e.op = "reset" THEN [n \in c.nodes |-> {}]
                        ELSE IF IsRelayDeliver(e) /\ e.node # 0 /\ e.parked THEN [pk EXCEPT ![e.node] = {MsgOf(e.m)}]
                        ELSE IF e.op = "deliver" /\ e.node # 0 /\ e.resumed THEN [pk EXCEPT ![e.node] = {}]
                        ELSE pk
               /\ ms' = IF e.op = "reset"
                        THEN [n \in c.nodes |-> InitNode(c, {x \in c.nodes : x # n /\ {n, x} \in c.lk} \cup {t \in c.nodes : <<n, t>> \in c.heard})]
                        ELSE IF e.op = "linkup" THEN [ms EXCEPT ![e.a].book = @ \cup {e.b}, ![e.b].book = @ \cup {e.a}]
                        ELSE IF e.op = "end" \/ e.node = 0 THEN ms
                        ELSE [ms EXCEPT ![e.node] = ObsNode(c, e, FindingAfter(c, e, S))]
         /\ UNCHANGED vars

TSpec == TInit /\ [][TStep]_<<vars, l, cf, ms, pk, bad, notes>>

Report == ReportBad(l, bad, notes)
=============================================================================
