SPECIFICATION Spec
CONSTANTS
  Node <- MCNode
  Alpha = 2
  MaxTTL = 4
  PathU <- MCPaths
  PersistOnDelete = TRUE
CONSTRAINT TimeBound
VIEW DesignView
INVARIANTS BoundedRoutes GetSound NextHopSound RoutesConsistent
