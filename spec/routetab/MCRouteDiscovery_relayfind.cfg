SPECIFICATION FairSpec
CONSTANTS
  Node <- N5
  Graphs <- Chain5
  Alpha = 2
  MaxTTL = 4
  MaxFinds = 1
  MaxInjects = 1
  MaxExpires = 0
  MaxLosses = 0
  MaxLinkChanges = 2
  AsBuilt = FALSE
VIEW DesignView
INVARIANTS RecordedPathsOK InFlightPathsOK RelaySkipOK BoundedMessages
CHECK_DEADLOCK FALSE
PROPERTY Quiescence
