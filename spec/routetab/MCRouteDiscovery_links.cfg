SPECIFICATION FairSpec
CONSTANTS
  Node <- N4
  Graphs <- Path4
  Alpha = 2
  MaxTTL = 3
  MaxFinds = 1
  MaxInjects = 1
  MaxExpires = 0
  MaxLosses = 0
  MaxLinkChanges = 1
  AsBuilt = FALSE
VIEW DesignView
INVARIANTS RecordedPathsOK InFlightPathsOK RelaySkipOK BoundedMessages
CHECK_DEADLOCK FALSE
PROPERTY Quiescence
