SPECIFICATION GSpec
CONSTANTS
  Node <- N4
  Graphs <- Small4
  Alpha = 2
  MaxTTL = 3
  MaxFinds = 1
  MaxInjects = 0
  MaxExpires = 0
  MaxLosses = 0
  MaxLinkChanges = 0
  AsBuilt = FALSE
VIEW EdgeView
INVARIANT EmitAll
CHECK_DEADLOCK FALSE
