SPECIFICATION MSpec
CONSTANTS
  Node <- N4
  Graphs <- Tri4
  FindPairs <- PairsTo4
  Alpha = 2
  MaxTTL = 4
  MaxFinds = 2
  MaxInjects = 0
  MaxExpires = 0
  MaxLosses = 0
  MaxLinkChanges = 0
  AsBuilt = FALSE
VIEW MView
INVARIANT EmitLooped
CHECK_DEADLOCK FALSE
