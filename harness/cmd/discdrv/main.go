// discdrv: conformance driver of chunk-info discovery and pyramid exchange (growth module spec/discovery).
//
// Every scenario gets three fresh real nodes (internal/nodelite: localstore + netstore + retrieval +
// traversal + chunkinfo + api) A, B, C on one in-memory switchboard.  A uploads the file through its
// API; depending on the topology C has fetched one data chunk from A (so A advertises C) or is the
// only hop from B to A.  Then the switchboard is put in hold mode for the chunk-info protocol: every
// pyramid request/response and every chunk-info request/response is queued, and the scenario (a TLC
// behaviour of Discovery.tla) says which queued message is delivered, dropped or duplicated next,
// when ChunkInfo.Init is called, when the file / its discovery is deleted, which timeout trigger
// fires, and - for the forced schedule of the late-response/deletion race - where a response
// handler is parked (inside the state store's Put of the discovery record) while a deletion runs.
//
// No oracle: after every operation the driver logs the queued messages and, per node, a dump of
// the package's records of the root (verif hook VerifDump), the persisted keys, which chunks are
// stored and whether Init has returned.  Discovery.tla's trace specification judges.
//
// A panic inside a stream handler is recovered by the switchboard's delivery and logged as the
// crash of that node (libp2p does not recover handler panics: the real node would die); a panic in
// a goroutine of the package kills the child process and is turned into a `crash` event by
// internal/supervise.
package main

import (
	"bytes"
	"context"
	"encoding"
	"encoding/binary"
	"encoding/hex"
	"encoding/json"
	"fmt"
	"io/ioutil"
	"math/rand"
	"net/http"
	"os"
	"regexp"
	"runtime/debug"
	"runtime/pprof"
	"sort"
	"strings"
	"sync"
	"sync/atomic"
	"time"

	"github.com/gauss-project/aurorafs/pkg/boson"
	"github.com/gauss-project/aurorafs/pkg/chunkinfo"
	"github.com/gauss-project/aurorafs/pkg/chunkinfo/pb"
	"github.com/gauss-project/aurorafs/pkg/logging"
	"github.com/gauss-project/aurorafs/pkg/p2p/protobuf"
	rmock "github.com/gauss-project/aurorafs/pkg/routetab/mock"
	"github.com/gauss-project/aurorafs/pkg/sctx"
	"github.com/gauss-project/aurorafs/pkg/shed/driver"
	"github.com/gauss-project/aurorafs/pkg/storage"
	"github.com/gogo/protobuf/proto"

	"verifharness/internal/kit"
	"verifharness/internal/nodelite"
	"verifharness/internal/supervise"
	"verifharness/internal/swb"
)

const CS = 262144

const (
	ciProtocol  = "chunkinfo"
	ciVersion   = "2.0.0"
	streamReq   = "chunkinforeq"
	streamResp  = "chunkinforesp"
	streamPyr   = "chunkpyramid"
	nGhostsTopo = 12
)

// ---------------------------------------------------------------- state store

// memState is the nodes' state store: the contract of statestore/leveldb (C18: a string-keyed map, BinaryMarshaler or
// JSON values, ascending prefix iteration over a snapshot, so that a callback may write) without its 32 MiB write
// buffer, which dominated the cost of a scenario (three nodes, six database opens).  Harness-supplied dependency.
type memState struct {
	mu sync.Mutex
	m  map[string][]byte
}

func newMemState() *memState { return &memState{m: map[string][]byte{}} }

func (s *memState) Get(key string, i interface{}) error {
	s.mu.Lock()
	data, ok := s.m[key]
	s.mu.Unlock()
	if !ok {
		return storage.ErrNotFound
	}
	if u, ok := i.(encoding.BinaryUnmarshaler); ok {
		return u.UnmarshalBinary(data)
	}
	return json.Unmarshal(data, i)
}

func (s *memState) Put(key string, i interface{}) error {
	var b []byte
	var err error
	if m, ok := i.(encoding.BinaryMarshaler); ok {
		if b, err = m.MarshalBinary(); err != nil {
			return err
		}
	} else if b, err = json.Marshal(i); err != nil {
		return err
	}
	s.mu.Lock()
	s.m[key] = b
	s.mu.Unlock()
	return nil
}

func (s *memState) Delete(key string) error {
	s.mu.Lock()
	delete(s.m, key)
	s.mu.Unlock()
	return nil
}

func (s *memState) Iterate(prefix string, fn storage.StateIterFunc) error {
	s.mu.Lock()
	var keys []string
	for k := range s.m {
		if strings.HasPrefix(k, prefix) {
			keys = append(keys, k)
		}
	}
	sort.Strings(keys)
	vals := make([][]byte, len(keys))
	for i, k := range keys {
		vals[i] = append([]byte(nil), s.m[k]...)
	}
	s.mu.Unlock()
	for i, k := range keys {
		stop, err := fn([]byte(k), vals[i])
		if err != nil {
			return err
		}
		if stop {
			return nil
		}
	}
	return nil
}

func (s *memState) DB() driver.BatchDB { return nil }
func (s *memState) Close() error       { return nil }

// ---------------------------------------------------------------- gate store

// gateStore parks one Put whose key has the armed prefix until released (forced schedule).
type gateStore struct {
	storage.StateStorer
	mu      sync.Mutex
	armed   string
	parked  chan struct{}
	release chan struct{}
}

func (g *gateStore) arm(prefix string) {
	g.mu.Lock()
	g.armed = prefix
	g.parked = make(chan struct{})
	g.release = make(chan struct{})
	g.mu.Unlock()
}

func (g *gateStore) Put(key string, v interface{}) error {
	g.mu.Lock()
	if g.armed != "" && strings.HasPrefix(key, g.armed) {
		g.armed = ""
		parked, rel := g.parked, g.release
		g.mu.Unlock()
		close(parked)
		<-rel
	} else {
		g.mu.Unlock()
	}
	return g.StateStorer.Put(key, v)
}

// ---------------------------------------------------------------- world

type wnode struct {
	name    string
	n       *nodelite.Node
	route   *rmock.MockRouteTable
	gate    *gateStore
	init    int32 // 0 none, 1 running, 2 true, 3 false, 4 panicked
	crashed bool
}

type pendingDelivery struct {
	d    *swb.Delivery
	node string
	seen bool
}

type world struct {
	board   *swb.Board
	hold    *swb.Hold
	nodes   map[string]*wnode
	names   map[string]string
	root    boson.Address
	data    []boson.Address
	ghosts  []boson.Address
	attack  *swb.Port
	pend    []*pendingDelivery
	async   []chan struct{}
	logger  logging.Logger
	crash   string
	ptext   string
	topo    string
	fileTag string
	cond    func() bool // what else the current operation waits for (tables of the acting node)
}

var nodeNames = []string{"A", "B", "C"}

func addrRand(r *rand.Rand) boson.Address {
	b := make([]byte, 32)
	r.Read(b)
	return boson.NewAddress(b)
}

func fileContent(tag string, seed int64) []byte {
	n := 1000
	if tag == "F2" {
		n = CS + 1000
	}
	b := make([]byte, n)
	rand.New(rand.NewSource(seed*977 + int64(len(tag)) + int64(tag[1]))).Read(b)
	return b
}

func (w *world) name(hexaddr string) string {
	if n, ok := w.names[hexaddr]; ok {
		return n
	}
	if len(hexaddr) >= 6 {
		return "?" + hexaddr[:6]
	}
	return "?" + hexaddr
}

func (w *world) addrOf(name string) (boson.Address, bool) {
	for h, n := range w.names {
		if n == name {
			return boson.MustParseHexAddress(h), true
		}
	}
	return boson.ZeroAddress, false
}

func newWorld(par map[string]interface{}, rng *rand.Rand, seed int64, logger logging.Logger) (*world, error) {
	w := &world{board: swb.NewBoard(), nodes: map[string]*wnode{}, names: map[string]string{}, logger: logger}
	w.topo = kit.Str(par, "topo")
	if w.topo == "" {
		w.topo = "direct"
	}
	w.fileTag = kit.Str(par, "file")
	if w.fileTag == "" {
		w.fileTag = "F1"
	}
	w.hold = w.board.EnableHold(
		func(protocol, stream string) bool { return protocol == ciProtocol },
		func(protocol, stream string) bool { return stream == streamPyr })
	for _, nm := range nodeNames {
		addr := addrRand(rng)
		if nm == "C" && w.topo != "partial" && w.topo != "relay" {
			// C takes no part in this topology: it is not built (its projection is that of a node without records)
			w.names[addr.String()] = nm
			continue
		}
		g := &gateStore{StateStorer: newMemState()}
		rt := rmock.NewMockRouteTable()
		n, err := nodelite.NewWithOptions(w.board, addr, "", g, logger, nodelite.Options{Route: &rt, StoreDriver: `leveldb:{"WriteBuffer":1048576}`})
		if err != nil {
			return nil, err
		}
		w.nodes[nm] = &wnode{name: nm, n: n, route: &rt, gate: g}
		w.names[addr.String()] = nm
	}
	matt := addrRand(rng)
	w.attack = w.board.Port(matt)
	w.names[matt.String()] = "M"

	a, b, c := w.nodes["A"], w.nodes["B"], w.nodes["C"]
	ref, _, err := a.n.Upload("f", fileContent(w.fileTag, seed), false, false)
	if err != nil {
		return nil, fmt.Errorf("setup upload: %w", err)
	}
	w.root = ref
	lists, _, err := a.n.Trav.GetChunkHashes(context.Background(), ref, nil)
	if err != nil {
		return nil, fmt.Errorf("setup chunk list: %w", err)
	}
	seen := map[string]bool{}
	for _, l := range lists {
		for _, x := range l {
			h := hex.EncodeToString(x)
			if !seen[h] {
				seen[h] = true
				w.data = append(w.data, boson.NewAddress(x))
			}
		}
	}
	switch w.topo {
	case "direct":
	case "partial":
		// C fetches the first data chunk from A under the file's context (pyramid by way of pyramidCheck)
		ctx := sctx.SetRootHash(sctx.SetTargets(context.Background(), a.n.Addr.String()), ref)
		if _, err := c.n.NS.Get(ctx, storage.ModeGetRequest, w.data[0]); err != nil {
			return nil, fmt.Errorf("setup partial: %w", err)
		}
	case "relay":
		// B reaches A only through C
		b.route.RejectAddrList = []boson.Address{a.n.Addr}
		b.route.NeighborMap = map[string][]boson.Address{a.n.Addr.String(): {c.n.Addr}}
	case "ghosts":
		// A has served the first chunk to a dozen peers that are gone: it advertises them
		for i := 0; i < nGhostsTopo; i++ {
			g := addrRand(rng)
			w.ghosts = append(w.ghosts, g)
			w.names[g.String()] = fmt.Sprintf("G%02d", i+1)
			if err := a.n.CI.OnChunkTransferred(w.data[0], ref, g, a.n.Addr); err != nil {
				return nil, fmt.Errorf("setup ghosts: %w", err)
			}
		}
	default:
		return nil, fmt.Errorf("unknown topology %q", w.topo)
	}
	for _, nm := range nodeNames {
		if w.nodes[nm] != nil {
			w.nodes[nm].n.Settle()
		}
	}
	w.hold.SetActive(true)
	return w, nil
}

func (w *world) close() {
	w.hold.SetActive(false)
	for _, nm := range nodeNames {
		wn := w.nodes[nm]
		if wn == nil {
			continue
		}
		// release anything still parked so that goroutines end
		wn.gate.mu.Lock()
		wn.gate.armed = ""
		rel := wn.gate.release
		wn.gate.mu.Unlock()
		if rel != nil {
			select {
			case <-rel:
			default:
				close(rel)
			}
		}
	}
	for _, m := range w.hold.List() {
		_ = w.hold.Drop(m.ID)
	}
	w.board.DisableHold()
	for _, nm := range nodeNames {
		if w.nodes[nm] != nil {
			w.nodes[nm].n.Close()
		}
	}
}

// ---------------------------------------------------------------- projection

func bitsOf(b []byte, n int) []int {
	out := make([]int, 0, n)
	for i := 0; i < n; i++ {
		if i/8 < len(b) && b[i/8]&(1<<uint(i%8)) != 0 {
			out = append(out, 1)
		} else {
			out = append(out, 0)
		}
	}
	return out
}

func (w *world) vecs(m map[string]chunkinfo.VerifBits, skip string) []interface{} {
	out := []interface{}{}
	keys := make([]string, 0, len(m))
	for k := range m {
		keys = append(keys, k)
	}
	sort.Slice(keys, func(i, j int) bool { return w.name(keys[i]) < w.name(keys[j]) })
	for _, k := range keys {
		nm := w.name(k)
		if nm == skip {
			continue
		}
		v := m[k]
		out = append(out, map[string]interface{}{"o": nm, "len": v.Len, "bits": bitsOf(v.B, v.Len), "nil": v.Nil})
	}
	return out
}

func (w *world) namesOf(hexes []string) []string {
	out := make([]string, 0, len(hexes))
	for _, h := range hexes {
		out = append(out, w.name(h))
	}
	return out
}

var keyPrefixes = []string{"chunk-", "discover-", "sourceChunk-", "sourcePyramid-"}

func (w *world) projNode(wn *wnode) (map[string]interface{}, error) {
	d := wn.n.CI.VerifDump(w.root)
	r := map[string]interface{}{}
	r["hasq"] = d.Queue != nil
	un, ing, ed := []string{}, []string{}, []string{}
	if d.Queue != nil {
		un, ing, ed = w.namesOf(d.Queue.UnPull), w.namesOf(d.Queue.Pulling), w.namesOf(d.Queue.Pulled)
	}
	r["un"], r["ing"], r["ed"] = un, ing, ed
	r["pend"], r["sync"] = d.Pending, d.Sync
	trig := w.namesOf(d.Triggers)
	sort.Strings(trig)
	r["trig"] = trig
	r["pyr"], r["cmax"] = d.Pyramid, d.ChunkMax
	r["skey"] = d.ServerKey
	own := map[string]interface{}{"has": false, "len": 0, "bits": []int{}}
	if v, ok := d.Server[wn.n.Addr.String()]; ok {
		own = map[string]interface{}{"has": true, "len": v.Len, "bits": bitsOf(v.B, v.Len)}
	}
	r["own"] = own
	r["nbr"] = w.vecs(d.Server, wn.name)
	r["order"] = w.namesOf(d.ServerOrder)
	r["dkey"] = d.DiscoverKey
	r["disc"] = w.vecs(d.Discover, "")
	r["srckey"] = d.SourceKey
	ps := ""
	if d.PyramidSource != "" {
		ps = w.name(d.PyramidSource)
	}
	r["pyrsrc"] = ps
	r["src"] = w.vecs(d.Source, "")
	keys := []interface{}{}
	for _, pfx := range keyPrefixes {
		full := pfx + w.root.String()
		var ks []string
		if err := wn.n.State.Iterate(full, func(k, v []byte) (bool, error) {
			if !strings.HasPrefix(string(k), full) {
				return true, nil
			}
			rest := strings.TrimPrefix(string(k), full+"-")
			ks = append(ks, w.name(rest))
			return false, nil
		}); err != nil {
			return nil, err
		}
		sort.Strings(ks)
		for _, k := range ks {
			keys = append(keys, []string{strings.TrimSuffix(pfx, "-"), k})
		}
	}
	r["keys"] = keys
	stored := []int{}
	for _, a := range w.data {
		has, err := wn.n.Store.Has(context.Background(), storage.ModeHasChunk, a)
		if err != nil {
			return nil, err
		}
		if has {
			stored = append(stored, 1)
		} else {
			stored = append(stored, 0)
		}
	}
	r["stored"] = stored
	has, err := wn.n.Store.Has(context.Background(), storage.ModeHasChunk, w.root)
	if err != nil {
		return nil, err
	}
	r["pst"] = has
	_, roots := wn.n.CI.GetFileList(wn.n.Addr)
	listed := false
	for _, x := range roots {
		if x.Equal(w.root) {
			listed = true
		}
	}
	r["listed"] = listed
	// what the public getters show (what a peer / the API sees)
	r["busy"] = d.DiscoverBusy
	if d.DiscoverBusy {
		r["pubdisc"] = len(d.Discover) // the getter would wait for the parked worker
	} else {
		r["pubdisc"] = len(wn.n.CI.GetChunkInfoDiscoverOverlays(w.root))
	}
	r["pubsrv"] = len(wn.n.CI.GetChunkInfoServerOverlays(w.root))
	src := wn.n.CI.GetChunkInfoSource(w.root)
	r["pubsrc"] = len(src.ChunkSource)
	r["pubpyrsrc"] = src.PyramidSource != ""
	r["init"] = []string{"none", "running", "true", "false", "panicked"}[atomic.LoadInt32(&wn.init)]
	r["crashed"] = wn.crashed
	return r, nil
}

// absentNode is the projection of a node that was not built (it takes no part in the topology): no records at all.
func (w *world) absentNode() map[string]interface{} {
	zeros := make([]int, len(w.data))
	return map[string]interface{}{"hasq": false, "un": []string{}, "ing": []string{}, "ed": []string{}, "pend": false, "sync": false,
		"trig": []string{}, "pyr": false, "cmax": 0, "skey": false, "own": map[string]interface{}{"has": false, "len": 0, "bits": []int{}},
		"nbr": []interface{}{}, "order": []string{}, "dkey": false, "disc": []interface{}{}, "srckey": false, "pyrsrc": "",
		"src": []interface{}{}, "keys": []interface{}{}, "stored": zeros, "pst": false, "listed": false, "busy": false,
		"pubdisc": 0, "pubsrv": 0, "pubsrc": 0, "pubpyrsrc": false, "init": "none", "crashed": false, "absent": true}
}

type heldView struct {
	id   int
	rec  map[string]interface{}
	sort string
}

func readDelimited(b []byte) (msgs [][]byte) {
	for len(b) > 0 {
		n, k := binary.Uvarint(b)
		if k <= 0 || uint64(len(b)-k) < n {
			return
		}
		msgs = append(msgs, b[k:k+int(n)])
		b = b[k+int(n):]
	}
	return
}

func (w *world) viewHeld() []heldView {
	var out []heldView
	for _, m := range w.hold.List() {
		rec := map[string]interface{}{"f": w.name(m.From.String()), "t": w.name(m.To.String()), "tg": "-", "rq": "-",
			"pres": []interface{}{}, "ok": true, "k": "?", "root": true}
		msgs := readDelimited(m.Data)
		switch {
		case m.Stream == streamReq && len(msgs) > 0:
			var q pb.ChunkInfoReq
			if proto.Unmarshal(msgs[0], &q) == nil {
				rec["k"] = "req"
				rec["tg"] = w.name(hex.EncodeToString(q.Target))
				rec["rq"] = w.name(hex.EncodeToString(q.Req))
				rec["root"] = bytes.Equal(q.RootCid, w.root.Bytes())
			}
		case m.Stream == streamResp && len(msgs) > 0:
			var q pb.ChunkInfoResp
			if proto.Unmarshal(msgs[0], &q) == nil {
				rec["k"] = "resp"
				rec["tg"] = w.name(hex.EncodeToString(q.Target))
				rec["rq"] = w.name(hex.EncodeToString(q.Req))
				rec["root"] = bytes.Equal(q.RootCid, w.root.Bytes())
				pres := []interface{}{}
				keys := make([]string, 0, len(q.Presence))
				for k := range q.Presence {
					keys = append(keys, k)
				}
				sort.Slice(keys, func(i, j int) bool { return w.name(keys[i]) < w.name(keys[j]) })
				for _, k := range keys {
					pres = append(pres, map[string]interface{}{"o": w.name(k), "nbytes": len(q.Presence[k]), "bits": bitsOf(q.Presence[k], len(w.data))})
				}
				rec["pres"] = pres
			}
		case m.Stream == streamPyr && m.Leg == "req" && len(msgs) > 0:
			var q pb.ChunkPyramidReq
			if proto.Unmarshal(msgs[0], &q) == nil {
				rec["k"] = "preq"
				rec["tg"] = w.name(hex.EncodeToString(q.Target))
				rec["root"] = bytes.Equal(q.RootCid, w.root.Bytes())
			}
		case m.Stream == streamPyr && m.Leg == "resp":
			rec["k"] = "presp"
			ok := false
			if len(msgs) > 0 {
				var q pb.ChunkPyramidResp
				if proto.Unmarshal(msgs[len(msgs)-1], &q) == nil && q.Ok {
					ok = true
				}
			}
			rec["ok"] = ok
			if m.HandlerPanic != "" {
				rec["ok"] = false
			}
		}
		s := fmt.Sprintf("%v|%v|%v|%v|%v|%06d", rec["k"], rec["f"], rec["t"], rec["tg"], rec["rq"], m.ID)
		out = append(out, heldView{id: m.ID, rec: rec, sort: s})
	}
	sort.Slice(out, func(i, j int) bool { return out[i].sort < out[j].sort })
	return out
}

// project takes a consistent snapshot: if anything moved while the dumps were taken (a FindChunkInfo loop going
// round on its ticker), it is taken again.
func (w *world) project() (kit.Ev, error) {
	var ev kit.Ev
	var err error
	for try := 0; try < 6; try++ {
		before := w.signature()
		ev, err = w.projectOnce()
		if err != nil || w.signature() == before {
			break
		}
		time.Sleep(3 * time.Millisecond)
	}
	return ev, err
}

func (w *world) projectOnce() (kit.Ev, error) {
	st := map[string]interface{}{}
	for _, nm := range nodeNames {
		if w.nodes[nm] == nil {
			st[nm] = w.absentNode()
			continue
		}
		p, err := w.projNode(w.nodes[nm])
		if err != nil {
			return nil, err
		}
		st[nm] = p
	}
	held := []interface{}{}
	for _, h := range w.viewHeld() {
		held = append(held, h.rec)
	}
	return kit.Ev{"st": st, "held": held}, nil
}

// ---------------------------------------------------------------- waiting

func (w *world) signature() string {
	var sb strings.Builder
	fmt.Fprintf(&sb, "%d|", len(w.hold.List()))
	for _, nm := range nodeNames {
		if w.nodes[nm] == nil {
			continue
		}
		fmt.Fprintf(&sb, "%d,", atomic.LoadInt32(&w.nodes[nm].init))
		d := w.nodes[nm].n.CI.VerifDump(w.root)
		ql := -1
		if d.Queue != nil {
			ql = len(d.Queue.UnPull)*10000 + len(d.Queue.Pulling)*100 + len(d.Queue.Pulled)
		}
		fmt.Fprintf(&sb, "%v%v%v%v%v%d%d;", d.Pending, d.Sync, d.Pyramid, d.ServerKey, d.DiscoverKey, ql, len(d.Triggers))
	}
	for _, p := range w.pend {
		if p.d.Finished() {
			sb.WriteByte('f')
		} else {
			sb.WriteByte('r')
		}
	}
	return sb.String()
}

// settle waits until the expected effects are visible (at least hm queued messages, Init of node retn
// returned, the tables of the acting node as the scenario says) or the limit passed, then until nothing moved for a short while.
func (w *world) settle(hm int, retn string, limit time.Duration) (late bool) {
	deadline := time.Now().Add(limit)
	for {
		ok := len(w.hold.List()) >= hm
		if ok && w.cond != nil {
			ok = w.cond()
		}
		if retn != "" {
			s := atomic.LoadInt32(&w.nodes[retn].init)
			ok = ok && s != 1
		}
		if ok {
			break
		}
		if time.Now().After(deadline) {
			late = true
			break
		}
		time.Sleep(2 * time.Millisecond)
	}
	// stable window
	last := w.signature()
	stableSince := time.Now()
	hard := time.Now().Add(1500 * time.Millisecond)
	for time.Since(stableSince) < 12*time.Millisecond && time.Now().Before(hard) {
		time.Sleep(time.Millisecond)
		if s := w.signature(); s != last {
			last = s
			stableSince = time.Now()
		}
	}
	return late
}

var stackFn = regexp.MustCompile(`pkg/(\w+)\.(?:\(\*?\w+\)\.)?(\w+)(?:\.func\d+)?\(`)

// firstLines condenses a panic text with stack to "message <- innermost function <- caller ..." (repository functions only).
func firstLines(s string, n int) string {
	lines := strings.Split(s, "\n")
	keep := []string{strings.TrimSpace(lines[0])}
	for _, l := range lines[1:] {
		if m := stackFn.FindStringSubmatch(l); m != nil && m[1] != "swb" {
			fn := m[1] + "." + m[2]
			if keep[len(keep)-1] != fn {
				keep = append(keep, fn)
			}
		}
		if len(keep) > n {
			break
		}
	}
	return strings.Join(keep, " <- ")
}

// collect looks at finished handler invocations: a panic is the crash of that node.
func (w *world) collect() {
	for _, p := range w.pend {
		if p.seen || !p.d.Finished() {
			continue
		}
		p.seen = true
		_, pn := p.d.Result()
		if pn != "" && w.crash == "" {
			w.crash = p.node
			w.ptext = firstLines(pn, 8)
			w.nodes[p.node].crashed = true
		}
	}
}

// ---------------------------------------------------------------- operations

// idxOf: which of the queued messages with the operation's key is meant (1 = the oldest)
func idxOf(op map[string]interface{}) int {
	if idx := kit.Int(op, "idx"); idx > 0 {
		return idx
	}
	return 1
}

func (w *world) findHeld(op map[string]interface{}) (int, bool) {
	k, f, t, tg, rq := kit.Str(op, "k"), kit.Str(op, "f"), kit.Str(op, "t"), kit.Str(op, "tg"), kit.Str(op, "rq")
	idx := idxOf(op)
	c := 0
	for _, h := range w.viewHeld() {
		r := h.rec
		if r["k"] == k && r["f"] == f && r["t"] == t && r["tg"] == tg && r["rq"] == rq {
			c++
			if c == idx {
				return h.id, true
			}
		}
	}
	return 0, false
}

func (w *world) startInit(wn *wnode) {
	atomic.StoreInt32(&wn.init, 1)
	ctx := sctx.SetRootHash(sctx.SetTargets(context.Background(), w.nodes["A"].n.Addr.String()), w.root)
	go func() {
		defer func() {
			if r := recover(); r != nil {
				atomic.StoreInt32(&wn.init, 4)
			}
		}()
		if wn.n.CI.Init(ctx, nil, w.root) {
			atomic.StoreInt32(&wn.init, 2)
		} else {
			atomic.StoreInt32(&wn.init, 3)
		}
	}()
}

func (w *world) run(sc kit.Scenario) (evs []kit.Ev, err error) {
	emit := func(ev kit.Ev) error {
		w.collect()
		p, err := w.project()
		if err != nil {
			return err
		}
		for k, v := range p {
			ev[k] = v
		}
		ev["crash"] = w.crash
		ev["ptext"] = w.ptext
		evs = append(evs, ev)
		return nil
	}
	mal := false
	for _, op := range sc.Ops {
		if kit.Str(op, "op") == "inject" {
			mal = true
		}
	}
	if err := emit(kit.Ev{"op": "reset", "topo": w.topo, "file": w.fileTag, "nd": len(w.data), "mal": mal}); err != nil {
		return nil, err
	}
	for _, op := range sc.Ops {
		if w.crash != "" {
			break // the node is dead: the rest of the scenario cannot be run
		}
		name := kit.Str(op, "op")
		ev := kit.Ev{"op": name, "late": false, "found": true}
		for _, k := range []string{"n", "k", "f", "t", "tg", "rq", "o", "shape"} {
			if v := kit.Str(op, k); v != "" {
				ev[k] = v
			}
		}
		hm := kit.Int(op, "hm")
		retn := kit.Str(op, "ret")
		w.cond = nil
		if x := w.nodes[kit.Str(op, "wn")]; x != nil && !kit.Bool(op, "async") && name != "park" {
			wpyr, wown, wdkey, whasq := kit.Bool(op, "wpyr"), kit.Int(op, "wown"), kit.Bool(op, "wdkey"), kit.Bool(op, "whasq")
			w.cond = func() bool {
				d := x.n.CI.VerifDump(w.root)
				own := -1
				if v, ok := d.Server[x.n.Addr.String()]; ok {
					own = 0
					for _, b := range bitsOf(v.B, v.Len) {
						own += b
					}
				}
				if !whasq && atomic.LoadInt32(&x.init) == 1 {
					// the FindChunkInfo loop of a running Init may go round on its own (1 s ticker; at once if a tick
					// was already buffered): the queue may exist earlier than the scenario says
					return d.Pyramid == wpyr && own == wown && d.DiscoverKey == wdkey
				}
				return d.Pyramid == wpyr && own == wown && d.DiscoverKey == wdkey && (d.Queue != nil) == whasq
			}
		}
		var wn *wnode
		if n := kit.Str(op, "n"); n != "" {
			wn = w.nodes[n]
			if wn == nil {
				return nil, fmt.Errorf("unknown node %q", n)
			}
		}
		switch name {
		case "init":
			w.startInit(wn)
			ev["late"] = w.settle(hm, retn, 4*time.Second)
		case "tick":
			// the FindChunkInfo loop of n comes round (1 s ticker): nothing to do but wait for its effect
			ev["late"] = w.settle(hm, retn, 4*time.Second)
		case "deliver", "dup", "park":
			ev["idx"] = idxOf(op)
			id, ok := w.findHeld(op)
			if !ok {
				ev["found"] = false
				break
			}
			to := w.nodes[kit.Str(op, "t")]
			if name == "park" {
				to.gate.arm("discover-")
			}
			d, derr := w.hold.Deliver(id, name == "dup")
			if derr != nil {
				return nil, derr
			}
			w.pend = append(w.pend, &pendingDelivery{d: d, node: kit.Str(op, "t")})
			if name == "park" {
				parked := false
				select {
				case <-to.gate.parked:
					parked = true
				case <-d.Done:
				case <-time.After(4 * time.Second):
				}
				ev["parked"] = parked
				w.settle(hm, retn, 2*time.Second)
				break
			}
			if !kit.Bool(op, "blk") {
				select {
				case <-d.Done:
				case <-time.After(8 * time.Second):
					ev["late"] = true
				}
			}
			if w.settle(hm, retn, 4*time.Second) {
				ev["late"] = true
			}
		case "drop":
			ev["idx"] = idxOf(op)
			id, ok := w.findHeld(op)
			if !ok {
				ev["found"] = false
				break
			}
			if err := w.hold.Drop(id); err != nil {
				return nil, err
			}
			ev["late"] = w.settle(hm, retn, 4*time.Second)
		case "delfile", "deldisc":
			call := func() int {
				if name == "deldisc" {
					wn.n.CI.DelDiscover(w.root)
					return 0
				}
				code, _ := wn.n.Do(http.MethodDelete, "/aurora/"+w.root.String(), nil, nil)
				return code
			}
			if kit.Bool(op, "async") {
				// a response handler of this node is parked inside the discovery table's worker: the deletion
				// gets as far as the queue deletion (and, for a file, the chunk deletion) and then waits
				done := make(chan struct{})
				var code int32
				go func() { atomic.StoreInt32(&code, int32(call())); close(done) }()
				w.async = append(w.async, done)
				deadline := time.Now().Add(3 * time.Second)
				for time.Now().Before(deadline) {
					d := wn.n.CI.VerifDump(w.root)
					if d.Queue == nil && (name == "deldisc" || !d.Pyramid) {
						break
					}
					time.Sleep(time.Millisecond)
				}
				time.Sleep(5 * time.Millisecond)
				select {
				case <-done:
					ev["blocked"] = false
				default:
					ev["blocked"] = true
				}
				ev["code"] = 0
			} else {
				ev["code"] = call()
				ev["late"] = w.settle(hm, retn, 3*time.Second)
			}
		case "cancel":
			wn.n.CI.CancelFindChunkInfo(w.root)
		case "retrieve":
			// a data chunk of the file is fetched from A under the file's context, the way a download does
			// (netstore.Get -> retrieval.RetrieveChunk -> OnChunkRetrieved / OnChunkTransferred); the retrieval
			// protocol is not held by the switchboard
			c := kit.Int(op, "c")
			if c < 1 || c > len(w.data) {
				return nil, fmt.Errorf("retrieve: no data chunk %d", c)
			}
			ev["c"] = c
			rctx, cancel := context.WithTimeout(sctx.SetRootHash(sctx.SetTargets(context.Background(), w.nodes["A"].n.Addr.String()), w.root), 90*time.Second)
			_, rerr := wn.n.NS.Get(rctx, storage.ModeGetRequest, w.data[c-1])
			cancel()
			ev["err"] = rerr != nil
			wn.n.Settle()
			w.nodes["A"].n.Settle()
			ev["late"] = w.settle(hm, retn, 3*time.Second)
		case "release":
			wn.gate.mu.Lock()
			rel := wn.gate.release
			wn.gate.mu.Unlock()
			if rel != nil {
				close(rel)
			}
			deadline := time.After(5 * time.Second)
			for _, p := range w.pend {
				select {
				case <-p.d.Done:
				case <-deadline:
					ev["late"] = true
				}
			}
			for _, a := range w.async {
				select {
				case <-a:
				case <-deadline:
					ev["late"] = true
				}
			}
			w.async = nil
			if w.settle(hm, retn, 3*time.Second) {
				ev["late"] = true
			}
		case "timeout":
			o, ok := w.addrOf(kit.Str(op, "o"))
			if !ok {
				return nil, fmt.Errorf("timeout: unknown overlay %q", kit.Str(op, "o"))
			}
			ev["armed"] = wn.n.CI.VerifAgeTrigger(w.root, o, 40)
			qsig := func() string {
				d := wn.n.CI.VerifDump(w.root)
				if d.Queue == nil {
					return fmt.Sprint("none", d.Triggers, atomic.LoadInt32(&wn.init))
				}
				return fmt.Sprint(d.Queue.UnPull, d.Queue.Pulling, d.Queue.Pulled, d.Triggers, atomic.LoadInt32(&wn.init))
			}
			s0 := qsig()
			fired := false
			deadline := time.Now().Add(6500 * time.Millisecond)
			for time.Now().Before(deadline) {
				if qsig() != s0 {
					fired = true
					break
				}
				time.Sleep(10 * time.Millisecond)
			}
			ev["fired"] = fired
			if w.settle(hm, retn, 2*time.Second) {
				ev["late"] = true
			}
		case "inject":
			if err := w.inject(wn, kit.Str(op, "shape"), ev); err != nil {
				return nil, err
			}
			w.settle(hm, retn, 2*time.Second)
		default:
			return nil, fmt.Errorf("unknown op %q", name)
		}
		if err := emit(ev); err != nil {
			return nil, err
		}
	}
	return evs, nil
}

// inject: a peer M that does not follow the protocol sends one message to the victim; it is delivered at once.
func (w *world) inject(victim *wnode, shape string, ev kit.Ev) error {
	root := w.root.Bytes()
	me := victim.n.Addr.Bytes()
	m := w.attack
	matt := []byte(nil)
	for h, n := range w.names {
		if n == "M" {
			matt, _ = hex.DecodeString(h)
		}
	}
	a := w.nodes["A"].n.Addr
	nbytes := (len(w.data) + 7) / 8
	full := bytes.Repeat([]byte{0xff}, nbytes)
	var stream string
	var msg proto.Message
	switch shape {
	case "resp_short_vector": // the answering peer's own vector is shorter than the file
		stream, msg = streamResp, &pb.ChunkInfoResp{RootCid: root, Target: matt, Req: me, Presence: map[string][]byte{hex.EncodeToString(matt): {}}}
	case "resp_long_vector":
		stream, msg = streamResp, &pb.ChunkInfoResp{RootCid: root, Target: matt, Req: me, Presence: map[string][]byte{hex.EncodeToString(matt): bytes.Repeat([]byte{0xff}, nbytes+3)}}
	case "resp_key_not_hex":
		stream, msg = streamResp, &pb.ChunkInfoResp{RootCid: root, Target: matt, Req: me, Presence: map[string][]byte{"zz": full, hex.EncodeToString(matt): full}}
	case "resp_key_short_addr":
		stream, msg = streamResp, &pb.ChunkInfoResp{RootCid: root, Target: matt, Req: me, Presence: map[string][]byte{"abcd": full, hex.EncodeToString(matt): full}}
	case "resp_self_target": // claims to be the victim itself
		stream, msg = streamResp, &pb.ChunkInfoResp{RootCid: root, Target: me, Req: me, Presence: map[string][]byte{hex.EncodeToString(me): full}}
	case "resp_empty_target":
		stream, msg = streamResp, &pb.ChunkInfoResp{RootCid: root, Target: nil, Req: me, Presence: map[string][]byte{"": full}}
	case "resp_no_presence":
		stream, msg = streamResp, &pb.ChunkInfoResp{RootCid: root, Target: matt, Req: me}
	case "resp_empty_root":
		stream, msg = streamResp, &pb.ChunkInfoResp{RootCid: nil, Target: matt, Req: me, Presence: map[string][]byte{hex.EncodeToString(matt): full}}
	case "resp_as_A": // spoofs the origin with an over-claiming vector for an unknown third party
		stream, msg = streamResp, &pb.ChunkInfoResp{RootCid: root, Target: a.Bytes(), Req: me, Presence: map[string][]byte{a.String(): full, hex.EncodeToString(matt): full}}
	case "resp_empty_req":
		stream, msg = streamResp, &pb.ChunkInfoResp{RootCid: root, Target: matt, Req: nil, Presence: map[string][]byte{hex.EncodeToString(matt): full}}
	case "req_empty_root":
		stream, msg = streamReq, &pb.ChunkInfoReq{RootCid: nil, Target: me, Req: matt}
	case "req_short_root":
		stream, msg = streamReq, &pb.ChunkInfoReq{RootCid: root[:5], Target: me, Req: matt}
	case "req_empty_target":
		stream, msg = streamReq, &pb.ChunkInfoReq{RootCid: root, Target: nil, Req: matt}
	case "req_empty_req":
		stream, msg = streamReq, &pb.ChunkInfoReq{RootCid: root, Target: me, Req: nil}
	case "preq_empty_root":
		stream, msg = streamPyr, &pb.ChunkPyramidReq{RootCid: nil, Target: me}
	case "preq_short_root":
		stream, msg = streamPyr, &pb.ChunkPyramidReq{RootCid: root[:7], Target: me}
	case "preq_unknown_target":
		stream, msg = streamPyr, &pb.ChunkPyramidReq{RootCid: root, Target: matt[:9]}
	case "raw_garbage":
		stream = streamResp
	default:
		return fmt.Errorf("unknown shape %q", shape)
	}
	ctx, cancel := context.WithTimeout(context.Background(), 5*time.Second)
	defer cancel()
	s, err := m.NewStream(ctx, victim.n.Addr, nil, ciProtocol, ciVersion, stream)
	if err != nil {
		return err
	}
	if msg != nil {
		if err := protobuf.NewWriter(s).WriteMsgWithContext(ctx, msg); err != nil {
			return err
		}
	} else {
		// a length prefix that promises more than follows, then noise
		if _, err := s.Write([]byte{0x96, 0x01, 0xde, 0xad, 0xbe, 0xef}); err != nil {
			return err
		}
	}
	// find it in the queue (newest from M to the victim) and deliver
	var id int
	deadline := time.Now().Add(2 * time.Second)
	for id == 0 && time.Now().Before(deadline) {
		for _, h := range w.hold.List() {
			if w.name(h.From.String()) == "M" && h.To.Equal(victim.n.Addr) {
				id = h.ID
			}
		}
		if id == 0 && msg == nil {
			break
		}
	}
	if id == 0 {
		// an incomplete frame is never listed: nothing reaches the handler as a message; not deliverable
		ev["delivered"] = false
		return nil
	}
	d, err := w.hold.Deliver(id, false)
	if err != nil {
		return err
	}
	w.pend = append(w.pend, &pendingDelivery{d: d, node: victim.name})
	select {
	case <-d.Done:
	case <-time.After(8 * time.Second):
		ev["late"] = true
	}
	if stream == streamPyr {
		// the reply leg is of no interest: drop it
		time.Sleep(2 * time.Millisecond)
		for _, h := range w.hold.List() {
			if w.name(h.To.String()) == "M" {
				_ = w.hold.Drop(h.ID)
			}
		}
	}
	herr, _ := d.Result()
	ev["delivered"] = true
	ev["herr"] = herr != ""
	return nil
}

// ---------------------------------------------------------------- main

func runAll(scs []kit.Scenario, out *kit.Out) error {
	if pf := os.Getenv("VERIF_PPROF"); pf != "" {
		if f, err := os.Create(pf); err == nil {
			_ = pprof.StartCPUProfile(f)
			defer pprof.StopCPUProfile()
		}
	}
	// every node's local store allocates a 32 MiB write buffer: keep the heap of the child bounded
	debug.SetMemoryLimit(5 << 29)
	logger := logging.New(ioutil.Discard, 0)
	seed := kit.Seed()
	workers := 16
	if s := os.Getenv("VERIF_WORKERS"); s != "" {
		fmt.Sscanf(s, "%d", &workers)
	}
	results := make([][]kit.Ev, len(scs))
	errs := make([]error, len(scs))
	var wg sync.WaitGroup
	next := int64(-1)
	for i := 0; i < workers; i++ {
		wg.Add(1)
		go func() {
			defer wg.Done()
			for {
				i := int(atomic.AddInt64(&next, 1))
				if i >= len(scs) {
					return
				}
				rng := rand.New(rand.NewSource(seed*1000003 + int64(scs[i].Scn)))
				t0 := time.Now()
				w, err := newWorld(scs[i].Par, rng, seed, logger)
				if err != nil {
					errs[i] = err
					continue
				}
				t1 := time.Now()
				results[i], errs[i] = w.run(scs[i])
				t2 := time.Now()
				w.close()
				if os.Getenv("VERIF_DISCTIME") != "" {
					fmt.Fprintf(os.Stderr, "scn %d: setup %v run %v close %v\n", scs[i].Scn, t1.Sub(t0), t2.Sub(t1), time.Since(t2))
				}
			}
		}()
	}
	wg.Wait()
	for i, sc := range scs {
		if errs[i] != nil {
			return fmt.Errorf("scenario %d: %w", sc.Scn, errs[i])
		}
		for j, ev := range results[i] {
			if j == 0 {
				delete(ev, "op")
				out.Begin(sc.Scn, ev)
			} else {
				out.Emit(ev)
			}
		}
	}
	return nil
}

func main() {
	if !supervise.IsChild() {
		kit.Main(func(scs []kit.Scenario, out *kit.Out) error {
			return supervise.Run(scs, out, func(sc kit.Scenario) kit.Ev {
				mal := false
				for _, op := range sc.Ops {
					if kit.Str(op, "op") == "inject" {
						mal = true
					}
				}
				return kit.Ev{"topo": kit.Str(sc.Par, "topo"), "file": kit.Str(sc.Par, "file"), "nd": 0, "died": true, "mal": mal,
					"crash": "", "ptext": "", "held": []interface{}{}}
			})
		})
		return
	}
	kit.Main(runAll)
}
