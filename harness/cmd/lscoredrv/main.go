// lscoredrv: conformance driver for pkg/localstore alone.
//
//	mode c11: public calls Put/Get/GetMulti/Has/HasMulti/Set on a store whose capacity is out of
//	          reach, plus a twin store that receives every batched put one chunk at a time (C11).
//	mode c14: the same histories plus collection runs on a store opened over the fault-enumerating
//	          storage driver (internal/crashdb); after every operation the store is rebuilt from
//	          every strict prefix of the operation's storage writes and reopened (C14).
//	          A put with "size":"full" carries full-size chunks (8-byte span + 256 KiB); its chunks are named
//	          "K1", "K2", ... (one call of 80 of them hands 20 MiB to a single storage batch).
//
// No oracle: results and index dumps are logged; LSCoreTrace.tla judges.
package main

import (
	"context"
	"encoding/binary"
	"errors"
	"fmt"
	"io/ioutil"
	"bytes"
	"math/rand"
	"sync/atomic"

	"github.com/gauss-project/aurorafs/pkg/boson"
	"github.com/gauss-project/aurorafs/pkg/chunkinfo"
	"github.com/gauss-project/aurorafs/pkg/localstore"
	"github.com/gauss-project/aurorafs/pkg/logging"
	"github.com/gauss-project/aurorafs/pkg/sctx"
	"github.com/gauss-project/aurorafs/pkg/storage"

	"verifharness/internal/crashdb"
	"verifharness/internal/kit"
)

var clock int64 = 5000

type world struct {
	seed  int64
	addr  map[string]boson.Address // "A","B","R", and the bulk names "K1", ... as scenarios mention them
	name  map[string]string        // hex -> name
	base  []byte
	names []string          // addresses of the running scenario (projection of the dumps)
	full  map[string][]byte // full-size payloads by name/variant (supplied bytes; compared for equality only)
}

var baseNames = []string{"A", "B", "C", "R"}

const fullSize = 256 * 1024 // boson.ChunkSize

// addrOf returns the address of a chunk name; bulk names get a reproducible address of their own on first use.
func (w *world) addrOf(n string) boson.Address {
	if a, ok := w.addr[n]; ok {
		return a
	}
	h := int64(0)
	for _, c := range n {
		h = h*131 + int64(c)
	}
	for salt := int64(0); ; salt++ {
		r := rand.New(rand.NewSource(w.seed*7919 + h*104729 + salt))
		b := make([]byte, 32)
		r.Read(b)
		a := boson.NewAddress(b)
		if _, dup := w.name[a.String()]; dup {
			continue
		}
		w.addr[n] = a
		w.name[a.String()] = n
		return a
	}
}

// fullPayload is the full-size payload (span + 256 KiB) of a name/variant, distinct per name.
func (w *world) fullPayload(name string, variant int) []byte {
	k := fmt.Sprintf("%s/%d", name, variant)
	if d, ok := w.full[k]; ok {
		return d
	}
	h := uint32(2166136261)
	for _, c := range k {
		h = (h ^ uint32(c)) * 16777619
	}
	d := make([]byte, 8+fullSize)
	binary.LittleEndian.PutUint64(d[:8], fullSize)
	x := h | 1
	for i := 8; i < len(d); i++ {
		x ^= x << 13
		x ^= x >> 17
		x ^= x << 5
		d[i] = byte(x)
	}
	w.full[k] = d
	return d
}

func newWorld(seed int64) *world {
	r := rand.New(rand.NewSource(seed*977 + 3))
	w := &world{seed: seed, addr: map[string]boson.Address{}, name: map[string]string{}, full: map[string][]byte{}, names: baseNames}
	for _, n := range []string{"A", "B", "R", "C"} {
		b := make([]byte, 32)
		r.Read(b)
		w.addr[n] = boson.NewAddress(b)
		w.name[w.addr[n].String()] = n
	}
	w.base = make([]byte, 32)
	r.Read(w.base)
	return w
}

func payload(name string, variant int) []byte {
	d := make([]byte, 8+32)
	d[0] = 32
	for i := 8; i < len(d); i++ {
		d[i] = byte(int(name[0])*7 + variant*31 + i)
	}
	return d
}

func (w *world) variantOf(name string, data []byte) int {
	for v := 1; v <= 2; v++ {
		if len(data) == 8+fullSize {
			if name != "?" && bytes.Equal(w.fullPayload(name, v), data) {
				return v
			}
			continue
		}
		if string(payload(name, v)) == string(data) {
			return v
		}
	}
	return 9
}

func (w *world) ctx(root string) context.Context {
	if root == "-" || root == "" {
		return context.Background()
	}
	return sctx.SetRootHash(context.Background(), w.addrOf(root))
}

func putMode(s string) storage.ModePut {
	switch s {
	case "request":
		return storage.ModePutRequest
	case "requestpin":
		return storage.ModePutRequestPin
	case "upload":
		return storage.ModePutUpload
	}
	return storage.ModePutUploadPin
}
func getMode(s string) storage.ModeGet {
	switch s {
	case "request":
		return storage.ModeGetRequest
	case "sync":
		return storage.ModeGetSync
	}
	return storage.ModeGetLookup
}
func setMode(s string) storage.ModeSet {
	switch s {
	case "pin":
		return storage.ModeSetPin
	case "unpin":
		return storage.ModeSetUnpin
	case "remove":
		return storage.ModeSetRemove
	}
	return storage.ModeSetSync
}

// ciStub is the chunk-info dependency of the garbage collector: it knows, per file context,
// the chunks that were cached under it (told by the driver as it executes request puts).
type ciStub struct {
	chunkinfo.Interface
	files map[string]map[string]bool // root hex -> chunk hex
}

func (c *ciStub) IsDiscover(boson.Address) bool { return false }
func (c *ciStub) DelDiscover(boson.Address)     {}
func (c *ciStub) GetChunkPyramid(root boson.Address) []*chunkinfo.PyramidCidNum {
	var out []*chunkinfo.PyramidCidNum
	for h := range c.files[root.String()] {
		shared := false
		for r, f := range c.files {
			if r != root.String() && f[h] {
				shared = true
			}
		}
		if !shared {
			out = append(out, &chunkinfo.PyramidCidNum{Cid: boson.MustParseHexAddress(h), Number: 1})
		}
	}
	return out
}
func (c *ciStub) DelFile(root boson.Address, del func() error) error {
	if _, ok := c.files[root.String()]; !ok {
		return storage.ErrNotFound
	}
	if err := del(); err != nil {
		return err
	}
	delete(c.files, root.String())
	return nil
}

func chunkOf(w *world, pair interface{}, full bool) (string, int, boson.Chunk) {
	l := pair.([]interface{})
	n := l[0].(string)
	v := int(l[1].(float64))
	if full {
		return n, v, boson.NewChunk(w.addrOf(n), w.fullPayload(n, v))
	}
	return n, v, boson.NewChunk(w.addrOf(n), payload(n, v))
}

// scenarioNames lists the addresses a scenario talks about: the fixed ones plus the bulk names of its puts.
func scenarioNames(sc kit.Scenario) []string {
	names := append([]string(nil), baseNames...)
	seen := map[string]bool{"A": true, "B": true, "C": true, "R": true}
	for _, op := range sc.Ops {
		if kit.Str(op, "op") != "put" {
			continue
		}
		for _, p := range kit.List(op, "chs") {
			if n := p.([]interface{})[0].(string); !seen[n] {
				seen[n] = true
				names = append(names, n)
			}
		}
	}
	return names
}

// dump projects a store: per address [variant, binID, storeTs, pin]; gc entries; counters.
func dump(w *world, db *localstore.DB) (kit.Ev, error) {
	st, err := db.VerifDump()
	if err != nil {
		return nil, err
	}
	per := map[string]interface{}{}
	for _, n := range w.names {
		per[n] = []interface{}{0, 0, 0, 0}
	}
	data := [][]interface{}{}
	for _, e := range st.Retrieval {
		n, ok := w.name[boson.NewAddress(e.Address).String()]
		if !ok {
			n = "?"
		}
		v := w.variantOf(n, e.Data)
		data = append(data, []interface{}{n, v})
		if ok {
			t := per[n].([]interface{})
			t[0], t[1], t[2] = v, int(e.BinID), int(e.StoreTimestamp)
		}
	}
	pin := [][]interface{}{}
	for _, e := range st.Pin {
		n := w.name[boson.NewAddress(e.Address).String()]
		pin = append(pin, []interface{}{n, int(e.PinCounter)})
		if t, ok := per[n].([]interface{}); ok {
			t[3] = int(e.PinCounter)
		}
	}
	gc := [][]interface{}{}
	sum := 0
	byRoot := map[string]int{}
	for _, e := range st.GC {
		n := w.name[boson.NewAddress(e.Address).String()]
		gc = append(gc, []interface{}{n, int(e.GCounter)})
		sum += int(e.GCounter)
		byRoot[n] += int(e.GCounter)
	}
	roots := [][]interface{}{}
	for _, n := range w.names {
		if byRoot[n] > 0 {
			roots = append(roots, []interface{}{n, byRoot[n]})
		}
	}
	return kit.Ev{"data": data, "pin": pin, "gc": gc, "gcroots": roots, "gcsum": sum, "gcsize": int(st.GCSize), "per": per}, nil
}

type store struct {
	db  *localstore.DB
	ci  *ciStub
	log *crashdb.Log
}

func open(w *world, logger logging.Logger, entries []crashdb.Entry, crash bool) (*store, error) {
	o := &localstore.Options{Capacity: 1 << 40}
	s := &store{ci: &ciStub{files: map[string]map[string]bool{}}}
	if crash {
		drv, log, err := crashdb.Prepare(entries)
		if err != nil {
			return nil, err
		}
		o.Driver = drv
		s.log = log
	}
	db, err := localstore.New("", w.base, o, logger)
	if err != nil {
		return nil, err
	}
	db.SetChunkInfo(s.ci)
	s.db = db
	return s, nil
}

func errClass(err error) string {
	switch {
	case err == nil:
		return ""
	case errors.Is(err, storage.ErrNotFound):
		return "notfound"
	}
	return "other:" + err.Error()
}

// apply executes one operation on a store and fills the event with what the caller observed.
func apply(w *world, s *store, op map[string]interface{}, ev kit.Ev, split bool) error {
	ctxb := context.Background()
	switch kit.Str(op, "op") {
	case "put":
		mode, root := kit.Str(op, "mode"), kit.Str(op, "root")
		var chs []boson.Chunk
		var names []string
		echo := []interface{}{}
		full := kit.Str(op, "size") == "full"
		if full {
			ev["size"] = "full"
		}
		for _, p := range kit.List(op, "chs") {
			n, v, c := chunkOf(w, p, full)
			chs = append(chs, c)
			names = append(names, n)
			echo = append(echo, []interface{}{n, v})
		}
		ev["mode"], ev["root"], ev["chs"] = mode, root, echo
		var exist []bool
		var err error
		if split {
			for _, c := range chs {
				ex, e := s.db.Put(w.ctx(root), putMode(mode), c)
				if e != nil {
					err = e
					break
				}
				exist = append(exist, ex...)
			}
		} else {
			exist, err = s.db.Put(w.ctx(root), putMode(mode), chs...)
		}
		if exist == nil {
			exist = []bool{}
		}
		ev["exist"], ev["err"] = exist, errClass(err)
		if err == nil && (mode == "request" || mode == "requestpin") && root != "-" {
			r := w.addrOf(root).String()
			for i, n := range names {
				if i < len(exist) && !exist[i] {
					if s.ci.files[r] == nil {
						s.ci.files[r] = map[string]bool{}
					}
					s.ci.files[r][w.addrOf(n).String()] = true
				}
			}
		}
	case "get":
		a := kit.Str(op, "a")
		ev["mode"], ev["a"] = kit.Str(op, "mode"), a
		c, err := s.db.Get(ctxb, getMode(kit.Str(op, "mode")), w.addrOf(a))
		ev["found"], ev["v"], ev["err"] = false, 0, ""
		if err == nil {
			ev["found"], ev["v"] = true, w.variantOf(a, c.Data())
		} else if !errors.Is(err, storage.ErrNotFound) {
			ev["err"] = errClass(err)
		}
	case "getmulti":
		as := kit.StrList(op, "as")
		ev["mode"], ev["as"] = kit.Str(op, "mode"), as
		var addrs []boson.Address
		for _, a := range as {
			addrs = append(addrs, w.addrOf(a))
		}
		cs, err := s.db.GetMulti(ctxb, getMode(kit.Str(op, "mode")), addrs...)
		vs := []int{}
		for i, c := range cs {
			vs = append(vs, w.variantOf(as[i], c.Data()))
		}
		ev["ok"], ev["vs"], ev["err"] = err == nil, vs, ""
		if err != nil && !errors.Is(err, storage.ErrNotFound) {
			ev["err"] = errClass(err)
		}
	case "has":
		a := kit.Str(op, "a")
		h, err := s.db.Has(ctxb, storage.ModeHasChunk, w.addrOf(a))
		ev["a"], ev["has"], ev["err"] = a, h, errClass(err)
	case "hasmulti":
		as := kit.StrList(op, "as")
		var addrs []boson.Address
		for _, a := range as {
			addrs = append(addrs, w.addrOf(a))
		}
		hs, err := s.db.HasMulti(ctxb, storage.ModeHasChunk, addrs...)
		if hs == nil {
			hs = []bool{}
		}
		ev["as"], ev["has"], ev["err"] = as, hs, errClass(err)
	case "set":
		as := kit.StrList(op, "as")
		var addrs []boson.Address
		for _, a := range as {
			addrs = append(addrs, w.addrOf(a))
		}
		err := s.db.Set(w.ctx(kit.Str(op, "root")), setMode(kit.Str(op, "mode")), addrs...)
		ev["mode"], ev["root"], ev["as"] = kit.Str(op, "mode"), kit.Str(op, "root"), as
		ev["failed"] = err != nil
		if err == nil && kit.Str(op, "mode") == "remove" {
			for _, f := range s.ci.files {
				for _, a := range addrs {
					if has, _ := s.db.Has(ctxb, storage.ModeHasChunk, a); !has {
						delete(f, a.String())
					}
				}
			}
		}
	case "gc":
		capn := kit.Int(op, "cap")
		ev["cap"] = capn
		done := false
		var err error
		for i := 0; i < 10 && !done && err == nil; i++ {
			_, done, err = s.db.VerifCollectGarbage(uint64(capn))
		}
		ev["done"], ev["failed"] = done, err != nil
	default:
		return fmt.Errorf("unknown op %v", op["op"])
	}
	return nil
}

func main() {
	kit.Main(func(scs []kit.Scenario, out *kit.Out) error {
		logger := logging.New(ioutil.Discard, 0)
		localstore.VerifSetNow(func() int64 { return atomic.AddInt64(&clock, 1) })
		w := newWorld(kit.Seed())
		for _, sc := range scs {
			crash := kit.Str(sc.Par, "mode") == "c14"
			w.names = scenarioNames(sc)
			for _, n := range w.names {
				w.addrOf(n)
			}
			s, err := open(w, logger, nil, crash)
			if err != nil {
				return err
			}
			var twin *store
			if !crash {
				if twin, err = open(w, logger, nil, false); err != nil {
					return err
				}
			}
			st0, err := dump(w, s.db)
			if err != nil {
				return err
			}
			out.Begin(sc.Scn, kit.Ev{"mode": kit.Str(sc.Par, "mode"), "st": st0})
			for _, op := range sc.Ops {
				ev := kit.Ev{"op": kit.Str(op, "op")}
				n0 := 0
				if crash {
					n0 = s.log.Len()
				}
				if err := apply(w, s, op, ev, false); err != nil {
					return err
				}
				s.db.VerifWaitUpdateGC()
				st, err := dump(w, s.db)
				if err != nil {
					return err
				}
				ev["st"] = st
				if crash {
					ev["writes"] = s.log.Len() - n0 // atomic storage writes (direct writes, batch commits) of the operation
				}
				if twin != nil {
					tev := kit.Ev{}
					if err := apply(w, twin, op, tev, true); err != nil {
						return err
					}
					twin.db.VerifWaitUpdateGC()
					tw, err := dump(w, twin.db)
					if err != nil {
						return err
					}
					// the twin's own clock readings differ: compare what the statement talks about
					delete(tw, "per")
					delete(tw, "gc")
					ev["tw"] = tw
				}
				out.Emit(ev)
				if crash {
					n1 := s.log.Len()
					if n1-n0 >= 2 {
						reopen := func(n int) (kit.Ev, error) {
							c, err := open(w, logger, s.log.Prefix(n), true)
							if err != nil {
								return nil, err
							}
							defer c.db.Close()
							return dump(w, c.db)
						}
						pre, err := reopen(n0)
						if err != nil {
							return err
						}
						post, err := reopen(n1)
						if err != nil {
							return err
						}
						for j := n0 + 1; j < n1; j++ {
							mid, err := reopen(j)
							if err != nil {
								// a store that cannot be reopened after a crash is an observation, not a driver failure
								out.Emit(kit.Ev{"op": "crash", "forop": kit.Str(op, "op"), "j": j - n0, "k": n1 - n0,
									"reopened": false, "pre": pre, "post": post, "st": pre})
								continue
							}
							out.Emit(kit.Ev{"op": "crash", "forop": kit.Str(op, "op"), "j": j - n0, "k": n1 - n0,
								"reopened": true, "pre": pre, "post": post, "st": mid})
						}
					}
				}
			}
			s.db.Close()
			if twin != nil {
				twin.db.Close()
			}
		}
		return nil
	})
}
