// retrdrv: conformance driver of the retrieval protocol with accounting
// (spec/retrievalproto; growth of C06 and C32).
//
// Three real nodes A (requester), R (relay) and B (holder) in one process, each
// wired by internal/nodelite: real localstore + netstore + retrieval.Service +
// chunkinfo + traversal + api, and the REAL accounting.Accounting on top of a
// stub settlement.Interface that keeps the books a traffic service keeps
// (retrieved / transferred totals per peer, cheques) and records Pay and
// AvailableBalance calls. The nodes talk through the in-memory switchboard;
// on request of the scenario the switchboard refuses a retrieval stream, loses
// or corrupts a delivery, makes the server's write fail, or refuses the
// chunk-info (pyramid) stream of the requester.
//
// The driver holds no oracle. Every step of the protocol is logged where it
// happens (accounting / storer / chunk-info wrappers around the real objects,
// the switchboard tap) in one totally ordered log per scenario; the TLA+ judge
// (RetrievalTrace.tla) decides. The only things computed here are byte
// equalities against the fixture bytes the driver supplied.
package main

import (
	"bytes"
	"context"
	"encoding/binary"
	"errors"
	"fmt"
	"io/ioutil"
	"math/big"
	"math/rand"
	"os"
	"strconv"
	"strings"
	"sync"
	"time"

	"github.com/gauss-project/aurorafs/pkg/accounting"
	"github.com/gauss-project/aurorafs/pkg/boson"
	"github.com/gauss-project/aurorafs/pkg/chunkinfo"
	"github.com/gauss-project/aurorafs/pkg/logging"
	"github.com/gauss-project/aurorafs/pkg/retrieval/aco"
	"github.com/gauss-project/aurorafs/pkg/retrieval/pb"
	rmock "github.com/gauss-project/aurorafs/pkg/routetab/mock"
	"github.com/gauss-project/aurorafs/pkg/sctx"
	"github.com/gauss-project/aurorafs/pkg/settlement"
	"github.com/gauss-project/aurorafs/pkg/storage"

	"verifharness/internal/kit"
	"verifharness/internal/nodelite"
	"verifharness/internal/swb"
)

const unit = 256 // traffic accounted per chunk by pkg/retrieval

var nodeNames = []string{"A", "R", "B"}

// ---------------------------------------------------------------- fixtures

type fixture struct {
	content map[string][]byte        // file content per chunk name
	root    map[string]boson.Address // manifest reference of the file holding the chunk
	addr    map[string]boson.Address // address of the data chunk
	data    map[string][]byte        // stored bytes (span + payload) of the data chunk
	name    map[string]string        // hex address -> "c1" / "c2"
}

var chunkNames = []string{"c1", "c2"}

func contentOf(c string, big bool, seed int64) []byte {
	n := 1000
	if c == "c2" {
		n = 3000
		if big {
			n = 262144
		}
	}
	b := make([]byte, n)
	rand.New(rand.NewSource(seed*7919 + int64(len(c)) + int64(c[1]))).Read(b)
	return b
}

func addrRand(r *rand.Rand) boson.Address {
	b := make([]byte, 32)
	r.Read(b)
	return boson.NewAddress(b)
}

// buildFixture uploads the two files into a scratch node and learns the data chunk of each.
func buildFixture(logger logging.Logger, big bool, seed int64) (*fixture, error) {
	fx := &fixture{content: map[string][]byte{}, root: map[string]boson.Address{}, addr: map[string]boson.Address{},
		data: map[string][]byte{}, name: map[string]string{}}
	board := swb.NewBoard()
	n, err := nodelite.New(board, addrRand(rand.New(rand.NewSource(seed+5))), "", nil, logger)
	if err != nil {
		return nil, err
	}
	defer n.Close()
	for _, c := range chunkNames {
		fx.content[c] = contentOf(c, big, seed)
		ref, _, err := n.Upload("f"+c, fx.content[c], false, false)
		if err != nil {
			return nil, err
		}
		fx.root[c] = ref
	}
	st, err := n.Store.VerifDump()
	if err != nil {
		return nil, err
	}
	for _, e := range st.Retrieval {
		for _, c := range chunkNames {
			if len(e.Data) >= 8 && bytes.Equal(e.Data[8:], fx.content[c]) {
				fx.addr[c] = boson.NewAddress(append([]byte(nil), e.Address...))
				fx.data[c] = append([]byte(nil), e.Data...)
				fx.name[fx.addr[c].String()] = c
			}
		}
	}
	for _, c := range chunkNames {
		if fx.data[c] == nil {
			return nil, fmt.Errorf("fixture: data chunk of %s not found", c)
		}
	}
	return fx, nil
}

// ---------------------------------------------------------------- world

type world struct {
	fx     *fixture
	board  *swb.Board
	nodes  map[string]*nodelite.Node
	stubs  map[string]*stub
	names  map[string]string // hex overlay -> node name
	addrs  map[string]boson.Address
	sentry boson.Address

	mu      sync.Mutex
	evs     []kit.Ev
	plan    []string          // fault per retrieval stream opened in the current operation
	nOpen   int               // retrieval streams opened in the current operation
	ciBlock map[string]string // requester -> peer whose chunk-info streams are refused
	ciRoute map[string][]aco.Route
	notes   []string
}

func (w *world) log(e kit.Ev) {
	w.mu.Lock()
	w.evs = append(w.evs, e)
	w.mu.Unlock()
}

func (w *world) nodeName(a boson.Address) string {
	if n, ok := w.names[a.String()]; ok {
		return n
	}
	return "?"
}

func (w *world) chunkName(a boson.Address) string {
	if n, ok := w.fx.name[a.String()]; ok {
		return n
	}
	return "?"
}

func errStr(err error) string {
	if err == nil {
		return ""
	}
	s := err.Error()
	if len(s) > 160 {
		s = s[:160]
	}
	return s
}

// ---------------------------------------------------------------- settlement stub

// stub keeps the books of a traffic service for one node and records the calls accounting makes.
type stub struct {
	w      *world
	n      string
	mu     sync.Mutex
	funds  int64
	retr   map[string]int64 // total retrieved (credited) per peer
	chq    map[string]int64 // cheques issued per peer
	xfer   map[string]int64 // total transferred (debited) per peer
	chqIn  map[string]int64 // cheques received per peer
	avail  int64            // value returned by the last AvailableBalance call
	navail int
	flush  chan struct{}
}

func newStub(w *world, n string, funds int64) *stub {
	return &stub{w: w, n: n, funds: funds, retr: map[string]int64{}, chq: map[string]int64{}, xfer: map[string]int64{},
		chqIn: map[string]int64{}, flush: make(chan struct{}, 16)}
}

func (s *stub) Pay(ctx context.Context, peer boson.Address, thr *big.Int) error {
	if peer.Equal(s.w.sentry) {
		s.flush <- struct{}{}
		return nil
	}
	s.w.log(kit.Ev{"op": "pay", "n": s.n, "p": s.w.nodeName(peer), "amt": thr.Int64()})
	return nil
}

func (s *stub) TransferTraffic(peer boson.Address) (*big.Int, error) {
	s.mu.Lock()
	defer s.mu.Unlock()
	p := s.w.nodeName(peer)
	return big.NewInt(s.xfer[p] - s.chqIn[p]), nil
}

func (s *stub) RetrieveTraffic(peer boson.Address) (*big.Int, error) {
	s.mu.Lock()
	defer s.mu.Unlock()
	p := s.w.nodeName(peer)
	return big.NewInt(s.retr[p] - s.chq[p]), nil
}

func (s *stub) PutRetrieveTraffic(peer boson.Address, t *big.Int) error {
	if peer.Equal(s.w.sentry) {
		return nil
	}
	s.mu.Lock()
	s.retr[s.w.nodeName(peer)] += t.Int64()
	s.mu.Unlock()
	return nil
}

func (s *stub) PutTransferTraffic(peer boson.Address, t *big.Int) error {
	s.mu.Lock()
	s.xfer[s.w.nodeName(peer)] += t.Int64()
	s.mu.Unlock()
	return nil
}

func (s *stub) AvailableBalance() (*big.Int, error) {
	s.mu.Lock()
	defer s.mu.Unlock()
	v := s.funds
	for _, t := range s.retr {
		v -= t
	}
	s.avail = v
	s.navail++
	return big.NewInt(v), nil
}

func (s *stub) SetNotifyPaymentFunc(settlement.NotifyPaymentFunc)         {}
func (s *stub) GetPeerBalance(peer boson.Address) (*big.Int, error)   { return big.NewInt(0), nil }
func (s *stub) GetUnPaidBalance(peer boson.Address) (*big.Int, error) { return big.NewInt(0), nil }

func (s *stub) books() kit.Ev {
	s.mu.Lock()
	defer s.mu.Unlock()
	row := func(m map[string]int64) []int64 {
		out := make([]int64, len(nodeNames))
		for i, p := range nodeNames {
			out[i] = m[p]
		}
		return out
	}
	return kit.Ev{"retr": row(s.retr), "xfer": row(s.xfer), "chq": row(s.chq), "chqin": row(s.chqIn), "navail": s.navail}
}

// ---------------------------------------------------------------- recording wrappers

// recAcc records the accounting calls of one node. The calls are serialised per node so that the order of the
// log is the order in which they took effect (two handlers serving the same peer may call Debit at the same time).
type recAcc struct {
	w     *world
	n     string
	inner accounting.Interface
	st    *stub
	mu    sync.Mutex
}

func (a *recAcc) Reserve(peer boson.Address, t uint64) error {
	a.mu.Lock()
	defer a.mu.Unlock()
	err := a.inner.Reserve(peer, t)
	a.st.mu.Lock()
	av := a.st.avail
	a.st.mu.Unlock()
	a.w.log(kit.Ev{"op": "reserve", "n": a.n, "p": a.w.nodeName(peer), "amt": int64(t), "ok": err == nil, "err": errStr(err),
		"low": errors.Is(err, accounting.ErrLowAvailableExceeded), "avail": av})
	return err
}

func (a *recAcc) Credit(ctx context.Context, peer boson.Address, t uint64) error {
	a.mu.Lock()
	defer a.mu.Unlock()
	err := a.inner.Credit(ctx, peer, t)
	a.w.log(kit.Ev{"op": "credit", "n": a.n, "p": a.w.nodeName(peer), "amt": int64(t), "ok": err == nil, "err": errStr(err)})
	return err
}

func (a *recAcc) Debit(peer boson.Address, t uint64) error {
	a.mu.Lock()
	defer a.mu.Unlock()
	a.st.mu.Lock()
	p := a.w.nodeName(peer)
	net := a.st.xfer[p] - a.st.chqIn[p]
	a.st.mu.Unlock()
	err := a.inner.Debit(peer, t)
	a.w.log(kit.Ev{"op": "debit", "n": a.n, "p": p, "amt": int64(t), "ok": err == nil, "err": errStr(err),
		"blocked": errors.Is(err, accounting.ErrDisconnectThresholdExceeded), "net": net})
	return err
}

type recStore struct {
	storage.Storer
	w *world
	n string
}

func (s *recStore) Get(ctx context.Context, mode storage.ModeGet, addr boson.Address) (boson.Chunk, error) {
	ch, err := s.Storer.Get(ctx, mode, addr)
	s.w.log(kit.Ev{"op": "sget", "n": s.n, "c": s.w.chunkName(addr), "found": err == nil, "mode": mode.String(),
		"notfound": errors.Is(err, storage.ErrNotFound)})
	return ch, err
}

func (s *recStore) Put(ctx context.Context, mode storage.ModePut, chs ...boson.Chunk) ([]bool, error) {
	ex, err := s.Storer.Put(ctx, mode, chs...)
	for _, ch := range chs {
		c := s.w.chunkName(ch.Address())
		s.w.log(kit.Ev{"op": "put", "n": s.n, "c": c, "mode": mode.String(), "ok": err == nil, "err": errStr(err),
			"match": c != "?" && bytes.Equal(ch.Data(), s.w.fx.data[c]), "root": s.w.chunkOfRoot(sctx.GetRootHash(ctx))})
	}
	return ex, err
}

func (w *world) chunkOfRoot(r boson.Address) string {
	for _, c := range chunkNames {
		if w.fx.root[c].Equal(r) {
			return c
		}
	}
	return "?"
}

type recCI struct {
	chunkinfo.Interface
	w *world
	n string
}

func (c *recCI) OnChunkRetrieved(cid, root, src boson.Address) error {
	err := c.Interface.OnChunkRetrieved(cid, root, src)
	c.w.log(kit.Ev{"op": "retrieved", "n": c.n, "c": c.w.chunkName(cid), "p": c.w.nodeName(src), "ok": err == nil, "err": errStr(err)})
	return err
}

func (c *recCI) OnChunkTransferred(cid, root, overlay, target boson.Address) error {
	err := c.Interface.OnChunkTransferred(cid, root, overlay, target)
	c.w.log(kit.Ev{"op": "xferred", "n": c.n, "c": c.w.chunkName(cid), "p": c.w.nodeName(overlay), "ok": err == nil, "err": errStr(err)})
	return err
}

func (c *recCI) GetChunkInfo(root, cid boson.Address) []aco.Route {
	c.w.mu.Lock()
	r, ok := c.w.ciRoute[c.n]
	c.w.mu.Unlock()
	if ok {
		return append([]aco.Route(nil), r...)
	}
	return c.Interface.GetChunkInfo(root, cid)
}

// ---------------------------------------------------------------- switchboard tap

type tap struct {
	w     *world
	sid   int
	cli   string
	srv   string
	fault string
	chunk string
}

// one delimited protobuf message per Write (gogo's varint writer marshals into one buffer)
func splitMsg(b []byte) (body []byte, hdr int, ok bool) {
	l, n := binary.Uvarint(b)
	if n <= 0 || int(l) != len(b)-n {
		return nil, 0, false
	}
	return b[n:], n, true
}

func frame(body []byte) []byte {
	h := make([]byte, binary.MaxVarintLen64)
	n := binary.PutUvarint(h, uint64(len(body)))
	return append(h[:n], body...)
}

func (t *tap) Sync(dir int) bool { return dir == 1 }

func (t *tap) Write(dir int, b []byte) ([]byte, bool, error) {
	body, _, ok := splitMsg(b)
	if !ok {
		t.w.mu.Lock()
		t.w.notes = append(t.w.notes, "tap: write is not one delimited message")
		t.w.mu.Unlock()
		return b, false, nil
	}
	if dir == 0 {
		var req pb.RequestChunk
		if err := req.Unmarshal(body); err != nil {
			return b, false, nil
		}
		t.chunk = t.w.chunkName(boson.NewAddress(req.ChunkAddr))
		t.w.log(kit.Ev{"op": "req", "sid": t.sid, "n": t.cli, "p": t.srv, "tgt": t.w.nodeName(boson.NewAddress(req.TargetAddr)),
			"c": t.chunk, "root": t.w.chunkOfRoot(boson.NewAddress(req.RootAddr))})
		return b, false, nil
	}
	var d pb.Delivery
	if err := d.Unmarshal(body); err != nil {
		return b, false, nil
	}
	ev := kit.Ev{"op": "dlv", "sid": t.sid, "n": t.srv, "p": t.cli, "c": t.chunk, "fault": t.fault, "werr": false, "lost": false}
	out := b
	switch t.fault {
	case "wfail":
		ev["werr"] = true
		ev["cls"] = "none"
		t.w.log(ev)
		return nil, false, errors.New("swb: write failed (scenario)")
	case "corrupt":
		nd := append([]byte(nil), d.Data...)
		if len(nd) > 0 {
			nd[len(nd)-1] ^= 0x01
		}
		d.Data = nd
	case "other":
		o := "c1"
		if t.chunk == "c1" {
			o = "c2"
		}
		d.Data = append([]byte(nil), t.w.fx.data[o]...)
	}
	if t.fault == "corrupt" || t.fault == "other" {
		nb, err := d.Marshal()
		if err != nil {
			return nil, false, err
		}
		out = frame(nb)
	}
	cls := "invalid"
	if fd, ok := t.w.fx.data[t.chunk]; ok && bytes.Equal(d.Data, fd) {
		cls = "valid"
	}
	ev["cls"] = cls
	if t.fault == "lose" {
		ev["lost"] = true
		t.w.log(ev)
		return nil, true, nil
	}
	t.w.log(ev)
	return out, false, nil
}

func (w *world) tapFn(from, to boson.Address, protocol, stream string) (swb.StreamTap, error) {
	f, t := w.nodeName(from), w.nodeName(to)
	if protocol == "chunkinfo" {
		w.mu.Lock()
		blocked := w.ciBlock[f] == t
		w.mu.Unlock()
		if blocked {
			w.log(kit.Ev{"op": "ciblock", "n": f, "p": t, "stream": stream})
			return nil, errors.New("swb: stream refused (scenario)")
		}
		return nil, nil
	}
	if protocol != "retrieval" {
		return nil, nil
	}
	w.mu.Lock()
	k := w.nOpen
	w.nOpen++
	fault := "none"
	if k < len(w.plan) {
		fault = w.plan[k]
	}
	delete(w.ciBlock, f)
	if fault == "cifail" {
		w.ciBlock[f] = t
	}
	w.mu.Unlock()
	w.log(kit.Ev{"op": "open", "sid": k + 1, "n": f, "p": t, "ok": fault != "noconn", "fault": fault})
	if fault == "noconn" {
		return nil, errors.New("swb: no connection (scenario)")
	}
	return &tap{w: w, sid: k + 1, cli: f, srv: t, fault: fault}, nil
}

// ---------------------------------------------------------------- building a world

type params struct {
	thr, tol int64
	funds    map[string]int64
	big      bool
}

func parsePar(par map[string]interface{}) params {
	p := params{thr: 2, tol: 2, funds: map[string]int64{}}
	if par == nil {
		return p
	}
	if v, ok := par["thr"]; ok {
		p.thr = int64(v.(float64))
	}
	if v, ok := par["tol"]; ok {
		p.tol = int64(v.(float64))
	}
	if v, ok := par["big"].(bool); ok {
		p.big = v
	}
	if f, ok := par["funds"].(map[string]interface{}); ok {
		for k, v := range f {
			p.funds[k] = int64(v.(float64))
		}
	}
	return p
}

func newWorld(fx *fixture, logger logging.Logger, p params, seed int64, scn int) (*world, error) {
	w := &world{fx: fx, board: swb.NewBoard(), nodes: map[string]*nodelite.Node{}, stubs: map[string]*stub{},
		names: map[string]string{}, addrs: map[string]boson.Address{}, ciBlock: map[string]string{}, ciRoute: map[string][]aco.Route{}}
	rng := rand.New(rand.NewSource(seed*1000003 + int64(scn)*97 + 11))
	for _, n := range nodeNames {
		a := addrRand(rng)
		w.addrs[n] = a
		w.names[a.String()] = n
	}
	w.sentry = addrRand(rng)
	w.board.Tap = w.tapFn
	for _, n := range nodeNames {
		n := n
		funds, ok := p.funds[n]
		if !ok {
			funds = 1000
		}
		st := newStub(w, n, funds*unit)
		w.stubs[n] = st
		route := rmock.NewMockRouteTable()
		node, err := nodelite.NewWithOptions(w.board, w.addrs[n], "", nil, logger, nodelite.Options{
			Settlement: st, Tolerance: big.NewInt(p.tol * unit), Threshold: big.NewInt(p.thr * unit),
			WrapAccounting: func(in accounting.Interface) accounting.Interface { return &recAcc{w: w, n: n, inner: in, st: st} },
			WrapStorer:     func(in storage.Storer) storage.Storer { return &recStore{Storer: in, w: w, n: n} },
			WrapChunkInfo:  func(ci *chunkinfo.ChunkInfo) chunkinfo.Interface { return &recCI{Interface: ci, w: w, n: n} },
			Route:          &route,
			StoreDriver:    `leveldb:{"WriteBuffer":262144}`,
		})
		if err != nil {
			return nil, err
		}
		w.nodes[n] = node
	}
	// the holder uploads both files (registers their pyramids with its chunk-info service)
	for _, c := range chunkNames {
		ref, _, err := w.nodes["B"].Upload("f"+c, fx.content[c], false, false)
		if err != nil {
			return nil, err
		}
		if !ref.Equal(fx.root[c]) {
			return nil, fmt.Errorf("fixture: reference of %s differs between uploads", c)
		}
	}
	return w, nil
}

func (w *world) close() {
	for _, n := range w.nodes {
		n.Close()
	}
}

// quiesce waits for stream handlers and for the payment requests queued by Credit (the pay channel is
// FIFO: a sentinel credit at the threshold is processed after every earlier request).
func (w *world) quiesce() (handlersDone bool, flushed bool) {
	handlersDone = w.board.WaitHandlers(20 * time.Second)
	flushed = true
	for _, n := range nodeNames {
		node, st := w.nodes[n], w.stubs[n]
		if err := node.Acc.Credit(context.Background(), w.sentry, 1<<40); err != nil {
			flushed = false
			continue
		}
		select {
		case <-st.flush:
		case <-time.After(20 * time.Second):
			flushed = false
		}
		_ = node.Acc.NotifyPayment(w.sentry, big.NewInt(1<<40))
	}
	return
}

func (w *world) projection() kit.Ev {
	has := kit.Ev{}
	for _, n := range nodeNames {
		row := make([]string, len(chunkNames))
		for i, c := range chunkNames {
			ch, err := w.nodes[n].Store.Get(context.Background(), storage.ModeGetLookup, w.fx.addr[c])
			switch {
			case err != nil:
				row[i] = "absent"
			case bytes.Equal(ch.Data(), w.fx.data[c]):
				row[i] = "good"
			default:
				row[i] = "bad"
			}
		}
		has[n] = row
	}
	books := kit.Ev{}
	for _, n := range nodeNames {
		books[n] = w.stubs[n].books()
	}
	return kit.Ev{"has": has, "books": books}
}

// ---------------------------------------------------------------- operations

func (w *world) routesOf(op map[string]interface{}) ([]aco.Route, []interface{}) {
	var rs []aco.Route
	var names []interface{}
	for _, x := range kit.List(op, "routes") {
		pr, _ := x.([]interface{})
		if len(pr) != 2 {
			continue
		}
		l, _ := pr[0].(string)
		t, _ := pr[1].(string)
		rs = append(rs, aco.NewRoute(w.addrs[l], w.addrs[t]))
		names = append(names, []string{l, t})
	}
	return rs, names
}

func (w *world) doGet(op map[string]interface{}) error {
	n, c, via := kit.Str(op, "n"), kit.Str(op, "c"), kit.Str(op, "via")
	node, ok := w.nodes[n]
	if !ok {
		return fmt.Errorf("get: unknown node %q", n)
	}
	if _, ok := w.fx.addr[c]; !ok {
		return fmt.Errorf("get: unknown chunk %q", c)
	}
	routes, rnames := w.routesOf(op)
	w.mu.Lock()
	w.plan = kit.StrList(op, "faults")
	w.nOpen = 0
	w.ciBlock = map[string]string{}
	delete(w.ciRoute, n)
	if via == "ci" {
		w.ciRoute[n] = routes
	}
	w.mu.Unlock()
	if rnames == nil {
		rnames = []interface{}{}
	}
	w.log(kit.Ev{"op": "get", "n": n, "c": c, "via": via, "routes": rnames, "faults": append([]string{}, w.plan...), "st": w.projection()})

	ctx := sctx.SetRootHash(context.Background(), w.fx.root[c])
	if via == "targets" && len(routes) > 0 { // like the API: no targets parameter, no targets in the context
		var hs []string
		for _, r := range routes {
			hs = append(hs, r.TargetNode.String())
		}
		ctx = sctx.SetTargets(ctx, strings.Join(hs, ","))
	}
	type res struct {
		ch  boson.Chunk
		err error
	}
	done := make(chan res, 1)
	t0 := time.Now()
	go func() {
		ch, err := node.NS.Get(ctx, storage.ModeGetRequest, w.fx.addr[c])
		done <- res{ch, err}
	}()
	var r res
	hung := false
	select {
	case r = <-done:
	case <-time.After(45 * time.Second):
		hung = true
	}
	ms := time.Since(t0).Milliseconds()
	hd, fl := w.quiesce()
	w.mu.Lock()
	w.ciBlock = map[string]string{}
	opened := w.nOpen
	w.mu.Unlock()
	ev := kit.Ev{"op": "ret", "n": n, "c": c, "ok": !hung && r.err == nil, "err": errStr(r.err), "hung": hung,
		"match": !hung && r.err == nil && r.ch != nil && bytes.Equal(r.ch.Data(), w.fx.data[c]),
		"slow": ms > 8000, "quiet": hd && fl, "opened": opened, "st": w.projection()}
	w.log(ev)
	if hung {
		return errHung
	}
	return nil
}

var errHung = errors.New("hung")

func (w *world) doSettle(op map[string]interface{}) error {
	n, p := kit.Str(op, "n"), kit.Str(op, "p")
	node, ok := w.nodes[n]
	if !ok || w.nodes[p] == nil {
		return fmt.Errorf("settle: unknown node")
	}
	st, pst := w.stubs[n], w.stubs[p]
	st.mu.Lock()
	amt := st.retr[p] - st.chq[p]
	st.chq[p] += amt
	st.mu.Unlock()
	err := node.Acc.NotifyPayment(w.addrs[p], big.NewInt(amt))
	pst.mu.Lock()
	pst.chqIn[n] += amt
	pst.mu.Unlock()
	w.log(kit.Ev{"op": "settle", "n": n, "p": p, "amt": amt, "err": errStr(err), "st": w.projection()})
	return nil
}

func (w *world) doFunds(op map[string]interface{}) error {
	n := kit.Str(op, "n")
	st, ok := w.stubs[n]
	if !ok {
		return fmt.Errorf("funds: unknown node")
	}
	st.mu.Lock()
	st.funds = int64(kit.Int(op, "v")) * unit
	st.mu.Unlock()
	w.log(kit.Ev{"op": "funds", "n": n, "v": kit.Int(op, "v") * unit})
	return nil
}

func runScenario(fx *fixture, logger logging.Logger, sc kit.Scenario, seed int64) ([]kit.Ev, kit.Ev, error) {
	p := parsePar(sc.Par)
	w, err := newWorld(fx, logger, p, seed, sc.Scn)
	if err != nil {
		return nil, nil, err
	}
	defer w.close()
	fundsRow := make([]int64, len(nodeNames))
	for i, n := range nodeNames {
		fundsRow[i] = w.stubs[n].funds
	}
	begin := kit.Ev{"thr": p.thr * unit, "tol": p.tol * unit, "funds": fundsRow, "big": p.big, "st": w.projection()}
	w.evs = nil // the set-up (upload at the holder) is not part of the history
	for _, op := range sc.Ops {
		var err error
		switch kit.Str(op, "op") {
		case "get":
			err = w.doGet(op)
		case "settle":
			err = w.doSettle(op)
		case "funds":
			err = w.doFunds(op)
		default:
			return nil, nil, fmt.Errorf("unknown op %q", kit.Str(op, "op"))
		}
		if err == errHung {
			break
		}
		if err != nil {
			return nil, nil, err
		}
	}
	for _, pn := range w.board.TakePanics() {
		fmt.Fprintln(os.Stderr, "NOTE handler panic:", strings.SplitN(pn, "\n", 2)[0])
	}
	for _, nt := range w.notes {
		fmt.Fprintln(os.Stderr, "NOTE", nt)
	}
	return w.evs, begin, nil
}

func main() {
	kit.Main(func(scs []kit.Scenario, out *kit.Out) error {
		logger := logging.New(ioutil.Discard, 0)
		seed := kit.Seed()
		fxs := map[bool]*fixture{}
		for _, sc := range scs {
			b := parsePar(sc.Par).big
			if fxs[b] == nil {
				fx, err := buildFixture(logger, b, seed)
				if err != nil {
					return err
				}
				fxs[b] = fx
			}
		}
		par := 6
		if v, err := strconv.Atoi(os.Getenv("VERIF_PAR")); err == nil && v > 0 {
			par = v
		}
		type result struct {
			evs   []kit.Ev
			begin kit.Ev
			err   error
		}
		results := make([]result, len(scs))
		sem := make(chan struct{}, par)
		var wg sync.WaitGroup
		for i := range scs {
			wg.Add(1)
			sem <- struct{}{}
			go func(i int) {
				defer wg.Done()
				defer func() { <-sem }()
				evs, begin, err := runScenario(fxs[parsePar(scs[i].Par).big], logger, scs[i], seed)
				results[i] = result{evs, begin, err}
			}(i)
		}
		wg.Wait()
		for i, r := range results {
			if r.err != nil {
				return fmt.Errorf("scenario %d: %w", scs[i].Scn, r.err)
			}
			out.Begin(scs[i].Scn, r.begin)
			for _, e := range r.evs {
				out.Emit(e)
			}
		}
		return nil
	})
}
