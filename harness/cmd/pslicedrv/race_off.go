//go:build !race

package main

const raceDetector = false
