//go:build race

package main

const raceDetector = true
