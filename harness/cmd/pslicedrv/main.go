// pslicedrv: conformance driver for pkg/topology/pslice (C21).
// Executes generated histories on a real PSlice and logs what each call returned plus a
// projection (BinPeers of every bin, Length).  Peers are pairs (po, id): the driver maps them
// to 32-byte addresses sharing exactly po leading bits with the base.  The concurrent
// operation ("conc") is run in a child process of this binary (hidden sub-command
// conc-child) so that the race detector's report can be observed and logged.
// No oracle here: PSliceTrace.tla judges the log.
package main

import (
	"bufio"
	"bytes"
	"encoding/hex"
	"encoding/json"
	"errors"
	"fmt"
	"io"
	"os"
	"os/exec"
	"strings"
	"sync"
	"sync/atomic"
	"time"

	"github.com/gauss-project/aurorafs/pkg/boson"
	"github.com/gauss-project/aurorafs/pkg/topology/pslice"

	"verifharness/internal/kit"
)

type peer [2]int // (po, id)

func peerOf(v interface{}) peer {
	l, _ := v.([]interface{})
	var p peer
	for i := 0; i < 2 && i < len(l); i++ {
		f, _ := l[i].(float64)
		p[i] = int(f)
	}
	return p
}

func peersOf(v interface{}) []peer {
	l, _ := v.([]interface{})
	out := make([]peer, 0, len(l))
	for _, x := range l {
		out = append(out, peerOf(x))
	}
	return out
}

// world maps abstract peers to addresses and back (per scenario).
type world struct {
	base  []byte
	addrs map[peer]boson.Address
	back  map[string]peer
	salt  int64
}

func newWorld(scn int) *world {
	w := &world{addrs: map[peer]boson.Address{}, back: map[string]peer{}, salt: int64(scn)}
	w.base = make([]byte, 32)
	kit.Rng(w.salt * 7).Read(w.base)
	return w
}

// addr: equal to the base before bit po, different at bit po, then the id, then seeded bytes.
func (w *world) addr(p peer) boson.Address {
	if a, ok := w.addrs[p]; ok {
		return a
	}
	b := make([]byte, 32)
	kit.Rng(w.salt*7 + int64(p[0])*1000 + int64(p[1])).Read(b)
	po := p[0]
	full := po / 8
	copy(b[:full], w.base[:full])
	keep := byte(0xff) << uint(8-po%8)
	b[full] = (w.base[full] & keep) | (b[full] &^ keep)
	bit := byte(0x80) >> uint(po%8)
	b[full] = (b[full] &^ bit) | (^w.base[full] & bit)
	b[31] = byte(p[1])
	a := boson.NewAddress(b)
	w.addrs[p] = a
	w.back[a.ByteString()] = p
	return a
}

func (w *world) peer(a boson.Address) (peer, error) {
	p, ok := w.back[a.ByteString()]
	if !ok {
		// an address the driver never supplied (e.g. a zero address delivered by a corrupted iteration) is an
		// observation, not a driver failure: it is logged as the peer (99, 99), which no model state contains
		return peer{99, 99}, nil
	}
	return p, nil
}

func (w *world) list(as []boson.Address) ([]peer, error) {
	out := make([]peer, 0, len(as))
	for _, a := range as {
		p, err := w.peer(a)
		if err != nil {
			return nil, err
		}
		out = append(out, p)
	}
	return out, nil
}

// project: BinPeers of every bin (non-empty ones are listed) and Length.
func project(ev kit.Ev, w *world, s *pslice.PSlice, mb int) error {
	st := []interface{}{}
	for b := 0; b < mb; b++ {
		ps, err := w.list(s.BinPeers(uint8(b)))
		if err != nil {
			return err
		}
		if len(ps) > 0 {
			st = append(st, []interface{}{b, ps})
		}
	}
	ev["st"] = st
	ev["length"] = s.Length()
	return nil
}

var errCallback = errors.New("callback error")

type visit struct {
	p   peer
	bin int
}

func visits(vs []visit) []interface{} {
	out := make([]interface{}, 0, len(vs))
	for _, v := range vs {
		out = append(out, []interface{}{v.p, v.bin})
	}
	return out
}

func apply(w *world, s *pslice.PSlice, upd []interface{}) {
	for _, u := range upd {
		m, _ := u.(map[string]interface{})
		a := w.addr(peerOf(m["p"]))
		if kit.Str(m, "u") == "add" {
			s.Add(a)
		} else {
			s.Remove(a)
		}
	}
}

func run(sc kit.Scenario, out *kit.Out) error {
	mb := kit.Int(sc.Par, "maxbins")
	if mb <= 0 {
		return fmt.Errorf("scenario %d: no maxbins", sc.Scn)
	}
	w := newWorld(sc.Scn)
	s := pslice.New(mb, boson.NewAddress(w.base))
	reset := kit.Ev{"maxbins": mb, "panicked": false}
	if err := project(reset, w, s, mb); err != nil {
		return err
	}
	out.Begin(sc.Scn, reset)
	for _, op := range sc.Ops {
		name := kit.Str(op, "op")
		ev := kit.Ev{"op": name, "panicked": false}
		var derr error
		p, msg := kit.Guard(func() {
			switch name {
			case "add":
				ps := peersOf(op["ps"])
				ev["ps"] = ps
				as := make([]boson.Address, 0, len(ps))
				for _, x := range ps {
					as = append(as, w.addr(x))
				}
				s.Add(as...)
			case "remove":
				x := peerOf(op["p"])
				ev["p"] = x
				s.Remove(w.addr(x))
			case "exists":
				x := peerOf(op["p"])
				ev["p"] = x
				ev["res"] = s.Exists(w.addr(x))
			case "length":
				// Length is part of every projection
			case "binsize":
				b := kit.Int(op, "bin")
				ev["bin"] = b
				ev["res"] = s.BinSize(uint8(b))
			case "binpeers":
				b := kit.Int(op, "bin")
				ev["bin"] = b
				var ps []peer
				ps, derr = w.list(s.BinPeers(uint8(b)))
				ev["res"] = ps
			case "shallowest":
				b, none := s.ShallowestEmpty()
				ev["bin"], ev["none"] = int(b), none
			case "iter", "iterupd":
				dir := kit.Str(op, "dir")
				kind, at := kit.Str(op, "kind"), kit.Int(op, "at")
				upd := kit.List(op, "upd")
				ev["dir"], ev["at"] = dir, at
				if name == "iter" {
					ev["kind"] = kind
				} else {
					ev["upd"] = op["upd"]
				}
				var vs []visit
				n := 0
				cb := func(a boson.Address, po uint8) (bool, bool, error) {
					n++
					x, err := w.peer(a)
					if err != nil && derr == nil {
						derr = err
					}
					vs = append(vs, visit{x, int(po)})
					if name == "iterupd" {
						if n == at {
							apply(w, s, upd)
						}
						return false, false, nil
					}
					switch {
					case kind == "nextall":
						return false, true, nil
					case n == at && kind == "stop":
						return true, false, nil
					case n == at && kind == "next":
						return false, true, nil
					case n == at && kind == "err":
						return false, false, errCallback
					}
					return false, false, nil
				}
				var err error
				if dir == "deep" {
					err = s.EachBin(cb)
				} else {
					err = s.EachBinRev(cb)
				}
				ev["visited"] = visits(vs)
				ev["cberr"] = errors.Is(err, errCallback)
				if err != nil && !errors.Is(err, errCallback) && derr == nil {
					derr = fmt.Errorf("iteration returned an error the callback did not produce: %v", err)
				}
			case "conc":
				ev["dir"], ev["upd"] = kit.Str(op, "dir"), op["upd"]
				var ns *pslice.PSlice
				ns, derr = concurrent(ev, w, s, mb, kit.Str(op, "dir"), kit.List(op, "upd"))
				if derr == nil {
					s = ns
				}
			default:
				derr = fmt.Errorf("unknown op %q", name)
			}
		})
		if derr != nil {
			return derr
		}
		if p {
			ev["panicked"] = true
			ev["panic"] = msg
			// results the call never produced: placeholders of the right shape for the judge
			def := map[string]interface{}{}
			switch name {
			case "exists":
				def["res"] = false
			case "binsize":
				def["res"] = -1
			case "binpeers":
				def["res"] = []peer{}
			case "shallowest":
				def["bin"], def["none"] = -1, false
			case "iter", "iterupd":
				def["visited"], def["cberr"] = []interface{}{}, false
			case "conc":
				def["detector"], def["race"] = raceDetector, false
			}
			for k, v := range def {
				if _, ok := ev[k]; !ok {
					ev[k] = v
				}
			}
		}
		if err := project(ev, w, s, mb); err != nil {
			return err
		}
		out.Emit(ev)
	}
	return nil
}

// ------------------------------------------------------------------------------------------
// concurrent variant: child process under the race detector
// ------------------------------------------------------------------------------------------

type childIn struct {
	MaxBins int         `json:"maxbins"`
	Base    string      `json:"base"`
	Pre     []string    `json:"pre"` // addresses in the slice, bin by bin, in the slice's order
	Dir     string      `json:"dir"`
	Upd     [][2]string `json:"upd"` // (add|remove, address)
	Rounds  int         `json:"rounds"`
}

type childOut struct {
	Bins  [][]string `json:"bins"` // BinPeers per bin after both goroutines finished
	Iters int        `json:"iters"`
	Panic string     `json:"panic,omitempty"`
}

// concServer is the child process (this binary, sub-command conc-child) that runs the
// concurrent operations: one JSON request per line on its stdin, one JSON answer per line on
// its stdout, and a "MARK n" line on its stderr after request n, so that whatever the race
// detector printed while request n ran can be attributed to it.
type concServer struct {
	cmd    *exec.Cmd
	in     io.WriteCloser
	out    *bufio.Reader
	mu     sync.Mutex
	cond   *sync.Cond
	errbuf []string // stderr lines since the last mark
	marks  int
	n      int
	dead   bool
}

var server *concServer

func startServer() (*concServer, error) {
	c := &concServer{cmd: exec.Command(os.Args[0], "conc-child")}
	c.cond = sync.NewCond(&c.mu)
	c.cmd.Env = append(os.Environ(), "GORACE=halt_on_error=0 exitcode=0")
	var err error
	if c.in, err = c.cmd.StdinPipe(); err != nil {
		return nil, err
	}
	so, err := c.cmd.StdoutPipe()
	if err != nil {
		return nil, err
	}
	se, err := c.cmd.StderrPipe()
	if err != nil {
		return nil, err
	}
	c.out = bufio.NewReaderSize(so, 1<<20)
	if err := c.cmd.Start(); err != nil {
		return nil, err
	}
	go func() {
		r := bufio.NewReaderSize(se, 1<<20)
		for {
			line, err := r.ReadString('\n')
			c.mu.Lock()
			if strings.HasPrefix(line, "MARK ") {
				c.marks++
			} else if line != "" {
				c.errbuf = append(c.errbuf, line)
			}
			if err != nil {
				c.dead = true
			}
			c.cond.Broadcast()
			c.mu.Unlock()
			if err != nil {
				return
			}
		}
	}()
	return c, nil
}

// call sends one request and returns the answer line and what the child wrote to stderr meanwhile.
func (c *concServer) call(req []byte) ([]byte, string, error) {
	c.n++
	if _, err := c.in.Write(append(req, '\n')); err != nil {
		return nil, "", err
	}
	line, err := c.out.ReadBytes('\n')
	c.mu.Lock()
	for c.marks < c.n && !c.dead {
		c.cond.Wait()
	}
	report := strings.Join(c.errbuf, "")
	c.errbuf = nil
	c.mu.Unlock()
	if err != nil {
		return nil, report, fmt.Errorf("conc child died: %v: %s", err, tail(report))
	}
	return line, report, nil
}

func stopServer() {
	if server != nil {
		server.in.Close()
		_ = server.cmd.Wait()
		server = nil
	}
}

// concurrent runs iterate || update in the child and returns a slice holding the child's final content.
func concurrent(ev kit.Ev, w *world, s *pslice.PSlice, mb int, dir string, upd []interface{}) (*pslice.PSlice, error) {
	in := childIn{MaxBins: mb, Base: hex.EncodeToString(w.base), Dir: dir, Rounds: 60}
	for b := 0; b < mb; b++ {
		for _, a := range s.BinPeers(uint8(b)) {
			in.Pre = append(in.Pre, hex.EncodeToString(a.Bytes()))
		}
	}
	for _, u := range upd {
		m, _ := u.(map[string]interface{})
		in.Upd = append(in.Upd, [2]string{kit.Str(m, "u"), hex.EncodeToString(w.addr(peerOf(m["p"])).Bytes())})
	}
	js, _ := json.Marshal(in)
	if server == nil {
		var err error
		if server, err = startServer(); err != nil {
			return nil, fmt.Errorf("conc child: %w", err)
		}
	}
	line, report, err := server.call(js)
	if err != nil {
		return nil, err
	}
	raced := strings.Contains(report, "DATA RACE")
	if raced && !strings.Contains(report, "pkg/topology/pslice") {
		return nil, fmt.Errorf("race report outside the package under test (harness problem): %s", tail(report))
	}
	if !raced && strings.TrimSpace(report) != "" {
		return nil, fmt.Errorf("conc child complained: %s", tail(report))
	}
	var res childOut
	if err := json.Unmarshal(line, &res); err != nil {
		return nil, fmt.Errorf("conc child output: %w (%s)", err, tail(report))
	}
	ev["detector"] = raceDetector
	ev["race"] = raced
	ev["iters"] = res.Iters
	if res.Panic != "" {
		ev["panicked"] = true
		ev["panic"] = res.Panic
	}
	// continue the scenario on a slice holding what the child ended with
	ns := pslice.New(mb, boson.NewAddress(w.base))
	for _, bin := range res.Bins {
		for _, h := range bin {
			b, err := hex.DecodeString(h)
			if err != nil {
				return nil, err
			}
			a := boson.NewAddress(b)
			if _, err := w.peer(a); err != nil {
				return nil, err
			}
			ns.Add(a)
		}
	}
	return ns, nil
}

func tail(s string) string {
	if len(s) > 1500 {
		return s[len(s)-1500:]
	}
	return s
}

// childMain serves concurrent operations until stdin is closed.
func childMain() int {
	r := bufio.NewReaderSize(os.Stdin, 1<<20)
	w := bufio.NewWriter(os.Stdout)
	for n := 1; ; n++ {
		line, err := r.ReadBytes('\n')
		if len(bytes.TrimSpace(line)) > 0 {
			var in childIn
			if e := json.Unmarshal(line, &in); e != nil {
				fmt.Fprintln(os.Stderr, "conc-child:", e)
				return 2
			}
			out, e := childOne(in)
			if e != nil {
				fmt.Fprintln(os.Stderr, "conc-child:", e)
				return 2
			}
			js, _ := json.Marshal(out)
			w.Write(js)
			w.WriteByte('\n')
			w.Flush()
			fmt.Fprintf(os.Stderr, "MARK %d\n", n)
		}
		if err != nil {
			return 0
		}
	}
}

func childOne(in childIn) (out childOut, err error) {
	dec := func(h string) boson.Address {
		b, e := hex.DecodeString(h)
		if e != nil && err == nil {
			err = e
		}
		return boson.NewAddress(b)
	}
	s := pslice.New(in.MaxBins, dec(in.Base))
	var known []boson.Address
	for _, h := range in.Pre {
		a := dec(h)
		known = append(known, a)
		s.Add(a)
	}
	type up struct {
		add bool
		a   boson.Address
	}
	var ups []up
	for _, u := range in.Upd {
		a := dec(u[1])
		ups = append(ups, up{u[0] == "add", a})
		known = append(known, a)
	}
	if err != nil {
		return out, err
	}
	var done int32
	var iters int
	var wg sync.WaitGroup
	start := make(chan struct{})
	wg.Add(2)
	var pmu sync.Mutex
	guard := func() {
		if r := recover(); r != nil {
			pmu.Lock()
			out.Panic = fmt.Sprint(r)
			pmu.Unlock()
			atomic.StoreInt32(&done, 1)
		}
	}
	go func() { // reader: iterations and queries, free-running
		defer wg.Done()
		defer guard()
		<-start
		for last := false; ; {
			// the callback lingers (no synchronisation in it): updates land between two reads of one bin snapshot
			cb := func(a boson.Address, po uint8) (bool, bool, error) {
				_ = a.Bytes()[0]
				time.Sleep(20 * time.Microsecond)
				return false, false, nil
			}
			if in.Dir == "deep" {
				_ = s.EachBin(cb)
			} else {
				_ = s.EachBinRev(cb)
			}
			for b := 0; b < in.MaxBins; b++ {
				for _, a := range s.BinPeers(uint8(b)) {
					_ = a.Bytes()[0]
				}
				_ = s.BinSize(uint8(b))
			}
			_ = s.Length()
			_, _ = s.ShallowestEmpty()
			for _, a := range known {
				_ = s.Exists(a)
			}
			iters++
			if last {
				return
			}
			last = atomic.LoadInt32(&done) == 1
		}
	}()
	go func() { // writer: the updates, over and over
		defer wg.Done()
		defer guard()
		<-start
		for r := 0; r < in.Rounds; r++ {
			for _, u := range ups {
				if u.add {
					s.Add(u.a)
				} else {
					s.Remove(u.a)
				}
				time.Sleep(5 * time.Microsecond)
			}
		}
		atomic.StoreInt32(&done, 1)
	}()
	close(start)
	wg.Wait()
	out.Iters = iters
	for b := 0; b < in.MaxBins; b++ {
		l := []string{}
		for _, a := range s.BinPeers(uint8(b)) {
			l = append(l, hex.EncodeToString(a.Bytes()))
		}
		out.Bins = append(out.Bins, l)
	}
	return out, nil
}

func main() {
	if len(os.Args) > 1 && os.Args[1] == "conc-child" {
		os.Exit(childMain())
	}
	kit.Main(func(scs []kit.Scenario, out *kit.Out) error {
		defer stopServer()
		for _, sc := range scs {
			if err := run(sc, out); err != nil {
				return err
			}
		}
		return nil
	})
}
