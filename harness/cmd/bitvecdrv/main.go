// bitvecdrv: conformance driver for pkg/bitvector (C39).
// Executes generated operation sequences on a real BitVector and logs what each
// call returned plus a projection (Len, Get of every position below Len, Bytes).
// No oracle here: the TLA+ trace specification BitVectorTrace judges the log.
package main

import (
	"fmt"

	"github.com/gauss-project/aurorafs/pkg/bitvector"

	"verifharness/internal/kit"
)

func toBytes(v interface{}) []byte {
	l, _ := v.([]interface{})
	out := make([]byte, 0, len(l))
	for _, x := range l {
		f, _ := x.(float64)
		out = append(out, byte(int(f)))
	}
	return out
}

func ints(b []byte) []int {
	out := make([]int, len(b))
	for i, x := range b {
		out[i] = int(x)
	}
	return out
}

// project fills len / st / bytes from the vector (nil vector: empty projection).
func project(ev kit.Ev, bv *bitvector.BitVector) {
	ev["len"], ev["st"], ev["bytes"] = 0, []bool{}, []int{}
	if bv == nil {
		return
	}
	p, msg := kit.Guard(func() {
		n := bv.Len()
		st := make([]bool, n)
		for i := 0; i < n; i++ {
			st[i] = bv.Get(i)
		}
		ev["len"], ev["st"], ev["bytes"] = n, st, ints(bv.Bytes())
	})
	if p {
		ev["panicked"] = true
		ev["err"] = "project: " + msg
	}
}

func run(sc kit.Scenario, out *kit.Out) error {
	var bv *bitvector.BitVector
	reset := kit.Ev{"err": "", "panicked": false}
	project(reset, nil)
	out.Begin(sc.Scn, reset)
	for _, op := range sc.Ops {
		name := kit.Str(op, "op")
		ev := kit.Ev{"op": name, "err": "", "panicked": false}
		if bv == nil && name != "new" && name != "frombytes" {
			return fmt.Errorf("scenario %d: %q before a constructor", sc.Scn, name)
		}
		var err error
		p, msg := kit.Guard(func() {
			switch name {
			case "new":
				n := kit.Int(op, "n")
				ev["n"] = n
				bv, err = bitvector.New(n)
			case "frombytes":
				n, b := kit.Int(op, "n"), toBytes(op["b"])
				ev["n"], ev["b"] = n, ints(b)
				bv, err = bitvector.NewFromBytes(b, n)
			case "get":
				i := kit.Int(op, "pos")
				ev["pos"] = i
				ev["res"] = bv.Get(i)
			case "set":
				i := kit.Int(op, "pos")
				ev["pos"] = i
				bv.Set(i)
			case "unset":
				i := kit.Int(op, "pos")
				ev["pos"] = i
				bv.Unset(i)
			case "setbytes":
				m := toBytes(op["mask"])
				ev["mask"] = ints(m)
				err = bv.SetBytes(m)
			case "unsetbytes":
				m := toBytes(op["mask"])
				ev["mask"] = ints(m)
				err = bv.UnsetBytes(m)
			case "allset":
				ev["res"] = bv.Equals()
			case "reload":
				// encode, copy, decode: the history continues on the decoded vector
				enc := append([]byte(nil), bv.Bytes()...)
				var dec *bitvector.BitVector
				dec, err = bitvector.NewFromBytes(enc, bv.Len())
				if err == nil {
					bv = dec
				}
			default:
				err = errUnknown
			}
		})
		if err == errUnknown {
			return fmt.Errorf("unknown op %q", name)
		}
		if p {
			ev["panicked"] = true
			ev["err"] = msg
			if name == "get" || name == "allset" {
				ev["res"] = false
			}
		} else if err != nil {
			ev["err"] = err.Error()
		}
		project(ev, bv)
		out.Emit(ev)
		if bv == nil {
			break // constructor failed: nothing to operate on
		}
	}
	return nil
}

var errUnknown = fmt.Errorf("unknown op")

func main() {
	kit.Main(func(scs []kit.Scenario, out *kit.Out) error {
		for _, sc := range scs {
			if err := run(sc, out); err != nil {
				return err
			}
		}
		return nil
	})
}
