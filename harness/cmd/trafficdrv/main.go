// trafficdrv: conformance driver for the traffic settlement service (C31, C33).
//
// A real traffic.Service with the real cheque store, address book and EIP-712
// signer runs on harness-supplied dependencies: a chain stub, a cash-out stub, a
// protocol (emit) stub, a pubsub stub and a gating state store.
//
//	par.mode = "hist"  (C31): sequential histories over credit / pay (delivery ok
//	    or failed) / refresh (public TrafficInit) / peercash (the peer cashes the
//	    cheque it holds: the chain stub changes) / cashout (CashCheque + receipt)
//	    / restart.  After every call: AvailableBalance, TrafficInfo, per-peer
//	    totals and last sent cheque, and what the chain stub currently holds.
//	par.mode = "sched" (C33): a TLC behaviour forced on concurrent goroutines.
//	    Put of a traffic total / last sent cheque and EmitCheque are gates; the
//	    steps start / persist / paystart / emit / persistcheque release them in
//	    the prescribed order; `restart` crashes the store handle (parked writes
//	    never happen), builds a new service on the surviving store and logs the
//	    restored totals; reconnect (the peer presents the cheque it holds) / pay
//	    / credit / pay then observe whether a cheque is issued although nothing
//	    new was consumed, and the first cheque after the restart.
//
// The driver holds no expected values.
package main

import (
	"context"
	"fmt"
	"math/big"
	"strings"
	"time"

	p2pmock "github.com/gauss-project/aurorafs/pkg/p2p/mock"
	"github.com/gauss-project/aurorafs/pkg/settlement/traffic"
	chequePkg "github.com/gauss-project/aurorafs/pkg/settlement/traffic/cheque"
	ldbstore "github.com/gauss-project/aurorafs/pkg/statestore/leveldb"
	"github.com/gauss-project/aurorafs/pkg/storage"

	"github.com/gauss-project/aurorafs/pkg/boson"

	"verifharness/internal/kit"
	"verifharness/internal/sched"
	"verifharness/internal/settle"
)

const nPeers = 2

var (
	shared storage.StateStorer
	nsSeq  int
)

type node struct {
	inner  storage.StateStorer // survives restarts
	gs     *settle.GateStore   // handle of the current incarnation
	ctl    *sched.Ctl
	chain  *settle.Chain
	emit   *settle.Emit
	sub    *settle.SubPub
	cs     chequePkg.ChequeStore
	svc    *traffic.Service
	thr    int64
	notes  []int64                         // amounts handed to the notify-payment callback
	held   map[int]*chequePkg.SignedCheque // last cheque delivered to each peer (what the peer holds)
	writes []settle.Write                  // every write that reached the store, over all incarnations
}

// quiet: the service publishes totals from goroutines it spawns and forgets (they read the totals without the
// peer lock).  The driver lets them finish before the next call; the wait is bounded and changes no observation.
func (n *node) quiet(header, cheque int) {
	n.sub.Await("header", header, 50*time.Millisecond)
	// the cheque publication takes the peer lock: it cannot finish while a payment is parked inside it
	n.sub.Await("trafficCheque", cheque, 3*time.Millisecond)
}

// spawned: publication counts before a call; the returned func waits for h more header and c more cheque publications.
func (n *node) spawned() func(h, c int) {
	h0, c0 := n.sub.Count("header"), n.sub.Count("trafficCheque")
	return func(h, c int) { n.quiet(h0+h, c0+c) }
}

func newNode(par map[string]interface{}) (*node, error) {
	logger := settle.Logger()
	if shared == nil {
		s, err := ldbstore.NewInMemoryStateStore(logger)
		if err != nil {
			return nil, err
		}
		shared = s
	}
	nsSeq++
	n := &node{inner: &settle.NSStore{StateStorer: shared, NS: fmt.Sprintf("t%06d/", nsSeq)},
		chain: settle.NewChain(settle.Addr(0)), sub: settle.NewSubPub(), held: map[int]*chequePkg.SignedCheque{}}
	n.thr = int64(kit.Int(par, "thr"))
	if n.thr == 0 {
		n.thr = 2
	}
	bal := int64(kit.Int(par, "bal"))
	n.chain.SetBalance(settle.Addr(0), bal)
	if kit.Bool(par, "known") {
		for p := 1; p <= nPeers; p++ {
			n.chain.SetKnown(settle.Addr(p))
		}
	}
	if err := n.boot(); err != nil {
		return nil, err
	}
	for p := 1; p <= nPeers; p++ {
		if err := n.svc.Handshake(settle.Overlay(p), settle.Addr(p), chequePkg.SignedCheque{}); err != nil {
			return nil, fmt.Errorf("register peer %d: %w", p, err)
		}
	}
	return n, nil
}

// boot builds a service incarnation on the surviving store and runs Init (as node start-up does).
func (n *node) boot() error {
	logger := settle.Logger()
	n.ctl = sched.New()
	n.gs = settle.NewGateStore(n.inner, n.ctl, "retrieved_traffic_", "transferred_traffic_", "traffic_last_send_cheque_")
	// the refresh reads the persisted totals: those reads are gates too (for a refresh that is a scheduled goroutine)
	n.gs.GatedGets = []string{"retrieved_traffic_", "transferred_traffic_"}
	n.emit = &settle.Emit{Ctl: n.ctl}
	n.cs = chequePkg.NewChequeStore(n.gs, settle.Addr(0), chequePkg.RecoverCheque, settle.ChainID)
	book := traffic.NewAddressBook(n.gs)
	n.svc = traffic.New(logger, settle.Addr(0), n.gs, n.chain, n.cs, &settle.Cashout{}, p2pmock.New(), book,
		settle.Signer(0), n.emit, settle.ChainID, n.sub)
	n.svc.SetNotifyPaymentFunc(func(peer boson.Address, amount *big.Int) error {
		n.notes = append(n.notes, amount.Int64())
		return nil
	})
	return n.svc.Init()
}

// crash: parked writes never happen, the old handle fails from now on.
func (n *node) crash() {
	n.gs.Crash()
	n.ctl.Kill(settle.ErrCrashed)
	n.takeWrites()
}

func (n *node) takeWrites() {
	n.writes = append(n.writes, n.gs.TakeWrites()...)
}

func errs(e error) string {
	if e == nil {
		return ""
	}
	return e.Error()
}

// project: the observable totals (public API only).
func (n *node) project() (kit.Ev, error) {
	owed, unpaid, served, lastSent := []int64{}, []int64{}, []int64{}, []int64{}
	for p := 1; p <= nPeers; p++ {
		o, err := n.svc.TotalReceived(settle.Overlay(p)) // = retrieveTraffic, the total we owe
		if err != nil {
			return nil, fmt.Errorf("TotalReceived: %w", err)
		}
		u, err := n.svc.RetrieveTraffic(settle.Overlay(p)) // owed - cheque total
		if err != nil {
			return nil, fmt.Errorf("RetrieveTraffic: %w", err)
		}
		s, err := n.svc.TotalSent(settle.Overlay(p)) // = transferTraffic, the total we served
		if err != nil {
			return nil, fmt.Errorf("TotalSent: %w", err)
		}
		c, err := n.svc.LastSentCheque(settle.Overlay(p))
		if err != nil && err != chequePkg.ErrNoCheque {
			return nil, fmt.Errorf("LastSentCheque: %w", err)
		}
		owed, unpaid, served = append(owed, o.Int64()), append(unpaid, u.Int64()), append(served, s.Int64())
		lastSent = append(lastSent, c.CumulativePayout.Int64())
	}
	av, err := n.svc.AvailableBalance()
	if err != nil {
		return nil, err
	}
	ti, err := n.svc.TrafficInfo()
	if err != nil {
		return nil, err
	}
	return kit.Ev{"owed": owed, "unpaid": unpaid, "served": served, "lastSent": lastSent, "avail": av.Int64(),
		"ti": kit.Ev{"bal": ti.Balance.Int64(), "avail": ti.AvailableBalance.Int64(), "sent": ti.TotalSendTraffic.Int64(),
			"recv": ti.ReceivedTraffic.Int64()}}, nil
}

// chainView: what the chain stub would answer right now.
func (n *node) chainView() kit.Ev {
	cashed := []int64{}
	for p := 1; p <= nPeers; p++ {
		cashed = append(cashed, n.chain.Trans(settle.Addr(0), settle.Addr(p)))
	}
	return kit.Ev{"cashed": cashed, "bal": n.chain.Balance(settle.Addr(0))}
}

func (n *node) takeEmitted() [][]interface{} {
	out := [][]interface{}{}
	for _, e := range n.emit.Take() {
		if e.Delivered {
			for p := 1; p <= nPeers; p++ {
				if e.Peer.Equal(settle.Overlay(p)) {
					c := e.Cheque
					n.held[p] = &c
				}
			}
		}
		out = append(out, []interface{}{e.Cum, e.Delivered})
	}
	return out
}

func (n *node) takeNotes() []int64 {
	o := n.notes
	n.notes = nil
	if o == nil {
		o = []int64{}
	}
	return o
}

func (n *node) pay(p int, ok bool) (error, bool, string) {
	n.emit.SetFail(!ok)
	var err error
	panicked, msg := kit.Guard(func() {
		err = n.svc.Pay(context.Background(), settle.Overlay(p), big.NewInt(n.thr))
	})
	return err, panicked, msg
}

// ---------------------------------------------------------------------------------------------
// hist mode (C31)
// ---------------------------------------------------------------------------------------------
func runHist(sc kit.Scenario, out *kit.Out) error {
	n, err := newNode(sc.Par)
	if err != nil {
		return err
	}
	st, err := n.project()
	if err != nil {
		return err
	}
	out.Begin(sc.Scn, kit.Ev{"mode": "hist", "thr": n.thr, "st": st, "chain": n.chainView()})
	for _, op := range sc.Ops {
		name := kit.Str(op, "op")
		p := kit.Int(op, "p")
		ev := kit.Ev{"op": name, "p": p, "err": "", "panicked": false, "emitted": [][]interface{}{}, "notified": []int64{}}
		switch name {
		case "credit":
			x := kit.Int(op, "x")
			ev["x"] = x
			after := n.spawned()
			ev["err"] = errs(n.svc.PutRetrieveTraffic(settle.Overlay(p), big.NewInt(int64(x))))
			after(1, 1)
		case "pay":
			ok := kit.Bool(op, "ok")
			ev["ok"] = ok
			before, berr := n.project() // what the API showed right before the call
			if berr != nil {
				return berr
			}
			ev["before"] = before
			after := n.spawned()
			e, panicked, msg := n.pay(p, ok)
			if e == nil && len(n.emit.Peek()) > 0 {
				after(0, 1)
			}
			ev["err"], ev["panicked"] = errs(e), panicked
			if panicked {
				ev["err"] = "panic: " + msg
			}
			ev["emitted"] = n.takeEmitted()
			ev["notified"] = n.takeNotes()
		case "refresh":
			ev["err"] = errs(n.svc.TrafficInit())
		case "peercash":
			// environment: the peer cashes the cheque it holds
			if c := n.held[p]; c != nil {
				old := n.chain.Trans(settle.Addr(0), settle.Addr(p))
				cum := c.CumulativePayout.Int64()
				if cum > old {
					n.chain.SetTrans(settle.Addr(0), settle.Addr(p), cum)
					n.chain.SetBalance(settle.Addr(0), n.chain.Balance(settle.Addr(0))-(cum-old))
				}
			}
		case "cashout":
			for len(n.sub.CashOut) > 0 {
				<-n.sub.CashOut
			}
			_, e := n.svc.CashCheque(context.Background(), settle.Overlay(p))
			ev["err"] = errs(e)
			if e == nil {
				select {
				case <-n.sub.CashOut:
				case <-time.After(10 * time.Second):
					return fmt.Errorf("cash-out receipt worker did not finish")
				}
			}
		case "restart":
			n.crash()
			if e := n.boot(); e != nil {
				return fmt.Errorf("restart: %w", e)
			}
		default:
			return fmt.Errorf("unknown op %q", name)
		}
		st, err := n.project()
		if err != nil {
			return err
		}
		ev["st"], ev["chain"] = st, n.chainView()
		out.Emit(ev)
	}
	n.crash()
	return nil
}

// ---------------------------------------------------------------------------------------------
// sched mode (C33)
// ---------------------------------------------------------------------------------------------
func keyKind(key string) string {
	switch {
	case len(key) >= 18 && key[:18] == "retrieved_traffic_":
		return "owed"
	case len(key) >= 20 && key[:20] == "transferred_traffic_":
		return "served"
	case len(key) >= 25 && key[:25] == "traffic_last_send_cheque_":
		return "cheque"
	}
	return "other"
}

// keyPeer: which peer's record a store key belongs to (0 = none of ours).
func keyPeer(key string) int {
	for p := 1; p <= nPeers; p++ {
		if strings.HasSuffix(key, fmt.Sprintf("%x", settle.Addr(p))) {
			return p
		}
	}
	return 0
}

func atoi(s string) int64 {
	v, _ := new(big.Int).SetString(s, 10)
	if v == nil {
		return -1
	}
	return v.Int64()
}

// statusFields renders where a thread is after a step.
func statusFields(ev kit.Ev, s sched.Status) {
	ev["arrived"] = s.Kind
	ev["gate"], ev["key"], ev["val"], ev["ret"] = "", "", int64(0), ""
	switch s.Kind {
	case "gate":
		ev["gate"] = s.Point
		if s.Point == "put" {
			ev["key"] = keyKind(s.Info["key"].(string))
			ev["val"] = atoi(s.Info["val"].(string))
		} else if s.Point == "emit" {
			ev["val"] = s.Info["cum"].(int64)
		} else if s.Point == "get" {
			ev["key"] = keyKind(s.Info["key"].(string)) // parked before the read
		}
	case "ret":
		if e, ok := s.Ret.(error); ok && e != nil {
			ev["ret"] = e.Error()
		}
	}
}

func runSched(sc kit.Scenario, out *kit.Out) error {
	n, err := newNode(sc.Par)
	if err != nil {
		return err
	}
	// sequential prefix: debts that exist before the concurrent phase
	// (credits, and -- op "pay" -- payments that complete: the peer then holds a cheque before the concurrent phase)
	held0 := make([]int64, nPeers) // highest payout delivered to each peer by a payment of the prefix that returned nil
	for _, pre := range kit.List(sc.Par, "pre") {
		m, _ := pre.(map[string]interface{})
		if kit.Str(m, "op") == "pay" {
			p := kit.Int(m, "p")
			after := n.spawned()
			e, panicked, msg := n.pay(p, true)
			if e != nil || panicked {
				return fmt.Errorf("pre pay: %v %s", e, msg)
			}
			if len(n.emit.Peek()) > 0 {
				after(0, 1)
			}
			for _, em := range n.takeEmitted() {
				if cum, ok := em[0].(int64); ok && em[1] == true && p >= 1 && p <= nPeers && cum > held0[p-1] {
					held0[p-1] = cum
				}
			}
			continue
		}
		if e := n.svc.PutRetrieveTraffic(settle.Overlay(kit.Int(m, "p")), big.NewInt(int64(kit.Int(m, "x")))); e != nil {
			return fmt.Errorf("pre: %w", e)
		}
	}
	st, err := n.project()
	if err != nil {
		return err
	}
	out.Begin(sc.Scn, kit.Ev{"mode": "sched", "thr": n.thr, "st": st, "held0": held0})

	// A step the code cannot take at the prescribed moment (its goroutine is blocked on a lock, or has not
	// reached the gate yet) is deferred, per goroutine and in order, and taken as soon as it becomes possible:
	// the log always shows what really happened, in the order it happened.
	queue := map[int][]map[string]interface{}{}

	// try to take a step of a goroutine now
	try := func(op map[string]interface{}) bool {
		name := kit.Str(op, "op")
		t, p := kit.Int(op, "t"), kit.Int(op, "p")
		ev := kit.Ev{"op": name, "t": t, "p": p}
		switch name {
		case "start":
			if n.ctl.Running(t) {
				return false
			}
			k, x := kit.Str(op, "k"), kit.Int(op, "x")
			ev["k"], ev["x"] = k, x
			svc := n.svc
			after := n.spawned()
			defer after(1, 1)
			n.ctl.Start(t, func() interface{} {
				if k == "served" {
					return svc.PutTransferTraffic(settle.Overlay(p), big.NewInt(int64(x)))
				}
				return svc.PutRetrieveTraffic(settle.Overlay(p), big.NewInt(int64(x)))
			})
			statusFields(ev, n.ctl.Wait(t))
		case "paystart":
			if n.ctl.Running(t) {
				return false
			}
			svc, thr := n.svc, n.thr
			n.ctl.Start(t, func() interface{} {
				return svc.Pay(context.Background(), settle.Overlay(p), big.NewInt(thr))
			})
			statusFields(ev, n.ctl.Wait(t))
		case "refstart":
			// a live refresh (the public TrafficInit) as a goroutine of its own; it hands the per-peer work to a
			// worker goroutine whose reads of the persisted totals are attributed to this thread
			if n.ctl.Running(t) {
				return false
			}
			svc := n.svc
			n.ctl.SetProxy(t, "replaceTraffic", "get")
			n.ctl.Start(t, func() interface{} { return svc.TrafficInit() })
			statusFields(ev, n.ctl.Wait(t))
		case "refget":
			parked, at := n.ctl.Parked(t)
			if !parked || at.Point != "get" {
				return false
			}
			ev["done"] = true
			n.ctl.Release(t, nil, nil)
			statusFields(ev, n.ctl.Wait(t))
		case "persist", "persistcheque", "emit":
			ok := true
			want := "put"
			if name == "emit" {
				ok = kit.Bool(op, "ok")
				ev["ok"] = ok
				want = "emit"
			}
			parked, at := n.ctl.Parked(t)
			if !parked || at.Point != want {
				return false
			}
			ev["done"] = true
			var rerr error
			if !ok {
				rerr = settle.ErrEmit
			}
			after := n.spawned()
			n.ctl.Release(t, nil, rerr)
			statusFields(ev, n.ctl.Wait(t))
			if name == "emit" && ok {
				after(0, 1)
			}
			n.takeEmitted()
		}
		out.Emit(ev)
		return true
	}

	// goroutines that were blocked may have moved on; deferred steps may have become possible
	settle_ := func() {
		for progressed := true; progressed; {
			progressed = false
			for t := 1; t <= 4; t++ {
				if n.ctl.Running(t) {
					if parked, _ := n.ctl.Parked(t); !parked {
						s := n.ctl.Wait(t) // at a gate, returned, or (observed) blocked on a mutex
						if s.Kind == "gate" || s.Kind == "ret" {
							ev := kit.Ev{"op": "arrive", "t": t}
							statusFields(ev, s)
							out.Emit(ev)
							progressed = true
						}
					}
				}
				if len(queue[t]) > 0 && try(queue[t][0]) {
					queue[t] = queue[t][1:]
					progressed = true
				}
			}
		}
	}

	for _, op := range sc.Ops {
		name := kit.Str(op, "op")
		t, p := kit.Int(op, "t"), kit.Int(op, "p")
		ev := kit.Ev{"op": name, "t": t, "p": p}
		switch name {
		case "start", "paystart", "persist", "persistcheque", "emit", "refstart", "refget":
			if len(queue[t]) > 0 || !try(op) {
				queue[t] = append(queue[t], op)
				out.Emit(kit.Ev{"op": "deferred", "t": t, "p": p, "what": name})
			}
			settle_()
		case "restart":
			quiescent := !n.ctl.AnyRunning()
			ev["quiescent"] = quiescent
			pre := kit.Ev{"owed": []int64{0, 0}, "unpaid": []int64{0, 0}, "served": []int64{0, 0}, "lastSent": []int64{0, 0}, "avail": 0,
				"ti": kit.Ev{"bal": 0, "avail": 0, "sent": 0, "recv": 0}}
			if quiescent {
				if pre, err = n.project(); err != nil {
					return err
				}
			}
			n.takeEmitted()
			n.crash()
			queue = map[int][]map[string]interface{}{}
			if e := n.boot(); e != nil {
				return fmt.Errorf("restart: %w", e)
			}
			post, err := n.project()
			if err != nil {
				return err
			}
			// the writes that reached the store, in order: [record, peer, value written, value it replaced]
			ws := [][]interface{}{}
			prev := map[string]int64{}
			for _, w := range n.writes {
				if kk := keyKind(w.Key); kk != "other" {
					ws = append(ws, []interface{}{kk, keyPeer(w.Key), atoi(w.Val), prev[w.Key]})
					prev[w.Key] = atoi(w.Val)
				}
			}
			ev["pre"], ev["post"], ev["writes"] = pre, post, ws
			out.Emit(ev)
		case "reconnect":
			var c chequePkg.SignedCheque
			ev["heldCum"] = int64(0)
			if h := n.held[p]; h != nil {
				c = *h
				ev["heldCum"] = h.CumulativePayout.Int64()
			}
			ev["err"] = errs(n.svc.Handshake(settle.Overlay(p), settle.Addr(p), c))
			st, err := n.project()
			if err != nil {
				return err
			}
			ev["st"] = st
			out.Emit(ev)
		case "credit":
			x := kit.Int(op, "x")
			ev["x"] = x
			after := n.spawned()
			ev["err"] = errs(n.svc.PutRetrieveTraffic(settle.Overlay(p), big.NewInt(int64(x))))
			after(1, 1)
			out.Emit(ev)
		case "pay":
			after := n.spawned()
			e, panicked, msg := n.pay(p, true)
			if e == nil && len(n.emit.Peek()) > 0 {
				after(0, 1)
			}
			ev["err"] = errs(e)
			if panicked {
				ev["err"] = "panic: " + msg
			}
			ev["emitted"] = n.takeEmitted()
			st, err := n.project()
			if err != nil {
				return err
			}
			ev["st"] = st
			out.Emit(ev)
		default:
			return fmt.Errorf("unknown op %q", name)
		}
	}
	n.crash()
	return nil
}

func main() {
	kit.Main(func(scs []kit.Scenario, out *kit.Out) error {
		settle.ChunkSize = 100 // the cost of recognising a blocked goroutine grows with the goroutines left behind
		if settle.ShouldChunk(scs) {
			return settle.Chunked(scs, out)
		}
		for _, sc := range scs {
			var err error
			if kit.Str(sc.Par, "mode") == "sched" {
				err = runSched(sc, out)
			} else {
				err = runHist(sc, out)
			}
			if err != nil {
				return fmt.Errorf("scenario %d: %w", sc.Scn, err)
			}
		}
		return nil
	})
}
