// acctdrv: conformance driver for per-peer accounting (C32).
//
// A real accounting.Accounting runs on a harness-supplied settlement.Interface.
// Every call into that stub made by a scenario goroutine is a gate: it parks
// until the controller releases it, so a TLC behaviour of the lock-granularity
// model (Accounting.tla) is forced on the real object:
//
//	call    {t, kind, p, x, traff, avail}  goroutine t starts Credit / Debit /
//	        NotifyPayment / Reserve; the event says where it is afterwards:
//	        "gate" (parked inside RetrieveTraffic -- the first contact with a peer,
//	        made under the map mutex -- / PutRetrieveTraffic / TransferTraffic /
//	        PutTransferTraffic / AvailableBalance), "ret", or "blocked" (its
//	        goroutine sits in sync.Mutex.Lock)
//	release {t}   the stub call of t returns (TransferTraffic answers `traff`,
//	        AvailableBalance answers `avail`)
//	grant   {t}   a goroutine that had been blocked has moved on
//
// Observations: results of the calls, the Pay requests that reached the stub
// (collected behind a sentinel credit: the pay channel is FIFO), and, whenever
// no call is in flight, a probe of each peer's unpaid balance: Reserve(peer, 0)
// against available balances -2..15 (refused exactly below the balance).
//
// Slow settlement layer (par.slow): no gates for the scenario goroutines; instead every
// Pay call of the settle worker stays in progress until the controller lets it return:
//
//	call       {t, kind: burst|notify, p, x, n}  goroutine t performs n Credits of x back to
//	           back (or one NotifyPayment); afterwards it has returned ("ret"), waits for room
//	           in the pay channel ("send": its goroutine is in state "chan send") or for a
//	           mutex ("blocked"); `done` = PutRetrieveTraffic calls it has made so far
//	payrelease the Pay call in progress returns
//	paydrain   Pay calls are let go until the worker is idle and nothing moves any more;
//	           the event carries the number of Pay calls per peer since the start (npaid)
//	           and each peer's unpaid balance measured through Reserve(peer, 0) (bal)
//
// "Nothing moves" is a positive observation: every goroutine concerned is in a blocked
// state of the runtime's goroutine dump (chan send / chan receive / mutex) or has finished.
//
// Race clause: when this binary is built with -race, scenarios marked
// par.racecheck are additionally run free (no gates, the same calls grouped by
// goroutine, several rounds) in a child process of this binary; a report
// "WARNING: DATA RACE" whose accessing frame lies in pkg/accounting is logged
// as a `race` event with raceReported = true.
//
// No expected values here.
package main

import (
	"bytes"
	"context"
	"encoding/json"
	"errors"
	"fmt"
	"math/big"
	"os"
	"os/exec"
	"regexp"
	"sort"
	"strings"
	"sync"
	"sync/atomic"
	"time"

	"github.com/gauss-project/aurorafs/pkg/accounting"
	"github.com/gauss-project/aurorafs/pkg/boson"
	"github.com/gauss-project/aurorafs/pkg/settlement"

	"verifharness/internal/kit"
	"verifharness/internal/sched"
	"verifharness/internal/settle"
)

const (
	nPeers   = 2
	nThreads = 3
	sentinel = 9 // peer used only to flush the pay channel
	probeLo  = -2
	probeHi  = 15
)

// ---------------------------------------------------------------------------------------------
// settlement stub
// ---------------------------------------------------------------------------------------------
type stub struct {
	ctl   *sched.Ctl // nil: free-running (no gates, no shared state)
	mu    sync.Mutex
	init  [sentinel + 1]int64
	avail int64
	pays  []int
	thrs  []int64
	flush chan struct{}
	idx   map[string]int
	// slow settlement layer: a Pay call parks until the controller sends on payGo
	slow     bool
	inPay    int                 // peer whose Pay call is in progress (0 = none)
	npaid    [sentinel + 1]int64 // Pay calls per peer
	payGo    chan struct{}
	draining bool             // Pay calls return at once (drain)
	putsBy   map[uint64]int64 // PutRetrieveTraffic calls per calling goroutine
}

var _ settlement.Interface = (*stub)(nil)

func newStub(ctl *sched.Ctl) *stub {
	s := &stub{ctl: ctl, flush: make(chan struct{}, 16), idx: map[string]int{}, payGo: make(chan struct{}), putsBy: map[uint64]int64{}}
	for i := 1; i <= nPeers; i++ {
		s.idx[settle.Overlay(i).String()] = i
	}
	s.idx[settle.Overlay(sentinel).String()] = sentinel
	return s
}

func (s *stub) peer(a boson.Address) int { return s.idx[a.String()] }

func (s *stub) Pay(ctx context.Context, peer boson.Address, thr *big.Int) error {
	if s.ctl == nil {
		return nil
	}
	p := s.peer(peer)
	if p == sentinel {
		s.flush <- struct{}{}
		return nil
	}
	if s.slow {
		s.mu.Lock()
		s.npaid[p]++
		if s.draining { // the controller is letting every Pay call go
			s.mu.Unlock()
			return nil
		}
		s.inPay = p
		s.mu.Unlock()
		<-s.payGo
		s.mu.Lock()
		s.inPay = 0
		s.mu.Unlock()
		return nil
	}
	s.mu.Lock()
	s.pays = append(s.pays, p)
	s.thrs = append(s.thrs, thr.Int64())
	s.mu.Unlock()
	return nil
}

func (s *stub) takePays() ([]int, []int64) {
	s.mu.Lock()
	defer s.mu.Unlock()
	p, t := s.pays, s.thrs
	s.pays, s.thrs = nil, nil
	if p == nil {
		p, t = []int{}, []int64{}
	}
	return p, t
}

func (s *stub) TransferTraffic(peer boson.Address) (*big.Int, error) {
	if s.ctl == nil {
		return big.NewInt(0), nil
	}
	v, err, gated := s.ctl.Gate("transfer_traffic", map[string]interface{}{"p": s.peer(peer)})
	if gated {
		if err != nil {
			return nil, err
		}
		return big.NewInt(v.(int64)), nil
	}
	return big.NewInt(0), nil
}

func (s *stub) RetrieveTraffic(peer boson.Address) (*big.Int, error) {
	if s.ctl == nil {
		return big.NewInt(0), nil
	}
	// first contact with a peer: a gate for scenario goroutines (the controller's own calls pass)
	if _, err, gated := s.ctl.Gate("retrieve_traffic", map[string]interface{}{"p": s.peer(peer)}); gated && err != nil {
		return nil, err
	}
	return big.NewInt(s.init[s.peer(peer)]), nil
}

func (s *stub) PutRetrieveTraffic(peer boson.Address, x *big.Int) error {
	if s.ctl == nil {
		return nil
	}
	if s.slow {
		g := settle.GID()
		s.mu.Lock()
		s.putsBy[g]++
		s.mu.Unlock()
		return nil
	}
	_, err, _ := s.ctl.Gate("put_retrieve", map[string]interface{}{"p": s.peer(peer), "x": x.Int64()})
	return err
}

func (s *stub) PutTransferTraffic(peer boson.Address, x *big.Int) error {
	if s.ctl == nil {
		return nil
	}
	_, err, _ := s.ctl.Gate("put_transfer", map[string]interface{}{"p": s.peer(peer), "x": x.Int64()})
	return err
}

func (s *stub) AvailableBalance() (*big.Int, error) {
	if s.ctl == nil {
		return big.NewInt(3), nil
	}
	v, err, gated := s.ctl.Gate("available", nil)
	if gated {
		if err != nil {
			return nil, err
		}
		return big.NewInt(v.(int64)), nil
	}
	s.mu.Lock()
	defer s.mu.Unlock()
	return big.NewInt(s.avail), nil
}

func (s *stub) setAvail(v int64) {
	s.mu.Lock()
	s.avail = v
	s.mu.Unlock()
}

func (s *stub) SetNotifyPaymentFunc(settlement.NotifyPaymentFunc) {}
func (s *stub) GetPeerBalance(boson.Address) (*big.Int, error)    { return big.NewInt(0), nil }
func (s *stub) GetUnPaidBalance(boson.Address) (*big.Int, error)  { return big.NewInt(0), nil }

// ---------------------------------------------------------------------------------------------
// calls
// ---------------------------------------------------------------------------------------------
type call struct {
	Kind  string
	P     int
	X     int
	Traff int
	Avail int
	N     int // burst: number of credits
}

func callOf(op map[string]interface{}) call {
	return call{Kind: kit.Str(op, "kind"), P: kit.Int(op, "p"), X: kit.Int(op, "x"), Traff: kit.Int(op, "traff"), Avail: kit.Int(op, "avail"),
		N: kit.Int(op, "n")}
}

func (c call) run(acc *accounting.Accounting) error {
	peer := settle.Overlay(c.P)
	switch c.Kind {
	case "credit":
		return acc.Credit(context.Background(), peer, uint64(c.X))
	case "burst":
		for i := 0; i < c.N; i++ {
			if err := acc.Credit(context.Background(), peer, uint64(c.X)); err != nil {
				return err
			}
		}
		return nil
	case "debit":
		return acc.Debit(peer, uint64(c.X))
	case "notify":
		return acc.NotifyPayment(peer, big.NewInt(int64(c.X)))
	case "reserve":
		return acc.Reserve(peer, uint64(c.X))
	}
	return fmt.Errorf("unknown call kind %q", c.Kind)
}

func refusal(c call, err error) bool {
	switch c.Kind {
	case "reserve":
		return errors.Is(err, accounting.ErrLowAvailableExceeded)
	case "debit":
		return errors.Is(err, accounting.ErrDisconnectThresholdExceeded)
	}
	return false
}

// ---------------------------------------------------------------------------------------------
// forced mode
// ---------------------------------------------------------------------------------------------
type run struct {
	acc *accounting.Accounting
	st  *stub
	ctl *sched.Ctl
	out *kit.Out
	cur map[int]call
	blk map[int]bool
	thr int64
	// the sentinel's payment request did not come through once: do not wait for it again
	noFlush bool
	// fresh: accounting must not see a peer before the scenario touches it (no probe of untouched peers)
	fresh   bool
	touched map[int]bool
	// a flush of the pay channel is owed (it was not possible while a goroutine held the map mutex)
	flushWanted bool
}

// mapHeld: a scenario goroutine is parked in its first contact, i.e. holds (in the original code) the map mutex;
// any call of the controller into the object would wait for it.
func (r *run) mapHeld() bool {
	// a goroutine last seen blocked may meanwhile have been given the map mutex and be on its way to that gate
	if len(r.blk) > 0 {
		return true
	}
	for t := 1; t <= nThreads; t++ {
		if parked, at := r.ctl.Parked(t); parked && at.Point == "retrieve_traffic" {
			return true
		}
	}
	return false
}

func (r *run) fields(ev kit.Ev, t int, s sched.Status) (returned bool) {
	c := r.cur[t]
	ev["t"], ev["kind"], ev["p"], ev["x"], ev["traff"], ev["avail"] = t, c.Kind, c.P, c.X, c.Traff, c.Avail
	ev["arrived"], ev["gate"], ev["err"], ev["refused"] = s.Kind, "", "", false
	switch s.Kind {
	case "gate":
		ev["gate"] = s.Point
		delete(r.blk, t)
	case "ret":
		delete(r.blk, t)
		returned = true
		if e, ok := s.Ret.(error); ok && e != nil {
			ev["err"] = e.Error()
			ev["refused"] = refusal(c, e)
		}
	case "blocked":
		r.blk[t] = true
	}
	return returned
}

// flushPays: every Pay request issued so far has reached the stub once the sentinel's request has
// (the pay channel is FIFO).  The sentinel credit is far above any threshold.  If the sentinel's request
// never shows up the events say flushed = false (and later events do not wait again).
func (r *run) flushPays() ([]int, []int64, bool, error) {
	flushed := false
	if !r.noFlush {
		if err := r.acc.Credit(context.Background(), settle.Overlay(sentinel), uint64(1000*(r.thr+1))); err != nil {
			return nil, nil, false, fmt.Errorf("sentinel credit: %w", err)
		}
		select {
		case <-r.st.flush:
			flushed = true
		case <-time.After(3 * time.Second):
			r.noFlush = true
		}
	}
	p, t := r.st.takePays()
	return p, t, flushed, nil
}

func (r *run) probe() [][]bool {
	out := [][]bool{}
	for p := 1; p <= nPeers; p++ {
		row := []bool{}
		if r.fresh && !r.touched[p] {
			out = append(out, row) // not probed: the probe itself would be the first contact
			continue
		}
		for k := probeLo; k <= probeHi; k++ {
			r.st.setAvail(int64(k))
			err := r.acc.Reserve(settle.Overlay(p), 0)
			row = append(row, errors.Is(err, accounting.ErrLowAvailableExceeded))
		}
		out = append(out, row)
	}
	return out
}

// finish an event: pay requests (if a credit may have issued one) and the probe (if nothing is in flight)
func (r *run) emit(ev kit.Ev, flush bool) error {
	ev["pays"], ev["paythr"], ev["flushed"], ev["deferred"] = []int{}, []int64{}, true, false
	r.flushWanted = r.flushWanted || flush
	if r.flushWanted {
		if r.mapHeld() {
			ev["deferred"] = true // reported with a later event
		} else {
			p, t, ok, err := r.flushPays()
			if err != nil {
				return err
			}
			ev["pays"], ev["paythr"], ev["flushed"] = p, t, ok
			r.flushWanted = false
		}
	}
	ev["idle"] = !r.ctl.AnyRunning()
	if _, ok := ev["probe"]; !ok {
		ev["probe"] = [][]bool{}
	}
	r.out.Emit(ev)
	return nil
}

// probeIfIdle: when no call is in flight (and every step so far has been logged) the balances are probed.
func (r *run) probeIfIdle() error {
	if r.ctl.AnyRunning() {
		return nil
	}
	ev := kit.Ev{"op": "probe", "probe": r.probe()}
	r.fields(ev, 0, sched.Status{Kind: "none"})
	return r.emit(ev, false)
}

// after a goroutine has returned, goroutines that were blocked on its lock move on
// settle logs the step of the acting goroutine (ev == nil: none) together with what the goroutines that were
// blocked have done meanwhile, in an order that is a real order of their sections:
//  1. the acting goroutine, if it has returned (it unlocked before anybody it was blocking went on);
//  2. goroutines found returned (had one of them run after a goroutine that is now parked inside the peer
//     lock, it would still be blocked);
//  3. the acting goroutine, if it is parked at a gate;
//  4. goroutines found parked at a gate.
func (r *run) settle(ev kit.Ev, acting int, st sched.Status) error {
	type seen struct {
		ev  kit.Ev
		t   int
		ret bool
	}
	var rets, gates []seen
	anyRet := false
	for t := 1; t <= nThreads; t++ {
		if !r.blk[t] || t == acting {
			continue
		}
		s := r.ctl.Wait(t)
		if s.Kind == "blocked" {
			continue
		}
		e := kit.Ev{"op": "grant"}
		if r.fields(e, t, s) {
			rets = append(rets, seen{e, t, true})
			anyRet = true
		} else {
			gates = append(gates, seen{e, t, false})
		}
	}
	out := func(x seen) error { return r.emit(x.ev, x.ret && r.cur[x.t].Kind == "credit") }
	actRet := false
	if ev != nil {
		actRet = r.fields(ev, acting, st)
		if actRet {
			if err := out(seen{ev, acting, true}); err != nil {
				return err
			}
		}
	}
	for _, x := range rets {
		if err := out(x); err != nil {
			return err
		}
	}
	if ev != nil && !actRet {
		if err := out(seen{ev, acting, false}); err != nil {
			return err
		}
	}
	for _, x := range gates {
		if err := out(x); err != nil {
			return err
		}
	}
	if anyRet || actRet {
		return r.settle(nil, 0, sched.Status{}) // a return may have unblocked somebody
	}
	return nil
}

func (r *run) sweep() error { return r.settle(nil, 0, sched.Status{}) }

func (r *run) release(t int, drain bool) error {
	parked, at := r.ctl.Parked(t)
	ev := kit.Ev{"op": "release", "drain": drain}
	if !parked {
		ev["done"] = false
		r.fields(ev, t, sched.Status{Kind: "none"})
		return r.emit(ev, false)
	}
	ev["done"] = true
	c := r.cur[t]
	var val interface{}
	switch at.Point {
	case "transfer_traffic":
		val = int64(c.Traff)
	case "available":
		val = int64(c.Avail)
	}
	r.ctl.Release(t, val, nil)
	ev["from"] = at.Point
	return r.settle(ev, t, r.ctl.Wait(t))
}

func runForced(sc kit.Scenario, out *kit.Out) error {
	ctl := sched.New()
	st := newStub(ctl)
	for i, v := range kit.IntList(sc.Par, "init") {
		if i < nPeers {
			st.init[i+1] = int64(v)
		}
	}
	thr, tol := int64(kit.Int(sc.Par, "thr")), int64(kit.Int(sc.Par, "tol"))
	acc := accounting.NewAccounting(big.NewInt(tol), big.NewInt(thr), settle.Logger(), nil, st)
	r := &run{acc: acc, st: st, ctl: ctl, out: out, cur: map[int]call{}, blk: map[int]bool{}, thr: thr,
		fresh: kit.Bool(sc.Par, "fresh"), touched: map[int]bool{}}
	out.Begin(sc.Scn, kit.Ev{"mode": "forced", "thr": thr, "tol": tol, "fresh": r.fresh, "slow": false, "init": []int64{st.init[1], st.init[2]}, "probe": r.probe()})
	for _, op := range sc.Ops {
		t := kit.Int(op, "t")
		// goroutines that were blocked may have moved on since they were last looked at
		if err := r.sweep(); err != nil {
			return err
		}
		switch kit.Str(op, "op") {
		case "call":
			// the goroutine is still in its previous call (the code went further than the behaviour expected):
			// let that call finish first
			for guard := 0; ctl.Running(t) && guard < 8; guard++ {
				if parked, _ := ctl.Parked(t); !parked {
					break
				}
				if err := r.release(t, true); err != nil {
					return err
				}
			}
			if ctl.Running(t) {
				ev := kit.Ev{"op": "skipped"}
				r.fields(ev, t, sched.Status{Kind: "none"})
				ev["pays"], ev["paythr"], ev["flushed"], ev["deferred"], ev["idle"], ev["probe"] = []int{}, []int64{}, true, false, false, [][]bool{}
				out.Emit(ev)
				continue
			}
			c := callOf(op)
			r.cur[t] = c
			r.touched[c.P] = true
			ctl.Start(t, func() interface{} { return c.run(acc) })
			if err := r.settle(kit.Ev{"op": "call"}, t, ctl.Wait(t)); err != nil {
				return err
			}
		case "release":
			if err := r.release(t, false); err != nil {
				return err
			}
		case "grant":
			if err := r.sweep(); err != nil {
				return err
			}
		default:
			return fmt.Errorf("unknown op %v", op["op"])
		}
		if err := r.probeIfIdle(); err != nil {
			return err
		}
	}
	// drain: let every call finish (lowest goroutine first), so the scenario ends with a probe
	for guard := 0; ctl.AnyRunning() && guard < 50; guard++ {
		progressed := false
		for t := 1; t <= nThreads; t++ {
			if parked, _ := ctl.Parked(t); parked {
				if err := r.release(t, true); err != nil {
					return err
				}
				if err := r.probeIfIdle(); err != nil {
					return err
				}
				progressed = true
				break
			}
		}
		if !progressed {
			if err := r.sweep(); err != nil {
				return err
			}
			if ctl.AnyRunning() {
				ev := kit.Ev{"op": "stuck"}
				r.fields(ev, 0, sched.Status{Kind: "none"})
				ev["pays"], ev["paythr"], ev["flushed"], ev["deferred"], ev["idle"], ev["probe"] = []int{}, []int64{}, true, false, false, [][]bool{}
				out.Emit(ev)
				break
			}
		}
	}
	ctl.Kill(errors.New("scenario over"))
	return nil
}

// ---------------------------------------------------------------------------------------------
// slow settlement layer
// ---------------------------------------------------------------------------------------------
type sthread struct {
	gid      uint64
	c        call
	running  bool
	finished int32
	ret      error
	arrived  string // as last logged
	done     int64  // as last logged
}

type slowRun struct {
	acc *accounting.Accounting
	st  *stub
	out *kit.Out
	th  map[int]*sthread
	// goroutine states at the last quiet instant
	seen map[uint64]string
}

const slowGrace = 20 * time.Second

// quiet: every goroutine concerned is blocked (or has finished): the settle workers sit in a channel receive (their
// own pay channel, or the stub's Pay), the scenario goroutines in a channel send or a mutex.  One dump is one
// instant (the world is stopped for it): a blocked goroutine is only woken by a running one, which would show.
// Returns the states seen.
func (r *slowRun) quiet() (map[uint64]string, bool) {
	state := map[uint64]string{}
	for _, g := range settle.Goroutines() {
		state[g.ID] = g.State
		// (a worker that has not run yet shows only the wrapper NewAccounting started it with)
		if strings.Contains(g.Stack, "accounting.NewAccounting") && g.State != "chan receive" {
			return nil, false
		}
	}
	for _, t := range r.th {
		if !t.running || atomic.LoadInt32(&t.finished) == 1 {
			continue
		}
		st, ok := state[t.gid]
		if !ok || !(st == "chan send" || settle.LockWait(st)) {
			return nil, false
		}
	}
	return state, true
}

func (r *slowRun) waitQuiet() bool {
	end := time.Now().Add(slowGrace)
	counters := func() int64 {
		r.st.mu.Lock()
		defer r.st.mu.Unlock()
		n := r.st.npaid[1] + r.st.npaid[2]
		for _, v := range r.st.putsBy {
			n += v
		}
		return n
	}
	for {
		// two instants in which everything is blocked, with no Pay call and no credit in between
		if _, ok := r.quiet(); ok {
			c0 := counters()
			time.Sleep(200 * time.Microsecond)
			if st, ok := r.quiet(); ok && counters() == c0 {
				r.seen = st
				return true
			}
		}
		if time.Now().After(end) {
			r.seen = nil
			return false
		}
		time.Sleep(100 * time.Microsecond)
	}
}

// where goroutine t is now (as of the last quiet instant)
func (r *slowRun) status(t *sthread) (arrived string, done int64) {
	r.st.mu.Lock()
	done = r.st.putsBy[t.gid]
	r.st.mu.Unlock()
	if atomic.LoadInt32(&t.finished) == 1 {
		return "ret", done
	}
	if st, ok := r.seen[t.gid]; ok {
		if st == "chan send" {
			return "send", done
		}
		if settle.LockWait(st) {
			return "blocked", done
		}
	}
	return "stuck", done
}

func (r *slowRun) anyRunning() bool {
	for _, t := range r.th {
		if t.running {
			return true
		}
	}
	return false
}

// measure: the unpaid balance of a peer as Reserve(peer, 0) shows it (refused exactly when the available balance is
// below it); only when no call is in flight
func (r *slowRun) measure(p int) int64 {
	refused := func(k int64) bool {
		r.st.setAvail(k)
		return errors.Is(r.acc.Reserve(settle.Overlay(p), 0), accounting.ErrLowAvailableExceeded)
	}
	lo, hi := int64(probeLo), int64(1<<22)
	if !refused(lo) {
		return lo
	}
	if refused(hi) {
		return hi + 1
	}
	for hi-lo > 1 {
		mid := (lo + hi) / 2
		if refused(mid) {
			lo = mid
		} else {
			hi = mid
		}
	}
	return hi
}

func (r *slowRun) base(ev kit.Ev, tid int, t *sthread) {
	c := call{Kind: "none"}
	if t != nil {
		c = t.c
	}
	ev["t"], ev["kind"], ev["p"], ev["x"], ev["traff"], ev["avail"], ev["n"] = tid, c.Kind, c.P, c.X, 0, 0, c.N
	ev["arrived"], ev["done"], ev["gate"], ev["err"], ev["refused"] = "none", int64(0), "", "", false
	ev["pays"], ev["paythr"], ev["flushed"], ev["deferred"], ev["probe"] = []int{}, []int64{}, true, true, [][]bool{}
	r.st.mu.Lock()
	ev["inpay"], ev["npaid"] = r.st.inPay, []int64{r.st.npaid[1], r.st.npaid[2]}
	r.st.mu.Unlock()
	ev["idle"] = !r.anyRunning()
	ev["bal"] = []int64{}
}

// logThread fills in where goroutine t is and remembers it
func (r *slowRun) logThread(ev kit.Ev, tid int, quiet bool) {
	t := r.th[tid]
	arrived, done := "stuck", int64(0)
	if quiet {
		arrived, done = r.status(t)
	}
	ev["arrived"], ev["done"] = arrived, done
	t.arrived, t.done = arrived, done
	if arrived == "ret" {
		t.running = false
		if t.ret != nil {
			ev["err"] = t.ret.Error()
		}
	}
	ev["idle"] = !r.anyRunning()
}

// grants: goroutines other than `acting` that are somewhere else than last logged
func (r *slowRun) grants(acting int, quiet bool, after string) {
	for tid := 1; tid <= nThreads; tid++ {
		t := r.th[tid]
		if t == nil || !t.running || tid == acting || !quiet {
			continue
		}
		arrived, done := r.status(t)
		if arrived == t.arrived && done == t.done {
			continue
		}
		ev := kit.Ev{"op": "grant"}
		r.base(ev, tid, t)
		r.logThread(ev, tid, true)
		ev["after"] = after
		r.out.Emit(ev)
	}
}

func (r *slowRun) parked() int {
	r.st.mu.Lock()
	defer r.st.mu.Unlock()
	return r.st.inPay
}

func (r *slowRun) drain(final bool) {
	quiet := true
	released := 0
	// from now on a Pay call returns at once; the one in progress (if any) is let go; then everything runs until
	// nothing moves any more
	setDraining := func(v bool) {
		r.st.mu.Lock()
		r.st.draining = v
		r.st.mu.Unlock()
	}
	setDraining(true)
	for guard := 0; guard < 1000; guard++ {
		if quiet = r.waitQuiet(); !quiet || r.parked() == 0 {
			break
		}
		r.st.payGo <- struct{}{}
		released++
	}
	setDraining(false)
	r.grants(0, quiet, "paydrain")
	ev := kit.Ev{"op": "paydrain"}
	r.base(ev, 0, nil)
	ev["final"], ev["released"], ev["quiet"] = final, released, quiet
	if quiet && !r.anyRunning() {
		ev["bal"] = []int64{r.measure(1), r.measure(2)}
	}
	r.out.Emit(ev)
}

func runSlow(sc kit.Scenario, out *kit.Out) error {
	st := newStub(sched.New())
	st.slow = true
	thr, tol := int64(kit.Int(sc.Par, "thr")), int64(kit.Int(sc.Par, "tol"))
	acc := accounting.NewAccounting(big.NewInt(tol), big.NewInt(thr), settle.Logger(), nil, st)
	r := &slowRun{acc: acc, st: st, out: out, th: map[int]*sthread{}}
	out.Begin(sc.Scn, kit.Ev{"mode": "slow", "thr": thr, "tol": tol, "fresh": false, "slow": true, "qcap": kit.Int(sc.Par, "qcap"),
		"init": []int64{0, 0}, "probe": [][]bool{}, "bal": []int64{r.measure(1), r.measure(2)}})
	drained := false
	for _, op := range sc.Ops {
		switch kit.Str(op, "op") {
		case "call":
			tid := kit.Int(op, "t")
			if t := r.th[tid]; t != nil && t.running {
				ev := kit.Ev{"op": "skipped"}
				r.base(ev, tid, t)
				out.Emit(ev)
				continue
			}
			t := &sthread{c: callOf(op), running: true}
			r.th[tid] = t
			ready := make(chan struct{})
			go func() {
				t.gid = settle.GID()
				close(ready)
				t.ret = t.c.run(acc)
				atomic.StoreInt32(&t.finished, 1)
			}()
			<-ready
			quiet := r.waitQuiet()
			ev := kit.Ev{"op": "call"}
			r.base(ev, tid, t)
			r.logThread(ev, tid, quiet)
			out.Emit(ev)
			r.grants(tid, quiet, "call")
			drained = false
		case "payrelease":
			quiet := r.waitQuiet()
			peer := r.parked()
			if peer != 0 {
				st.payGo <- struct{}{}
				quiet = r.waitQuiet()
			}
			ev := kit.Ev{"op": "payrelease"}
			r.base(ev, 0, nil)
			ev["rel"], ev["peer"], ev["quiet"] = peer != 0, peer, quiet
			out.Emit(ev)
			r.grants(0, quiet, "payrelease")
			drained = false
		case "paydrain":
			r.drain(false)
			drained = true
		default:
			return fmt.Errorf("unknown op %v (slow mode)", op["op"])
		}
	}
	if !drained {
		r.drain(true)
	}
	if r.anyRunning() {
		ev := kit.Ev{"op": "stuck"}
		r.base(ev, 0, nil)
		out.Emit(ev)
	}
	return nil
}

// ---------------------------------------------------------------------------------------------
// free-running mode (race observation, child process)
// ---------------------------------------------------------------------------------------------
func runFree(sc kit.Scenario) {
	progs := map[int][]call{}
	for _, op := range sc.Ops {
		if kit.Str(op, "op") == "call" {
			t := kit.Int(op, "t")
			progs[t] = append(progs[t], callOf(op))
		}
	}
	thr, tol := int64(kit.Int(sc.Par, "thr")), int64(kit.Int(sc.Par, "tol"))
	acc := accounting.NewAccounting(big.NewInt(tol), big.NewInt(thr), settle.Logger(), nil, newStub(nil))
	for round := 0; round < 40; round++ {
		var wg sync.WaitGroup
		start := make(chan struct{})
		for _, prog := range progs {
			prog := prog
			wg.Add(1)
			go func() {
				defer wg.Done()
				<-start
				for _, c := range prog {
					_ = c.run(acc)
				}
			}()
		}
		close(start)
		wg.Wait()
	}
}

var frameRe = regexp.MustCompile(`(?m)^  (\S+)\(`)

// raceReports: for every report, the functions on top of the two access stacks.
func raceReports(stderr string) [][]string {
	var out [][]string
	for _, blk := range strings.Split(stderr, "WARNING: DATA RACE")[1:] {
		if i := strings.Index(blk, "=================="); i >= 0 {
			blk = blk[:i]
		}
		var tops []string
		for _, sec := range strings.Split(blk, "\n\n") {
			s := strings.TrimLeft(sec, "\n")
			if strings.HasPrefix(s, "Read at") || strings.HasPrefix(s, "Write at") || strings.HasPrefix(s, "Previous read at") ||
				strings.HasPrefix(s, "Previous write at") || strings.HasPrefix(s, "Atomic") || strings.HasPrefix(s, "Previous atomic") {
				if m := frameRe.FindStringSubmatch(s); m != nil {
					f := m[1]
					if j := strings.LastIndex(f, "/"); j >= 0 {
						f = f[j+1:]
					}
					tops = append(tops, f)
				}
			}
		}
		out = append(out, tops)
	}
	return out
}

func raceCheck(sc kit.Scenario, out *kit.Out) error {
	b, err := json.Marshal(sc)
	if err != nil {
		return err
	}
	f, err := os.CreateTemp("", "acct-race-*.json")
	if err != nil {
		return err
	}
	defer os.Remove(f.Name())
	f.Write(b)
	f.Close()
	cmd := exec.Command(os.Args[0], "racechild", f.Name())
	cmd.Env = append(os.Environ(), "GORACE=exitcode=66 halt_on_error=0")
	var stderr bytes.Buffer
	cmd.Stderr = &stderr
	rerr := cmd.Run()
	code := 0
	if ee, ok := rerr.(*exec.ExitError); ok {
		code = ee.ExitCode()
	} else if rerr != nil {
		return fmt.Errorf("race child: %w", rerr)
	}
	if code != 0 && code != 66 {
		return fmt.Errorf("race child failed (rc=%d): %s", code, stderr.String())
	}
	n := 0
	for _, tops := range raceReports(stderr.String()) {
		inPkg := false
		for _, f := range tops {
			if strings.HasPrefix(f, "accounting.") {
				inPkg = true
			}
		}
		if !inPkg {
			continue
		}
		sort.Strings(tops)
		n++
		out.Emit(kit.Ev{"op": "race", "raceReported": true, "top": tops, "exit": code})
	}
	if n == 0 {
		out.Emit(kit.Ev{"op": "race", "raceReported": false, "top": []string{}, "exit": code})
	}
	return nil
}

func main() {
	if len(os.Args) == 3 && os.Args[1] == "racechild" {
		scs, err := kit.ReadScenarios(os.Args[2])
		if err != nil || len(scs) != 1 {
			fmt.Fprintln(os.Stderr, "racechild:", err)
			os.Exit(2)
		}
		runFree(scs[0])
		return
	}
	kit.Main(func(scs []kit.Scenario, out *kit.Out) error {
		// every scenario leaves the (unstoppable) settle goroutine of its Accounting behind, and recognising a
		// blocked goroutine dumps all goroutines: large runs are split over child processes of this binary
		settle.ChunkSize = 80 // the cost of recognising a blocked goroutine grows with the goroutines left behind
		if settle.ShouldChunk(scs) {
			return settle.Chunked(scs, out)
		}
		for _, sc := range scs {
			if kit.Bool(sc.Par, "slow") {
				if err := runSlow(sc, out); err != nil {
					return fmt.Errorf("scenario %d: %w", sc.Scn, err)
				}
				continue
			}
			if err := runForced(sc, out); err != nil {
				return fmt.Errorf("scenario %d: %w", sc.Scn, err)
			}
			if raceEnabled && kit.Bool(sc.Par, "racecheck") {
				if err := raceCheck(sc, out); err != nil {
					return fmt.Errorf("scenario %d: %w", sc.Scn, err)
				}
			}
		}
		return nil
	})
}
