//go:build race

package main

// raceEnabled: this binary was built with -race.
const raceEnabled = true
