//go:build !race

package main

// raceEnabled: this binary was built without -race.
const raceEnabled = false
