// hivedrv: conformance driver for hive2 peer exchange (C29).
//
// Per scenario a node is wired the way pkg/hive2/hive2_test.go does it: real
// hive2.Service, real kademlia.Kad (never started), address book on the mock
// state store.  The setup (par) says which pool peers are connected / known
// and what kind of underlay their address-book record carries.  Every request
// is sent by a streamtest.Recorder whose base address is the requester, goes
// through the real Protocol() handler and the reply is read from the stream.
// The driver logs the reply as abstract addresses; spec/hive/HiveTrace.tla
// judges it.  No oracle here.
//
// Churn: operations "connected", "disconnected", "addpeers", "force" change the
// topology between requests, and a "find" operation may carry "gates": while the
// handler stands on its k-th address-book lookup of the request (the lookup of
// the requester's own record at the start is not counted) the events listed for
// k are executed.  The handler is held inside a thin wrapper around the real
// address book that hive2 is given (scheduling only; the lookup itself is the
// real one).  Such a request is logged as "wbegin", the events (with `during`),
// then "find" with `conc`.
package main

import (
	"bytes"
	"context"
	"fmt"
	"io/ioutil"
	"sync"
	"time"

	"github.com/gauss-project/aurorafs/pkg/addressbook"
	"github.com/gauss-project/aurorafs/pkg/aurora"
	"github.com/gauss-project/aurorafs/pkg/boson"
	"github.com/gauss-project/aurorafs/pkg/crypto"
	"github.com/gauss-project/aurorafs/pkg/hive2"
	"github.com/gauss-project/aurorafs/pkg/hive2/pb"
	"github.com/gauss-project/aurorafs/pkg/logging"
	"github.com/gauss-project/aurorafs/pkg/p2p"
	p2pmock "github.com/gauss-project/aurorafs/pkg/p2p/mock"
	"github.com/gauss-project/aurorafs/pkg/p2p/protobuf"
	"github.com/gauss-project/aurorafs/pkg/p2p/streamtest"
	pingpongmock "github.com/gauss-project/aurorafs/pkg/pingpong/mock"
	"github.com/gauss-project/aurorafs/pkg/shed"
	mockstate "github.com/gauss-project/aurorafs/pkg/statestore/mock"
	"github.com/gauss-project/aurorafs/pkg/subscribe"
	"github.com/gauss-project/aurorafs/pkg/topology"
	"github.com/gauss-project/aurorafs/pkg/topology/kademlia"
	ma "github.com/multiformats/go-multiaddr"

	"verifharness/internal/kadaddr"
	"verifharness/internal/kit"
)

var logger = logging.New(ioutil.Discard, 0)

// underlay of a class, known by construction: "pub" is a globally routable
// IPv4 address, "priv" an RFC 1918 one.
func underlay(class string, bin, id int) (ma.Multiaddr, error) {
	switch class {
	case "pub":
		return ma.NewMultiaddr(fmt.Sprintf("/ip4/8.8.%d.%d/tcp/%d", bin+1, id+1, 1634+id))
	case "priv":
		if id%2 == 0 {
			return ma.NewMultiaddr(fmt.Sprintf("/ip4/10.0.%d.%d/tcp/%d", bin+1, id+1, 1634+id))
		}
		return ma.NewMultiaddr(fmt.Sprintf("/ip4/192.168.%d.%d/tcp/%d", bin+1, id+1, 1634+id))
	}
	return nil, fmt.Errorf("unknown underlay class %q", class)
}

// hookBook is the address book hive2 sees: the real one, with a call-out before every Get.
type hookBook struct {
	addressbook.Interface
	mu    sync.Mutex
	onGet func(boson.Address)
}

func (h *hookBook) set(f func(boson.Address)) {
	h.mu.Lock()
	h.onGet = f
	h.mu.Unlock()
}

func (h *hookBook) Get(overlay boson.Address) (*aurora.Address, error) {
	h.mu.Lock()
	f := h.onGet
	h.mu.Unlock()
	if f != nil {
		f(overlay)
	}
	return h.Interface.Get(overlay)
}

func fullMode() aurora.Model { return aurora.NewModel().SetMode(aurora.FullNode) }

func runScenario(sc kit.Scenario, out *kit.Out, signer crypto.Signer) error {
	space := kadaddr.New(kit.Seed()*104729 + int64(sc.Scn))
	db, err := shed.NewDB("", &shed.Options{Driver: `leveldb:{"WriteBuffer":65536}`})
	if err != nil {
		return err
	}
	defer db.Close()
	ab := addressbook.New(mockstate.NewStateStore())
	book := &hookBook{Interface: ab}
	p2ps := p2pmock.New(p2pmock.WithDisconnectFunc(func(boson.Address, string) error { return nil }))

	reqPar, _ := sc.Par["req"].(map[string]interface{})
	rb, ri, err := kadaddr.Pair(reqPar["p"])
	if err != nil {
		return err
	}
	requester, err := space.Addr(rb, ri)
	if err != nil {
		return err
	}
	allow := kit.Bool(sc.Par, "allow")

	svc := hive2.New(streamtest.New(), book, 0, logger)
	defer svc.Close()
	ppm := pingpongmock.New(func(_ context.Context, _ boson.Address, _ ...string) (time.Duration, error) { return 0, nil })
	kad, err := kademlia.New(space.Base(), ab, svc, p2ps, ppm, nil, nil, db, logger, subscribe.NewSubPub(),
		kademlia.Options{BinMaxPeers: 5, NodeMode: aurora.NewModel().SetMode(aurora.FullNode)})
	if err != nil {
		return err
	}
	p2ps.SetPickyNotifier(kad)
	svc.SetAddPeersHandler(kad.AddPeers)
	svc.SetConfig(hive2.Config{Kad: kad, Base: space.Base(), AllowPrivateCIDRs: allow})

	// what was put into the address book, by overlay (for the byte comparison of the records passed on)
	put := map[string]*aurora.Address{}
	for _, pv := range kit.List(sc.Par, "peers") {
		pm, _ := pv.(map[string]interface{})
		b, i, err := kadaddr.Pair(pm["p"])
		if err != nil {
			return err
		}
		a, err := space.Addr(b, i)
		if err != nil {
			return err
		}
		if class := kit.Str(pm, "u"); class != "none" {
			u, err := underlay(class, b, i)
			if err != nil {
				return err
			}
			aa, err := aurora.NewAddress(signer, u, a, 0)
			if err != nil {
				return err
			}
			if err := ab.Put(a, *aa); err != nil {
				return err
			}
			put[a.ByteString()] = aa
		}
		switch kit.Str(pm, "s") {
		case "conn":
			if err := kad.Connected(context.Background(), p2p.Peer{Address: a, Mode: aurora.NewModel().SetMode(aurora.FullNode)}, true); err != nil {
				return fmt.Errorf("setup connect: %w", err)
			}
		case "known":
			kad.AddPeers(a)
		case "absent":
			// a peer the node has a record of but that the topology does not hold (it may join later)
		default:
			return fmt.Errorf("unknown peer state %v", pm["s"])
		}
	}

	rec := streamtest.New(streamtest.WithProtocols(svc.Protocol()), streamtest.WithBaseAddr(requester))

	// the exported view of the topology
	project := func() kit.Ev {
		conn, known := [][]int{}, [][]int{}
		pair := func(a boson.Address) []int {
			b, i, ok := space.Abstract(a)
			if !ok {
				return []int{-1, -1}
			}
			return []int{b, i}
		}
		_ = kad.EachPeer(func(a boson.Address, _ uint8) (bool, bool, error) {
			conn = append(conn, pair(a))
			return false, false, nil
		}, topology.Filter{})
		_ = kad.EachKnownPeer(func(a boson.Address, _ uint8) (bool, bool, error) {
			known = append(known, pair(a))
			return false, false, nil
		})
		return kit.Ev{"conn": conn, "known": known}
	}
	out.Begin(sc.Scn, kit.Ev{"peers": sc.Par["peers"], "req": sc.Par["req"], "allow": allow, "st": project()})

	// an event of the churn; during > 0: executed while a request's walk is held on that lookup
	event := func(op map[string]interface{}, during int) error {
		name := kit.Str(op, "op")
		b, i, err := kadaddr.Pair(op["p"])
		if err != nil {
			return err
		}
		a, err := space.Addr(b, i)
		if err != nil {
			return err
		}
		ev := kit.Ev{"op": name, "p": []int{b, i}, "err": ""}
		if during > 0 {
			ev["during"] = during
		}
		var perr error
		panicked, msg := kit.Guard(func() {
			switch name {
			case "connected":
				if e := kad.Connected(context.Background(), p2p.Peer{Address: a, Mode: fullMode()}, true); e != nil {
					ev["err"] = e.Error()
				}
			case "disconnected":
				kad.Disconnected(p2p.Peer{Address: a, Mode: fullMode()}, "verif")
			case "addpeers":
				kad.AddPeers(a)
			case "force":
				if e := kad.DisconnectForce(a, "verif"); e != nil {
					ev["err"] = e.Error()
				}
			default:
				perr = fmt.Errorf("unknown event %q", name)
			}
		})
		if perr != nil {
			return perr
		}
		ev["panicked"] = panicked
		if panicked {
			ev["panic"] = msg
		}
		ev["st"] = project()
		out.Emit(ev)
		return nil
	}

	for _, op := range sc.Ops {
		if name := kit.Str(op, "op"); name != "find" {
			if err := event(op, 0); err != nil {
				return err
			}
			continue
		}
		tb, ti, err := kadaddr.Pair(op["t"])
		if err != nil {
			return err
		}
		target, err := space.Addr(tb, ti)
		if err != nil {
			return err
		}
		limit := kit.Int(op, "limit")
		posI := kit.IntList(op, "pos")
		pos := make([]int32, 0, len(posI))
		for _, v := range posI {
			pos = append(pos, int32(v))
		}
		if posI == nil {
			posI = []int{}
		}
		ev := kit.Ev{"op": "find", "limit": limit, "t": []int{tb, ti}, "pos": posI, "err": "", "umatch": true}

		// gates: hold the handler on its k-th lookup and let the listed events happen
		type gate struct {
			k int
			o map[string]interface{}
		}
		gates := []gate{}
		_, gated := op["gates"]
		for _, gv := range kit.List(op, "gates") {
			gm, _ := gv.(map[string]interface{})
			o, _ := gm["o"].(map[string]interface{})
			if o == nil {
				return fmt.Errorf("malformed gate %v", gv)
			}
			gates = append(gates, gate{kit.Int(gm, "k"), o})
		}
		var gerr error
		lookups, ran := 0, 0
		seen := [][]int{}
		if gated {
			out.Emit(kit.Ev{"op": "wbegin", "limit": limit, "t": []int{tb, ti}, "pos": posI, "panicked": false, "st": project()})
			calls, busy := 0, false
			book.set(func(a boson.Address) {
				if busy {
					return
				}
				calls++
				if calls == 1 {
					return // the handler's lookup of the requester's own record
				}
				lookups++
				if b, i, ok := space.Abstract(a); ok {
					seen = append(seen, []int{b, i})
				} else {
					seen = append(seen, []int{-1, -1})
				}
				busy = true
				for _, g := range gates {
					if g.k == lookups && gerr == nil {
						ran++
						gerr = event(g.o, lookups)
					}
				}
				busy = false
			})
		}
		reply := [][]int{}
		panicked, msg := kit.Guard(func() {
			ctx, cancel := context.WithTimeout(context.Background(), 10*time.Second)
			defer cancel()
			stream, err := rec.NewStream(ctx, space.Base(), nil, "hive2", "1.0.0", "findNode")
			if err != nil {
				ev["err"] = "stream: " + err.Error()
				return
			}
			w, r := protobuf.NewWriterAndReader(stream)
			if err := w.WriteMsgWithContext(ctx, &pb.FindNodeReq{Target: target.Bytes(), Pos: pos, Limit: int32(limit)}); err != nil {
				ev["err"] = "write: " + err.Error()
				return
			}
			var res pb.Peers
			if err := r.ReadMsgWithContext(ctx, &res); err != nil {
				ev["err"] = "read: " + err.Error()
				return
			}
			_ = stream.Close()
			for _, p := range res.Peers {
				ov := boson.NewAddress(p.Overlay)
				b, i, ok := space.Abstract(ov)
				if !ok {
					b, i = -1, -1
				}
				reply = append(reply, []int{b, i})
				if aa := put[ov.ByteString()]; aa == nil || !bytes.Equal(aa.Underlay.Bytes(), p.Underlay) || !bytes.Equal(aa.Signature, p.Signature) {
					ev["umatch"] = false
				}
			}
		})
		if gated {
			book.set(nil)
			if gerr != nil {
				return gerr
			}
			ev["conc"], ev["lookups"], ev["seen"], ev["left"] = true, lookups, seen, len(gates)-ran
		}
		ev["reply"] = reply
		ev["panicked"] = panicked
		if panicked {
			ev["panic"] = msg
		}
		ev["st"] = project()
		out.Emit(ev)
	}
	return nil
}

func main() {
	kit.Main(func(scs []kit.Scenario, out *kit.Out) error {
		var kb [32]byte
		kit.Rng(29).Read(kb[:])
		kb[0] = 1
		signer := crypto.NewDefaultSigner(crypto.Secp256k1PrivateKeyFromBytes(kb[:]))
		for _, sc := range scs {
			if err := runScenario(sc, out, signer); err != nil {
				return fmt.Errorf("scenario %d: %w", sc.Scn, err)
			}
		}
		return nil
	})
}
