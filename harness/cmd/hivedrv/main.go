// hivedrv: conformance driver for hive2 peer exchange (C29).
//
// Per scenario a node is wired the way pkg/hive2/hive2_test.go does it: real
// hive2.Service, real kademlia.Kad (never started), address book on the mock
// state store.  The setup (par) says which pool peers are connected / known
// and what kind of underlay their address-book record carries.  Every request
// is sent by a streamtest.Recorder whose base address is the requester, goes
// through the real Protocol() handler and the reply is read from the stream.
// The driver logs the reply as abstract addresses; spec/hive/HiveTrace.tla
// judges it.  No oracle here.
package main

import (
	"bytes"
	"context"
	"fmt"
	"io/ioutil"
	"time"

	"github.com/gauss-project/aurorafs/pkg/addressbook"
	"github.com/gauss-project/aurorafs/pkg/aurora"
	"github.com/gauss-project/aurorafs/pkg/boson"
	"github.com/gauss-project/aurorafs/pkg/crypto"
	"github.com/gauss-project/aurorafs/pkg/hive2"
	"github.com/gauss-project/aurorafs/pkg/hive2/pb"
	"github.com/gauss-project/aurorafs/pkg/logging"
	"github.com/gauss-project/aurorafs/pkg/p2p"
	p2pmock "github.com/gauss-project/aurorafs/pkg/p2p/mock"
	"github.com/gauss-project/aurorafs/pkg/p2p/protobuf"
	"github.com/gauss-project/aurorafs/pkg/p2p/streamtest"
	pingpongmock "github.com/gauss-project/aurorafs/pkg/pingpong/mock"
	"github.com/gauss-project/aurorafs/pkg/shed"
	mockstate "github.com/gauss-project/aurorafs/pkg/statestore/mock"
	"github.com/gauss-project/aurorafs/pkg/subscribe"
	"github.com/gauss-project/aurorafs/pkg/topology/kademlia"
	ma "github.com/multiformats/go-multiaddr"

	"verifharness/internal/kadaddr"
	"verifharness/internal/kit"
)

var logger = logging.New(ioutil.Discard, 0)

// underlay of a class, known by construction: "pub" is a globally routable
// IPv4 address, "priv" an RFC 1918 one.
func underlay(class string, bin, id int) (ma.Multiaddr, error) {
	switch class {
	case "pub":
		return ma.NewMultiaddr(fmt.Sprintf("/ip4/8.8.%d.%d/tcp/%d", bin+1, id+1, 1634+id))
	case "priv":
		if id%2 == 0 {
			return ma.NewMultiaddr(fmt.Sprintf("/ip4/10.0.%d.%d/tcp/%d", bin+1, id+1, 1634+id))
		}
		return ma.NewMultiaddr(fmt.Sprintf("/ip4/192.168.%d.%d/tcp/%d", bin+1, id+1, 1634+id))
	}
	return nil, fmt.Errorf("unknown underlay class %q", class)
}

func runScenario(sc kit.Scenario, out *kit.Out, signer crypto.Signer) error {
	space := kadaddr.New(kit.Seed()*104729 + int64(sc.Scn))
	db, err := shed.NewDB("", &shed.Options{Driver: `leveldb:{"WriteBuffer":65536}`})
	if err != nil {
		return err
	}
	defer db.Close()
	ab := addressbook.New(mockstate.NewStateStore())
	p2ps := p2pmock.New()

	reqPar, _ := sc.Par["req"].(map[string]interface{})
	rb, ri, err := kadaddr.Pair(reqPar["p"])
	if err != nil {
		return err
	}
	requester, err := space.Addr(rb, ri)
	if err != nil {
		return err
	}
	allow := kit.Bool(sc.Par, "allow")

	svc := hive2.New(streamtest.New(), ab, 0, logger)
	defer svc.Close()
	ppm := pingpongmock.New(func(_ context.Context, _ boson.Address, _ ...string) (time.Duration, error) { return 0, nil })
	kad, err := kademlia.New(space.Base(), ab, svc, p2ps, ppm, nil, nil, db, logger, subscribe.NewSubPub(),
		kademlia.Options{BinMaxPeers: 5, NodeMode: aurora.NewModel().SetMode(aurora.FullNode)})
	if err != nil {
		return err
	}
	p2ps.SetPickyNotifier(kad)
	svc.SetAddPeersHandler(kad.AddPeers)
	svc.SetConfig(hive2.Config{Kad: kad, Base: space.Base(), AllowPrivateCIDRs: allow})

	// what was put into the address book, by overlay (for the byte comparison of the records passed on)
	put := map[string]*aurora.Address{}
	for _, pv := range kit.List(sc.Par, "peers") {
		pm, _ := pv.(map[string]interface{})
		b, i, err := kadaddr.Pair(pm["p"])
		if err != nil {
			return err
		}
		a, err := space.Addr(b, i)
		if err != nil {
			return err
		}
		if class := kit.Str(pm, "u"); class != "none" {
			u, err := underlay(class, b, i)
			if err != nil {
				return err
			}
			aa, err := aurora.NewAddress(signer, u, a, 0)
			if err != nil {
				return err
			}
			if err := ab.Put(a, *aa); err != nil {
				return err
			}
			put[a.ByteString()] = aa
		}
		switch kit.Str(pm, "s") {
		case "conn":
			if err := kad.Connected(context.Background(), p2p.Peer{Address: a, Mode: aurora.NewModel().SetMode(aurora.FullNode)}, true); err != nil {
				return fmt.Errorf("setup connect: %w", err)
			}
		case "known":
			kad.AddPeers(a)
		default:
			return fmt.Errorf("unknown peer state %v", pm["s"])
		}
	}

	rec := streamtest.New(streamtest.WithProtocols(svc.Protocol()), streamtest.WithBaseAddr(requester))
	out.Begin(sc.Scn, kit.Ev{"peers": sc.Par["peers"], "req": sc.Par["req"], "allow": allow})

	for _, op := range sc.Ops {
		if kit.Str(op, "op") != "find" {
			return fmt.Errorf("unknown op %v", op["op"])
		}
		tb, ti, err := kadaddr.Pair(op["t"])
		if err != nil {
			return err
		}
		target, err := space.Addr(tb, ti)
		if err != nil {
			return err
		}
		limit := kit.Int(op, "limit")
		posI := kit.IntList(op, "pos")
		pos := make([]int32, 0, len(posI))
		for _, v := range posI {
			pos = append(pos, int32(v))
		}
		if posI == nil {
			posI = []int{}
		}
		ev := kit.Ev{"op": "find", "limit": limit, "t": []int{tb, ti}, "pos": posI, "err": "", "umatch": true}
		reply := [][]int{}
		panicked, msg := kit.Guard(func() {
			ctx, cancel := context.WithTimeout(context.Background(), 10*time.Second)
			defer cancel()
			stream, err := rec.NewStream(ctx, space.Base(), nil, "hive2", "1.0.0", "findNode")
			if err != nil {
				ev["err"] = "stream: " + err.Error()
				return
			}
			w, r := protobuf.NewWriterAndReader(stream)
			if err := w.WriteMsgWithContext(ctx, &pb.FindNodeReq{Target: target.Bytes(), Pos: pos, Limit: int32(limit)}); err != nil {
				ev["err"] = "write: " + err.Error()
				return
			}
			var res pb.Peers
			if err := r.ReadMsgWithContext(ctx, &res); err != nil {
				ev["err"] = "read: " + err.Error()
				return
			}
			_ = stream.Close()
			for _, p := range res.Peers {
				ov := boson.NewAddress(p.Overlay)
				b, i, ok := space.Abstract(ov)
				if !ok {
					b, i = -1, -1
				}
				reply = append(reply, []int{b, i})
				if aa := put[ov.ByteString()]; aa == nil || !bytes.Equal(aa.Underlay.Bytes(), p.Underlay) || !bytes.Equal(aa.Signature, p.Signature) {
					ev["umatch"] = false
				}
			}
		})
		ev["reply"] = reply
		ev["panicked"] = panicked
		if panicked {
			ev["panic"] = msg
		}
		out.Emit(ev)
	}
	return nil
}

func main() {
	kit.Main(func(scs []kit.Scenario, out *kit.Out) error {
		var kb [32]byte
		kit.Rng(29).Read(kb[:])
		kb[0] = 1
		signer := crypto.NewDefaultSigner(crypto.Secp256k1PrivateKeyFromBytes(kb[:]))
		for _, sc := range scs {
			if err := runScenario(sc, out, signer); err != nil {
				return fmt.Errorf("scenario %d: %w", sc.Scn, err)
			}
		}
		return nil
	})
}
