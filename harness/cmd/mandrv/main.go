// mandrv: conformance driver for directory manifests (C10).
// Executes generated histories of add / remove / store / reload / lookup /
// hasprefix on pkg/manifest (mantaray wrapper) persisted through
// pkg/file/loadsave + the real upload pipeline + joiner over an in-memory
// chunk store, plain and encrypted, and logs what every call returned.
// No oracle here and no hidden observations: reading a manifest changes which
// trie nodes are loaded, so the only reads are the ones the scenario asks for
// (the closing `dump` = Lookup of every universe path + every prefix query).
package main

import (
	"context"
	"errors"
	"fmt"
	"reflect"
	"runtime"
	"strings"
	"sync"

	"github.com/gauss-project/aurorafs/pkg/boson"
	"github.com/gauss-project/aurorafs/pkg/file/loadsave"
	"github.com/gauss-project/aurorafs/pkg/file/pipeline"
	"github.com/gauss-project/aurorafs/pkg/file/pipeline/builder"
	"github.com/gauss-project/aurorafs/pkg/manifest"
	"github.com/gauss-project/aurorafs/pkg/storage"

	"verifharness/internal/kit"
)

// mapStore is the chunk store under the load-saver.
type mapStore struct {
	mu sync.Mutex
	m  map[string][]byte
}

func (s *mapStore) Get(_ context.Context, _ storage.ModeGet, addr boson.Address) (boson.Chunk, error) {
	s.mu.Lock()
	defer s.mu.Unlock()
	d, ok := s.m[addr.ByteString()]
	if !ok {
		return nil, storage.ErrNotFound
	}
	return boson.NewChunk(addr, d), nil
}

func (s *mapStore) Put(_ context.Context, _ storage.ModePut, chs ...boson.Chunk) ([]bool, error) {
	s.mu.Lock()
	defer s.mu.Unlock()
	ex := make([]bool, len(chs))
	for i, c := range chs {
		_, ex[i] = s.m[c.Address().ByteString()]
		s.m[c.Address().ByteString()] = append([]byte(nil), c.Data()...)
	}
	return ex, nil
}

const letters = "?abc/"

// pathOf maps a generated letter sequence to the path string; every letter is written `stretch` times.
func pathOf(v interface{}, stretch int) (string, []int, error) {
	l, ok := v.([]interface{})
	if !ok {
		return "", nil, fmt.Errorf("path is not a list: %v", v)
	}
	var sb strings.Builder
	codes := make([]int, 0, len(l))
	for _, x := range l {
		f, ok := x.(float64)
		if !ok || int(f) < 1 || int(f) >= len(letters) {
			return "", nil, fmt.Errorf("bad letter %v", x)
		}
		codes = append(codes, int(f))
		for i := 0; i < stretch; i++ {
			sb.WriteByte(letters[int(f)])
		}
	}
	return sb.String(), codes, nil
}

// fixtures: references and metadata the driver supplies, and their identification when they come back
func refOf(r int, enc bool) boson.Address {
	n := boson.HashSize
	if enc {
		n = 2 * boson.HashSize
	}
	b := make([]byte, n)
	for i := range b {
		b[i] = byte(r)
	}
	return boson.NewAddress(b)
}

func refID(a boson.Address, enc bool) int {
	for r := 1; r <= 9; r++ {
		if a.Equal(refOf(r, enc)) {
			return r
		}
	}
	return 99
}

var metas = []map[string]string{
	nil,
	{manifest.EntryMetadataContentTypeKey: "text/plain"},
	{manifest.EntryMetadataContentTypeKey: "image/png", manifest.EntryMetadataFilenameKey: "x.png"},
}

func metaID(m map[string]string) int {
	if len(m) == 0 {
		return 0
	}
	for i := 1; i < len(metas); i++ {
		if reflect.DeepEqual(m, metas[i]) {
			return i
		}
	}
	return 99
}

func copyMeta(k int) map[string]string {
	if k <= 0 || k >= len(metas) {
		return nil
	}
	out := map[string]string{}
	for a, b := range metas[k] {
		out[a] = b
	}
	return out
}

func errs(e error) string {
	if e == nil {
		return ""
	}
	return e.Error()
}

type variant struct {
	enc     bool
	stretch int
}

func run(sc kit.Scenario, v variant, out *kit.Out) error {
	ctx := context.Background()
	st := &mapStore{m: map[string][]byte{}}
	ls := loadsave.New(st, func() pipeline.Interface {
		return builder.NewPipelineBuilder(ctx, st, storage.ModePutUpload, v.enc)
	})
	mf, err := manifest.NewDefaultManifest(ls, v.enc)
	if err != nil {
		return err
	}
	var lastRef boson.Address
	haveRef := false

	out.Begin(sc.Scn, kit.Ev{"enc": v.enc, "stretch": v.stretch, "err": "", "panicked": false})
	for idx, op := range sc.Ops {
		name := kit.Str(op, "op")
		ev := kit.Ev{"op": name, "err": "", "panicked": false}
		fatal := false
		var perr error
		switch name {
		case "add":
			p, codes, e := pathOf(op["p"], v.stretch)
			if e != nil {
				return e
			}
			r, k := kit.Int(op, "r"), kit.Int(op, "k")
			ev["p"], ev["r"], ev["k"] = codes, r, k
			pan, msg := kit.Guard(func() { perr = mf.Add(ctx, p, manifest.NewEntry(refOf(r, v.enc), copyMeta(k))) })
			if pan {
				ev["panicked"], ev["err"], fatal = true, msg, true
			} else {
				ev["err"] = errs(perr)
			}
		case "remove":
			p, codes, e := pathOf(op["p"], v.stretch)
			if e != nil {
				return e
			}
			ev["p"] = codes
			ev["notfound"] = false
			pan, msg := kit.Guard(func() { perr = mf.Remove(ctx, p) })
			if pan {
				ev["panicked"], ev["err"], fatal = true, msg, true
			} else if errors.Is(perr, manifest.ErrNotFound) {
				ev["notfound"] = true
			} else {
				ev["err"] = errs(perr)
			}
		case "lookup":
			p, codes, e := pathOf(op["p"], v.stretch)
			if e != nil {
				return e
			}
			ev["p"], ev["found"], ev["r"], ev["k"] = codes, false, 0, 0
			var ent manifest.Entry
			pan, msg := kit.Guard(func() { ent, perr = mf.Lookup(ctx, p) })
			if pan {
				ev["panicked"], ev["err"], fatal = true, msg, true
			} else if perr == nil {
				ev["found"], ev["r"], ev["k"] = true, refID(ent.Reference(), v.enc), metaID(ent.Metadata())
			} else if !errors.Is(perr, manifest.ErrNotFound) {
				ev["err"] = errs(perr)
			}
		case "hasprefix":
			p, codes, e := pathOf(op["q"], v.stretch)
			if e != nil {
				return e
			}
			ev["q"], ev["has"] = codes, false
			var has bool
			pan, msg := kit.Guard(func() { has, perr = mf.HasPrefix(ctx, p) })
			if pan {
				ev["panicked"], ev["err"], fatal = true, msg, true
			} else {
				ev["has"], ev["err"] = has, errs(perr)
			}
		case "store":
			var ref boson.Address
			pan, msg := kit.Guard(func() { ref, perr = mf.Store(ctx) })
			if pan {
				ev["panicked"], ev["err"], fatal = true, msg, true
			} else if perr != nil {
				ev["err"], fatal = errs(perr), true
			} else {
				lastRef, haveRef = ref, true
			}
		case "reload":
			if !haveRef {
				return fmt.Errorf("scenario %d: reload before any store", sc.Scn)
			}
			nm, e := manifest.NewDefaultManifestReference(lastRef, ls)
			if e != nil {
				ev["err"], fatal = errs(e), true
			} else {
				mf = nm
			}
		case "dump":
			if idx != len(sc.Ops)-1 {
				return fmt.Errorf("scenario %d: dump must be the last operation", sc.Scn)
			}
			stl := []interface{}{}
			pfl := []interface{}{}
			uq := []interface{}{}
			pq := []interface{}{}
			first := ""
			pan, msg := kit.Guard(func() {
				for _, pv := range kit.List(sc.Par, "univ") {
					p, codes, e := pathOf(pv, v.stretch)
					if e != nil {
						panic(e)
					}
					uq = append(uq, codes)
					ent, e := mf.Lookup(ctx, p)
					if e == nil {
						stl = append(stl, []interface{}{codes, refID(ent.Reference(), v.enc), metaID(ent.Metadata())})
					} else if !errors.Is(e, manifest.ErrNotFound) && first == "" {
						first = "lookup " + p + ": " + e.Error()
					}
				}
				for _, pv := range kit.List(sc.Par, "pfx") {
					p, codes, e := pathOf(pv, v.stretch)
					if e != nil {
						panic(e)
					}
					pq = append(pq, codes)
					has, e := mf.HasPrefix(ctx, p)
					if e != nil && first == "" {
						first = "hasprefix " + p + ": " + e.Error()
					}
					if has {
						pfl = append(pfl, codes)
					}
				}
			})
			ev["st"], ev["pf"], ev["uq"], ev["pq"] = stl, pfl, uq, pq
			if pan {
				ev["panicked"], ev["err"] = true, msg
			} else {
				ev["err"] = first
			}
		default:
			return fmt.Errorf("unknown op %v", op["op"])
		}
		out.Emit(ev)
		if fatal {
			break // the object is in an unknown state after a panic / failed store
		}
	}
	return nil
}

func main() {
	// every Save builds a pipeline whose trie writer allocates a 4.7 MB buffer; an untouched
	// ballast keeps the collector from returning and re-faulting those pages each time
	ballast := make([]byte, 2<<30)
	defer runtime.KeepAlive(ballast)
	kit.Main(func(scs []kit.Scenario, out *kit.Out) error {
		for _, sc := range scs {
			vs := []variant{{false, 1}, {true, 1}, {false, 8}, {true, 8}}
			if _, ok := sc.Par["stretch"]; ok {
				vs = []variant{{kit.Bool(sc.Par, "enc"), kit.Int(sc.Par, "stretch")}}
			}
			for _, v := range vs {
				if v.stretch < 1 {
					return fmt.Errorf("scenario %d: bad stretch", sc.Scn)
				}
				if err := run(sc, v, out); err != nil {
					return err
				}
			}
		}
		return nil
	})
}
