// chequedrv: conformance driver for received cheques (C30).
//
// A real traffic.Service (real cheque store with EIP-712 recovery, real address
// book, real trafficprotocol handler; chain / cash-out / p2p / pubsub stubs)
// receives the cheque sequences TLC generated.  Every cheque is really signed
// with the key the scenario names.  Logged per cheque: whether the service
// accepted it, what the real ChequeStore.ReceiveCheque returned, and a projection
// (last received cheque per issuer, per-peer received total of TrafficCheques,
// the chain address the address book holds per peer).
// Registration is part of the scenario: par.reg0 says which peers registered
// their own chain address before it starts (Service.Handshake, no cheque), and
// op "handshake" {from, issuer} is a peer connecting and presenting a chain
// address (possibly one that belongs to another overlay).
// No oracle here.
package main

import (
	"context"
	"fmt"

	"github.com/ethereum/go-ethereum/common"
	p2pmock "github.com/gauss-project/aurorafs/pkg/p2p/mock"
	"github.com/gauss-project/aurorafs/pkg/p2p/streamtest"
	"github.com/gauss-project/aurorafs/pkg/settlement/traffic"
	chequePkg "github.com/gauss-project/aurorafs/pkg/settlement/traffic/cheque"
	"github.com/gauss-project/aurorafs/pkg/settlement/traffic/trafficprotocol"
	ldbstore "github.com/gauss-project/aurorafs/pkg/statestore/leveldb"
	"github.com/gauss-project/aurorafs/pkg/storage"

	"verifharness/internal/kit"
	"verifharness/internal/settle"
)

const (
	nKeys  = 3 // keys 1..3 = chain addresses that peers present
	nPeers = 3 // overlays 1..3 (by default 1,2 have registered chain addresses 1,2 and 3 is unknown to the address book)
)

type node struct {
	store   storage.StateStorer
	rec     *settle.RecStore
	svc     *traffic.Service
	proto   *trafficprotocol.Service
	book    traffic.Addressbook
	senders map[int]*sender
}

type sender struct {
	rec    *streamtest.Recorder
	client *trafficprotocol.Service
}

var (
	shared storage.StateStorer // one in-memory LevelDB for the run; every scenario gets its own name space
	nsSeq  int
)

func newNode(reg0 []int) (*node, error) {
	logger := settle.Logger()
	if shared == nil {
		s, err := ldbstore.NewInMemoryStateStore(logger)
		if err != nil {
			return nil, err
		}
		shared = s
	}
	nsSeq++
	var store storage.StateStorer = &settle.NSStore{StateStorer: shared, NS: fmt.Sprintf("n%06d/", nsSeq)}
	self := settle.Addr(0)
	ch := settle.NewChain(self)
	rec := &settle.RecStore{ChequeStore: chequePkg.NewChequeStore(store, self, chequePkg.RecoverCheque, settle.ChainID)}
	book := traffic.NewAddressBook(store)
	proto := trafficprotocol.New(nil, logger, self)
	svc := traffic.New(logger, self, store, ch, rec, &settle.Cashout{}, p2pmock.New(), book, settle.Signer(0), proto,
		settle.ChainID, settle.NewSubPub())
	proto.SetTraffic(svc)
	if err := svc.Init(); err != nil {
		return nil, fmt.Errorf("init: %w", err)
	}
	n := &node{store: store, rec: rec, svc: svc, proto: proto, book: book, senders: map[int]*sender{}}
	// the peers of reg0 register their own chain address the way a connection does (init stream -> Handshake, no cheque yet)
	for p := 1; p <= nPeers; p++ {
		if p > len(reg0) || reg0[p-1] == 0 {
			continue
		}
		if err := svc.Handshake(settle.Overlay(p), settle.Addr(p), chequePkg.SignedCheque{}); err != nil {
			return nil, fmt.Errorf("register peer %d: %w", p, err)
		}
	}
	for p := 1; p <= nKeys; p++ {
		r := streamtest.New(streamtest.WithProtocols(proto.Protocol()), streamtest.WithBaseAddr(settle.Overlay(p)))
		n.senders[p] = &sender{rec: r, client: trafficprotocol.New(r, logger, settle.Addr(p))}
	}
	return n, nil
}

func (n *node) project() (kit.Ev, error) {
	last := make([]int64, 0, nKeys)
	for k := 1; k <= nKeys; k++ {
		c, err := n.rec.LastReceivedCheque(settle.Addr(k))
		if err != nil && err != chequePkg.ErrNoCheque {
			return nil, err
		}
		last = append(last, c.CumulativePayout.Int64())
	}
	tcs, err := n.svc.TrafficCheques()
	if err != nil {
		return nil, err
	}
	recv := make([]int64, nPeers)
	for _, tc := range tcs {
		for p := 1; p <= nPeers; p++ {
			if tc.Peer.Equal(settle.Overlay(p)) {
				recv[p-1] = tc.ReceivedSettlements.Int64()
			}
		}
	}
	// the chain address the address book holds for each peer: key index, 0 = unknown, 9 = some other address
	reg := make([]int, nPeers)
	for p := 1; p <= nPeers; p++ {
		if a, known := n.book.Beneficiary(settle.Overlay(p)); known {
			reg[p-1] = 9
			for k := 1; k <= nKeys; k++ {
				if a == settle.Addr(k) {
					reg[p-1] = k
				}
			}
		}
	}
	return kit.Ev{"last": last, "recv": recv, "reg": reg}, nil
}

func errs(e error) string {
	if e == nil {
		return ""
	}
	return e.Error()
}

func run(sc kit.Scenario, out *kit.Out) error {
	reg0 := []int{1, 1, 0}
	if _, ok := sc.Par["reg0"]; ok {
		reg0 = kit.IntList(sc.Par, "reg0")
	}
	for len(reg0) < nPeers {
		reg0 = append(reg0, 0)
	}
	n, err := newNode(reg0)
	if err != nil {
		return err
	}
	defer n.store.Close()
	via := kit.Str(sc.Par, "via")
	if via == "" {
		via = "service"
	}
	st, err := n.project()
	if err != nil {
		return err
	}
	out.Begin(sc.Scn, kit.Ev{"via": via, "reg0": reg0[:nPeers], "st": st})
	other := common.HexToAddress("0x00000000000000000000000000000000000000ee")
	for _, op := range sc.Ops {
		if kit.Str(op, "op") == "handshake" {
			// a peer connects and presents a chain address (no cheque): the registration step
			from, key := kit.Int(op, "from"), kit.Int(op, "issuer")
			n.rec.Take()
			var herr error
			panicked, msg := kit.Guard(func() {
				herr = n.svc.Handshake(settle.Overlay(from), settle.Addr(key), chequePkg.SignedCheque{})
			})
			amount := int64(0)
			calls := n.rec.Take()
			for _, c := range calls {
				if c.Err == nil && c.Amount != nil {
					amount += c.Amount.Int64()
				}
			}
			st, err := n.project()
			if err != nil {
				return err
			}
			out.Emit(kit.Ev{"op": "handshake", "via": "service", "cls": kit.Str(op, "cls"), "from": from, "issuer": key,
				"accepted": herr == nil && !panicked, "err": errs(herr), "panicked": panicked, "panic": msg,
				"storeCalls": len(calls), "amount": amount, "st": st})
			continue
		}
		if kit.Str(op, "op") != "cheque" {
			return fmt.Errorf("unknown op %v", op["op"])
		}
		from, issuer, signer, cum := kit.Int(op, "from"), kit.Int(op, "issuer"), kit.Int(op, "signer"), kit.Int(op, "cum")
		rcpt := settle.Addr(0)
		if kit.Int(op, "rcpt") == 0 {
			rcpt = other
		}
		sc, err := settle.Sign(rcpt, settle.Addr(issuer), int64(cum), signer)
		if err != nil {
			return fmt.Errorf("sign: %w", err)
		}
		n.rec.Take()
		var rerr error
		panicked, msg := kit.Guard(func() {
			if via == "protocol" {
				s := n.senders[from]
				if e := s.client.EmitCheque(context.Background(), settle.Overlay(0), sc); e != nil {
					rerr = fmt.Errorf("emit: %w", e)
					return
				}
				recs, e := s.rec.Records(settle.Overlay(0), "pseudosettle", "1.0.0", "traffic")
				if e != nil {
					rerr = fmt.Errorf("records: %w", e)
					return
				}
				rerr = recs[len(recs)-1].Err()
			} else {
				rerr = n.svc.ReceiveCheque(context.Background(), settle.Overlay(from), sc)
			}
		})
		calls := n.rec.Take()
		amount := int64(0)
		storeOK := 0
		for _, c := range calls {
			if c.Err == nil && c.Amount != nil {
				amount += c.Amount.Int64()
				storeOK++
			}
		}
		st, err := n.project()
		if err != nil {
			return err
		}
		out.Emit(kit.Ev{"op": "cheque", "via": via, "cls": kit.Str(op, "cls"),
			"from": from, "issuer": issuer, "signer": signer, "rcpt": kit.Int(op, "rcpt"), "cum": cum,
			"accepted": rerr == nil && !panicked, "err": errs(rerr), "panicked": panicked, "panic": msg,
			"storeCalls": len(calls), "storeAccepted": storeOK, "amount": amount, "st": st})
	}
	return nil
}

func main() {
	kit.Main(func(scs []kit.Scenario, out *kit.Out) error {
		for _, sc := range scs {
			if err := run(sc, out); err != nil {
				return fmt.Errorf("scenario %d: %w", sc.Scn, err)
			}
		}
		return nil
	})
}
