// pubsubdrv: conformance driver for pkg/subscribe (C40).
//
// The moment a subscription or an unsubscription takes effect is the end of an
// iteration of subPub.process(); the verif hook reports it (kind, key,
// notifier) and the driver parks the process goroutine there.  While it is
// parked, further Subscribe calls and fired error channels only fill the two
// channels; "step" releases it for one more iteration.  When both channels are
// empty the goroutine is idle in select and the next queued item is applied at
// once (the driver waits for the hook's report).  Publish is only called while
// the goroutine is parked or idle, so every recorded delivery is ordered
// against the recorded applications without any clock.
//
// Which channel process() takes when both are ready is Go's random select: a
// scenario says which one TLC chose (step.want) and the driver re-runs the
// scenario from scratch until the real code made the same choices; the events
// of the last attempt are logged as observed either way.  No oracle here.
package main

import (
	"fmt"
	"runtime"
	"sync"
	"sync/atomic"
	"time"

	"github.com/gauss-project/aurorafs/pkg/subscribe"

	"verifharness/internal/kit"
)

const (
	nameSpace = "ns"
	kind      = "kd"
	maxTries  = 400
)

var params = []string{"", "x", "y"}

func keyIndex(key string) int {
	for i, p := range params {
		k := nameSpace + "_" + kind
		if p != "" {
			k += "_" + p
		}
		if k == key {
			return i
		}
	}
	return -1
}

type applied struct {
	kind string
	n, k int
}

// world is one attempt at one scenario.
type world struct {
	sp      subscribe.SubPub
	nots    map[int]*notifier
	applied chan applied
	release chan struct{}
	done    chan struct{}
	mu      sync.Mutex
	dl      [][]int
	// gate: the publisher is held inside Notify of notifier gateN on key gateK (first such call while armed)
	gateArmed    bool
	gateN, gateK int
	gateHit      chan struct{}
	gateRel      chan struct{}
}

type notifier struct {
	id   int
	errc chan error
	w    *world
}

func (n *notifier) Notify(key string, data interface{}) error {
	m, _ := data.(int)
	n.w.mu.Lock()
	ki := keyIndex(key)
	n.w.dl = append(n.w.dl, []int{n.id, ki, m})
	hold := n.w.gateArmed && n.id == n.w.gateN && ki == n.w.gateK
	if hold {
		n.w.gateArmed = false
	}
	n.w.mu.Unlock()
	if hold {
		// the publisher blocks here, as in an rpc write to a dying connection or a full notifier channel
		n.w.gateHit <- struct{}{}
		select {
		case <-n.w.gateRel:
		case <-n.w.done:
		}
	}
	return nil
}

func (n *notifier) Err() <-chan error { return n.errc }

var current atomic.Value // *world

// hook runs on the process goroutine of some subPub at the end of an iteration.
func hook(kd, key string, nt subscribe.INotifier) {
	n, ok := nt.(*notifier)
	if !ok {
		return
	}
	w, _ := current.Load().(*world)
	if w == nil || n.w != w {
		return // a subPub of an earlier attempt
	}
	select {
	case w.applied <- applied{kind: kd, n: n.id, k: keyIndex(key)}:
	case <-w.done:
		return
	}
	select {
	case <-w.release:
	case <-w.done:
	}
}

func (w *world) takeDeliveries() [][]int {
	w.mu.Lock()
	defer w.mu.Unlock()
	d := w.dl
	w.dl = nil
	if d == nil {
		d = [][]int{}
	}
	return d
}

func (w *world) waitApplied() (applied, error) {
	select {
	case a := <-w.applied:
		return a, nil
	case <-time.After(10 * time.Second):
		return applied{}, fmt.Errorf("process() did not report an application within 10s")
	}
}

// waitPending waits until the two channels hold s+u items.  The counts are the driver's bookkeeping of what it
// handed over, not an oracle: if the channels settle on another number (an unsubscription was never queued, or one too
// many was), the observed number is returned and the caller continues with it -- the judge sees the consequences in the
// subscriber lists and deliveries.
var deviated int32

func (w *world) waitPending(s, u int) (int, error) {
	patience := 10 * time.Second // the first deviation of a run must be beyond doubt; later ones settle faster
	if atomic.LoadInt32(&deviated) != 0 {
		patience = 150 * time.Millisecond
	}
	deadline := time.Now().Add(patience)
	last, since := -1, time.Now()
	for i := 0; ; i++ {
		a := subscribe.VerifPending(w.sp)
		if a == s+u {
			return a, nil
		}
		if a != last {
			last, since = a, time.Now()
		}
		if i < 2000 {
			runtime.Gosched()
		} else {
			time.Sleep(20 * time.Microsecond)
			if time.Now().After(deadline) && time.Since(since) > patience/2 {
				atomic.StoreInt32(&deviated, 1)
				return a, nil
			}
			if time.Now().After(deadline.Add(20 * time.Second)) {
				return a, fmt.Errorf("channels do not settle: hold %d items, handed over %d+%d", a, s, u)
			}
		}
	}
}

func (w *world) project(nKeys int) [][]int {
	m := subscribe.VerifSubscribers(w.sp)
	out := make([][]int, nKeys)
	for i := range out {
		out[i] = []int{}
	}
	for key, ns := range m {
		ki := keyIndex(key)
		if ki < 0 || ki >= nKeys {
			continue
		}
		for _, x := range ns {
			if n, ok := x.(*notifier); ok {
				out[ki] = append(out[ki], n.id)
			} else {
				out[ki] = append(out[ki], 0)
			}
		}
	}
	return out
}

func apList(a *applied) [][]interface{} {
	if a == nil {
		return [][]interface{}{}
	}
	return [][]interface{}{{a.kind, a.n, a.k}}
}

// attempt executes the scenario once; matched tells whether every step took the wanted channel.
func attempt(sc kit.Scenario, nKeys int) (evs []kit.Ev, matched bool, err error) {
	w := &world{nots: map[int]*notifier{}, applied: make(chan applied), release: make(chan struct{}), done: make(chan struct{}),
		gateHit: make(chan struct{}, 1), gateRel: make(chan struct{})}
	held := false
	var pubDone chan error
	current.Store(w)
	w.sp = subscribe.NewSubPub()
	defer close(w.done)

	matched = true
	parked := false
	expS, expU := 0, 0
	callsOf := map[int]int{}
	fired := map[int]bool{}
	msg := 0
	not := func(id int) *notifier {
		if n, ok := w.nots[id]; ok {
			return n
		}
		n := &notifier{id: id, errc: make(chan error), w: w}
		w.nots[id] = n
		return n
	}
	account := func(a applied) {
		if a.kind == "sub" {
			expS--
		} else {
			expU--
		}
	}
	evs = append(evs, kit.Ev{"op": "reset", "nk": nKeys, "st": w.project(nKeys), "qn": []int{0, 0}, "parked": false,
		"ap": apList(nil), "dl": [][]int{}})
	for _, op := range sc.Ops {
		name := kit.Str(op, "op")
		ev := kit.Ev{"op": name}
		var got *applied
		switch name {
		case "sub":
			n, k := kit.Int(op, "n"), kit.Int(op, "k")
			if k < 0 || k >= nKeys {
				return nil, false, fmt.Errorf("scenario %d: key %d out of range", sc.Scn, k)
			}
			ev["n"], ev["k"] = n, k
			nt := not(n)
			callsOf[n]++
			expS++
			if fired[n] {
				expU++
			}
			if e := w.sp.Subscribe(nt, nameSpace, kind, params[k]); e != nil {
				return nil, false, e
			}
			if !parked {
				a, e := w.waitApplied()
				if e != nil {
					return nil, false, e
				}
				account(a)
				got, parked = &a, true
			}
		case "fire":
			n := kit.Int(op, "n")
			ev["n"] = n
			if fired[n] {
				return nil, false, fmt.Errorf("scenario %d: notifier %d fired twice", sc.Scn, n)
			}
			fired[n] = true
			expU += callsOf[n]
			close(not(n).errc)
			if !parked && callsOf[n] > 0 {
				a, e := w.waitApplied()
				if e != nil {
					return nil, false, e
				}
				account(a)
				got, parked = &a, true
			}
		case "step":
			want := kit.Str(op, "want")
			ev["want"] = want
			if !parked {
				// the node ran out of queued items earlier than the script expected: the rest of the script does not apply
				ev["got"] = "idle"
				matched = false
				break
			}
			w.release <- struct{}{}
			if expS+expU > 0 {
				a, e := w.waitApplied()
				if e != nil {
					return nil, false, e
				}
				account(a)
				got = &a
				k := a.kind
				if k == "unsub-miss" {
					k = "unsub"
				}
				ev["got"] = k
				if want != "" && want != k {
					matched = false
				}
			} else {
				parked = false
				ev["got"] = "idle"
				if want != "" && want != "idle" {
					matched = false
				}
			}
		case "pubstart":
			// Publish runs on its own goroutine and is held inside Notify of (gn, gk)
			p, gn, gk := kit.Int(op, "p"), kit.Int(op, "gn"), kit.Int(op, "gk")
			if p < 0 || p >= nKeys || pubDone != nil {
				return nil, false, fmt.Errorf("scenario %d: bad pubstart", sc.Scn)
			}
			msg++
			ev["p"], ev["m"], ev["gn"], ev["gk"] = p, msg, gn, gk
			w.mu.Lock()
			w.gateArmed, w.gateN, w.gateK = true, gn, gk
			w.mu.Unlock()
			pubDone = make(chan error, 1)
			go func(d chan error, m int) { d <- w.sp.Publish(nameSpace, kind, params[p], m) }(pubDone, msg)
			select {
			case <-w.gateHit:
				held = true
			case e := <-pubDone:
				if e != nil {
					return nil, false, e
				}
				pubDone <- nil // finished without reaching the gate
			case <-time.After(10 * time.Second):
				return nil, false, fmt.Errorf("scenario %d: Publish neither returned nor reached the gate", sc.Scn)
			}
			ev["held"] = held
		case "pubend":
			if pubDone == nil {
				return nil, false, fmt.Errorf("scenario %d: pubend without pubstart", sc.Scn)
			}
			ev["m"] = msg
			if held {
				w.gateRel <- struct{}{}
				held = false
			}
			select {
			case e := <-pubDone:
				if e != nil {
					return nil, false, e
				}
			case <-time.After(10 * time.Second):
				return nil, false, fmt.Errorf("scenario %d: Publish did not return", sc.Scn)
			}
			w.mu.Lock()
			w.gateArmed = false
			w.mu.Unlock()
			pubDone = nil
		case "pub":
			if pubDone != nil {
				return nil, false, fmt.Errorf("scenario %d: pub while a publication is held", sc.Scn)
			}
			p := kit.Int(op, "p")
			if p < 0 || p >= nKeys {
				return nil, false, fmt.Errorf("scenario %d: key %d out of range", sc.Scn, p)
			}
			msg++
			ev["p"], ev["m"] = p, msg
			if e := w.sp.Publish(nameSpace, kind, params[p], msg); e != nil {
				return nil, false, e
			}
		default:
			return nil, false, fmt.Errorf("unknown op %q", name)
		}
		pend, e := w.waitPending(expS, expU)
		if e != nil {
			return nil, false, fmt.Errorf("scenario %d op %s: %v", sc.Scn, name, e)
		}
		if pend != expS+expU {
			// subscriptions are queued synchronously by Subscribe; a difference is in the unsubscriptions the watchers queue
			ev["qdiff"] = pend - (expS + expU)
			expU = pend - expS
			if expU < 0 {
				expS, expU = pend, 0
			}
		}
		ev["ap"] = apList(got)
		ev["dl"] = w.takeDeliveries()
		ev["st"] = w.project(nKeys)
		ev["qn"] = []int{expS, expU}
		ev["pend"] = pend
		ev["parked"] = parked
		evs = append(evs, ev)
		if !matched {
			return evs, false, nil
		}
	}
	return evs, true, nil
}

func main() {
	subscribe.VerifSetApplied(hook)
	kit.Main(func(scs []kit.Scenario, out *kit.Out) error {
		for _, sc := range scs {
			nKeys := 3
			var evs []kit.Ev
			var err error
			matched := false
			tries := 0
			// a scenario whose first mismatch is the same operation with the same outcome 12 times in a
			// row is given up as unforceable (e.g. a tree where both kinds travel in one ordered channel)
			sameAt, sameN := -1, 0
			for tries < maxTries && !matched && sameN < 12 {
				tries++
				evs, matched, err = attempt(sc, nKeys)
				if err != nil {
					return err
				}
				if !matched {
					if len(evs) == sameAt {
						sameN++
					} else {
						sameAt, sameN = len(evs), 1
					}
				}
			}
			if !matched {
				// the wanted order never came up: run to the end once, taking whatever the select picks
				free := sc
				free.Ops = nil
				for _, op := range sc.Ops {
					c := map[string]interface{}{}
					for k, v := range op {
						if k != "want" {
							c[k] = v
						}
					}
					free.Ops = append(free.Ops, c)
				}
				evs, _, err = attempt(free, nKeys)
				if err != nil {
					return err
				}
			}
			first := evs[0]
			delete(first, "op")
			first["tries"], first["forced"] = tries, matched
			out.Begin(sc.Scn, first)
			for _, ev := range evs[1:] {
				out.Emit(ev)
			}
		}
		return nil
	})
}
