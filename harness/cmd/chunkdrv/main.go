// chunkdrv: conformance driver for chunk validity (C04 pkg/cac, C05 pkg/soc + pkg/crypto).
//
// Every scenario is one case class enumerated by TLC (spec/chunk/ChunkGen.tla).  The
// driver concretises the class with seeded random bytes, calls the packages under test
// and logs what they returned next to the observables of the same bytes computed by the
// independent evaluator (internal/refhash: keccak/BMT reference, btcec).  No oracle
// here: the equations ValidCAC / ValidSOC are evaluated by spec/chunk/ChunkTrace.tla.
package main

import (
	"bytes"
	"encoding/binary"
	"encoding/json"
	"fmt"
	"hash/fnv"
	"math/rand"

	"github.com/gauss-project/aurorafs/pkg/boson"
	"github.com/gauss-project/aurorafs/pkg/cac"
	"github.com/gauss-project/aurorafs/pkg/crypto"
	"github.com/gauss-project/aurorafs/pkg/soc"

	"verifharness/internal/kit"
	"verifharness/internal/refhash"
)

// rngFor derives the generator of one case from the seed and the case itself, so a
// case is concretised the same way wherever it appears in the scenario file.
func rngFor(op map[string]interface{}) *rand.Rand {
	b, _ := json.Marshal(op)
	h := fnv.New64a()
	h.Write(b)
	return kit.Rng(int64(h.Sum64() >> 1))
}

func randBytes(r *rand.Rand, n int) []byte {
	b := make([]byte, n)
	r.Read(b)
	return b
}

// nz is a random non-zero byte (a xor mask that always changes the byte).
func nz(r *rand.Rand) byte { return byte(1 + r.Intn(255)) }

func errs(e error) string {
	if e == nil {
		return ""
	}
	return e.Error()
}

// payloadOf builds span || data of total length plen (fewer than 8 bytes: just bytes).
func payloadOf(r *rand.Rand, plen int, spanv string) []byte {
	p := randBytes(r, plen)
	if plen < refhash.Span {
		return p
	}
	switch spanv {
	case "len":
		binary.LittleEndian.PutUint64(p[:8], uint64(plen-8))
	case "zero":
		copy(p[:8], make([]byte, 8))
	case "max":
		copy(p[:8], bytes.Repeat([]byte{0xff}, 8))
	}
	if plen > refhash.Span && p[plen-1] == 0 {
		p[plen-1] = 0x5a // a truncation by one byte then always removes a non-zero byte
	}
	return p
}

// ownAddress is the BMT address of the payload; of its first CS+8 bytes when it is
// over-long; an unrelated 32-byte value when it is shorter than a span.
func ownAddress(p []byte) []byte {
	switch {
	case len(p) < refhash.Span:
		return refhash.Keccak([]byte("no-address"), p)
	case len(p) > refhash.CS+refhash.Span:
		h, _ := refhash.BMT(p[:refhash.CS+refhash.Span])
		return h
	default:
		h, _ := refhash.BMT(p)
		return h
	}
}

func pick(r *rand.Rand, class string, lo, hi int) int { // position inside [lo,hi) by class
	switch {
	case hi-lo <= 1:
		return lo
	case class == "First":
		return lo
	case class == "Last":
		return hi - 1
	default:
		if hi-lo <= 2 {
			return lo
		}
		return lo + 1 + r.Intn(hi-lo-2)
	}
}

func suffixClass(s string) string {
	for _, c := range []string{"First", "Mid", "Last"} {
		if len(s) >= len(c) && s[len(s)-len(c):] == c {
			return c
		}
	}
	return "Mid"
}

// ---------------------------------------------------------------------------------- C04
func opNew(op map[string]interface{}, out *kit.Out) {
	r := rngFor(op)
	dlen := kit.Int(op, "dlen")
	data := randBytes(r, dlen)
	ev := kit.Ev{"op": "new", "dlen": dlen, "ok": false, "err": "", "plen": 0, "am": false, "valid": false,
		"dataMatch": false, "spanIsLen": false, "panicked": false}
	var ch boson.Chunk
	var err error
	p, _ := kit.Guard(func() { ch, err = cac.New(data) })
	ev["panicked"] = p
	ev["err"] = errs(err)
	if !p && err == nil && ch != nil {
		ev["ok"] = true
		d := ch.Data()
		ev["plen"] = len(d)
		ev["am"] = refhash.AddrIsBMT(ch.Address().Bytes(), d)
		ev["valid"] = cac.Valid(ch)
		if len(d) >= 8 {
			ev["dataMatch"] = bytes.Equal(d[8:], data)
			ev["spanIsLen"] = binary.LittleEndian.Uint64(d[:8]) == uint64(dlen)
		}
	}
	out.Emit(ev)
}

func opNewSpan(op map[string]interface{}, out *kit.Out) {
	r := rngFor(op)
	plen := kit.Int(op, "plen")
	payload := payloadOf(r, plen, kit.Str(op, "spanv"))
	ev := kit.Ev{"op": "newspan", "plen": plen, "spanv": kit.Str(op, "spanv"), "ok": false, "err": "", "rlen": 0,
		"am": false, "valid": false, "dataMatch": false, "panicked": false}
	var ch boson.Chunk
	var err error
	p, _ := kit.Guard(func() { ch, err = cac.NewWithDataSpan(payload) })
	ev["panicked"] = p
	ev["err"] = errs(err)
	if !p && err == nil && ch != nil {
		ev["ok"] = true
		ev["rlen"] = len(ch.Data())
		ev["am"] = refhash.AddrIsBMT(ch.Address().Bytes(), ch.Data())
		ev["valid"] = cac.Valid(ch)
		ev["dataMatch"] = bytes.Equal(ch.Data(), payload)
	}
	out.Emit(ev)
}

func opValid(op map[string]interface{}, out *kit.Out) error {
	r := rngFor(op)
	blen := kit.Int(op, "plen")
	ac, mut := kit.Str(op, "addr"), kit.Str(op, "mut")
	payload := payloadOf(r, blen, kit.Str(op, "spanv"))
	addr := ownAddress(payload)
	pos := -1
	switch ac {
	case "own":
	case "flipFirst", "flipMid", "flipLast":
		pos = pick(r, suffixClass(ac), 0, 32)
		addr = append([]byte{}, addr...)
		addr[pos] ^= nz(r)
	case "other":
		addr = ownAddress(payloadOf(r, blen, kit.Str(op, "spanv")))
	default:
		return fmt.Errorf("unknown address class %q", ac)
	}
	switch {
	case mut == "none":
	case len(mut) == 5 && mut[:4] == "span":
		pos = int(mut[4] - '0')
		payload[pos] ^= nz(r)
	case mut == "dataFirst" || mut == "dataMid" || mut == "dataLast":
		pos = pick(r, suffixClass(mut), 8, len(payload))
		payload[pos] ^= nz(r)
	case mut == "trunc1":
		payload = payload[:len(payload)-1]
	case mut == "ext1":
		payload = append(payload, nz(r))
	case mut == "extZero":
		payload = append(payload, 0)
	default:
		return fmt.Errorf("unknown mutation %q", mut)
	}
	var valid bool
	p, _ := kit.Guard(func() { valid = cac.Valid(boson.NewChunk(boson.NewAddress(addr), payload)) })
	out.Emit(kit.Ev{"op": "valid", "blen": blen, "spanv": kit.Str(op, "spanv"), "addr": ac, "mut": mut, "pos": pos,
		"plen": len(payload), "am": refhash.AddrIsBMT(addr, payload), "amPrefix": refhash.AddrIsBMTOfPrefix(addr, payload),
		"valid": valid, "panicked": p})
	return nil
}

// ---------------------------------------------------------------------------------- C05
func keyOf(n int) []byte {
	return refhash.Keccak([]byte(fmt.Sprintf("verif-soc-key-%d-seed-%d", n, kit.Seed())))
}
func idOf(n int) []byte {
	return refhash.Keccak([]byte(fmt.Sprintf("verif-soc-id-%d-seed-%d", n, kit.Seed())))
}

func opSoc(op map[string]interface{}, out *kit.Out) error {
	r := rngFor(op)
	k, i, wlen, mut := kit.Int(op, "key"), kit.Int(op, "id"), kit.Int(op, "wlen"), kit.Str(op, "mut")
	priv := refhash.Key(keyOf(k))
	_, classed := op["xz"] // SOCGen.tla: the k-th key of a class of leading zero bytes (secret scalar, public X, public Y)
	if classed {
		var err error
		if priv, err = classKey(k, keyClass{kit.Int(op, "dz"), kit.Int(op, "xz"), kit.Int(op, "yz")}); err != nil {
			return err
		}
	}
	signer := crypto.NewDefaultSigner(priv)
	id := idOf(i)
	wrapped := payloadOf(r, wlen, "len")
	waddr, err := refhash.BMT(wrapped)
	if err != nil {
		return err
	}
	owner := refhash.Owner(&priv.PublicKey)

	ev := kit.Ev{"op": "soc", "key": k, "id": i, "wlen": wlen, "mut": mut, "signOK": false, "signErr": "",
		"valid0": false, "parseOK": false, "reAddr": false, "reData": false, "wrappedMatch": false,
		"addrIsKeccak": false, "createAddr": false,
		"plen": 0, "wok": false, "rec": false, "com": false, "valid": false, "panicked": false, "pos": -1, "v0": -1}
	if classed { // the class as observed on the key used
		ev["dz"], ev["xz"], ev["yz"] = leadZ(priv.D), leadZ(priv.PublicKey.X), leadZ(priv.PublicKey.Y)
	}

	// the chunk as the package under test builds and signs it
	var sch boson.Chunk
	p, _ := kit.Guard(func() {
		sch, err = soc.New(id, boson.NewChunk(boson.NewAddress(waddr), wrapped)).Sign(signer)
	})
	ev["signErr"] = errs(err)
	if p || err != nil || sch == nil {
		ev["panicked"] = p
		out.Emit(ev)
		return nil
	}
	ev["signOK"] = true
	ev["valid0"] = soc.Valid(sch)
	ev["addrIsKeccak"] = bytes.Equal(sch.Address().Bytes(), refhash.SocAddress(id, owner))
	if a, e := soc.CreateAddress(id, owner); e == nil {
		ev["createAddr"] = bytes.Equal(a.Bytes(), refhash.SocAddress(id, owner))
	}
	if s, e := soc.FromChunk(sch); e == nil {
		ev["parseOK"] = true
		if re, e2 := s.Chunk(); e2 == nil { // address recomputed from the parsed id and the recovered owner
			ev["reAddr"] = bytes.Equal(re.Address().Bytes(), refhash.SocAddress(id, owner))
			ev["reData"] = bytes.Equal(re.Data(), sch.Data())
		}
		w := s.WrappedChunk()
		ev["wrappedMatch"] = w != nil && bytes.Equal(w.Data(), wrapped) && bytes.Equal(w.Address().Bytes(), waddr)
	}

	// one mutation of the serialised chunk / its address
	addr := append([]byte{}, sch.Address().Bytes()...)
	data := append([]byte{}, sch.Data()...)
	const sigAt, wAt = refhash.IDSize, refhash.IDSize + refhash.SigSize
	other := func(n int) int { return n%3 + 1 }
	pos := -1
	switch mut {
	case "none":
	case "idFirst", "idMid", "idLast":
		pos = pick(r, suffixClass(mut), 0, 32)
		data[pos] ^= nz(r)
	case "sigR":
		pos = sigAt + r.Intn(32)
		data[pos] ^= nz(r)
	case "sigS":
		pos = sigAt + 32 + r.Intn(32)
		data[pos] ^= nz(r)
	case "sigVadd1", "sigVadd2", "sigVadd3", "sigVadd4", "sigVadd5", "sigVadd8", "sigVadd128", "sigVadd229", "sigVadd252", "sigVadd255":
		var d int
		fmt.Sscanf(mut, "sigVadd%d", &d)
		pos = sigAt + 64
		ev["v0"] = int(data[pos])
		data[pos] += byte(d)
	case "sigZero":
		copy(data[sigAt:wAt], make([]byte, refhash.SigSize))
	case "wspan":
		pos = wAt + r.Intn(8)
		data[pos] ^= nz(r)
	case "wdataFirst":
		pos = wAt + 8
		data[pos] ^= nz(r)
	case "wdataLast":
		pos = len(data) - 1
		data[pos] ^= nz(r)
	case "addrFirst", "addrMid", "addrLast":
		pos = pick(r, suffixClass(mut), 0, 32)
		addr[pos] ^= nz(r)
	case "truncBelowMin":
		data = data[:refhash.SocMin-1]
	case "trunc1":
		data = data[:len(data)-1]
	case "ext1":
		data = append(data, nz(r))
	case "ownerSwap": // the address commits to another key's owner
		addr = refhash.SocAddress(id, refhash.Owner(&refhash.Key(keyOf(other(k))).PublicKey))
	case "idSwap": // the address commits to another id
		addr = refhash.SocAddress(idOf(other(i)), owner)
	case "sigByOtherKey": // same message, signed by another key
		data, err = refhash.SignSoc(refhash.Key(keyOf(other(k))), id, waddr, wrapped)
	case "sigOverOtherId": // the owner's signature over another id
		var d2 []byte
		d2, err = refhash.SignSoc(priv, idOf(other(i)), waddr, wrapped)
		if err == nil {
			copy(data[sigAt:wAt], d2[sigAt:wAt])
		}
	case "sigOverOtherWrapped": // the owner's signature over another wrapped address
		data, err = refhash.SignSoc(priv, id, refhash.Keccak(waddr), wrapped)
	default:
		return fmt.Errorf("unknown soc mutation %q", mut)
	}
	if err != nil {
		return err
	}
	var valid bool
	p, _ = kit.Guard(func() { valid = soc.Valid(boson.NewChunk(boson.NewAddress(addr), data)) })
	v := refhash.Soc(addr, data)
	ev["plen"], ev["wok"], ev["rec"], ev["com"] = len(data), v.WrappedOK, v.Recovered, v.Commits
	ev["valid"], ev["panicked"], ev["pos"] = valid, p, pos
	out.Emit(ev)
	return nil
}

func main() {
	kit.Main(func(scs []kit.Scenario, out *kit.Out) error {
		for _, sc := range scs {
			out.Begin(sc.Scn, kit.Ev{})
			for _, op := range sc.Ops {
				var err error
				switch kit.Str(op, "op") {
				case "new":
					opNew(op, out)
				case "newspan":
					opNewSpan(op, out)
				case "valid":
					err = opValid(op, out)
				case "soc":
					err = opSoc(op, out)
				default:
					err = fmt.Errorf("unknown op %v", op["op"])
				}
				if err != nil {
					return err
				}
			}
		}
		return nil
	})
}
