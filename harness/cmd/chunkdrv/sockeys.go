package main

// Keys of a class for the single-owner cases of spec/chunk/SOCGen.tla: a class is the exact
// number of leading zero bytes of the 32-byte secret scalar (dz), of the public X coordinate
// (xz) and of Y (yz).  The idx-th key of a class is found by walking a stream of candidate
// scalars derived from VERIF_SEED (keccak of a label and a counter, the first dz bytes
// zeroed); public keys are computed with btcec through internal/refhash.  Nothing is cached
// outside the process.

import (
	"crypto/ecdsa"
	"fmt"
	"math/big"

	"verifharness/internal/kit"
	"verifharness/internal/refhash"
)

type keyClass struct{ dz, xz, yz int }

type classStream struct {
	next  int
	found []*ecdsa.PrivateKey
}

var classStreams = map[keyClass]*classStream{}

// leadZ: leading zero bytes of the 32-byte big-endian form of n.
func leadZ(n *big.Int) int {
	z := 32 - (n.BitLen()+7)/8
	if z < 0 {
		z = 0
	}
	return z
}

const classSearchLimit = 1 << 22

func classKey(idx int, c keyClass) (*ecdsa.PrivateKey, error) {
	if idx < 1 || c.dz < 0 || c.dz > 30 || c.xz < 0 || c.yz < 0 || c.xz+c.yz > 2 {
		return nil, fmt.Errorf("key class %+v #%d not supported", c, idx)
	}
	st := classStreams[c]
	if st == nil {
		st = &classStream{}
		classStreams[c] = st
	}
	for len(st.found) < idx {
		if st.next >= classSearchLimit {
			return nil, fmt.Errorf("key class %+v: no key #%d among %d candidates", c, idx, st.next)
		}
		b := refhash.Keccak([]byte(fmt.Sprintf("verif-soc-classkey-seed-%d-dz-%d-%d", kit.Seed(), c.dz, st.next)))
		st.next++
		for i := 0; i < c.dz; i++ {
			b[i] = 0
		}
		if c.dz == 0 {
			b[0] &= 0x7f // below the group order
		}
		k := refhash.Key(b)
		if k == nil || k.D.Sign() == 0 || leadZ(k.D) != c.dz || leadZ(k.PublicKey.X) != c.xz || leadZ(k.PublicKey.Y) != c.yz {
			continue
		}
		st.found = append(st.found, k)
	}
	return st.found[idx-1], nil
}
