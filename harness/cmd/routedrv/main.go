// routedrv: conformance driver for pkg/routetab.
//
//	par.kind = "table": C27, one route table (table.go)
//	par.kind = "net":   C28, several real routetab.Service instances joined by a
//	                    queueing streamer; TLC-generated schedules are forced (net.go)
//
// The driver holds no oracle; RouteTableTrace.tla / RouteDiscoveryTrace.tla judge the log.
package main

import (
	"fmt"
	"os"
	"runtime/pprof"

	"verifharness/internal/kit"
)

func main() {
	if p := os.Getenv("VERIF_CPUPROFILE"); p != "" { // developer aid only
		if f, err := os.Create(p); err == nil {
			_ = pprof.StartCPUProfile(f)
			defer pprof.StopCPUProfile()
		}
	}
	kit.Main(func(scs []kit.Scenario, out *kit.Out) error {
		var tables, nets []kit.Scenario
		for _, sc := range scs {
			switch kit.Str(sc.Par, "kind") {
			case "table":
				tables = append(tables, sc)
			case "net":
				nets = append(nets, sc)
			default:
				return fmt.Errorf("scenario %d: unknown kind %q", sc.Scn, kit.Str(sc.Par, "kind"))
			}
		}
		if len(tables) > 0 {
			if err := execTables(tables, out); err != nil {
				return err
			}
		}
		if len(nets) > 0 {
			if err := execNets(nets, out); err != nil {
				return err
			}
		}
		return nil
	})
}
