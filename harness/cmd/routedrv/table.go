package main

// C27: the route table of one node (pkg/routetab/table.go) driven through
// SavePath / Delete / Gc / reload (ResumeRoutes; ResumePaths on a fresh table
// over the same store) and observed after every operation through Get,
// GetNextHop and the verif dump.  No oracle: everything is logged as observed.

import (
	"crypto/sha256"
	"fmt"
	"io/ioutil"
	"os"
	"sort"
	"sync"
	"sync/atomic"
	"time"

	"github.com/ethereum/go-ethereum/common"
	"github.com/gauss-project/aurorafs/pkg/boson"
	"github.com/gauss-project/aurorafs/pkg/logging"
	"github.com/gauss-project/aurorafs/pkg/routetab"
	"github.com/gauss-project/aurorafs/pkg/routetab/pb"
	ldbstore "github.com/gauss-project/aurorafs/pkg/statestore/leveldb"
	"github.com/gauss-project/aurorafs/pkg/statestore/mock"
	"github.com/gauss-project/aurorafs/pkg/storage"

	"verifharness/internal/kit"
	"verifharness/internal/routex"
)

// one coarse time step of the scenario (a "tick" operation sleeps this long;
// Gc(th) uses the expiry th*tick + tick/2)
const tickMs = 30

var tableNodes = []int{1, 2, 3, 4}

type tableImpl struct {
	name   string
	open   func() (storage.StateStorer, error)
	reopen bool // close and reopen the store itself on reload
}

func intsOf(v interface{}) []int {
	var out []int
	if l, ok := v.([]interface{}); ok {
		for _, x := range l {
			if f, ok := x.(float64); ok {
				out = append(out, int(f))
			}
		}
	}
	return out
}

func pathKey(items []boson.Address) common.Hash {
	var s []byte
	for _, a := range items {
		s = append(s, a.Bytes()...)
	}
	return sha256.Sum256(s)
}

type tableRun struct {
	book  *routex.Book
	known map[common.Hash][]int // every path this scenario ever offered, by key (fixture known by construction)
	tab   *routetab.Table
}

func (r *tableRun) observe(ev kit.Ev) {
	book := r.book
	// Get(t) for every node of the universe
	get := []interface{}{}
	for _, t := range tableNodes {
		ps, err := r.tab.Get(book.Addr(t))
		list := [][]int{}
		if err == nil {
			for _, p := range ps {
				list = append(list, book.Nums(p.Items))
			}
		}
		get = append(get, []interface{}{t, list})
	}
	ev["get"] = get
	// GetNextHop(t, skips) for no skip and every single skip
	hops := []interface{}{}
	for _, t := range tableNodes {
		skipSets := [][]int{{}}
		for _, s := range tableNodes {
			skipSets = append(skipSets, []int{s})
		}
		for _, sk := range skipSets {
			h := book.Nums(r.tab.GetNextHop(book.Addr(t), book.Addrs(sk)...))
			sort.Ints(h)
			hops = append(hops, []interface{}{t, sk, h})
		}
	}
	ev["hops"] = hops
	// dump of the route lists and of the stored paths
	routes, paths := r.tab.VerifDump()
	rl := []interface{}{}
	for _, t := range tableNodes {
		list := []interface{}{}
		for _, vr := range routes[book.Addr(t).String()] {
			items, ok := r.known[vr.Key]
			if !ok {
				items = []int{}
			}
			list = append(list, []interface{}{book.Num(vr.Neighbor), vr.HasPath, items})
		}
		rl = append(rl, []interface{}{t, list})
	}
	ev["routes"] = rl
	st := [][]int{}
	for _, p := range paths {
		st = append(st, book.Nums(p))
	}
	ev["stored"] = st
}

func runTable(sc kit.Scenario, im tableImpl) ([]kit.Ev, error) {
	store, err := im.open()
	if err != nil {
		return nil, err
	}
	defer func() { store.Close() }()
	book := routex.NewBook()
	self := book.Addr(9)
	r := &tableRun{book: book, known: map[common.Hash][]int{}}
	r.tab = routetab.VerifNewTable(self, store)
	alpha, maxttl := kit.Int(sc.Par, "alpha"), kit.Int(sc.Par, "maxttl")
	start := time.Now()
	us := func() int { return int(time.Since(start).Microseconds()) }

	var evs []kit.Ev
	first := kit.Ev{"op": "reset", "kind": "table", "impl": im.name, "alpha": alpha, "maxttl": maxttl, "us0": 0, "us1": 0,
		"panicked": false}
	r.observe(first)
	evs = append(evs, first)
	for _, op := range sc.Ops {
		name := kit.Str(op, "op")
		ev := kit.Ev{"op": name, "kind": "table", "impl": im.name, "alpha": alpha}
		var call func()
		switch name {
		case "save":
			p := intsOf(op["p"])
			ev["p"] = p
			addrs := book.Addrs(p)
			r.known[pathKey(addrs)] = p
			items := make([][]byte, 0, len(addrs))
			for _, a := range addrs {
				items = append(items, a.Bytes())
			}
			call = func() { r.tab.SavePath(&pb.Path{Items: items}) }
		case "del":
			p := intsOf(op["p"])
			ev["p"] = p
			addrs := book.Addrs(p)
			call = func() { r.tab.Delete(&routetab.Path{Items: addrs}) }
		case "gc":
			th := kit.Int(op, "th")
			exp := th*tickMs + tickMs/2
			ev["th"], ev["exp_ms"] = th, exp
			call = func() { r.tab.Gc(time.Duration(exp) * time.Millisecond) }
		case "tick":
			call = func() { time.Sleep(tickMs * time.Millisecond) }
		case "reload":
			call = func() {
				if im.reopen {
					if e := store.Close(); e != nil {
						panic("close: " + e.Error())
					}
					s2, e := im.open()
					if e != nil {
						panic("reopen: " + e.Error())
					}
					store = s2
				}
				// what Service.start does on a fresh table
				r.tab = routetab.VerifNewTable(self, store)
				r.tab.ResumeRoutes()
				r.tab.ResumePaths()
			}
		default:
			return nil, fmt.Errorf("table: unknown op %v", op["op"])
		}
		ev["us0"] = us()
		panicked, msg := kit.Guard(call)
		ev["us1"] = us()
		ev["panicked"] = panicked
		if panicked {
			ev["panic"] = msg
		}
		r.observe(ev)
		evs = append(evs, ev)
	}
	return evs, nil
}

// memPool holds the in-memory LevelDB stores of the workers (nil = not opened yet).
var memPool = func() chan storage.StateStorer {
	c := make(chan storage.StateStorer, 8)
	for i := 0; i < 8; i++ {
		c <- nil
	}
	return c
}()

// noClose keeps a pooled store open when a scenario "closes" it.
type noClose struct{ storage.StateStorer }

func (noClose) Close() error { return nil }

// wipe removes everything the route table persists (both key prefixes) and checks the store is empty of them.
func wipe(s storage.StateStorer) error {
	for _, prefix := range []string{"route_index_", "route_pathKey_"} {
		var keys []string
		if err := s.Iterate(prefix, func(k, _ []byte) (bool, error) {
			keys = append(keys, string(k))
			return false, nil
		}); err != nil {
			return err
		}
		for _, k := range keys {
			if err := s.Delete(k); err != nil {
				return err
			}
		}
		n := 0
		_ = s.Iterate(prefix, func(k, _ []byte) (bool, error) { n++; return false, nil })
		if n != 0 {
			return fmt.Errorf("wipe: %d keys left under %s", n, prefix)
		}
	}
	return nil
}

// execTables runs the table scenarios.  NeighborAlpha and MaxTTL are package
// globals: scenarios are grouped by (alpha, maxttl); within a group they run
// concurrently (they mostly sleep), events are emitted in scenario order.
func execTables(scs []kit.Scenario, out *kit.Out) error {
	logger := logging.New(ioutil.Discard, 0)
	type key struct{ a, m int }
	groups := map[key][]int{}
	var order []key
	for i, sc := range scs {
		k := key{kit.Int(sc.Par, "alpha"), kit.Int(sc.Par, "maxttl")}
		if k.a <= 0 || k.m <= 0 {
			return fmt.Errorf("table scenario %d: alpha/maxttl missing", sc.Scn)
		}
		if _, ok := groups[k]; !ok {
			order = append(order, k)
		}
		groups[k] = append(groups[k], i)
	}
	results := make([][][]kit.Ev, len(scs))
	var firstErr error
	var emu sync.Mutex
	for _, k := range order {
		routetab.NeighborAlpha = int32(k.a)
		atomic.StoreInt32(&routetab.MaxTTL, int32(k.m))
		sem := make(chan struct{}, 8)
		var wg sync.WaitGroup
		for _, idx := range groups[k] {
			idx := idx
			wg.Add(1)
			sem <- struct{}{}
			go func() {
				defer wg.Done()
				defer func() { <-sem }()
				sc := scs[idx]
				dir, err := ioutil.TempDir("", "verif-route")
				if err != nil {
					emu.Lock()
					firstErr = err
					emu.Unlock()
					return
				}
				defer os.RemoveAll(dir)
				// an in-memory LevelDB store costs ~0.25 s to open: one per worker, emptied between scenarios
				mem := <-memPool
				defer func() { memPool <- mem }()
				if mem == nil {
					var e error
					if mem, e = ldbstore.NewInMemoryStateStore(logger); e != nil {
						emu.Lock()
						firstErr = e
						emu.Unlock()
						return
					}
				}
				if e := wipe(mem); e != nil {
					emu.Lock()
					firstErr = e
					emu.Unlock()
					return
				}
				impls := []tableImpl{
					{"mock", func() (storage.StateStorer, error) { return mock.NewStateStore(), nil }, false},
					{"leveldb-mem", func() (storage.StateStorer, error) { return noClose{mem}, nil }, false},
					{"leveldb-disk", func() (storage.StateStorer, error) { return ldbstore.NewStateStore(dir, logger) }, true},
				}
				// the mock store is per open(): keep one instance per scenario run
				var mk storage.StateStorer
				impls[0].open = func() (storage.StateStorer, error) {
					if mk == nil {
						mk = mock.NewStateStore()
					}
					return mk, nil
				}
				for _, im := range impls {
					if im.reopen && !kit.Bool(sc.Par, "disk") {
						continue
					}
					evs, err := runTable(sc, im)
					if err != nil {
						emu.Lock()
						if firstErr == nil {
							firstErr = err
						}
						emu.Unlock()
						return
					}
					results[idx] = append(results[idx], evs)
				}
			}()
		}
		wg.Wait()
		if firstErr != nil {
			return firstErr
		}
	}
	for i, sc := range scs {
		for _, evs := range results[i] {
			for j, ev := range evs {
				if j == 0 {
					delete(ev, "op")
					out.Begin(sc.Scn, ev)
				} else {
					out.Emit(ev)
				}
			}
		}
	}
	return nil
}
