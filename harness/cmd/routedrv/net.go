package main

// C28: several real routetab.Service instances (real kademlia.Kad each, wired as
// pkg/routetab/route_test.go does) in one process, joined by a p2p.Streamer that
// QUEUES every message.  The scenario (a TLC behaviour of RouteDiscovery.tla)
// says which FindRoute calls are made, which queued message is delivered or
// lost next, when pending tables expire, and which alpha neighbours a node
// picks (forced through the peers' reachability status, which getNeighbor
// prefers).  After every step the acting node's table, pending table and
// address book, the messages it sent and the FindRoute calls that returned are
// logged as observed.  No oracle here.

import (
	"bytes"
	"context"
	"crypto/sha256"
	"errors"
	"fmt"
	"io/ioutil"
	"runtime"
	"sort"
	"strings"
	"sync"
	"sync/atomic"
	"time"

	"github.com/gauss-project/aurorafs/pkg/addressbook"
	"github.com/gauss-project/aurorafs/pkg/aurora"
	"github.com/gauss-project/aurorafs/pkg/boson"
	"github.com/gauss-project/aurorafs/pkg/crypto"
	discmock "github.com/gauss-project/aurorafs/pkg/discovery/mock"
	"github.com/gauss-project/aurorafs/pkg/logging"
	"github.com/gauss-project/aurorafs/pkg/p2p"
	p2pmock "github.com/gauss-project/aurorafs/pkg/p2p/mock"
	"github.com/gauss-project/aurorafs/pkg/p2p/protobuf"
	"github.com/gauss-project/aurorafs/pkg/routetab"
	"github.com/gauss-project/aurorafs/pkg/routetab/pb"
	"github.com/gauss-project/aurorafs/pkg/shed"
	mockstate "github.com/gauss-project/aurorafs/pkg/statestore/mock"
	"github.com/gauss-project/aurorafs/pkg/subscribe"
	"github.com/gauss-project/aurorafs/pkg/topology/kademlia"
	"github.com/gauss-project/aurorafs/pkg/topology/lightnode"
	ma "github.com/multiformats/go-multiaddr"

	"verifharness/internal/kit"
	"verifharness/internal/routex"
)

const (
	netNetworkID  = uint64(0)
	underlayBase  = "/ip4/127.0.0.1/tcp/1634/dns/"
	drainCap      = 3000 // safety stop of the final drain (far above any model bound)
	streamReq     = "onRouteReq"
	streamResp    = "onRouteResp"
	streamRelayCC = routetab.StreamOnRelayConnChain
)

var fullMode = aurora.NewModel().SetMode(aurora.FullNode)

// p2ps is the p2p.Service given to kademlia and routetab: the repository's mock,
// plus a recording CallHandlerWithConnChain (the mock panics there).
type p2ps struct {
	*p2pmock.Service
	mu        sync.Mutex
	delivered int
}

func (s *p2ps) CallHandlerWithConnChain(ctx context.Context, last, src p2p.Peer, stream p2p.Stream, protocolName, protocolVersion, streamName string) error {
	s.mu.Lock()
	s.delivered++
	s.mu.Unlock()
	return nil
}

type find struct {
	t      int
	cancel context.CancelFunc
	done   chan struct{}
	paths  [][]int
	err    string
}

// parkedHandler is a relay handler that waits inside FindRoute.
type parkedHandler struct {
	dest     int
	cancel   context.CancelFunc
	finished chan struct{}
	herr     error
	panicked bool
	pmsg     string
}

type node struct {
	parked  *parkedHandler
	i       int
	addr    *aurora.Address
	overlay boson.Address
	book    addressbook.Interface
	kad     *kademlia.Kad
	p2p     *p2ps
	svc     *routetab.Service
	db      *shed.DB
	nbrs    []int
	finds   map[int]*find
}

// doneCtx tells the driver when FindRoute itself asks for ctx.Done(): it does so
// in the select in which it waits for a response, i.e. after all its requests have
// been handed to the streamer (the context package also calls Done when a child
// context is derived; those calls do not come from FindRoute and are ignored).
type doneCtx struct {
	context.Context
	n    int32
	wake chan struct{}
}

func (c *doneCtx) Done() <-chan struct{} {
	var pcs [1]uintptr
	if runtime.Callers(2, pcs[:]) == 1 {
		f, _ := runtime.CallersFrames(pcs[:]).Next()
		if strings.HasSuffix(f.Function, ".FindRoute") {
			atomic.AddInt32(&c.n, 1)
			select {
			case c.wake <- struct{}{}:
			default:
			}
		}
	}
	return c.Context.Done()
}

type netRun struct {
	book        *routex.Book
	net         *routex.Net
	nodes       map[int]*node
	order       []int
	ctx         context.Context
	stop        context.CancelFunc
	alpha       int
	maxttl      int
	sent        int // messages ever queued (incl. injected)
	lost        int
	deliv       int
	nfinds      int
	ninj        int
	relaySearch int // relay deliveries that started a route search of their own
	seen        int // highest stream sequence number already reported
	inject      []*routex.Sent
}

// kademlia wants a shed.DB for its peer-metrics collector.  Opening an in-memory one
// costs ~0.25 s (LevelDB clears a large write buffer) and nothing is ever written to
// it here (the collector only persists on Flush/Finalize, which are not called): all
// nodes of all scenarios share one.
var (
	metricsOnce sync.Once
	metricsDB   *shed.DB
	metricsErr  error
)

func sharedMetricsDB() (*shed.DB, error) {
	metricsOnce.Do(func() { metricsDB, metricsErr = shed.NewDB("", nil) })
	return metricsDB, metricsErr
}

func newNode(i int, ctx context.Context, nt *routex.Net, alpha int, logger logging.Logger) (*node, error) {
	h := sha256.Sum256([]byte(fmt.Sprintf("verif-routetab-node-%d", i)))
	pk := crypto.Secp256k1PrivateKeyFromBytes(h[:])
	signer := crypto.NewDefaultSigner(pk)
	overlay, err := crypto.NewOverlayAddress(pk.PublicKey, netNetworkID)
	if err != nil {
		return nil, err
	}
	mu, err := ma.NewMultiaddr(underlayBase + overlay.String())
	if err != nil {
		return nil, err
	}
	addr, err := aurora.NewAddress(signer, mu, overlay, netNetworkID)
	if err != nil {
		return nil, err
	}
	db, err := sharedMetricsDB()
	if err != nil {
		return nil, err
	}
	ab := addressbook.New(mockstate.NewStateStore())
	ps := &p2ps{Service: p2pmock.New(
		p2pmock.WithConnectFunc(func(ctx context.Context, underlay ma.Multiaddr) (*p2p.Peer, error) {
			return nil, errors.New("verif: no dialing")
		}),
		p2pmock.WithDisconnectFunc(func(boson.Address, string) error { return nil }),
	)}
	kad, err := kademlia.New(overlay, ab, discmock.NewDiscovery(), ps, nil, nil, nil, db, logger, subscribe.NewSubPub(),
		kademlia.Options{BinMaxPeers: 10, NodeMode: fullMode})
	if err != nil {
		return nil, err
	}
	ps.SetPickyNotifier(kad)
	svc := routetab.New(overlay, ctx, ps, nt.Streamer(i), ab, netNetworkID, lightnode.NewContainer(overlay), kad,
		mockstate.NewStateStore(), logger, routetab.Options{Alpha: int32(alpha)})
	return &node{i: i, addr: addr, overlay: overlay, book: ab, kad: kad, p2p: ps, svc: svc, db: db, finds: map[int]*find{}}, nil
}

func (r *netRun) connect(a, b *node) error {
	if err := a.book.Put(b.overlay, *b.addr); err != nil {
		return err
	}
	if err := a.kad.Connected(r.ctx, p2p.Peer{Address: b.overlay, Mode: fullMode}, true); err != nil {
		return err
	}
	a.nbrs = append(a.nbrs, b.i)
	return nil
}

func (r *netRun) disconnect(a, b *node) {
	a.kad.Disconnected(p2p.Peer{Address: b.overlay, Mode: fullMode}, "verif: link down")
	var nb []int
	for _, v := range a.nbrs {
		if v != b.i {
			nb = append(nb, v)
		}
	}
	a.nbrs = nb
}

// force makes exactly the neighbours in fwd "public" at node n (getNeighbor takes
// public peers first); nil fwd = no preference recorded by the scenario.
func (r *netRun) force(n *node, fwd []int) {
	for _, v := range n.nbrs {
		n.kad.Reachable(r.book.Addr(v), p2p.ReachabilityStatusPrivate)
	}
	for _, v := range fwd {
		n.kad.Reachable(r.book.Addr(v), p2p.ReachabilityStatusPublic)
	}
}

// ---- decoding of queued messages ------------------------------------------------

type msg struct {
	K     string  `json:"k"`
	From  int     `json:"from"`
	To    int     `json:"to"`
	Dest  int     `json:"dest"`
	Paths [][]int `json:"paths"`
	Alpha int     `json:"alpha"`
	U     bool    `json:"u"`
	Bad   string  `json:"-"`
}

func (m msg) ev() kit.Ev {
	paths := m.Paths
	if paths == nil {
		paths = [][]int{}
	}
	return kit.Ev{"k": m.K, "from": m.From, "to": m.To, "dest": m.Dest, "paths": paths, "alpha": m.Alpha, "u": m.U}
}

func (r *netRun) decode(s *routex.Sent) msg {
	m := msg{From: s.From, To: r.book.Num(s.To), K: "other:" + s.Stream}
	rd := protobuf.NewReader(bytes.NewReader(s.Bytes()))
	switch s.Stream {
	case streamReq:
		var q pb.RouteReq
		if err := rd.ReadMsg(&q); err != nil {
			m.Bad = err.Error()
			return m
		}
		m.K, m.Dest, m.Alpha = "req", r.book.Num(boson.NewAddress(q.Dest)), int(q.Alpha)
		for _, p := range q.Paths {
			m.Paths = append(m.Paths, r.book.NumsBytes(p.Items))
		}
		m.U = len(q.UList) > 0
	case streamResp:
		var q pb.RouteResp
		if err := rd.ReadMsg(&q); err != nil {
			m.Bad = err.Error()
			return m
		}
		m.K, m.Dest = "resp", r.book.Num(boson.NewAddress(q.Dest))
		for _, p := range q.Paths {
			m.Paths = append(m.Paths, r.book.NumsBytes(p.Items))
		}
		m.U = len(q.UList) > 0
	case streamRelayCC:
		var q pb.RouteRelayReq
		if err := rd.ReadMsg(&q); err != nil {
			m.Bad = err.Error()
			return m
		}
		m.K, m.Dest = "relay", r.book.Num(boson.NewAddress(q.Dest))
		m.Paths = [][]int{r.book.NumsBytes(q.Paths)}
	}
	return m
}

func sameMsg(a msg, want map[string]interface{}) bool {
	if a.K != kit.Str(want, "k") || a.From != kit.Int(want, "from") || a.To != kit.Int(want, "to") || a.Dest != kit.Int(want, "dest") {
		return false
	}
	wp, _ := want["paths"].([]interface{})
	if len(wp) != len(a.Paths) {
		return false
	}
	for i, p := range wp {
		w := intsOf(p)
		if len(w) != len(a.Paths[i]) {
			return false
		}
		for j := range w {
			if w[j] != a.Paths[i][j] {
				return false
			}
		}
	}
	return true
}

// ---- observation ------------------------------------------------------------------

func (r *netRun) tableOf(n *node) (tab [][]int, get []interface{}) {
	_, paths := n.svc.VerifTable().VerifDump()
	tab = [][]int{}
	for _, p := range paths {
		tab = append(tab, r.book.Nums(p))
	}
	get = []interface{}{}
	for _, t := range r.order {
		ps, err := n.svc.GetRoute(r.ctx, r.book.Addr(t))
		list := [][]int{}
		if err == nil {
			for _, p := range ps {
				list = append(list, r.book.Nums(p.Items))
			}
		}
		get = append(get, []interface{}{t, list})
	}
	return
}

func (r *netRun) observe(ev kit.Ev, n *node) {
	if n != nil {
		ev["node"] = n.i
		ev["tab"], ev["get"] = r.tableOf(n)
		resp, req := n.svc.VerifPending()
		pr := []interface{}{}
		for _, t := range r.order {
			if srcs, ok := resp[r.book.Addr(t).String()]; ok && len(srcs) > 0 {
				pr = append(pr, []interface{}{t, r.book.Nums(srcs)})
			}
		}
		ev["pend_resp"] = pr
		rq := [][]int{}
		for _, t := range r.order {
			for _, v := range r.order {
				key := routetabReqKey(r.book.Addr(t), r.book.Addr(v))
				for _, k := range req {
					if k == key {
						rq = append(rq, []int{t, v})
					}
				}
			}
		}
		ev["pend_req"] = rq
		known := []int{}
		for _, t := range r.order {
			if a, err := n.book.Get(r.book.Addr(t)); err == nil && a != nil {
				known = append(known, t)
			}
		}
		ev["book"] = known
	} else {
		ev["node"] = 0
		ev["tab"], ev["get"], ev["pend_resp"], ev["pend_req"], ev["book"] = [][]int{}, []interface{}{}, []interface{}{}, [][]int{}, []int{}
	}
	// messages queued since the last report
	sent := []interface{}{}
	for _, s := range r.net.Since(r.seen) {
		injected := false
		for _, x := range r.inject {
			if x == s {
				injected = true
			}
		}
		if !injected {
			sent = append(sent, r.decode(s).ev())
			r.sent++
		}
	}
	r.seen = r.net.Seq()
	ev["sent"] = sent
	ev["qlen"] = len(r.net.Queue())
}

func routetabReqKey(target, next boson.Address) string { return target.String() + next.String() }

// collect reports the FindRoute calls of node n that have returned.
func (r *netRun) collect(ev kit.Ev, n *node, wait map[int]bool) {
	finds := []interface{}{}
	var ts []int
	for t := range n.finds {
		ts = append(ts, t)
	}
	sort.Ints(ts)
	for _, t := range ts {
		f := n.finds[t]
		if wait[t] {
			select {
			case <-f.done:
			case <-time.After(2 * time.Second):
			}
		}
		select {
		case <-f.done:
			paths := f.paths
			if paths == nil {
				paths = [][]int{}
			}
			finds = append(finds, kit.Ev{"n": n.i, "t": t, "ok": f.err == "", "err": f.err, "paths": paths})
			delete(n.finds, t)
		default:
		}
	}
	ev["finds"] = finds
}

func hasSelf(srcs []boson.Address, self boson.Address) bool {
	for _, s := range srcs {
		if s.Equal(self) {
			return true
		}
	}
	return false
}

// ---- operations -------------------------------------------------------------------

func (r *netRun) opFind(op map[string]interface{}) (kit.Ev, error) {
	n, ok := r.nodes[kit.Int(op, "n")]
	if !ok {
		return nil, fmt.Errorf("find: unknown node %v", op["n"])
	}
	t := kit.Int(op, "t")
	fwd := intsOf(op["fwd"])
	ev := kit.Ev{"op": "find", "n": n.i, "t": t, "fwd": orEmpty(fwd)}
	if _, busy := n.finds[t]; busy {
		return nil, fmt.Errorf("find: node %d already searches %d", n.i, t)
	}
	routetab.VerifUseCache(n.i)
	r.force(n, fwd)
	cctx, cancel := context.WithCancel(r.ctx)
	dc := &doneCtx{Context: cctx, wake: make(chan struct{}, 8)}
	f := &find{t: t, cancel: cancel, done: make(chan struct{})}
	n.finds[t] = f
	r.nfinds++
	go func() {
		defer close(f.done)
		paths, err := n.svc.FindRoute(dc, r.book.Addr(t), time.Hour)
		if err != nil {
			f.err = err.Error()
		}
		for _, p := range paths {
			f.paths = append(f.paths, r.book.Nums(p.Items))
		}
	}()
	// wait until FindRoute has returned or has started to wait for a response
	deadline := time.After(500 * time.Millisecond)
wait:
	for {
		select {
		case <-f.done:
			break wait
		case <-dc.wake:
			if atomic.LoadInt32(&dc.n) >= 1 {
				break wait
			}
		case <-deadline:
			break wait
		}
	}
	r.collect(ev, n, nil)
	r.observe(ev, n)
	return ev, nil
}

func orEmpty(a []int) []int {
	if a == nil {
		return []int{}
	}
	return a
}

// deliver hands a queued (or injected) message to the handler of its destination.
func (r *netRun) deliver(s *routex.Sent, m msg, fwd []int, forced bool) kit.Ev {
	ev := kit.Ev{"op": "deliver", "m": m.ev(), "fwd": orEmpty(fwd), "forced": forced}
	r.net.Take(s)
	r.deliv++
	n, ok := r.nodes[m.To]
	if !ok || m.Bad != "" {
		ev["handled"] = false
		ev["herr"] = "undeliverable " + m.Bad
		ev["panicked"] = false
		r.collectNone(ev)
		r.observe(ev, nil)
		return ev
	}
	routetab.VerifUseCache(n.i)
	r.force(n, fwd)
	h := routex.Handler(n.svc.Protocol(), s.Stream)
	// was a FindRoute of this node waiting for this destination?
	before, _ := n.svc.VerifPending()
	waitingSelf := hasSelf(before[r.book.Addr(m.Dest).String()], n.overlay)
	cctx, hcancel := context.WithCancel(r.ctx)
	hctx := &doneCtx{Context: cctx, wake: make(chan struct{}, 8)}
	ph := &parkedHandler{dest: m.Dest, cancel: hcancel, finished: make(chan struct{})}
	go func() {
		defer close(ph.finished)
		ph.panicked, ph.pmsg = kit.Guard(func() {
			ph.herr = h(hctx, p2p.Peer{Address: r.book.Addr(m.From), Mode: fullMode}, routex.NewIncoming(s.Bytes()))
		})
	}()
	parked := false
	deadline := time.After(500 * time.Millisecond)
wait:
	for {
		select {
		case <-ph.finished:
			break wait
		case <-hctx.wake:
			// the handler (a relay without a stored next hop off its path) sits in FindRoute:
			// its requests are queued, the scenario goes on, the handler resumes when the search returns
			parked = true
			break wait
		case <-deadline:
			parked = true
			break wait
		}
	}
	ev["parked"] = parked
	ev["handled"] = true
	ev["herr"] = ""
	ev["panicked"] = false
	if parked {
		if old := n.parked; old != nil {
			old.cancel()
			<-old.finished
		}
		n.parked = ph
		r.relaySearch++
	} else {
		hcancel()
		if ph.herr != nil {
			ev["herr"] = ph.herr.Error()
		}
		ev["panicked"] = ph.panicked
		if ph.panicked {
			ev["panic"] = ph.pmsg
		}
	}
	wait := map[int]bool{}
	resumed := false
	if waitingSelf && m.K == "resp" {
		after, _ := n.svc.VerifPending()
		if !hasSelf(after[r.book.Addr(m.Dest).String()], n.overlay) {
			wait[m.Dest] = true
			// a parked relay handler of this node waits for this search: let it run to its end
			if p := n.parked; p != nil && p.dest == m.Dest && p != ph {
				select {
				case <-p.finished:
				case <-time.After(2 * time.Second):
					p.cancel()
					<-p.finished
				}
				n.parked = nil
				resumed = true
				if p.herr != nil {
					ev["resumed_err"] = p.herr.Error()
				}
				if p.panicked {
					ev["panicked"], ev["panic"] = true, p.pmsg
				}
			}
		}
	}
	ev["resumed"] = resumed
	r.collect(ev, n, wait)
	r.observe(ev, n)
	return ev
}

func (r *netRun) collectNone(ev kit.Ev) { ev["finds"] = []interface{}{} }

// findQueued looks the scheduled message up in the queue: exactly, or else (the
// implementation put other paths into it than the model's behaviour) the oldest
// queued message of the same kind between the same nodes for the same destination.
func (r *netRun) findQueued(want map[string]interface{}) (*routex.Sent, msg, bool) {
	q := r.net.Queue()
	for _, s := range q {
		m := r.decode(s)
		if sameMsg(m, want) {
			return s, m, true
		}
	}
	for _, s := range q {
		m := r.decode(s)
		if m.K == kit.Str(want, "k") && m.From == kit.Int(want, "from") && m.To == kit.Int(want, "to") && m.Dest == kit.Int(want, "dest") {
			return s, m, true
		}
	}
	return nil, msg{}, false
}

func (r *netRun) opInject(op map[string]interface{}) (kit.Ev, error) {
	want, _ := op["m"].(map[string]interface{})
	if want == nil || kit.Str(want, "k") != "relay" {
		return nil, fmt.Errorf("inject: relay message expected")
	}
	from, to, dest := kit.Int(want, "from"), kit.Int(want, "to"), kit.Int(want, "dest")
	wp, _ := want["paths"].([]interface{})
	var path []int
	if len(wp) > 0 {
		path = intsOf(wp[0])
	}
	req := &pb.RouteRelayReq{
		Src: r.book.Addr(path[0]).Bytes(), SrcMode: fullMode.Bv.Bytes(), Dest: r.book.Addr(dest).Bytes(),
		ProtocolName: []byte("verif"), ProtocolVersion: []byte("1.0.0"), StreamName: []byte("probe"),
	}
	for _, x := range path {
		req.Paths = append(req.Paths, r.book.Addr(x).Bytes())
	}
	// the sending neighbour is played by the harness: its stream is queued like any other
	st, err := r.net.Streamer(from).NewStream(r.ctx, r.book.Addr(to), nil, routetab.ProtocolName, routetab.ProtocolVersion, streamRelayCC)
	if err != nil {
		return nil, err
	}
	if err := protobuf.NewWriter(st).WriteMsg(req); err != nil {
		return nil, err
	}
	q := r.net.Queue()
	r.inject = append(r.inject, q[len(q)-1])
	r.ninj++
	r.sent++
	ev := kit.Ev{"op": "inject", "m": want}
	r.collectNone(ev)
	r.observe(ev, nil)
	return ev, nil
}

func runNet(sc kit.Scenario, logger logging.Logger) ([]kit.Ev, error) {
	par := sc.Par
	alpha, maxttl := kit.Int(par, "alpha"), kit.Int(par, "maxttl")
	if alpha <= 0 || maxttl <= 0 {
		return nil, fmt.Errorf("net scenario %d: alpha/maxttl missing", sc.Scn)
	}
	routetab.VerifResetCaches()
	routetab.PendingTimeout = time.Hour // expiry only when the scenario says so
	atomic.StoreInt32(&routetab.MaxTTL, int32(maxttl))
	ctx, stop := context.WithCancel(context.Background())
	r := &netRun{book: routex.NewBook(), net: routex.NewNet(), nodes: map[int]*node{}, ctx: ctx, stop: stop, alpha: alpha, maxttl: maxttl}
	defer stop()
	for _, x := range kit.IntList(par, "nodes") {
		n, err := newNode(x, ctx, r.net, alpha, logger)
		if err != nil {
			return nil, err
		}
		r.nodes[x] = n
		r.order = append(r.order, x)
		r.book.Set(x, n.overlay)
	}
	sort.Ints(r.order)
	routetab.NeighborAlpha = int32(alpha)
	links := [][]int{}
	for _, l := range kit.List(par, "links") {
		ab := intsOf(l)
		if len(ab) != 2 {
			return nil, fmt.Errorf("net scenario %d: bad link %v", sc.Scn, l)
		}
		sort.Ints(ab)
		a, b := r.nodes[ab[0]], r.nodes[ab[1]]
		if a == nil || b == nil {
			return nil, fmt.Errorf("net scenario %d: link %v joins unknown nodes", sc.Scn, ab)
		}
		if err := r.connect(a, b); err != nil {
			return nil, err
		}
		if err := r.connect(b, a); err != nil {
			return nil, err
		}
		links = append(links, ab)
	}
	// underlays a node has heard of (peer gossip) without being linked to their owner: address book only
	heard := [][]int{}
	for _, l := range kit.List(par, "heard") {
		nt := intsOf(l)
		if len(nt) != 2 || r.nodes[nt[0]] == nil || r.nodes[nt[1]] == nil {
			return nil, fmt.Errorf("net scenario %d: bad heard pair %v", sc.Scn, l)
		}
		if err := r.nodes[nt[0]].book.Put(r.nodes[nt[1]].overlay, *r.nodes[nt[1]].addr); err != nil {
			return nil, err
		}
		heard = append(heard, nt)
	}
	depths := []int{}
	for _, x := range r.order {
		r.force(r.nodes[x], nil)
		depths = append(depths, int(r.nodes[x].kad.NeighborhoodDepth()))
	}
	var evs []kit.Ev
	first := kit.Ev{"op": "reset", "kind": "net", "nodes": r.order, "links": links, "alpha": alpha, "maxttl": maxttl, "depths": depths,
		"heard": heard, "panicked": false}
	r.collectNone(first)
	r.observe(first, nil)
	evs = append(evs, first)

	for _, op := range sc.Ops {
		var ev kit.Ev
		var err error
		switch kit.Str(op, "op") {
		case "find":
			ev, err = r.opFind(op)
		case "deliver", "lose":
			want, _ := op["m"].(map[string]interface{})
			s, m, ok := r.findQueued(want)
			if !ok {
				// the implementation did not send what the model's behaviour delivers here
				ev = kit.Ev{"op": "miss", "what": kit.Str(op, "op"), "m": want}
				r.collectNone(ev)
				r.observe(ev, nil)
			} else if kit.Str(op, "op") == "lose" {
				r.net.Take(s)
				r.lost++
				ev = kit.Ev{"op": "lose", "m": m.ev()}
				r.collectNone(ev)
				r.observe(ev, nil)
			} else {
				ev = r.deliver(s, m, intsOf(op["fwd"]), true)
			}
		case "expire":
			n := r.nodes[kit.Int(op, "n")]
			if n == nil {
				return nil, fmt.Errorf("expire: unknown node")
			}
			n.svc.VerifPendingExpire(0)
			ev = kit.Ev{"op": "expire", "n": n.i}
			r.collect(ev, n, nil)
			r.observe(ev, n)
		case "cancel":
			n := r.nodes[kit.Int(op, "n")]
			if n == nil {
				return nil, fmt.Errorf("cancel: unknown node")
			}
			t := kit.Int(op, "t")
			ev = kit.Ev{"op": "cancel", "n": n.i, "t": t}
			routetab.VerifUseCache(n.i)
			wait := map[int]bool{}
			if f, ok := n.finds[t]; ok {
				f.cancel()
				wait[t] = true
			}
			r.collect(ev, n, wait)
			r.observe(ev, n)
		case "inject":
			ev, err = r.opInject(op)
		case "linkdown", "linkup":
			a, b := r.nodes[kit.Int(op, "a")], r.nodes[kit.Int(op, "b")]
			if a == nil || b == nil {
				return nil, fmt.Errorf("%s: unknown node", kit.Str(op, "op"))
			}
			ev = kit.Ev{"op": kit.Str(op, "op"), "a": a.i, "b": b.i}
			if kit.Str(op, "op") == "linkup" {
				if err = r.connect(a, b); err == nil {
					err = r.connect(b, a)
				}
			} else {
				r.disconnect(a, b)
				r.disconnect(b, a)
			}
			r.collectNone(ev)
			r.observe(ev, nil)
		default:
			return nil, fmt.Errorf("net: unknown op %v", op["op"])
		}
		if err != nil {
			return nil, err
		}
		if _, ok := ev["panicked"]; !ok {
			ev["panicked"] = false
		}
		evs = append(evs, ev)
	}

	// drain: whatever is still queued is delivered oldest first; a node that has to pick
	// alpha neighbours gets the lowest-numbered ones that are not on the request's path
	drained := 0
	for drained < drainCap {
		q := r.net.Queue()
		if len(q) == 0 {
			break
		}
		s := q[0]
		m := r.decode(s)
		var fwd []int
		if n, ok := r.nodes[m.To]; ok && m.K == "req" && len(m.Paths) > 0 {
			on := map[int]bool{}
			for _, x := range m.Paths[0] {
				on[x] = true
			}
			nb := append([]int(nil), n.nbrs...)
			sort.Ints(nb)
			a := m.Alpha
			if a <= 0 {
				a = alpha
			}
			for _, v := range nb {
				if !on[v] && len(fwd) < a {
					fwd = append(fwd, v)
				}
			}
		}
		ev := r.deliver(s, m, fwd, false)
		evs = append(evs, ev)
		drained++
	}
	// relay handlers still waiting in FindRoute give up (their stream ends)
	for _, x := range r.order {
		if p := r.nodes[x].parked; p != nil {
			routetab.VerifUseCache(x)
			p.cancel()
			<-p.finished
			r.nodes[x].parked = nil
		}
	}
	// FindRoute calls still waiting give up (their caller's context ends)
	end := kit.Ev{"op": "end", "panicked": false}
	finds := []interface{}{}
	for _, x := range r.order {
		n := r.nodes[x]
		routetab.VerifUseCache(n.i)
		wait := map[int]bool{}
		for t, f := range n.finds {
			f.cancel()
			wait[t] = true
		}
		tmp := kit.Ev{}
		r.collect(tmp, n, wait)
		finds = append(finds, tmp["finds"].([]interface{})...)
	}
	end["finds"] = finds
	r.observe(end, nil)
	tabs := []interface{}{}
	for _, x := range r.order {
		tab, get := r.tableOf(r.nodes[x])
		tabs = append(tabs, []interface{}{x, tab, get})
	}
	end["tabs"] = tabs
	end["total_sent"], end["delivered"], end["lost"], end["left"] = r.sent, r.deliv, r.lost, len(r.net.Queue())
	end["nfinds"], end["ninjects"], end["drained"], end["capped"] = r.nfinds, r.ninj, drained, drained >= drainCap
	reached := 0
	for _, x := range r.order {
		reached += r.nodes[x].p2p.delivered
	}
	end["relays_reached_target"] = reached
	end["relay_searches"] = r.relaySearch
	evs = append(evs, end)
	return evs, nil
}

func execNets(scs []kit.Scenario, out *kit.Out) error {
	logger := logging.New(ioutil.Discard, 0)
	for _, sc := range scs {
		evs, err := runNet(sc, logger)
		if err != nil {
			return err
		}
		for j, ev := range evs {
			if j == 0 {
				delete(ev, "op")
				out.Begin(sc.Scn, ev)
			} else {
				out.Emit(ev)
			}
		}
	}
	return nil
}
