package main

// Forced schedules (par.tree = "forced"): the scenario is a behaviour of spec/bmt/BMTSched.tla,
// i.e. API calls interleaved with gate passages.  The goroutines of the real hasher park at the
// gates of pkg/bmt/verif_gate.go and are let through one at a time in the prescribed order.
// If the real code does not offer the gate the model predicts, the schedule is abandoned
// (followed = false, a conformance note), all gates are opened and the hash completes freely.

import (
	"encoding/hex"
	"fmt"
	"sync"
	"sync/atomic"
	"time"

	"github.com/gauss-project/aurorafs/pkg/bmt"
	"golang.org/x/crypto/sha3"

	"verifharness/internal/kit"
)

type gateKey struct {
	kind, level, index int
	flag               bool
}

type controller struct {
	mu       sync.Mutex
	parked   map[gateKey][]chan struct{}
	arrivals int
	sends    int
	open     bool
}

var controllers sync.Map // *bmt.Hasher -> *controller

func gateDispatch(ev bmt.VerifGateEvent) {
	if c, ok := controllers.Load(ev.Hasher); ok {
		c.(*controller).gate(ev)
	}
}

func (c *controller) gate(ev bmt.VerifGateEvent) {
	c.mu.Lock()
	if ev.Kind == bmt.VerifGateSend {
		c.sends++
	}
	if c.open {
		c.mu.Unlock()
		return
	}
	k := gateKey{ev.Kind, ev.Level, ev.Index, ev.Flag}
	if ev.Kind == bmt.VerifGateSend {
		k = gateKey{kind: ev.Kind}
	}
	ch := make(chan struct{})
	c.parked[k] = append(c.parked[k], ch)
	c.arrivals++
	c.mu.Unlock()
	<-ch
}

const gateWait = 3 * time.Second

// poll waits until cond() holds (checked under the lock).
func (c *controller) poll(cond func() bool) bool {
	deadline := time.Now().Add(gateWait)
	for {
		c.mu.Lock()
		ok := cond()
		c.mu.Unlock()
		if ok {
			return true
		}
		if time.Now().After(deadline) {
			return false
		}
		time.Sleep(20 * time.Microsecond)
	}
}

// release lets the goroutine parked at k pass (waits for it to arrive first).
func (c *controller) release(k gateKey) bool {
	var ch chan struct{}
	ok := c.poll(func() bool {
		if l := c.parked[k]; len(l) > 0 {
			ch = l[0]
			c.parked[k] = l[1:]
			return true
		}
		return false
	})
	if ok {
		close(ch)
	}
	return ok
}

func (c *controller) openAll() {
	c.mu.Lock()
	c.open = true
	for k, l := range c.parked {
		for _, ch := range l {
			close(ch)
		}
		delete(c.parked, k)
	}
	c.mu.Unlock()
}

func runForced(sc kit.Scenario) (begin kit.Ev, evs []kit.Ev, err error) {
	segs := kit.Int(sc.Par, "segs")
	pool := bmt.NewPool(bmt.NewConf(sha3.NewLegacyKeccak256, segs, 1))
	ev := evaluator(segs)
	begin = kit.Ev{"tree": "forced", "segs": segs, "poolcap": 1, "cap": 0}
	rng := kit.Rng(int64(sc.Scn))
	var h *bmt.Hasher
	var c *controller
	var data []byte
	followed := true
	type res struct {
		d   []byte
		err error
	}
	var done chan res
	var pending kit.Ev
	defer func() {
		if c != nil {
			c.openAll()
		}
		if h != nil {
			controllers.Delete(h)
		}
	}()
	for _, op := range sc.Ops {
		name := kit.Str(op, "op")
		e := kit.Ev{"op": name, "h": 1}
		switch name {
		case "get":
			if h != nil {
				controllers.Delete(h)
			}
			h = pool.Get()
			c = &controller{parked: map[gateKey][]chan struct{}{}, open: !followed}
			controllers.Store(h, c)
			data = nil
			begin["cap"] = h.Capacity()
			e["capacity"] = h.Capacity()
		case "hdr":
			b, _, herr := headerBytes(kit.Str(op, "x"))
			if herr != nil {
				return nil, nil, herr
			}
			h.SetHeader(b)
			e["x"] = kit.Str(op, "x")
		case "write":
			n := kit.Int(op, "n") * 32 // the model counts segments
			b := make([]byte, n)
			rng.Read(b)
			ret, werr := h.Write(b)
			data = append(data, b...)
			e["n"], e["ret"], e["err"] = n, ret, errs(werr)
		case "hashstart":
			wantLen, class := kit.Int(op, "len")*32, kit.Str(op, "hdr")
			if wantLen > len(data) {
				return nil, nil, fmt.Errorf("scenario %d: hash term of %d bytes but only %d were written", sc.Scn, wantLen, len(data))
			}
			span, _, herr := headerBytes(class)
			if herr != nil {
				return nil, nil, herr
			}
			c.mu.Lock()
			c.sends = 0
			c.mu.Unlock()
			pending = kit.Ev{"op": "hash", "h": 1, "refLen": wantLen, "refHdr": class, "forced": true,
				"digestRef": hex.EncodeToString(ev.Digest(span, data[:wantLen]))}
			done = make(chan res, 1)
			hh := h
			go func() {
				d, herr := hh.Hash(nil)
				done <- res{d, herr}
			}()
			continue
		case "hashend":
			if pending == nil {
				return nil, nil, fmt.Errorf("scenario %d: hashend without hashstart", sc.Scn)
			}
			e = pending
			pending = nil
			select {
			case r := <-done:
				e["returned"], e["err"], e["digest"], e["dlen"] = true, errs(r.err), hex.EncodeToString(r.d), len(r.d)
			case <-time.After(hashTimeout):
				e["returned"], e["err"], e["digest"], e["dlen"] = false, "", "", 0
				atomic.AddInt32(&hangs, 1)
			}
			c.mu.Lock()
			e["sends"] = c.sends
			c.mu.Unlock()
			e["followed"] = followed
			if e["returned"] == false {
				evs = append(evs, e)
				return begin, evs, nil
			}
		case "gate":
			if !followed {
				continue
			}
			kind, level, index, flag := kit.Str(op, "kind"), kit.Int(op, "level"), kit.Int(op, "index"), kit.Bool(op, "flag")
			c.mu.Lock()
			a0 := c.arrivals
			c.mu.Unlock()
			ok := true
			switch kind {
			case "sec":
				ok = c.release(gateKey{bmt.VerifGateSection, 0, index, flag})
			case "tog", "ftog":
				k := bmt.VerifGateToggle
				if kind == "ftog" {
					k = bmt.VerifGateFinalToggle
				}
				// the goroutine must be parked before the count is read: release() waits for it
				var c0 int32
				ok = c.poll(func() bool { return len(c.parked[gateKey{k, level, index, flag}]) > 0 })
				if ok {
					c0 = bmt.VerifToggleCount(h, level, index)
					ok = c.release(gateKey{k, level, index, flag})
				}
				if ok {
					ok = c.poll(func() bool { return bmt.VerifToggleCount(h, level, index) == c0+1 })
				}
			case "send":
				ok = c.release(gateKey{kind: bmt.VerifGateSend})
			default:
				return nil, nil, fmt.Errorf("scenario %d: unknown gate kind %q", sc.Scn, kind)
			}
			if ok && kit.Str(op, "then") == "park" {
				ok = c.poll(func() bool { return c.arrivals > a0 })
			}
			if !ok {
				followed = false
				c.openAll()
			}
			continue
		case "hreset":
			h.Reset()
			data = nil
		case "put":
			c.openAll() // nothing of this use may still be parked; if something is, let it go
			pool.Put(h)
			controllers.Delete(h)
			h = nil
		default:
			return nil, nil, fmt.Errorf("scenario %d: unknown op %q", sc.Scn, name)
		}
		evs = append(evs, e)
	}
	return begin, evs, nil
}
