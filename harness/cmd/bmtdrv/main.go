// bmtdrv: conformance driver for the concurrent BMT hasher (C03).
//
// A scenario is a history of API calls on up to three hashers of one pool:
//
//	get / hdr(x) / write(n) / hash / hreset / put      (see spec/bmt/BMTApi.tla)
//
// par.tree selects the pool: "small" = a private bmt.NewPool(NewConf(keccak, segs, poolcap)) per
// scenario, "shared" = one such pool per (segs, poolcap) shared by all scenarios of the run,
// "prod" = the production pool pkg/bmtpool.  All scenarios of a run are executed by a crowd of
// worker goroutines at once (free scheduling, GOMAXPROCS varied by seed), so shared pools see many
// concurrent users and every tree is reused many times.
//
// par.tree = "forced": a behaviour of spec/bmt/BMTSched.tla replayed through the gates of
// pkg/bmt/verif_gate.go (forced.go).
//
// For each hash the driver logs the digest the hasher returned and digestRef, the value of the
// TLC-emitted term [len, hdr] under an independent evaluator (internal/bmtref) over the bytes
// this driver supplied.  No comparison happens here: BMTTrace.tla judges the log.
package main

import (
	"encoding/binary"
	"encoding/hex"
	"fmt"
	"os"
	"runtime"
	"strconv"
	"sync"
	"sync/atomic"
	"time"

	"github.com/gauss-project/aurorafs/pkg/bmt"
	"github.com/gauss-project/aurorafs/pkg/bmtpool"
	"golang.org/x/crypto/sha3"

	"verifharness/internal/bmtref"
	"verifharness/internal/kit"
	"verifharness/internal/supervise"
)

// pooler is what Get/Put go through.
type pooler interface {
	Get() *bmt.Hasher
	Put(*bmt.Hasher)
}

type prodPool struct{}

func (prodPool) Get() *bmt.Hasher  { return bmtpool.Get() }
func (prodPool) Put(h *bmt.Hasher) { bmtpool.Put(h) }

var (
	sharedMu    sync.Mutex
	sharedPools = map[string]*bmt.Pool{}
	evalMu      sync.Mutex
	evals       = map[int]*bmtref.Evaluator{}
)

func sharedPool(segs, capacity int) *bmt.Pool {
	sharedMu.Lock()
	defer sharedMu.Unlock()
	k := fmt.Sprintf("%d/%d", segs, capacity)
	if p, ok := sharedPools[k]; ok {
		return p
	}
	p := bmt.NewPool(bmt.NewConf(sha3.NewLegacyKeccak256, segs, capacity))
	sharedPools[k] = p
	return p
}

func evaluator(segs int) *bmtref.Evaluator {
	evalMu.Lock()
	defer evalMu.Unlock()
	if e, ok := evals[segs]; ok {
		return e
	}
	e := bmtref.New(segs)
	evals[segs] = e
	return e
}

// header classes -> the 8 span bytes
func headerBytes(class string) ([]byte, int64, error) {
	switch class {
	case "zero":
		return make([]byte, 8), 0, nil
	case "a", "b":
		b := make([]byte, 8)
		kit.Rng(int64(7000 + int(class[0]))).Read(b)
		return b, 0, nil
	case "i64":
		v := int64(0x0102030405060708) ^ (kit.Seed() << 20)
		b := make([]byte, 8)
		binary.LittleEndian.PutUint64(b, uint64(v))
		return b, v, nil
	}
	return nil, 0, fmt.Errorf("unknown header class %q", class)
}

type handle struct {
	h    *bmt.Hasher
	data []byte // bytes supplied since Get / Reset
}

const hashTimeout = 45 * time.Second // generous: on a heavily loaded machine a goroutine can starve for seconds

// hangs counts Hash calls that never answered.  Each costs hashTimeout; once there are maxHangs of them
// the remaining scenarios are not started (the recording simply holds fewer scenarios), so that a tree
// that hangs everywhere is reported as such instead of running into the orchestrator's time limit.
var hangs int32

const maxHangs = 24

// run executes one scenario and returns its events (the first one is the reset event's fields).
func run(sc kit.Scenario) (begin kit.Ev, evs []kit.Ev, err error) {
	tree := kit.Str(sc.Par, "tree")
	segs, poolcap := kit.Int(sc.Par, "segs"), kit.Int(sc.Par, "poolcap")
	var pool pooler
	switch tree {
	case "small":
		pool = bmt.NewPool(bmt.NewConf(sha3.NewLegacyKeccak256, segs, poolcap))
	case "shared":
		pool = sharedPool(segs, poolcap)
	case "prod":
		pool = prodPool{}
		segs = 128 * 64 // boson.BmtBranches; the judge sees the capacity the hasher itself reports
	default:
		return nil, nil, fmt.Errorf("scenario %d: unknown tree %q", sc.Scn, tree)
	}
	ev := evaluator(segs)
	begin = kit.Ev{"tree": tree, "segs": segs, "poolcap": poolcap, "cap": 0}
	rng := kit.Rng(int64(sc.Scn))
	hs := map[int]*handle{}
	capSeen := 0
	for _, op := range sc.Ops {
		name, hid := kit.Str(op, "op"), kit.Int(op, "h")
		e := kit.Ev{"op": name, "h": hid}
		x := hs[hid]
		if name != "get" && (x == nil || x.h == nil) {
			return nil, nil, fmt.Errorf("scenario %d: %s on a hasher that is not held", sc.Scn, name)
		}
		switch name {
		case "get":
			h := pool.Get()
			hs[hid] = &handle{h: h}
			capSeen = h.Capacity()
			e["capacity"] = h.Capacity()
		case "hdr":
			class := kit.Str(op, "x")
			b, v, herr := headerBytes(class)
			if herr != nil {
				return nil, nil, herr
			}
			if class == "i64" {
				x.h.SetHeaderInt64(v)
			} else {
				x.h.SetHeader(b)
			}
			e["x"] = class
		case "write":
			n := kit.Int(op, "n")
			b := make([]byte, n)
			rng.Read(b)
			ret, werr := x.h.Write(b)
			x.data = append(x.data, b...)
			e["n"], e["ret"], e["err"] = n, ret, errs(werr)
		case "hash":
			wantLen, class := kit.Int(op, "len"), kit.Str(op, "hdr")
			if wantLen > len(x.data) {
				return nil, nil, fmt.Errorf("scenario %d: hash term of %d bytes but only %d were written", sc.Scn, wantLen, len(x.data))
			}
			span, _, herr := headerBytes(class)
			if herr != nil {
				return nil, nil, herr
			}
			type res struct {
				d   []byte
				err error
			}
			done := make(chan res, 1)
			h := x.h
			go func() {
				d, herr := h.Hash(nil)
				done <- res{d, herr}
			}()
			e["refLen"], e["refHdr"] = wantLen, class
			e["digestRef"] = hex.EncodeToString(ev.Digest(span, x.data[:wantLen]))
			select {
			case r := <-done:
				e["returned"], e["err"], e["digest"], e["dlen"] = true, errs(r.err), hex.EncodeToString(r.d), len(r.d)
			case <-time.After(hashTimeout):
				// the hasher never answered; its goroutines and its tree are lost and the scenario ends
				// here.  A shared pool gets a fresh tree in exchange, so that the other users go on.
				e["returned"], e["err"], e["digest"], e["dlen"] = false, "", "", 0
				atomic.AddInt32(&hangs, 1)
				evs = append(evs, e)
				begin["cap"] = capSeen
				if tree != "small" {
					pool.Put(bmt.NewPool(bmt.NewConf(sha3.NewLegacyKeccak256, segs, 1)).Get())
				}
				return begin, evs, nil
			}
		case "hreset":
			x.h.Reset()
			x.data = nil
		case "put":
			pool.Put(x.h)
			hs[hid] = nil
		default:
			return nil, nil, fmt.Errorf("scenario %d: unknown op %q", sc.Scn, name)
		}
		evs = append(evs, e)
	}
	// hand back what a truncated history still holds, so that shared pools do not run dry
	for _, x := range hs {
		if x != nil && x.h != nil && tree != "small" {
			return nil, nil, fmt.Errorf("scenario %d ends holding a hasher of a shared pool", sc.Scn)
		}
	}
	begin["cap"] = capSeen
	return begin, evs, nil
}

func errs(e error) string {
	if e == nil {
		return ""
	}
	return e.Error()
}

func main() {
	if !supervise.IsChild() {
		// the hasher's goroutines are not ours to guard: run everything in a child process and
		// turn a crash of the child into an event (internal/supervise)
		kit.Main(func(scs []kit.Scenario, out *kit.Out) error {
			return supervise.Run(scs, out, func(sc kit.Scenario) kit.Ev {
				return kit.Ev{"tree": kit.Str(sc.Par, "tree"), "segs": kit.Int(sc.Par, "segs"),
					"poolcap": kit.Int(sc.Par, "poolcap"), "cap": kit.Int(sc.Par, "cap")}
			})
		})
		return
	}
	kit.Main(func(scs []kit.Scenario, out *kit.Out) error {
		procs := []int{8, 4, 16, 6, 12}[int(kit.Seed()%5+5)%5]
		if v, err := strconv.Atoi(os.Getenv("VERIF_GOMAXPROCS")); err == nil && v > 0 {
			procs = v
		}
		runtime.GOMAXPROCS(procs)
		workers := 48
		type result struct {
			begin kit.Ev
			evs   []kit.Ev
			err   error
		}
		results := make([]result, len(scs))
		next := make(chan int)
		var wg sync.WaitGroup
		for w := 0; w < workers; w++ {
			wg.Add(1)
			go func() {
				defer wg.Done()
				for i := range next {
					if atomic.LoadInt32(&hangs) >= maxHangs {
						continue
					}
					b, e, err := run(scs[i])
					results[i] = result{b, e, err}
				}
			}()
		}
		forced := []int{}
		for i := range scs {
			if kit.Str(scs[i].Par, "tree") == "forced" {
				forced = append(forced, i)
				continue
			}
			next <- i
		}
		close(next)
		wg.Wait()
		// forced schedules: the gates are installed only now, so the free runs above were not slowed
		// down by them; each forced scenario has a private one-tree pool, a few run side by side
		if len(forced) > 0 {
			bmt.VerifSetGate(gateDispatch)
			fnext := make(chan int)
			var fwg sync.WaitGroup
			for w := 0; w < 8; w++ {
				fwg.Add(1)
				go func() {
					defer fwg.Done()
					for i := range fnext {
						if atomic.LoadInt32(&hangs) >= maxHangs {
							continue
						}
						b, e, err := runForced(scs[i])
						results[i] = result{b, e, err}
					}
				}()
			}
			for _, i := range forced {
				fnext <- i
			}
			close(fnext)
			fwg.Wait()
			bmt.VerifSetGate(nil)
		}
		for i, r := range results {
			if r.err != nil {
				return r.err
			}
			if r.begin == nil {
				continue // not started (too many hangs before)
			}
			out.Begin(scs[i].Scn, r.begin)
			for _, e := range r.evs {
				out.Emit(e)
			}
		}
		return nil
	})
}
