// travdrv: conformance driver for chunk traversal (C09).
// A scenario uploads files through the real pipeline
// (builder.NewPipelineBuilder) into a recording store that logs the address of
// every Put, optionally links them into a directory manifest (pkg/manifest +
// loadsave, one Store), and then asks pkg/traversal for the chunk sets the node
// works with: Traverse, GetChunkHashes (data-chunk lists) and GetPyramid (root and
// non-data chunks).  Addresses are logged as identifiers: every
// distinct byte string gets a number the first time it is seen (a 64-byte
// reference is a different string than its first 32 bytes); `*32` fields hold
// the identifiers of the first 32 bytes of each reported value.  No oracle here.
package main

import (
	"context"
	"encoding/binary"
	"fmt"
	"io"
	"math/rand"
	"runtime"
	"runtime/debug"
	"sort"
	"strings"
	"sync"

	"github.com/gauss-project/aurorafs/pkg/boson"
	"github.com/gauss-project/aurorafs/pkg/cac"
	"github.com/gauss-project/aurorafs/pkg/file/loadsave"
	"github.com/gauss-project/aurorafs/pkg/file/pipeline"
	"github.com/gauss-project/aurorafs/pkg/file/pipeline/builder"
	"github.com/gauss-project/aurorafs/pkg/manifest"
	"github.com/gauss-project/aurorafs/pkg/storage"
	"github.com/gauss-project/aurorafs/pkg/traversal"

	"verifharness/internal/kit"
)

// ids numbers byte strings in order of first appearance.
type ids struct {
	mu sync.Mutex
	m  map[string]int
}

func (t *ids) of(b []byte) int {
	t.mu.Lock()
	defer t.mu.Unlock()
	if v, ok := t.m[string(b)]; ok {
		return v
	}
	v := len(t.m) + 1
	t.m[string(b)] = v
	return v
}

// recStore is a chunk store that logs the address of every Put.
type recStore struct {
	mu   sync.Mutex
	m    map[string][]byte
	tab  *ids
	puts []int
}

func newRecStore(tab *ids) *recStore { return &recStore{m: map[string][]byte{}, tab: tab} }

func (s *recStore) Get(_ context.Context, _ storage.ModeGet, addr boson.Address) (boson.Chunk, error) {
	s.mu.Lock()
	defer s.mu.Unlock()
	d, ok := s.m[addr.ByteString()]
	if !ok {
		return nil, storage.ErrNotFound
	}
	return boson.NewChunk(addr, d), nil
}

func (s *recStore) Put(_ context.Context, _ storage.ModePut, chs ...boson.Chunk) ([]bool, error) {
	ex := make([]bool, len(chs))
	for i, c := range chs {
		id := s.tab.of(c.Address().Bytes())
		s.mu.Lock()
		if _, ok := s.m[c.Address().ByteString()]; ok {
			ex[i] = true
		} else {
			s.m[c.Address().ByteString()] = append([]byte(nil), c.Data()...)
		}
		s.puts = append(s.puts, id)
		s.mu.Unlock()
	}
	return ex, nil
}

// takePuts returns the distinct identifiers put since the last call.
func (s *recStore) takePuts() []int {
	s.mu.Lock()
	defer s.mu.Unlock()
	out := distinct(s.puts)
	s.puts = nil
	return out
}

func distinct(in []int) []int {
	seen := map[int]bool{}
	out := []int{}
	for _, v := range in {
		if !seen[v] {
			seen[v] = true
			out = append(out, v)
		}
	}
	return out
}

// content: chunk-sized blocks that depend only on (seed, content id)
var blocks = map[int][]byte{}

func block(c int) []byte {
	if b, ok := blocks[c]; ok {
		return b
	}
	b := make([]byte, boson.ChunkSize)
	rand.New(rand.NewSource(kit.Seed()*7919 + int64(c))).Read(b)
	blocks[c] = b
	return b
}

// planReader streams a file given as a list of (content id, length) pieces.
type planReader struct {
	big, bigID int // `big` leading full chunks of content bigID
	pat        []int
	tailLen    int // length of the last chunk
	i, off     int
}

func (r *planReader) total() int { return r.big + len(r.pat) }

func (r *planReader) Read(p []byte) (int, error) {
	if r.i >= r.total() {
		return 0, io.EOF
	}
	c := r.bigID
	if r.i >= r.big {
		c = r.pat[r.i-r.big]
	}
	l := boson.ChunkSize
	if r.i == r.total()-1 {
		l = r.tailLen
	}
	n := copy(p, block(c)[r.off:l])
	r.off += n
	if r.off >= l {
		r.i++
		r.off = 0
	}
	if n == 0 && r.i >= r.total() {
		return 0, io.EOF
	}
	return n, nil
}

// handTree writes the chunk tree of a file without streaming its bytes: the same
// level-buffer algorithm as the pipeline's trie writer (a level of Branches references
// is wrapped into an intermediate chunk, Sum carries a lone reference up), over
// content-addressed chunks made with pkg/cac.  Equal chunks are made and Put once, so
// a file of k*Branches+1 chunks of repeated content costs a handful of hashes and no
// memory.  Plain files only.
type handRef struct {
	addr []byte
	span uint64
}

type handTree struct {
	ctx    context.Context
	st     *recStore
	leaves map[[2]int]handRef
	inner  map[string]handRef
	levels [9][]handRef
}

func (h *handTree) leaf(c, l int) (handRef, error) {
	if r, ok := h.leaves[[2]int{c, l}]; ok {
		return r, nil
	}
	ch, err := cac.New(block(c)[:l])
	if err != nil {
		return handRef{}, err
	}
	if _, err := h.st.Put(h.ctx, storage.ModePutUpload, ch); err != nil {
		return handRef{}, err
	}
	r := handRef{ch.Address().Bytes(), uint64(l)}
	h.leaves[[2]int{c, l}] = r
	return r, nil
}

func (h *handTree) wrap(level int) error {
	refs := h.levels[level]
	buf := make([]byte, boson.SpanSize, boson.SpanSize+len(refs)*boson.HashSize)
	var span uint64
	for _, r := range refs {
		span += r.span
		buf = append(buf, r.addr...)
	}
	binary.LittleEndian.PutUint64(buf[:boson.SpanSize], span)
	r, ok := h.inner[string(buf)]
	if !ok {
		ch, err := cac.NewWithDataSpan(buf)
		if err != nil {
			return err
		}
		if _, err := h.st.Put(h.ctx, storage.ModePutUpload, ch); err != nil {
			return err
		}
		r = handRef{ch.Address().Bytes(), span}
		h.inner[string(buf)] = r
	}
	h.levels[level] = nil
	return h.write(level+1, r)
}

func (h *handTree) write(level int, r handRef) error {
	if level > 8 {
		return fmt.Errorf("hand tree: too many levels")
	}
	h.levels[level] = append(h.levels[level], r)
	if len(h.levels[level]) == boson.Branches {
		return h.wrap(level)
	}
	return nil
}

// sum finishes the tree and returns the root reference.
func (h *handTree) sum() (boson.Address, error) {
	for i := 1; i < 8; i++ {
		switch n := len(h.levels[i]); {
		case n == 0:
		case n == 1:
			h.levels[i+1] = append(h.levels[i+1], h.levels[i]...)
			h.levels[i] = nil
		default:
			if err := h.wrap(i); err != nil {
				return boson.ZeroAddress, err
			}
		}
	}
	if len(h.levels[8]) != 1 {
		return boson.ZeroAddress, fmt.Errorf("hand tree: %d references at the top level", len(h.levels[8]))
	}
	return boson.NewAddress(h.levels[8][0].addr), nil
}

func writeByHand(ctx context.Context, st *recStore, r *planReader) (boson.Address, error) {
	h := &handTree{ctx: ctx, st: st, leaves: map[[2]int]handRef{}, inner: map[string]handRef{}}
	n := r.total()
	for i := 0; i < n; i++ {
		c, l := r.bigID, boson.ChunkSize
		if i >= r.big {
			c = r.pat[i-r.big]
		}
		if i == n-1 {
			l = r.tailLen
		}
		lf, err := h.leaf(c, l)
		if err != nil {
			return boson.ZeroAddress, err
		}
		if err := h.write(1, lf); err != nil {
			return boson.ZeroAddress, err
		}
	}
	return h.sum()
}

const letters = "?abc/"

func pathOf(v interface{}) (string, error) {
	l, ok := v.([]interface{})
	if !ok {
		return "", fmt.Errorf("path is not a list: %v", v)
	}
	var sb strings.Builder
	for _, x := range l {
		f, ok := x.(float64)
		if !ok || int(f) < 1 || int(f) >= len(letters) {
			return "", fmt.Errorf("bad letter %v", x)
		}
		sb.WriteByte(letters[int(f)])
	}
	return sb.String(), nil
}

func errs(e error) string {
	if e == nil {
		return ""
	}
	return e.Error()
}

// observed collects reported addresses as identifiers.
type observed struct {
	tab   *ids
	full  []int
	first []int
	lens  map[int]bool
}

func (o *observed) add(b []byte) {
	o.full = append(o.full, o.tab.of(b))
	f := b
	if len(f) > boson.HashSize {
		f = f[:boson.HashSize]
	}
	o.first = append(o.first, o.tab.of(f))
	if o.lens == nil {
		o.lens = map[int]bool{}
	}
	o.lens[len(b)] = true
}

func (o *observed) lengths() []int {
	out := []int{}
	for l := range o.lens {
		out = append(out, l)
	}
	sort.Ints(out)
	return out
}

type entry struct {
	path string
	file int
}

func run(sc kit.Scenario, out *kit.Out) error {
	ctx := context.Background()
	enc := kit.Bool(sc.Par, "enc")
	tab := &ids{m: map[string]int{}}
	st := newRecStore(tab)
	tr := traversal.New(st)
	refs := map[int]boson.Address{}
	var entries []entry
	var root boson.Address
	haveRoot := false
	bigFile := false
	bareHand := false

	out.Begin(sc.Scn, kit.Ev{"enc": enc, "err": "", "panicked": false})
	for _, op := range sc.Ops {
		name := kit.Str(op, "op")
		ev := kit.Ev{"op": name, "enc": enc, "err": "", "panicked": false}
		var perr error
		switch name {
		case "upload":
			f, a, tail, u := kit.Int(op, "f"), kit.Int(op, "a"), kit.Int(op, "tail"), kit.Int(op, "u")
			pat := kit.IntList(op, "pat")
			br := boson.Branches
			if enc {
				br = boson.EncryptedBranches
			}
			r := &planReader{big: a * br, bigID: u, pat: pat}
			switch tail {
			case 0:
				r.tailLen = 0
			case 1:
				r.tailLen = boson.ChunkSize
			case 2:
				r.tailLen = 1
			case 3:
				r.tailLen = boson.ChunkSize/2 + 17
			default:
				return fmt.Errorf("bad tail class %d", tail)
			}
			bigFile = bigFile || (a > 0 && !kit.Bool(op, "hand"))
			if r.total() == 0 {
				return fmt.Errorf("scenario %d: file without chunks", sc.Scn)
			}
			hand := kit.Bool(op, "hand")
			if hand && (enc || tail == 0) {
				return fmt.Errorf("scenario %d: hand-written trees are plain, non-empty files", sc.Scn)
			}
			var ref boson.Address
			pan, msg := kit.Guard(func() {
				if hand {
					ref, perr = writeByHand(ctx, st, r)
					return
				}
				p := builder.NewPipelineBuilder(ctx, st, storage.ModePutUpload, enc)
				ref, perr = builder.FeedPipeline(ctx, p, r)
			})
			ev["f"], ev["nchunks"], ev["tail"], ev["hand"] = f, r.total(), tail, hand
			ev["w"] = st.takePuts()
			if pan {
				ev["panicked"], ev["err"] = true, msg
			} else if perr != nil {
				ev["err"] = errs(perr)
			} else {
				refs[f] = ref
				root, haveRoot = ref, true
				bareHand = hand && a > 0
				ev["reflen"] = len(ref.Bytes())
				ev["root"] = tab.of(ref.Bytes()[:boson.HashSize])
			}
		case "entry":
			p, e := pathOf(op["p"])
			if e != nil {
				return e
			}
			f := kit.Int(op, "f")
			if _, ok := refs[f]; !ok {
				return fmt.Errorf("scenario %d: entry for unknown file %d", sc.Scn, f)
			}
			entries = append(entries, entry{p, f})
			continue // no call into the code yet
		case "mkdir":
			ls := loadsave.New(st, func() pipeline.Interface {
				return builder.NewPipelineBuilder(ctx, st, storage.ModePutUpload, enc)
			})
			var ref boson.Address
			pan, msg := kit.Guard(func() {
				var mf manifest.Interface
				mf, perr = manifest.NewDefaultManifest(ls, enc)
				if perr != nil {
					return
				}
				for _, en := range entries {
					md := map[string]string{
						manifest.EntryMetadataContentTypeKey: "application/octet-stream",
						manifest.EntryMetadataFilenameKey:    en.path,
					}
					if perr = mf.Add(ctx, en.path, manifest.NewEntry(refs[en.file], md)); perr != nil {
						return
					}
				}
				if kit.Bool(op, "rootmeta") {
					md := map[string]string{manifest.WebsiteIndexDocumentSuffixKey: "index.html"}
					if perr = mf.Add(ctx, manifest.RootPath, manifest.NewEntry(boson.ZeroAddress, md)); perr != nil {
						return
					}
				}
				ref, perr = mf.Store(ctx)
			})
			ev["n"] = len(entries)
			ev["w"] = st.takePuts()
			if pan {
				ev["panicked"], ev["err"] = true, msg
			} else if perr != nil {
				ev["err"] = errs(perr)
			} else {
				root, haveRoot = ref, true
				bareHand = false
				ev["reflen"] = len(ref.Bytes())
				ev["root"] = tab.of(ref.Bytes()[:boson.HashSize])
			}
		case "traverse":
			if bareHand {
				return fmt.Errorf("scenario %d: a hand-written multi-level file is only observed inside a directory", sc.Scn)
			}
			if !haveRoot {
				return fmt.Errorf("scenario %d: nothing to traverse", sc.Scn)
			}
			o := &observed{tab: tab}
			pan, msg := kit.Guard(func() {
				perr = tr.Traverse(ctx, root, func(a boson.Address) error { o.add(a.Bytes()); return nil })
			})
			ev["t"], ev["t32"], ev["tl"] = distinct(o.full), distinct(o.first), o.lengths()
			if pan {
				ev["panicked"], ev["err"] = true, msg
			} else {
				ev["err"] = errs(perr)
			}
		case "hashes":
			if bareHand {
				return fmt.Errorf("scenario %d: a hand-written multi-level file is only observed inside a directory", sc.Scn)
			}
			if !haveRoot {
				return fmt.Errorf("scenario %d: nothing to traverse", sc.Scn)
			}
			var hs [][][]byte
			pan, msg := kit.Guard(func() { hs, _, perr = tr.GetChunkHashes(ctx, root, nil) })
			o := &observed{tab: tab}
			for _, l := range hs {
				for _, b := range l {
					o.add(b)
				}
			}
			ev["d"], ev["d32"], ev["dl"], ev["nlists"] = distinct(o.full), distinct(o.first), o.lengths(), len(hs)
			if pan {
				ev["panicked"], ev["err"] = true, msg
			} else {
				ev["err"] = errs(perr)
			}
		case "pyramid":
			if bareHand {
				return fmt.Errorf("scenario %d: a hand-written multi-level file is only observed inside a directory", sc.Scn)
			}
			if !haveRoot {
				return fmt.Errorf("scenario %d: nothing to traverse", sc.Scn)
			}
			var pyr map[string][]byte
			pan, msg := kit.Guard(func() { pyr, perr = tr.GetPyramid(ctx, root) })
			o := &observed{tab: tab}
			keys := make([]string, 0, len(pyr))
			for k := range pyr {
				keys = append(keys, k)
			}
			sort.Strings(keys)
			for _, k := range keys {
				a, e := boson.ParseHexAddress(k)
				if e != nil {
					return fmt.Errorf("pyramid key %q: %w", k, e)
				}
				o.add(a.Bytes())
			}
			ev["p"], ev["p32"], ev["pl"] = distinct(o.full), distinct(o.first), o.lengths()
			if pan {
				ev["panicked"], ev["err"] = true, msg
			} else {
				ev["err"] = errs(perr)
			}
		default:
			return fmt.Errorf("unknown op %v", op["op"])
		}
		out.Emit(ev)
		if len(st.m) > 0 && bigFile {
			// a > 2 GiB file is read into memory as a manifest candidate by every observation
			debug.FreeOSMemory()
		}
	}
	return nil
}

func main() {
	// see mandrv: keeps the 4.7 MB trie-writer buffers of the pipelines from being re-faulted on every upload
	ballast := make([]byte, 2<<30)
	defer runtime.KeepAlive(ballast)
	kit.Main(func(scs []kit.Scenario, out *kit.Out) error {
		for _, sc := range scs {
			if err := run(sc, out); err != nil {
				return err
			}
			runtime.GC()
		}
		return nil
	})
}
