// keystoredrv: conformance driver for the keystores (C36).
//
// Executes generated histories (spec/keystore/KeystoreGen.tla) on
// keystore/file.New(tempdir) and keystore/mem.New() and logs what every call
// returned.  Private keys are reported as numbers in order of first appearance
// within the run of one implementation (0 = no key returned); the keys the
// driver itself brings (ImportPrivateKey: seeded secret scalars with a given
// number of leading zero bytes) are reported as 100 + that number.  The in-memory
// keystore does not implement export/import/import-private (panic("implement
// me")); those operations are executed on the file keystore only (DESIGN.md, C36).
// scrypt makes file operations slow, so (scenario, implementation) jobs run in
// parallel and are logged in scenario order.  No oracle here.
package main

import (
	"crypto/ecdsa"
	"errors"
	"fmt"
	"io/ioutil"
	"os"
	"runtime"
	"strings"
	"sync"

	"github.com/gauss-project/aurorafs/pkg/crypto"
	"github.com/gauss-project/aurorafs/pkg/keystore"
	"github.com/gauss-project/aurorafs/pkg/keystore/file"
	"github.com/gauss-project/aurorafs/pkg/keystore/mem"

	"verifharness/internal/kit"
)

var nameOf = map[string]string{
	"empty":   "",
	"a":       "a",
	"unicode": "ключ-鍵-🔑 k",
	"long64":  strings.Repeat("n", 64),
	"nested":  "d/e",
}

var pwOf = map[string]string{
	"empty":   "",
	"a":       "a",
	"upperA":  "A",
	"unicode": "pässwörd-密码-🔒",
	"long64":  strings.Repeat("p", 63) + "!",
}

// givenKey is the key with lz leading zero bytes in its 32-byte secret scalar (and a non-zero byte right after them):
// a fixture known by construction, the same in every scenario of a run.
func givenKey(lz int) (*ecdsa.PrivateKey, error) {
	if lz < 0 || lz > 31 {
		return nil, fmt.Errorf("leading zero bytes %d", lz)
	}
	b := make([]byte, 32)
	kit.Rng(int64(3600 + lz)).Read(b)
	for i := 0; i < lz; i++ {
		b[i] = 0
	}
	b[lz] |= 1
	if lz == 0 {
		b[0] &= 0x7f // below the group order
	}
	return crypto.DecodeSecp256k1PrivateKey(b)
}

func leadingZeros(k *ecdsa.PrivateKey) int {
	n := 32 - (k.D.BitLen()+7)/8
	if n < 0 {
		n = 0
	}
	return n
}

func errs(e error) string {
	if e == nil {
		return ""
	}
	return e.Error()
}

type job struct {
	sc   kit.Scenario
	impl string
	evs  []kit.Ev
	err  error
}

func (j *job) run() {
	var ks keystore.Service
	switch j.impl {
	case "file":
		dir, err := ioutil.TempDir("", "verif-keystore")
		if err != nil {
			j.err = err
			return
		}
		defer os.RemoveAll(dir)
		ks = file.New(dir)
	case "mem":
		ks = mem.New()
	}
	var seen []*ecdsa.PrivateKey
	given := map[int]*ecdsa.PrivateKey{} // keys this job brought along, by leading-zero count
	same := func(a, b *ecdsa.PrivateKey) bool {
		return a.D.Cmp(b.D) == 0 && a.PublicKey.X.Cmp(b.PublicKey.X) == 0 && a.PublicKey.Y.Cmp(b.PublicKey.Y) == 0
	}
	kid := func(k *ecdsa.PrivateKey) int {
		if k == nil || k.D == nil || k.PublicKey.X == nil || k.PublicKey.Y == nil {
			return 0
		}
		for lz, g := range given {
			if same(g, k) {
				return 100 + lz
			}
		}
		for i, s := range seen {
			if s.D.Cmp(k.D) == 0 && s.PublicKey.X.Cmp(k.PublicKey.X) == 0 && s.PublicKey.Y.Cmp(k.PublicKey.Y) == 0 {
				return i + 1
			}
		}
		seen = append(seen, k)
		return len(seen)
	}
	blobs := map[int][]byte{}
	for _, op := range j.sc.Ops {
		name, okn := nameOf[kit.Str(op, "name")]
		pw, okp := pwOf[kit.Str(op, "pw")]
		opn := kit.Str(op, "op")
		if !okn || (!okp && opn != "exists") {
			j.err = fmt.Errorf("unknown name/password class %q/%q", kit.Str(op, "name"), kit.Str(op, "pw"))
			return
		}
		ev := kit.Ev{"op": opn, "impl": j.impl, "name": kit.Str(op, "name")}
		switch opn {
		case "key":
			var k *ecdsa.PrivateKey
			var created bool
			var e error
			p, pmsg := kit.Guard(func() { k, created, e = ks.Key(name, pw) })
			ev["pw"], ev["created"], ev["kid"] = kit.Str(op, "pw"), created && !p, kid(k)
			ev["invalid"], ev["err"], ev["panicked"], ev["pmsg"] = errors.Is(e, keystore.ErrInvalidPassword), errs(e), p, pmsg
		case "exists":
			var found bool
			var e error
			p, pmsg := kit.Guard(func() { found, e = ks.Exists(name) })
			ev["found"], ev["err"], ev["panicked"], ev["pmsg"] = found && !p, errs(e), p, pmsg
		case "export":
			if j.impl != "file" {
				continue
			}
			var b []byte
			var e error
			p, pmsg := kit.Guard(func() { b, e = ks.ExportKey(name, pw) })
			if !p && e == nil {
				blobs[kit.Int(op, "slot")] = b
			}
			ev["pw"], ev["slot"], ev["len"] = kit.Str(op, "pw"), kit.Int(op, "slot"), len(b)
			ev["invalid"], ev["err"], ev["panicked"], ev["pmsg"] = errors.Is(e, keystore.ErrInvalidPassword), errs(e), p, pmsg
		case "import":
			if j.impl != "file" {
				continue
			}
			var e error
			b := blobs[kit.Int(op, "slot")]
			p, pmsg := kit.Guard(func() { e = ks.ImportKey(name, pw, b) })
			ev["pw"], ev["slot"], ev["len"] = kit.Str(op, "pw"), kit.Int(op, "slot"), len(b)
			ev["invalid"], ev["err"], ev["panicked"], ev["pmsg"] = errors.Is(e, keystore.ErrInvalidPassword), errs(e), p, pmsg
		case "importpriv":
			if j.impl != "file" {
				continue
			}
			lz := kit.Int(op, "lz")
			g, err := givenKey(lz)
			if err != nil {
				j.err = err
				return
			}
			given[lz] = g
			var e error
			p, pmsg := kit.Guard(func() { e = ks.ImportPrivateKey(name, pw, g) })
			ev["pw"], ev["lz"], ev["dlz"] = kit.Str(op, "pw"), lz, leadingZeros(g)
			ev["invalid"], ev["err"], ev["panicked"], ev["pmsg"] = errors.Is(e, keystore.ErrInvalidPassword), errs(e), p, pmsg
		default:
			j.err = fmt.Errorf("unknown op %q", opn)
			return
		}
		j.evs = append(j.evs, ev)
	}
}

func main() {
	kit.Main(func(scs []kit.Scenario, out *kit.Out) error {
		var jobs []*job
		for _, sc := range scs {
			jobs = append(jobs, &job{sc: sc, impl: "file"}, &job{sc: sc, impl: "mem"})
		}
		workers := runtime.NumCPU() / 2
		if workers < 2 {
			workers = 2
		}
		ch := make(chan *job)
		var wg sync.WaitGroup
		for w := 0; w < workers; w++ {
			wg.Add(1)
			go func() {
				defer wg.Done()
				for j := range ch {
					j.run()
				}
			}()
		}
		for _, j := range jobs {
			ch <- j
		}
		close(ch)
		wg.Wait()
		for _, j := range jobs {
			if j.err != nil {
				return fmt.Errorf("scenario %d (%s): %w", j.sc.Scn, j.impl, j.err)
			}
			out.Begin(j.sc.Scn, kit.Ev{"impl": j.impl})
			for _, ev := range j.evs {
				out.Emit(ev)
			}
		}
		return nil
	})
}
