// keystoredrv: conformance driver for the keystores (C36).
//
// Executes generated histories (spec/keystore/KeystoreGen.tla) on
// keystore/file.New(tempdir) and keystore/mem.New() and logs what every call
// returned.  Private keys are reported as numbers in order of first appearance
// within the run of one implementation (0 = no key returned).  The in-memory
// keystore does not implement export/import (panic("implement me")); those two
// operations are executed on the file keystore only (DESIGN.md, C36).
// scrypt makes file operations slow, so (scenario, implementation) jobs run in
// parallel and are logged in scenario order.  No oracle here.
package main

import (
	"crypto/ecdsa"
	"errors"
	"fmt"
	"io/ioutil"
	"os"
	"runtime"
	"strings"
	"sync"

	"github.com/gauss-project/aurorafs/pkg/keystore"
	"github.com/gauss-project/aurorafs/pkg/keystore/file"
	"github.com/gauss-project/aurorafs/pkg/keystore/mem"

	"verifharness/internal/kit"
)

var nameOf = map[string]string{
	"empty":   "",
	"a":       "a",
	"unicode": "ключ-鍵-🔑 k",
	"long64":  strings.Repeat("n", 64),
	"nested":  "d/e",
}

var pwOf = map[string]string{
	"empty":   "",
	"a":       "a",
	"upperA":  "A",
	"unicode": "pässwörd-密码-🔒",
	"long64":  strings.Repeat("p", 63) + "!",
}

func errs(e error) string {
	if e == nil {
		return ""
	}
	return e.Error()
}

type job struct {
	sc   kit.Scenario
	impl string
	evs  []kit.Ev
	err  error
}

func (j *job) run() {
	var ks keystore.Service
	switch j.impl {
	case "file":
		dir, err := ioutil.TempDir("", "verif-keystore")
		if err != nil {
			j.err = err
			return
		}
		defer os.RemoveAll(dir)
		ks = file.New(dir)
	case "mem":
		ks = mem.New()
	}
	var seen []*ecdsa.PrivateKey
	kid := func(k *ecdsa.PrivateKey) int {
		if k == nil || k.D == nil {
			return 0
		}
		for i, s := range seen {
			if s.D.Cmp(k.D) == 0 && s.PublicKey.X.Cmp(k.PublicKey.X) == 0 && s.PublicKey.Y.Cmp(k.PublicKey.Y) == 0 {
				return i + 1
			}
		}
		seen = append(seen, k)
		return len(seen)
	}
	blobs := map[int][]byte{}
	for _, op := range j.sc.Ops {
		name, okn := nameOf[kit.Str(op, "name")]
		pw, okp := pwOf[kit.Str(op, "pw")]
		opn := kit.Str(op, "op")
		if !okn || (!okp && opn != "exists") {
			j.err = fmt.Errorf("unknown name/password class %q/%q", kit.Str(op, "name"), kit.Str(op, "pw"))
			return
		}
		ev := kit.Ev{"op": opn, "impl": j.impl, "name": kit.Str(op, "name")}
		switch opn {
		case "key":
			var k *ecdsa.PrivateKey
			var created bool
			var e error
			p, pmsg := kit.Guard(func() { k, created, e = ks.Key(name, pw) })
			ev["pw"], ev["created"], ev["kid"] = kit.Str(op, "pw"), created && !p, kid(k)
			ev["invalid"], ev["err"], ev["panicked"], ev["pmsg"] = errors.Is(e, keystore.ErrInvalidPassword), errs(e), p, pmsg
		case "exists":
			var found bool
			var e error
			p, pmsg := kit.Guard(func() { found, e = ks.Exists(name) })
			ev["found"], ev["err"], ev["panicked"], ev["pmsg"] = found && !p, errs(e), p, pmsg
		case "export":
			if j.impl != "file" {
				continue
			}
			var b []byte
			var e error
			p, pmsg := kit.Guard(func() { b, e = ks.ExportKey(name, pw) })
			if !p && e == nil {
				blobs[kit.Int(op, "slot")] = b
			}
			ev["pw"], ev["slot"], ev["len"] = kit.Str(op, "pw"), kit.Int(op, "slot"), len(b)
			ev["invalid"], ev["err"], ev["panicked"], ev["pmsg"] = errors.Is(e, keystore.ErrInvalidPassword), errs(e), p, pmsg
		case "import":
			if j.impl != "file" {
				continue
			}
			var e error
			b := blobs[kit.Int(op, "slot")]
			p, pmsg := kit.Guard(func() { e = ks.ImportKey(name, pw, b) })
			ev["pw"], ev["slot"], ev["len"] = kit.Str(op, "pw"), kit.Int(op, "slot"), len(b)
			ev["invalid"], ev["err"], ev["panicked"], ev["pmsg"] = errors.Is(e, keystore.ErrInvalidPassword), errs(e), p, pmsg
		default:
			j.err = fmt.Errorf("unknown op %q", opn)
			return
		}
		j.evs = append(j.evs, ev)
	}
}

func main() {
	kit.Main(func(scs []kit.Scenario, out *kit.Out) error {
		var jobs []*job
		for _, sc := range scs {
			jobs = append(jobs, &job{sc: sc, impl: "file"}, &job{sc: sc, impl: "mem"})
		}
		workers := runtime.NumCPU() / 2
		if workers < 2 {
			workers = 2
		}
		ch := make(chan *job)
		var wg sync.WaitGroup
		for w := 0; w < workers; w++ {
			wg.Add(1)
			go func() {
				defer wg.Done()
				for j := range ch {
					j.run()
				}
			}()
		}
		for _, j := range jobs {
			ch <- j
		}
		close(ch)
		wg.Wait()
		for _, j := range jobs {
			if j.err != nil {
				return fmt.Errorf("scenario %d (%s): %w", j.sc.Scn, j.impl, j.err)
			}
			out.Begin(j.sc.Scn, kit.Ev{"impl": j.impl})
			for _, ev := range j.evs {
				out.Emit(ev)
			}
		}
		return nil
	})
}
