package main

import (
	"bytes"
	"encoding/binary"
	"fmt"
	"math"
	"strings"

	"github.com/gauss-project/aurorafs/pkg/p2p/protobuf"
	"github.com/gogo/protobuf/proto"
	ma "github.com/multiformats/go-multiaddr"
)

// shapes -> bytes.  "ok"/"known"/"self" values come from the caller (the scenario's context).

func (n *node) big(size int) []byte {
	b := make([]byte, size)
	n.rng.Read(b)
	return b
}

// addr: kinds addr / addrS / addrK.  ok: a well-formed address of somebody else; known: supplied by the caller.
func (n *node) addr(shape string, ok, known []byte) ([]byte, error) {
	base := append([]byte{}, ok...)
	switch shape {
	case "ok":
		return base, nil
	case "self":
		return append([]byte{}, n.self.Bytes()...), nil
	case "known":
		return append([]byte{}, known...), nil
	case "absent":
		return nil, nil
	case "one":
		return []byte{0x7f}, nil
	case "b31":
		return base[:31], nil
	case "b33":
		return append(base, 0x33), nil
	case "big":
		return n.big(4096), nil
	}
	return nil, fmt.Errorf("unknown address shape %q", shape)
}

func (n *node) bytesOf(shape string, ok []byte) ([]byte, error) {
	switch shape {
	case "ok":
		return append([]byte{}, ok...), nil
	case "absent":
		return nil, nil
	case "one":
		return []byte{0x01}, nil
	case "big":
		return n.big(64 * 1024), nil
	}
	return nil, fmt.Errorf("unknown bytes shape %q", shape)
}

func (n *node) sig(shape string, ok []byte) ([]byte, error) {
	switch shape {
	case "ok":
		return append([]byte{}, ok...), nil
	case "absent":
		return nil, nil
	case "one":
		return []byte{0x1b}, nil
	case "b64":
		return append([]byte{}, ok[:64]...), nil
	case "b66":
		return append(append([]byte{}, ok...), 0x1b), nil
	case "garbage65":
		b := n.big(65)
		b[64] = 27
		return b, nil
	}
	return nil, fmt.Errorf("unknown signature shape %q", shape)
}

func (n *node) under(shape string, ok []byte) ([]byte, error) {
	switch shape {
	case "ok":
		return append([]byte{}, ok...), nil
	case "absent":
		return nil, nil
	case "one":
		return []byte{0x04}, nil
	case "nop2p":
		m, err := ma.NewMultiaddr("/ip4/1.2.3.4/tcp/80")
		if err != nil {
			return nil, err
		}
		return append([]byte{}, m.Bytes()...), nil
	case "garbage":
		return n.big(20), nil
	}
	return nil, fmt.Errorf("unknown underlay shape %q", shape)
}

func i32(shape string) (int32, error) {
	switch shape {
	case "two":
		return 2, nil
	case "zero":
		return 0, nil
	case "one":
		return 1, nil
	case "three":
		return 3, nil
	case "thirty":
		return 30, nil
	case "thirtyone":
		return 31, nil
	case "neg":
		return -1, nil
	case "max":
		return math.MaxInt32, nil
	case "min":
		return math.MinInt32, nil
	}
	return 0, fmt.Errorf("unknown int shape %q", shape)
}

func u64(shape string, one uint64) (uint64, error) {
	switch shape {
	case "one":
		return one, nil
	case "zero":
		return 0, nil
	case "max":
		return math.MaxUint64, nil
	}
	return 0, fmt.Errorf("unknown uint shape %q", shape)
}

func count(shape string, many int) (int, error) {
	switch shape {
	case "one":
		return 1, nil
	case "none":
		return 0, nil
	case "many":
		return many, nil
	}
	return 0, fmt.Errorf("unknown count shape %q", shape)
}

func str(shape, ok string) (string, error) {
	switch shape {
	case "ok":
		return ok, nil
	case "absent":
		return "", nil
	case "big":
		return strings.Repeat("w", 100*1024), nil
	}
	return "", fmt.Errorf("unknown string shape %q", shape)
}

func mode(shape string) ([]byte, error) {
	switch shape {
	case "full":
		return []byte{0x01}, nil
	case "absent":
		return nil, nil
	case "light":
		return []byte{0x00}, nil
	case "boot":
		return []byte{0x03}, nil
	case "big":
		b := make([]byte, 300)
		for i := range b {
			b[i] = 0xff
		}
		return b, nil
	}
	return nil, fmt.Errorf("unknown mode shape %q", shape)
}

// list: repeated bytes (addresses).  ok: the well-formed element.
func (n *node) list(shape string, ok []byte) ([][]byte, error) {
	switch shape {
	case "one_ok":
		return [][]byte{append([]byte{}, ok...)}, nil
	case "none":
		return nil, nil
	case "one_empty":
		return [][]byte{{}}, nil
	case "one_short":
		return [][]byte{{0x01}}, nil
	case "one_long":
		return [][]byte{append(append([]byte{}, ok...), 0x33)}, nil
	case "self":
		return [][]byte{append([]byte{}, n.self.Bytes()...)}, nil
	case "many":
		var out [][]byte
		for i := 0; i < 30; i++ {
			out = append(out, n.big(32))
		}
		return out, nil
	case "huge":
		return [][]byte{n.big(64 * 1024)}, nil
	}
	return nil, fmt.Errorf("unknown list shape %q", shape)
}

func poslist(shape string) ([]int32, error) {
	switch shape {
	case "some":
		return []int32{0, 1, 2, 3}, nil
	case "none":
		return nil, nil
	case "neg":
		return []int32{-1, -5}, nil
	case "big":
		return []int32{255, 256, 1 << 30}, nil
	case "many":
		var out []int32
		for i := int32(0); i < 64; i++ {
			out = append(out, i)
		}
		return out, nil
	}
	return nil, fmt.Errorf("unknown pos list shape %q", shape)
}

// frame writes messages length-delimited, as protobuf.NewWriter does on a stream.
func frame(msgs ...proto.Message) ([]byte, error) {
	var buf bytes.Buffer
	w := protobuf.NewWriter(&buf)
	for _, m := range msgs {
		if err := w.WriteMsg(m); err != nil {
			return nil, err
		}
	}
	return buf.Bytes(), nil
}

func uvarint(v uint64) []byte {
	b := make([]byte, binary.MaxVarintLen64)
	return b[:binary.PutUvarint(b, v)]
}

// raw byte classes; baseline is a framed well-formed message of the message type.
func (n *node) rawBytes(cls string, baseline []byte) ([]byte, error) {
	switch cls {
	case "eof":
		return nil, nil
	case "hugelen":
		return append(uvarint(1<<40), n.big(10)...), nil
	case "over1mib":
		return append(uvarint(1024*1024+1), n.big(16)...), nil
	case "truncvarint":
		return []byte{0x80}, nil
	case "shortbody":
		return append(uvarint(100), n.big(10)...), nil
	case "random":
		return n.big(64), nil
	case "garbagebody":
		return append(uvarint(32), n.big(32)...), nil
	case "zerolen":
		return []byte{0x00}, nil
	case "twice":
		return append(append([]byte{}, baseline...), baseline...), nil
	}
	return nil, fmt.Errorf("unknown raw class %q", cls)
}
