// msgdrv: conformance driver for "malformed peer messages never crash the node" (C37).
//
// A scenario (spec/msgshapes/MsgShapesGen.tla) names a message type, a prepared
// local state, one or two messages given as field shapes (or a raw byte class)
// and the local follow-up operations.  The driver builds the real services with
// minimal real dependencies, turns shapes into bytes, feeds them to the stream
// handler (or to the client read path of a stream the node opens) over in-memory
// streams, runs the follow-ups, and logs for every operation whether it returned
// in time and whether it panicked.  No expected values here.
//
// Panics in goroutines the services start themselves cannot be recovered by the
// caller: they kill the process, as they would kill a node.  The driver therefore
// runs as a supervisor that executes the scenarios in a child process; when the
// child dies, the supervisor re-runs the scenario in progress alone, records a
// `crash` event (panic text and the first repository frame of the stack) for it
// and restarts the child at the next scenario.
package main

import (
	"bufio"
	"bytes"
	"encoding/json"
	"fmt"
	"io/ioutil"
	"os"
	"os/exec"
	"runtime"
	"strconv"
	"strings"
	"sync"
	"time"

	"verifharness/internal/kit"
)

const (
	exitDriverError = 3
)

type line struct {
	K   string `json:"k"` // begin | op (an operation starts) | ev (its result) | end
	Idx int    `json:"idx"`
	Ev  kit.Ev `json:"ev,omitempty"`
}

// ---------------------------------------------------------------------------------------------
// child
// ---------------------------------------------------------------------------------------------

func childMain() {
	// msgdrv child <scenarios> <events> <start position> <count> <settle-ms> <offset> <stride>
	// position p stands for scenario index offset + stride * p
	if len(os.Args) < 9 {
		fmt.Fprintln(os.Stderr, "DRIVER-ERROR: child usage")
		os.Exit(exitDriverError)
	}
	scs, err := kit.ReadScenarios(os.Args[2])
	if err != nil {
		fmt.Fprintln(os.Stderr, "DRIVER-ERROR:", err)
		os.Exit(exitDriverError)
	}
	start, _ := strconv.Atoi(os.Args[4])
	count, _ := strconv.Atoi(os.Args[5])
	settleMs, _ := strconv.Atoi(os.Args[6])
	offset, _ := strconv.Atoi(os.Args[7])
	stride, _ := strconv.Atoi(os.Args[8])
	if stride < 1 {
		stride = 1
	}
	f, err := os.OpenFile(os.Args[3], os.O_CREATE|os.O_WRONLY|os.O_APPEND, 0600)
	if err != nil {
		fmt.Fprintln(os.Stderr, "DRIVER-ERROR:", err)
		os.Exit(exitDriverError)
	}
	emit := func(l line) {
		b, err := json.Marshal(l)
		if err != nil {
			fmt.Fprintln(os.Stderr, "DRIVER-ERROR:", err)
			os.Exit(exitDriverError)
		}
		f.Write(append(b, '\n')) // one write per event: survives the death of the process
	}
	w, err := newWorld()
	if err != nil {
		fmt.Fprintln(os.Stderr, "DRIVER-ERROR:", err)
		os.Exit(exitDriverError)
	}
	for i := start; offset+stride*i < len(scs) && i < start+count; i++ {
		emit(line{K: "begin", Idx: i})
		err := runScenario(w, scs[offset+stride*i], time.Duration(settleMs)*time.Millisecond,
			func(ev kit.Ev) { emit(line{K: "ev", Idx: i, Ev: ev}) },
			func(ev kit.Ev) { emit(line{K: "op", Idx: i, Ev: ev}) })
		if err != nil {
			fmt.Fprintf(os.Stderr, "DRIVER-ERROR: scenario %d: %v\n", scs[offset+stride*i].Scn, err)
			os.Exit(exitDriverError)
		}
		emit(line{K: "end", Idx: i})
	}
	f.Close()
	os.Exit(0)
}

// ---------------------------------------------------------------------------------------------
// supervisor
// ---------------------------------------------------------------------------------------------

type childResult struct {
	events map[int][]kit.Ev
	during map[int]kit.Ev // the operation in progress (started, no result yet)
	begun  map[int]bool
	ended  map[int]bool
	last   int // last begun index, -1 if none
	code   int
	stderr string
}

func runChild(scnFile string, start, count, settleMs, offset, stride int, timeout time.Duration) (*childResult, error) {
	tmp, err := ioutil.TempFile("", "verif-msgdrv-ev")
	if err != nil {
		return nil, err
	}
	tmp.Close()
	defer os.Remove(tmp.Name())
	cmd := exec.Command(os.Args[0], "child", scnFile, tmp.Name(), strconv.Itoa(start), strconv.Itoa(count), strconv.Itoa(settleMs),
		strconv.Itoa(offset), strconv.Itoa(stride))
	var errb bytes.Buffer
	cmd.Stderr = &errb
	cmd.Stdout = ioutil.Discard
	cmd.Env = append(os.Environ(), "GOTRACEBACK=all")
	if err := cmd.Start(); err != nil {
		return nil, err
	}
	done := make(chan error, 1)
	go func() { done <- cmd.Wait() }()
	res := &childResult{events: map[int][]kit.Ev{}, during: map[int]kit.Ev{}, begun: map[int]bool{}, ended: map[int]bool{}, last: -1}
	select {
	case err = <-done:
	case <-time.After(timeout):
		_ = cmd.Process.Kill()
		<-done
		return nil, fmt.Errorf("child timed out after %s (start %d)", timeout, start)
	}
	if err != nil {
		if ee, ok := err.(*exec.ExitError); ok {
			res.code = ee.ExitCode()
		} else {
			return nil, err
		}
	}
	res.stderr = errb.String()
	f, err := os.Open(tmp.Name())
	if err != nil {
		return nil, err
	}
	defer f.Close()
	r := bufio.NewReaderSize(f, 1<<20)
	for {
		b, err := r.ReadBytes('\n')
		if len(b) > 1 {
			var l line
			if json.Unmarshal(b, &l) == nil {
				switch l.K {
				case "begin":
					res.begun[l.Idx] = true
					res.last = l.Idx
				case "op":
					res.during[l.Idx] = l.Ev
				case "ev":
					res.events[l.Idx] = append(res.events[l.Idx], l.Ev)
					delete(res.during, l.Idx)
				case "end":
					res.ended[l.Idx] = true
				}
			}
		}
		if err != nil {
			break
		}
	}
	return res, nil
}

// parsePanic extracts the panic text and the first frame inside the repository's packages.
func parsePanic(stderr string) (msg, fn, where string) {
	lines := strings.Split(stderr, "\n")
	start := -1
	for i, l := range lines {
		if strings.HasPrefix(l, "panic: ") || strings.HasPrefix(l, "fatal error: ") {
			msg = l
			start = i
			break
		}
	}
	if start < 0 {
		if len(stderr) > 300 {
			return stderr[:300], "", ""
		}
		return stderr, "", ""
	}
	// frames of the first goroutine listed after the panic line (the panicking one)
	inG := false
	for i := start + 1; i < len(lines); i++ {
		l := lines[i]
		if strings.HasPrefix(l, "goroutine ") {
			if inG {
				break
			}
			inG = true
			continue
		}
		if !inG {
			continue
		}
		if strings.HasPrefix(l, "github.com/gauss-project/aurorafs/pkg/") {
			if fn == "" {
				if i+1 < len(lines) {
					where = frameWhere(lines[i+1])
				}
				fn = frameName(l)
			} else {
				fn += " < " + frameName(l)
			}
			if strings.Count(fn, " < ") >= 2 {
				break
			}
		}
	}
	return
}

func frameName(l string) string {
	l = strings.TrimPrefix(l, "github.com/gauss-project/aurorafs/pkg/")
	// strip the argument list
	if i := strings.LastIndex(l, "("); i > 0 {
		// keep receiver parentheses such as chunkinfo.(*ChunkInfo).updateQueue(...)
		l = l[:i]
	}
	return l
}

func frameWhere(l string) string {
	l = strings.TrimSpace(l)
	if i := strings.Index(l, "/pkg/"); i >= 0 {
		l = l[i+1:]
	}
	if i := strings.Index(l, " "); i > 0 {
		l = l[:i]
	}
	return l
}

// superviseRange runs the positions [lo, hi) of one shard (scenario index = offset + stride * position) in child
// processes, restarting after every crash.  record receives positions.
func superviseRange(scnFile string, lo, hi, settleMs, offset, stride int, record func(idx int, evs []kit.Ev)) error {
	perScenario := 8 * time.Second
	idx := lo
	crashes := 0
	seen := map[string]bool{} // crash classes already attributed once (message type + panicking function)
	for idx < hi {
		res, err := runChild(scnFile, idx, hi-idx, settleMs, offset, stride, time.Duration(hi-idx+5)*perScenario)
		if err != nil {
			return err
		}
		if res.code == exitDriverError {
			return fmt.Errorf("child: %s", strings.TrimSpace(res.stderr))
		}
		for i, evs := range res.events {
			if res.ended[i] {
				record(i, evs)
			}
		}
		if res.code == 0 {
			return nil
		}
		// the child died
		crashes++
		if crashes > 400 {
			return fmt.Errorf("more than 400 child crashes; last: %.300s", res.stderr)
		}
		crashed := res.last
		if crashed < idx {
			return fmt.Errorf("child died before the first scenario: %.600s", res.stderr)
		}
		msg, fn, where := parsePanic(res.stderr)
		class := fn + "|" + where
		crashEv := func(evs []kit.Ev, during kit.Ev, msg, fn, where string, attributed bool) []kit.Ev {
			ev := kit.Ev{"op": "crash", "panicked": true, "returned": false, "pmsg": msg, "pfunc": fn,
				"pwhere": where, "attributed": attributed, "err": "", "dop": "settle"}
			for k, v := range during { // the operation that was in progress when the process died ("settle": none)
				if v != "" && v != nil {
					ev[k] = v
				}
			}
			return append(evs, ev)
		}
		if fn != "" && seen[class] && !res.ended[crashed] {
			// the same crash (same function, same line) was already reproduced alone once in this run: it died inside
			// the scenario in progress again; the orchestrator's confirmation step re-runs it alone anyway
			record(crashed, crashEv(res.events[crashed], res.during[crashed], msg, fn, where, true))
			idx = crashed + 1
			continue
		}
		// attribute: re-run the scenario in progress alone (longer settle); if it survives, the previous one
		attributed := -1
		var solo *childResult
		for _, cand := range []int{crashed, crashed - 1} {
			if cand < lo {
				continue
			}
			s, err := runChild(scnFile, cand, 1, 800, offset, stride, 90*time.Second)
			if err != nil {
				return err
			}
			if s.code == exitDriverError {
				return fmt.Errorf("child: %s", strings.TrimSpace(s.stderr))
			}
			if s.code != 0 {
				attributed, solo = cand, s
				break
			}
		}
		if attributed < 0 {
			// not reproducible alone: report it where it happened, marked
			record(crashed, crashEv(res.events[crashed], res.during[crashed], msg, fn, where, false))
		} else {
			m2, f2, w2 := parsePanic(solo.stderr)
			record(attributed, crashEv(solo.events[attributed], solo.during[attributed], m2, f2, w2, true))
			seen[f2+"|"+w2] = true
		}
		idx = crashed + 1
	}
	return nil
}

func supervise(scs []kit.Scenario, out *kit.Out) error {
	scnFile := os.Args[2]
	settleMs := 120
	if v := os.Getenv("VERIF_SETTLE_MS"); v != "" {
		if n, err := strconv.Atoi(v); err == nil {
			settleMs = n
		}
	}
	shards := runtime.NumCPU() * 3 / 4
	if v := os.Getenv("VERIF_SHARDS"); v != "" {
		if n, err := strconv.Atoi(v); err == nil && n > 0 {
			shards = n
		}
	}
	if shards > len(scs)/12+1 {
		shards = len(scs)/12 + 1
	}
	all := map[int][]kit.Ev{}
	var mu sync.Mutex
	record := func(i int, evs []kit.Ev) {
		mu.Lock()
		all[i] = evs
		mu.Unlock()
	}
	errs := make(chan error, shards)
	started := 0
	for k := 0; k < shards && k < len(scs); k++ {
		npos := (len(scs) - k + shards - 1) / shards
		started++
		go func(k, npos int) {
			errs <- superviseRange(scnFile, 0, npos, settleMs, k, shards, func(pos int, evs []kit.Ev) { record(k+shards*pos, evs) })
		}(k, npos)
	}
	var first error
	for i := 0; i < started; i++ {
		if err := <-errs; err != nil && first == nil {
			first = err
		}
	}
	if first != nil {
		return first
	}
	for i, sc := range scs {
		evs, ok := all[i]
		if !ok {
			return fmt.Errorf("scenario %d produced no record", sc.Scn)
		}
		out.Begin(sc.Scn, kit.Ev{"mt": kit.Str(sc.Par, "mt"), "pre": kit.Str(sc.Par, "pre")})
		for _, ev := range evs {
			out.Emit(ev)
		}
	}
	return nil
}

func main() {
	if len(os.Args) >= 2 && os.Args[1] == "child" {
		childMain()
		return
	}
	kit.Main(supervise)
}
