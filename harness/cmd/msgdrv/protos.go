package main

import (
	"context"
	"encoding/hex"
	"encoding/json"
	"fmt"
	"io"
	"io/ioutil"
	"math/big"
	"os"
	"strings"
	"time"

	"github.com/ethereum/go-ethereum/common"
	"github.com/ethereum/go-ethereum/core/types"
	accmock "github.com/gauss-project/aurorafs/pkg/accounting/mock"
	"github.com/gauss-project/aurorafs/pkg/boson"
	"github.com/gauss-project/aurorafs/pkg/cac"
	"github.com/gauss-project/aurorafs/pkg/chunkinfo"
	cipb "github.com/gauss-project/aurorafs/pkg/chunkinfo/pb"
	"github.com/gauss-project/aurorafs/pkg/crypto"
	"github.com/gauss-project/aurorafs/pkg/hive2"
	hivepb "github.com/gauss-project/aurorafs/pkg/hive2/pb"
	"github.com/gauss-project/aurorafs/pkg/multicast"
	mcmodel "github.com/gauss-project/aurorafs/pkg/multicast/model"
	mcpb "github.com/gauss-project/aurorafs/pkg/multicast/pb"
	"github.com/gauss-project/aurorafs/pkg/netstore"
	"github.com/gauss-project/aurorafs/pkg/p2p"
	"github.com/gauss-project/aurorafs/pkg/p2p/libp2p/verifhs"
	"github.com/gauss-project/aurorafs/pkg/pingpong"
	pingpb "github.com/gauss-project/aurorafs/pkg/pingpong/pb"
	resolvermock "github.com/gauss-project/aurorafs/pkg/resolver/mock"
	"github.com/gauss-project/aurorafs/pkg/retrieval"
	retrpb "github.com/gauss-project/aurorafs/pkg/retrieval/pb"
	"github.com/gauss-project/aurorafs/pkg/routetab"
	rtmock "github.com/gauss-project/aurorafs/pkg/routetab/mock"
	rtpb "github.com/gauss-project/aurorafs/pkg/routetab/pb"
	oraclemock "github.com/gauss-project/aurorafs/pkg/settlement/chain/oracle/mock"
	"github.com/gauss-project/aurorafs/pkg/settlement/traffic"
	chequePkg "github.com/gauss-project/aurorafs/pkg/settlement/traffic/cheque"
	"github.com/gauss-project/aurorafs/pkg/settlement/traffic/trafficprotocol"
	trpb "github.com/gauss-project/aurorafs/pkg/settlement/traffic/trafficprotocol/pb"
	ldbstate "github.com/gauss-project/aurorafs/pkg/statestore/leveldb"
	statemock "github.com/gauss-project/aurorafs/pkg/statestore/mock"
	"github.com/gauss-project/aurorafs/pkg/topology"
	"github.com/gauss-project/aurorafs/pkg/topology/lightnode"
	"github.com/gauss-project/aurorafs/pkg/traversal"
	"github.com/gogo/protobuf/proto"
	libp2ppeer "github.com/libp2p/go-libp2p-core/peer"
	ma "github.com/multiformats/go-multiaddr"

	"verifharness/internal/kit"
	"verifharness/internal/memstream"
)

// plan is one message delivery: either a handler invocation with bytes on the wire, or a local operation that
// opens a stream (trigger) whose remote side answers with bytes.
type plan struct {
	handler   p2p.HandlerFunc
	peer      p2p.Peer
	wire      []byte
	trigger   func(ctx context.Context) error
	answerKey string
}

func groupOf(mt string) string {
	switch strings.SplitN(mt, ".", 2)[0] {
	case "hs":
		return "hs"
	case "ping":
		return "ping"
	case "hive":
		return "hive"
	case "retr", "ci":
		return "store"
	case "rt":
		return "rt"
	case "tr":
		return "tr"
	case "mc":
		return "mc"
	}
	return ""
}

func fstr(f map[string]interface{}, k string) string { return kit.Str(f, k) }

// ---------------------------------------------------------------------------------------------
// bundles
// ---------------------------------------------------------------------------------------------

type hsBundle struct {
	svc  *verifhs.Service
	info *libp2ppeer.AddrInfo
}
type pingBundle struct{ svc *pingpong.Service }
type hiveBundle struct{ svc *hive2.Service }
type storeBundle struct {
	ci       *chunkinfo.ChunkInfo
	retr     *retrieval.Service
	haveFile bool
	cancel   context.CancelFunc
}
type rtBundle struct {
	svc    *routetab.Service
	target boson.Address // a pending FindRoute target (pre "pending")
}
type trBundle struct {
	svc     *traffic.Service
	proto   *trafficprotocol.Service
	self    common.Address
	selfKey int
	n       int64
}
type mcBundle struct {
	svc  *multicast.Service
	gid  boson.Address
	name string
}

type resolverSame struct{}

func (resolverSame) Resolve(observed ma.Multiaddr) (ma.Multiaddr, error) { return observed, nil }

const chainID = int64(5)

// chain / cashout stubs for the traffic service (no chain in the sandbox)
type chainStub struct{}

func (chainStub) TransferredAddress(common.Address) ([]common.Address, error) { return nil, nil }
func (chainStub) RetrievedAddress(common.Address) ([]common.Address, error)   { return nil, nil }
func (chainStub) BalanceOf(common.Address) (*big.Int, error)                  { return big.NewInt(1000000), nil }
func (chainStub) RetrievedTotal(common.Address) (*big.Int, error)             { return big.NewInt(0), nil }
func (chainStub) TransferredTotal(common.Address) (*big.Int, error)           { return big.NewInt(0), nil }
func (chainStub) TransAmount(a, b common.Address) (*big.Int, error)           { return big.NewInt(0), nil }
func (chainStub) CashChequeBeneficiary(ctx context.Context, peer boson.Address, beneficiary, recipient common.Address, cum *big.Int, sig []byte) (*types.Transaction, error) {
	return nil, fmt.Errorf("verif: no chain")
}

type cashoutStub struct{}

func (cashoutStub) CashCheque(ctx context.Context, peer boson.Address, beneficiary, recipient common.Address) (common.Hash, error) {
	return common.Hash{}, fmt.Errorf("verif: no chain")
}
func (cashoutStub) WaitForReceipt(ctx context.Context, h common.Hash) (uint64, error) { return 1, nil }

func (n *node) setup(group, pre string) error {
	w := n.w
	switch group {
	case "hs":
		nma, err := ma.NewMultiaddr(nodeUnderlay)
		if err != nil {
			return err
		}
		info, err := libp2ppeer.AddrInfoFromP2pAddr(nma)
		if err != nil {
			return err
		}
		svc, err := verifhs.New(crypto.NewDefaultSigner(w.nodeKey), resolverSame{}, n.self, networkID, n.st.Mode, "welcome", info.ID,
			w.logger, lightnode.NewContainer(n.self), lightnode.DefaultLightNodeLimit)
		if err != nil {
			return err
		}
		if pre == "picker" {
			if err := n.withKad(); err != nil {
				return err
			}
			svc.SetPicker(n.kad)
		}
		n.svc = &hsBundle{svc: svc, info: info}
	case "ping":
		n.svc = &pingBundle{svc: pingpong.New(n.st, w.logger, w.tracer)}
	case "hive":
		if err := n.withKad(); err != nil {
			return err
		}
		svc := hive2.New(n.st, n.book, networkID, w.logger)
		svc.SetAddPeersHandler(n.kad.AddPeers)
		svc.SetConfig(hive2.Config{Kad: n.kad, Base: n.self, AllowPrivateCIDRs: true})
		n.cleanup = append(n.cleanup, func() { _ = svc.Close() })
		n.svc = &hiveBundle{svc: svc}
	case "store":
		state, err := ldbstate.NewInMemoryStateStore(w.logger)
		if err != nil {
			return err
		}
		route := rtmock.NewMockRouteTable()
		retr := retrieval.New(n.self, n.st, &route, w.store, true, w.logger, w.tracer, accmock.NewAccounting(), n.subPub)
		ns := netstore.New(w.store, retr, w.logger, n.self)
		trav := traversal.New(ns)
		ci := chunkinfo.New(n.self, n.st, w.logger, trav, state, ns, &route, oraclemock.NewServer(), resolvermock.NewResolver(), n.subPub)
		if err := ci.InitChunkInfo(); err != nil {
			return err
		}
		w.store.SetChunkInfo(ci)
		ns.SetChunkInfo(ci)
		retr.Config(ci)
		b := &storeBundle{ci: ci, retr: retr}
		n.svc = b
		n.cleanup = append(n.cleanup, func() { _ = state.Close() })
		if pre == "file" || pre == "queue" {
			// the node holds the file: the pyramid and its own presence vector are registered as after an upload
			for _, c := range w.fileChunks {
				if err := ci.OnChunkRetrieved(c, w.fileRoot, n.self); err != nil {
					return fmt.Errorf("register stored file: %w", err)
				}
			}
			b.haveFile = true
		}
		if pre == "queue" {
			// a discovery for the file is in progress: peer A has been asked for its chunk info
			ctx, cancel := context.WithCancel(context.Background())
			b.cancel = cancel
			n.cleanup = append(n.cleanup, cancel)
			go ci.FindChunkInfo(ctx, nil, w.fileRoot, []boson.Address{n.peerA()})
			deadline := time.Now().Add(2 * time.Second)
			for {
				asked := false
				for _, o := range n.st.Opened() {
					if o.Stream == "chunkinforeq" {
						asked = true
					}
				}
				if asked {
					break
				}
				if time.Now().After(deadline) {
					return fmt.Errorf("discovery did not start")
				}
				time.Sleep(2 * time.Millisecond)
			}
		}
	case "rt":
		if err := n.withKad(); err != nil {
			return err
		}
		ctx, cancel := context.WithCancel(context.Background())
		n.cleanup = append(n.cleanup, cancel)
		svc := routetab.New(n.self, ctx, n.p2ps, n.st, n.book, networkID, n.light, n.kad, statemock.NewStateStore(), w.logger, routetab.Options{})
		b := &rtBundle{svc: svc}
		n.svc = b
		if pre == "pending" {
			// a route discovery for a far target is waiting for its response
			b.target = boson.NewAddress(n.big(32))
			go func() { _, _ = svc.FindRoute(ctx, b.target, 1500*time.Millisecond) }()
			deadline := time.Now().Add(2 * time.Second)
			for {
				asked := false
				for _, o := range n.st.Opened() {
					if o.Stream == "onRouteReq" {
						asked = true
					}
				}
				if asked || time.Now().After(deadline) {
					break
				}
				time.Sleep(2 * time.Millisecond)
			}
		}
	case "tr":
		state := statemock.NewStateStore()
		eth, err := crypto.NewEthereumAddress(w.nodeKey.PublicKey)
		if err != nil {
			return err
		}
		self := common.BytesToAddress(eth)
		proto := trafficprotocol.New(n.st, w.logger, self)
		cs := chequePkg.NewChequeStore(state, self, chequePkg.RecoverCheque, chainID)
		svc := traffic.New(w.logger, self, state, chainStub{}, cs, cashoutStub{}, n.p2ps, traffic.NewAddressBook(state),
			chequePkg.NewChequeSigner(crypto.NewDefaultSigner(w.nodeKey), chainID), proto, chainID, n.subPub)
		proto.SetTraffic(svc)
		b := &trBundle{svc: svc, proto: proto, self: self}
		n.svc = b
		if pre == "known" {
			// peer A has shaken hands before: its beneficiary address is known
			pl, err := n.build("tr.init", map[string]interface{}{"address": "ok", "cheque": "empty"})
			if err != nil {
				return err
			}
			if o, _ := n.exec(pl); o.panicked || !o.returned {
				return fmt.Errorf("traffic handshake setup failed: %+v", o)
			}
		}
	case "mc":
		if err := n.withKad(); err != nil {
			return err
		}
		ctx, cancel := context.WithCancel(context.Background())
		n.cleanup = append(n.cleanup, cancel)
		route := routetab.New(n.self, ctx, n.p2ps, n.st, n.book, networkID, n.light, n.kad, statemock.NewStateStore(), w.logger, routetab.Options{})
		svc := multicast.NewService(n.self, n.st.Mode, n.p2ps, n.st, n.kad, route, w.logger, n.subPub, multicast.Option{Dev: true})
		b := &mcBundle{svc: svc, name: fmt.Sprintf("verif-group-%d-%d", kit.Seed(), n.id)}
		b.gid = multicast.GenerateGID(b.name)
		n.svc = b
		if pre == "joined" {
			if err := svc.AddGroup([]mcmodel.ConfigNodeGroup{{Name: b.name, GType: mcmodel.GTypeJoin, KeepConnectedPeers: 2, KeepPingPeers: 2,
				Nodes: []boson.Address{n.w.peers[2].overlay}}}); err != nil {
				return err
			}
			// peer A (a neighbour) announces membership of the same group
			wire, err := frame(&mcpb.GIDs{Gid: [][]byte{b.gid.Bytes()}})
			if err != nil {
				return err
			}
			h, err := handlerOf(svc.Protocol(), "handshake")
			if err != nil {
				return err
			}
			if o, _ := n.serve(h, n.fullPeer(n.peerA()), wire); o.panicked || !o.returned {
				return fmt.Errorf("multicast setup failed: %+v", o)
			}
		}
	default:
		return fmt.Errorf("unknown protocol group %q", group)
	}
	return nil
}

// ---------------------------------------------------------------------------------------------
// execution of a plan
// ---------------------------------------------------------------------------------------------

func (n *node) exec(p *plan) (outcome, int) {
	if p.handler != nil {
		return n.serve(p.handler, p.peer, p.wire)
	}
	wrote := len(p.wire)
	n.amu.Lock()
	n.answers[p.answerKey] = func(ctx context.Context, s *memstream.Stream) {
		go func() { _, _ = io.Copy(ioutil.Discard, s) }()
		if len(p.wire) > 0 {
			_, _ = s.Write(p.wire)
		}
		_ = s.Close()
	}
	n.amu.Unlock()
	ctx, cancel := context.WithTimeout(context.Background(), handlerTimeout-500*time.Millisecond)
	defer cancel()
	o := run(handlerTimeout, func() error { return p.trigger(ctx) })
	n.amu.Lock()
	delete(n.answers, p.answerKey)
	n.amu.Unlock()
	return o, wrote
}

// ---------------------------------------------------------------------------------------------
// message builders
// ---------------------------------------------------------------------------------------------

func (n *node) ackOf(f map[string]interface{}) (*verifhs.Ack, error) {
	p := n.w.peers[3] // the remote node whose record the Ack carries
	ub, _ := p.underlay.MarshalBinary()
	switch fstr(f, "ack") {
	case "absent":
		return nil, nil
	case "empty":
		return &verifhs.Ack{}, nil
	}
	ack := &verifhs.Ack{}
	switch fstr(f, "address") {
	case "absent":
	case "empty":
		ack.Address = &verifhs.BzzAddress{}
	default:
		u, err := n.under(fstr(f, "underlay"), ub)
		if err != nil {
			return nil, err
		}
		o, err := n.addr(fstr(f, "overlay"), p.overlay.Bytes(), p.overlay.Bytes())
		if err != nil {
			return nil, err
		}
		s, err := n.sig(fstr(f, "signature"), p.record.Signature)
		if err != nil {
			return nil, err
		}
		ack.Address = &verifhs.BzzAddress{Underlay: u, Overlay: o, Signature: s}
	}
	switch fstr(f, "net") {
	case "match":
		ack.NetworkID = networkID
	case "other":
		ack.NetworkID = networkID + 1
	case "zero":
		ack.NetworkID = 0
	default:
		return nil, fmt.Errorf("net shape %q", fstr(f, "net"))
	}
	m, err := mode(fstr(f, "mode"))
	if err != nil {
		return nil, err
	}
	ack.NodeMode = m
	if ack.WelcomeMessage, err = str(fstr(f, "welcome"), "hello"); err != nil {
		return nil, err
	}
	return ack, nil
}

func (n *node) known(role string) []byte {
	switch role {
	case "root":
		return n.w.fileRoot.Bytes()
	case "chunk":
		return n.w.fileChunks[1].Bytes()
	case "peerA":
		return n.peerA().Bytes()
	}
	return nil
}

func (n *node) build(mt string, f map[string]interface{}) (*plan, error) {
	w := n.w
	other := w.peers[3].overlay.Bytes() // a well-formed address the node has no state for
	peerA := n.fullPeer(n.peerA())
	switch mt {
	// ------------------------------------------------------------------ handshake
	case "hs.handle", "hs.handshake":
		b := n.svc.(*hsBundle)
		nodeMA, _ := ma.NewMultiaddr(nodeUnderlay)
		syn, err := n.under(fstr(f, "syn"), nodeMA.Bytes())
		if err != nil {
			return nil, err
		}
		ack, err := n.ackOf(f)
		if err != nil {
			return nil, err
		}
		pinfo, err := libp2ppeer.AddrInfoFromP2pAddr(w.peers[3].underlay)
		if err != nil {
			return nil, err
		}
		if mt == "hs.handle" {
			msgs := []proto.Message{&verifhs.Syn{ObservedUnderlay: syn}}
			if ack != nil {
				msgs = append(msgs, ack)
			}
			wire, err := frame(msgs...)
			if err != nil {
				return nil, err
			}
			h := func(ctx context.Context, p p2p.Peer, s p2p.Stream) error {
				_, err := b.svc.Handle(ctx, s, pinfo.Addrs[0], pinfo.ID)
				return err
			}
			return &plan{handler: h, peer: peerA, wire: wire}, nil
		}
		sa := &verifhs.SynAck{Ack: ack}
		switch fstr(f, "synsub") {
		case "absent":
		case "empty":
			sa.Syn = &verifhs.Syn{}
		default:
			sa.Syn = &verifhs.Syn{ObservedUnderlay: syn}
		}
		wire, err := frame(sa)
		if err != nil {
			return nil, err
		}
		// the client read path: Handshake reads the SynAck from the stream it was given
		h := func(ctx context.Context, p p2p.Peer, s p2p.Stream) error {
			_, err := b.svc.Handshake(ctx, s, pinfo.Addrs[0], pinfo.ID)
			return err
		}
		return &plan{handler: h, peer: peerA, wire: wire}, nil

	// ------------------------------------------------------------------ pingpong
	case "ping.ping":
		b := n.svc.(*pingBundle)
		g, err := str(fstr(f, "greeting"), "hey")
		if err != nil {
			return nil, err
		}
		c, err := count(fstr(f, "n"), 5)
		if err != nil {
			return nil, err
		}
		var msgs []proto.Message
		for i := 0; i < c; i++ {
			msgs = append(msgs, &pingpb.Ping{Greeting: g})
		}
		wire, err := frame(msgs...)
		if err != nil {
			return nil, err
		}
		h, err := handlerOf(b.svc.Protocol(), "pingpong")
		if err != nil {
			return nil, err
		}
		return &plan{handler: h, peer: peerA, wire: wire}, nil
	case "ping.pong":
		b := n.svc.(*pingBundle)
		r, err := str(fstr(f, "response"), "{hey}")
		if err != nil {
			return nil, err
		}
		c, err := count(fstr(f, "n"), 5)
		if err != nil {
			return nil, err
		}
		var msgs []proto.Message
		for i := 0; i < c; i++ {
			msgs = append(msgs, &pingpb.Pong{Response: r})
		}
		wire, err := frame(msgs...)
		if err != nil {
			return nil, err
		}
		return &plan{wire: wire, answerKey: "pingpong/pingpong", trigger: func(ctx context.Context) error {
			_, err := b.svc.Ping(ctx, n.peerA(), "a", "b")
			return err
		}}, nil

	// ------------------------------------------------------------------ hive2
	case "hive.req":
		b := n.svc.(*hiveBundle)
		t, err := n.addr(fstr(f, "target"), other, nil)
		if err != nil {
			return nil, err
		}
		pos, err := poslist(fstr(f, "pos"))
		if err != nil {
			return nil, err
		}
		lim, err := i32(fstr(f, "limit"))
		if err != nil {
			return nil, err
		}
		wire, err := frame(&hivepb.FindNodeReq{Target: t, Pos: pos, Limit: lim})
		if err != nil {
			return nil, err
		}
		h, err := handlerOf(b.svc.Protocol(), "findNode")
		if err != nil {
			return nil, err
		}
		return &plan{handler: h, peer: peerA, wire: wire}, nil
	case "hive.peers":
		b := n.svc.(*hiveBundle)
		c, err := count(fstr(f, "n"), 6)
		if err != nil {
			return nil, err
		}
		p3 := w.peers[3]
		resp := &hivepb.Peers{}
		for i := 0; i < c; i++ {
			u, err := n.under(fstr(f, "underlay"), p3.underlay.Bytes())
			if err != nil {
				return nil, err
			}
			s, err := n.sig(fstr(f, "signature"), p3.record.Signature)
			if err != nil {
				return nil, err
			}
			o, err := n.addr(fstr(f, "overlay"), p3.overlay.Bytes(), nil)
			if err != nil {
				return nil, err
			}
			if i > 0 && len(o) > 0 {
				o = append([]byte{}, o...)
				o[len(o)-1] ^= byte(i)
			}
			resp.Peers = append(resp.Peers, &hivepb.AuroraAddress{Underlay: u, Signature: s, Overlay: o})
		}
		wire, err := frame(resp)
		if err != nil {
			return nil, err
		}
		n.roots = append(n.roots, p3.overlay.Bytes())
		return &plan{wire: wire, answerKey: "hive2/findNode", trigger: func(ctx context.Context) error {
			res, err := b.svc.DoFindNode(ctx, boson.NewAddress(other), n.peerA(), []int32{0, 1}, 4)
			if err != nil || res == nil {
				return err
			}
			// the caller drains the result channel (kademlia's discovery does)
			for {
				select {
				case _, ok := <-res:
					if !ok {
						return nil
					}
				case <-ctx.Done():
					return ctx.Err()
				}
			}
		}}, nil

	// ------------------------------------------------------------------ retrieval
	case "retr.req":
		b := n.svc.(*storeBundle)
		t, err := n.addr(fstr(f, "target"), n.peerB().Bytes(), nil)
		if err != nil {
			return nil, err
		}
		r, err := n.addr(fstr(f, "root"), other, n.known("root"))
		if err != nil {
			return nil, err
		}
		c, err := n.addr(fstr(f, "chunk"), other, n.known("chunk"))
		if err != nil {
			return nil, err
		}
		n.roots, n.cids = append(n.roots, r), append(n.cids, c)
		wire, err := frame(&retrpb.RequestChunk{TargetAddr: t, RootAddr: r, ChunkAddr: c})
		if err != nil {
			return nil, err
		}
		h, err := handlerOf(b.retr.Protocol(), "retrieval")
		if err != nil {
			return nil, err
		}
		return &plan{handler: h, peer: peerA, wire: wire}, nil
	case "retr.delivery":
		// the node forwards a request for a chunk it does not hold to peer B and reads B's delivery
		b := n.svc.(*storeBundle)
		addr, data, err := n.chunkShape(fstr(f, "data"))
		if err != nil {
			return nil, err
		}
		root := boson.NewAddress(other)
		if b.haveFile {
			root = w.fileRoot
		}
		n.roots, n.cids = append(n.roots, root.Bytes()), append(n.cids, addr.Bytes())
		req, err := frame(&retrpb.RequestChunk{TargetAddr: n.peerB().Bytes(), RootAddr: root.Bytes(), ChunkAddr: addr.Bytes()})
		if err != nil {
			return nil, err
		}
		wire, err := frame(&retrpb.Delivery{Data: data})
		if err != nil {
			return nil, err
		}
		h, err := handlerOf(b.retr.Protocol(), "retrieval")
		if err != nil {
			return nil, err
		}
		return &plan{wire: wire, answerKey: "retrieval/retrieval", trigger: func(ctx context.Context) error {
			o, _ := n.serve(h, peerA, req)
			if o.panicked {
				panic(o.pmsg + " @" + o.pfunc)
			}
			if !o.returned {
				<-ctx.Done()
			}
			if o.err != "" {
				return fmt.Errorf("%s", o.err)
			}
			return nil
		}}, nil

	// ------------------------------------------------------------------ chunkinfo
	case "ci.req", "ci.resp", "ci.pyreq":
		b := n.svc.(*storeBundle)
		r, err := n.addr(fstr(f, "rootcid"), other, n.known("root"))
		if err != nil {
			return nil, err
		}
		n.roots = append(n.roots, r)
		var msg proto.Message
		var stream string
		switch mt {
		case "ci.req":
			t, err := n.addr(fstr(f, "target"), n.peerB().Bytes(), nil)
			if err != nil {
				return nil, err
			}
			q, err := n.addr(fstr(f, "req"), n.peerA().Bytes(), nil)
			if err != nil {
				return nil, err
			}
			msg, stream = &cipb.ChunkInfoReq{RootCid: r, Target: t, Req: q}, "chunkinforeq"
		case "ci.pyreq":
			t, err := n.addr(fstr(f, "target"), n.peerB().Bytes(), nil)
			if err != nil {
				return nil, err
			}
			msg, stream = &cipb.ChunkPyramidReq{RootCid: r, Target: t}, "chunkpyramid"
		case "ci.resp":
			// target: the peer that answers (peer A was asked); req: the requester (this node)
			t, err := n.addr(fstr(f, "target"), n.peerA().Bytes(), nil)
			if err != nil {
				return nil, err
			}
			q, err := n.addr(fstr(f, "req"), n.peerB().Bytes(), nil)
			if err != nil {
				return nil, err
			}
			pres, err := n.presence(fstr(f, "presence"), t)
			if err != nil {
				return nil, err
			}
			msg, stream = &cipb.ChunkInfoResp{RootCid: r, Target: t, Req: q, Presence: pres}, "chunkinforesp"
		}
		wire, err := frame(msg)
		if err != nil {
			return nil, err
		}
		h, err := handlerOf(b.ci.Protocol(), stream)
		if err != nil {
			return nil, err
		}
		return &plan{handler: h, peer: peerA, wire: wire}, nil
	case "ci.pyresp":
		// the node learns that peer A fetched a chunk of a file it does not know; it asks peer B for the pyramid
		b := n.svc.(*storeBundle)
		rootAddr, data, err := n.chunkShape(fstr(f, "chunk"))
		if err != nil {
			return nil, err
		}
		c, err := count(fstr(f, "n"), 3)
		if err != nil {
			return nil, err
		}
		var msgs []proto.Message
		for i := 0; i < c; i++ {
			a, d := rootAddr, data
			if i > 0 {
				a, d = n.validChunk(64 + i)
			}
			hsh, err := n.addr(fstr(f, "hash"), other, a.Bytes())
			if err != nil {
				return nil, err
			}
			msgs = append(msgs, &cipb.ChunkPyramidResp{Hash: hsh, Chunk: d})
		}
		if fstr(f, "done") == "yes" {
			msgs = append(msgs, &cipb.ChunkPyramidResp{Ok: true})
		}
		wire, err := frame(msgs...)
		if err != nil {
			return nil, err
		}
		n.roots, n.cids = append(n.roots, rootAddr.Bytes()), append(n.cids, rootAddr.Bytes())
		return &plan{wire: wire, answerKey: "chunkinfo/chunkpyramid", trigger: func(ctx context.Context) error {
			return b.ci.OnChunkTransferred(rootAddr, rootAddr, n.peerA(), n.peerB())
		}}, nil

	// ------------------------------------------------------------------ routetab
	case "rt.req", "rt.resp":
		b := n.svc.(*rtBundle)
		okDest := other
		if b.target.Bytes() != nil {
			okDest = b.target.Bytes()
		}
		d, err := n.addr(fstr(f, "dest"), okDest, nil)
		if err != nil {
			return nil, err
		}
		paths, err := n.paths(fstr(f, "paths"))
		if err != nil {
			return nil, err
		}
		ut, err := i32(fstr(f, "utype"))
		if err != nil {
			return nil, err
		}
		ul, err := n.ulist(fstr(f, "ulist"))
		if err != nil {
			return nil, err
		}
		n.roots = append(n.roots, d)
		var msg proto.Message
		stream := "onRouteResp"
		if mt == "rt.req" {
			al, err := i32(fstr(f, "alpha"))
			if err != nil {
				return nil, err
			}
			msg, stream = &rtpb.RouteReq{Dest: d, Alpha: al, Paths: paths, UType: ut, UList: ul}, "onRouteReq"
		} else {
			msg = &rtpb.RouteResp{Dest: d, Paths: paths, UType: ut, UList: ul}
		}
		wire, err := frame(msg)
		if err != nil {
			return nil, err
		}
		h, err := handlerOf(b.svc.Protocol(), stream)
		if err != nil {
			return nil, err
		}
		return &plan{handler: h, peer: peerA, wire: wire}, nil
	case "rt.under":
		b := n.svc.(*rtBundle)
		d, err := n.addr(fstr(f, "dest"), other, n.known("peerA"))
		if err != nil {
			return nil, err
		}
		n.roots = append(n.roots, d)
		wire, err := frame(&rtpb.UnderlayReq{Dest: d})
		if err != nil {
			return nil, err
		}
		h, err := handlerOf(b.svc.Protocol(), "onFindUnderlay")
		if err != nil {
			return nil, err
		}
		return &plan{handler: h, peer: n.fullPeer(n.peerB()), wire: wire}, nil
	case "rt.underresp":
		b := n.svc.(*rtBundle)
		p3 := w.peers[3]
		d, err := n.addr(fstr(f, "dest"), n.big(32), p3.overlay.Bytes())
		if err != nil {
			return nil, err
		}
		u, err := n.under(fstr(f, "underlay"), p3.underlay.Bytes())
		if err != nil {
			return nil, err
		}
		s, err := n.sig(fstr(f, "signature"), p3.record.Signature)
		if err != nil {
			return nil, err
		}
		n.roots = append(n.roots, d, p3.overlay.Bytes())
		wire, err := frame(&rtpb.UnderlayResp{Dest: d, Underlay: u, Signature: s})
		if err != nil {
			return nil, err
		}
		return &plan{wire: wire, answerKey: "router/onFindUnderlay", trigger: func(ctx context.Context) error {
			_, err := b.svc.FindUnderlay(ctx, p3.overlay, time.Second)
			return err
		}}, nil
	case "rt.chain":
		b := n.svc.(*rtBundle)
		src, err := n.addr(fstr(f, "src"), other, nil)
		if err != nil {
			return nil, err
		}
		sm, err := mode(fstr(f, "srcmode"))
		if err != nil {
			return nil, err
		}
		d, err := n.addr(fstr(f, "dest"), n.peerB().Bytes(), nil)
		if err != nil {
			return nil, err
		}
		name := func(shape, ok string) ([]byte, error) {
			switch shape {
			case "ok":
				return []byte(ok), nil
			case "absent":
				return nil, nil
			case "unknown":
				return []byte("no-such-thing"), nil
			case "big":
				return n.big(8192), nil
			}
			return nil, fmt.Errorf("name shape %q", shape)
		}
		pn, err := name(fstr(f, "pname"), "pingpong")
		if err != nil {
			return nil, err
		}
		pv, err := name(fstr(f, "pversion"), "1.0.0")
		if err != nil {
			return nil, err
		}
		sn, err := name(fstr(f, "sname"), "pingpong")
		if err != nil {
			return nil, err
		}
		data, err := n.bytesOf(fstr(f, "data"), []byte("payload"))
		if err != nil {
			return nil, err
		}
		ps, err := n.list(fstr(f, "paths"), n.peerA().Bytes())
		if err != nil {
			return nil, err
		}
		n.roots = append(n.roots, d)
		wire, err := frame(&rtpb.RouteRelayReq{Src: src, SrcMode: sm, Dest: d, ProtocolName: pn, ProtocolVersion: pv, StreamName: sn, Data: data, Paths: ps})
		if err != nil {
			return nil, err
		}
		h, err := handlerOf(b.svc.Protocol(), "relayConnChain")
		if err != nil {
			return nil, err
		}
		return &plan{handler: h, peer: peerA, wire: wire}, nil

	// ------------------------------------------------------------------ traffic (cheques)
	case "tr.cheque", "tr.init":
		b := n.svc.(*trBundle)
		pa := w.peers[0]
		a, err := n.bytesOf(fstr(f, "address"), pa.eth)
		if err != nil {
			return nil, err
		}
		c, err := n.chequeJSON(b, fstr(f, "cheque"))
		if err != nil {
			return nil, err
		}
		wire, err := frame(&trpb.EmitCheque{Address: a, SignedCheque: c})
		if err != nil {
			return nil, err
		}
		stream := "traffic"
		if mt == "tr.init" {
			stream = "init"
		}
		h, err := handlerOf(b.proto.Protocol(), stream)
		if err != nil {
			return nil, err
		}
		return &plan{handler: h, peer: peerA, wire: wire}, nil

	// ------------------------------------------------------------------ multicast
	case "mc.hs", "mc.hsresp":
		b := n.svc.(*mcBundle)
		g, err := n.list(fstr(f, "gids"), b.gid.Bytes())
		if err != nil {
			return nil, err
		}
		for _, x := range g {
			n.roots = append(n.roots, x)
		}
		wire, err := frame(&mcpb.GIDs{Gid: g})
		if err != nil {
			return nil, err
		}
		if mt == "mc.hs" {
			h, err := handlerOf(b.svc.Protocol(), "handshake")
			if err != nil {
				return nil, err
			}
			return &plan{handler: h, peer: peerA, wire: wire}, nil
		}
		return &plan{wire: wire, answerKey: "multicast/handshake", trigger: func(ctx context.Context) error {
			return b.svc.Handshake(ctx, n.peerA())
		}}, nil
	case "mc.find":
		b := n.svc.(*mcBundle)
		g, err := n.addr(fstr(f, "gid"), other, b.gid.Bytes())
		if err != nil {
			return nil, err
		}
		lim, err := i32(fstr(f, "limit"))
		if err != nil {
			return nil, err
		}
		ttl, err := i32(fstr(f, "ttl"))
		if err != nil {
			return nil, err
		}
		if fstr(f, "ttl") == "thirty" {
			ttl = 9 // one below the limit of onFindGroup
		}
		ps, err := n.list(fstr(f, "paths"), n.peerB().Bytes())
		if err != nil {
			return nil, err
		}
		n.roots = append(n.roots, g)
		wire, err := frame(&mcpb.FindGroupReq{Gid: g, Limit: lim, Ttl: ttl, Paths: ps})
		if err != nil {
			return nil, err
		}
		h, err := handlerOf(b.svc.Protocol(), "findGroup")
		if err != nil {
			return nil, err
		}
		return &plan{handler: h, peer: n.fullPeer(n.peerB()), wire: wire}, nil
	case "mc.findresp":
		// a find-group request for an unknown group is forwarded to the connected member (peer A); the node reads A's answer
		b := n.svc.(*mcBundle)
		as, err := n.list(fstr(f, "addresses"), other)
		if err != nil {
			return nil, err
		}
		wire, err := frame(&mcpb.FindGroupResp{Addresses: as})
		if err != nil {
			return nil, err
		}
		gid := n.big(32)
		n.roots = append(n.roots, gid)
		req, err := frame(&mcpb.FindGroupReq{Gid: gid, Limit: 3, Ttl: 0})
		if err != nil {
			return nil, err
		}
		h, err := handlerOf(b.svc.Protocol(), "findGroup")
		if err != nil {
			return nil, err
		}
		return &plan{wire: wire, answerKey: "multicast/findGroup", trigger: func(ctx context.Context) error {
			o, _ := n.serve(h, n.fullPeer(n.peerB()), req)
			if o.panicked {
				panic(o.pmsg + " @" + o.pfunc)
			}
			if !o.returned {
				<-ctx.Done()
			}
			if o.err != "" {
				return fmt.Errorf("%s", o.err)
			}
			return nil
		}}, nil
	case "mc.multicast":
		b := n.svc.(*mcBundle)
		id, err := u64(fstr(f, "id"), uint64(n.id)<<20|uint64(n.rng.Intn(1<<20)))
		if err != nil {
			return nil, err
		}
		tm, err := u64(fstr(f, "time"), uint64(time.Now().UnixMilli()))
		if err != nil {
			return nil, err
		}
		org, err := n.addr(fstr(f, "origin"), n.big(32), nil)
		if err != nil {
			return nil, err
		}
		g, err := n.addr(fstr(f, "gid"), other, b.gid.Bytes())
		if err != nil {
			return nil, err
		}
		data, err := n.bytesOf(fstr(f, "data"), []byte("payload"))
		if err != nil {
			return nil, err
		}
		n.roots = append(n.roots, g)
		wire, err := frame(&mcpb.MulticastMsg{Id: id, CreateTime: int64(tm), Origin: org, Gid: g, Data: data})
		if err != nil {
			return nil, err
		}
		h, err := handlerOf(b.svc.Protocol(), "multicast")
		if err != nil {
			return nil, err
		}
		return &plan{handler: h, peer: peerA, wire: wire}, nil
	case "mc.notify":
		b := n.svc.(*mcBundle)
		st, err := i32(fstr(f, "status"))
		if err != nil {
			return nil, err
		}
		g, err := n.list(fstr(f, "gids"), b.gid.Bytes())
		if err != nil {
			return nil, err
		}
		for _, x := range g {
			n.roots = append(n.roots, x)
		}
		wire, err := frame(&mcpb.Notify{Status: st, Gids: g})
		if err != nil {
			return nil, err
		}
		h, err := handlerOf(b.svc.Protocol(), "notify")
		if err != nil {
			return nil, err
		}
		return &plan{handler: h, peer: peerA, wire: wire}, nil
	case "mc.message":
		b := n.svc.(*mcBundle)
		g, err := n.addr(fstr(f, "gid"), other, b.gid.Bytes())
		if err != nil {
			return nil, err
		}
		data, err := n.bytesOf(fstr(f, "data"), []byte("payload"))
		if err != nil {
			return nil, err
		}
		ty, err := i32(fstr(f, "type"))
		if err != nil {
			return nil, err
		}
		es, err := str(fstr(f, "err"), "some error")
		if err != nil {
			return nil, err
		}
		n.roots = append(n.roots, g)
		wire, err := frame(&mcpb.GroupMsg{Gid: g, Data: data, Type: ty, Err: es})
		if err != nil {
			return nil, err
		}
		h, err := handlerOf(b.svc.Protocol(), "message")
		if err != nil {
			return nil, err
		}
		return &plan{handler: h, peer: peerA, wire: wire}, nil
	}
	return nil, fmt.Errorf("unknown message type %q", mt)
}

// chunkShape: chunk payload shapes and the address the node asks for.
func (n *node) chunkShape(shape string) (boson.Address, []byte, error) {
	switch shape {
	case "valid":
		a, d := n.validChunk(100)
		return a, d, nil
	case "absent":
		return boson.NewAddress(n.big(32)), nil, nil
	case "one":
		return boson.NewAddress(n.big(32)), []byte{0x01}, nil
	case "seven":
		return boson.NewAddress(n.big(32)), n.big(7), nil
	case "eight":
		d := make([]byte, 8)
		if c, err := cac.NewWithDataSpan(d); err == nil {
			return c.Address(), d, nil
		}
		return boson.NewAddress(n.big(32)), d, nil
	case "other":
		// a chunk whose address is right for its bytes but whose span claims far more data than it carries
		d := append([]byte{0, 0, 0, 0, 0, 1, 0, 0}, n.big(64)...)
		c, err := cac.NewWithDataSpan(d)
		if err != nil {
			return boson.ZeroAddress, nil, err
		}
		return c.Address(), d, nil
	case "big":
		return boson.NewAddress(n.big(32)), n.big(boson.ChunkSize + 8 + 100), nil
	}
	return boson.ZeroAddress, nil, fmt.Errorf("unknown chunk shape %q", shape)
}

// presence maps of a chunk-info response; target is the answering peer's address as sent.
func (n *node) presence(shape string, target []byte) (map[string][]byte, error) {
	bv := []byte{0x07} // three data chunks
	hx := func(b []byte) string { return hex.EncodeToString(b) }
	switch shape {
	case "hexok":
		return map[string][]byte{hx(n.peerB().Bytes()): bv}, nil
	case "absent":
		return nil, nil
	case "nothex":
		return map[string][]byte{"zz-not-hex": bv}, nil
	case "oddhex":
		return map[string][]byte{"abc": bv}, nil
	case "emptykey":
		return map[string][]byte{"": bv}, nil
	case "selfkey":
		return map[string][]byte{hx(n.self.Bytes()): bv}, nil
	case "peerkey_ok":
		return map[string][]byte{hx(target): bv}, nil
	case "peerkey_short":
		return map[string][]byte{hx(target): {}}, nil
	case "peerkey_long":
		return map[string][]byte{hx(target): n.big(64)}, nil
	case "many":
		m := map[string][]byte{}
		for i := 0; i < 50; i++ {
			m[hx(n.big(32))] = bv
		}
		return m, nil
	}
	return nil, fmt.Errorf("unknown presence shape %q", shape)
}

func (n *node) paths(shape string) ([]*rtpb.Path, error) {
	x := func() []byte { return n.big(32) }
	mk := func(items ...[]byte) *rtpb.Path {
		return &rtpb.Path{Sign: []byte{1, 2, 3}, Bodys: [][]byte{{1}}, Items: items}
	}
	switch shape {
	case "one":
		return []*rtpb.Path{mk(x(), n.peerA().Bytes())}, nil
	case "none":
		return nil, nil
	case "withself":
		return []*rtpb.Path{mk(x(), n.self.Bytes(), n.peerA().Bytes())}, nil
	case "long":
		var it [][]byte
		for i := 0; i < 11; i++ {
			it = append(it, x())
		}
		return []*rtpb.Path{mk(it...)}, nil
	case "emptyitems":
		return []*rtpb.Path{{Sign: []byte{1}}}, nil
	case "oddlen":
		return []*rtpb.Path{mk([]byte{0x01}, n.big(33), []byte{}, n.peerA().Bytes())}, nil
	case "single":
		return []*rtpb.Path{mk(n.peerA().Bytes())}, nil
	case "many":
		var ps []*rtpb.Path
		for i := 0; i < 20; i++ {
			ps = append(ps, mk(x(), x(), n.peerA().Bytes()))
		}
		return ps, nil
	case "bigsign":
		p := mk(x(), n.peerA().Bytes())
		p.Sign = n.big(64 * 1024)
		p.Bodys = [][]byte{n.big(1024), {}, nil}
		return []*rtpb.Path{p}, nil
	}
	return nil, fmt.Errorf("unknown paths shape %q", shape)
}

func (n *node) ulist(shape string) ([]*rtpb.UnderlayResp, error) {
	p3 := n.w.peers[3]
	junk := func() *rtpb.UnderlayResp {
		return &rtpb.UnderlayResp{Dest: n.big(31), Underlay: []byte{0x04}, Signature: n.big(65)}
	}
	switch shape {
	case "none":
		return nil, nil
	case "valid":
		return []*rtpb.UnderlayResp{{Dest: p3.overlay.Bytes(), Underlay: p3.underlay.Bytes(), Signature: p3.record.Signature}}, nil
	case "junk":
		return []*rtpb.UnderlayResp{junk()}, nil
	case "empty":
		return []*rtpb.UnderlayResp{{}}, nil
	case "many":
		var out []*rtpb.UnderlayResp
		for i := 0; i < 20; i++ {
			out = append(out, junk())
		}
		return out, nil
	}
	return nil, fmt.Errorf("unknown underlay list shape %q", shape)
}

// chequeJSON: the SignedCheque field of a cheque message.
func (n *node) chequeJSON(b *trBundle, shape string) ([]byte, error) {
	pa := n.w.peers[0]
	issuer := common.BytesToAddress(pa.eth)
	signed := func(payout *big.Int) (*chequePkg.SignedCheque, error) {
		c := chequePkg.Cheque{Recipient: b.self, Beneficiary: issuer, CumulativePayout: payout}
		s, err := chequePkg.NewChequeSigner(crypto.NewDefaultSigner(pa.key), chainID).Sign(&c)
		if err != nil {
			return nil, err
		}
		return &chequePkg.SignedCheque{Cheque: c, Signature: s}, nil
	}
	switch shape {
	case "ok":
		b.n++
		sc, err := signed(big.NewInt(100 * b.n))
		if err != nil {
			return nil, err
		}
		return json.Marshal(sc)
	case "absent":
		return nil, nil
	case "null":
		return []byte("null"), nil
	case "empty":
		return []byte("{}"), nil
	case "notjson":
		return []byte("{{ not json"), nil
	case "nofields":
		return []byte(`{"Signature":"AAAA"}`), nil
	case "nopayout":
		sc, err := signed(big.NewInt(5))
		if err != nil {
			return nil, err
		}
		m := map[string]interface{}{"Recipient": sc.Recipient, "Beneficiary": sc.Beneficiary, "Signature": sc.Signature}
		return json.Marshal(m)
	case "badtypes":
		return []byte(`{"Recipient":5,"Beneficiary":"x","CumulativePayout":"many","Signature":7}`), nil
	case "array":
		return []byte(`[1,2,3]`), nil
	case "big":
		return []byte(`{"Signature":"` + strings.Repeat("QUFB", 100000) + `"}`), nil
	}
	return nil, fmt.Errorf("unknown cheque shape %q", shape)
}

// ---------------------------------------------------------------------------------------------
// follow-up local operations
// ---------------------------------------------------------------------------------------------

func (n *node) follow(what string) (outcome, error) {
	roots := n.roots
	if len(roots) == 0 {
		roots = [][]byte{n.w.fileRoot.Bytes()}
	}
	cids := n.cids
	if len(cids) == 0 {
		cids = [][]byte{n.w.fileChunks[1].Bytes()}
	}
	ctx, cancel := context.WithTimeout(context.Background(), 300*time.Millisecond)
	defer cancel()
	var f func() error
	switch b := n.svc.(type) {
	case *storeBundle:
		roots = append(roots, n.w.fileRoot.Bytes())
		each := func(g func(r, c boson.Address)) func() error {
			return func() error {
				for _, r := range roots {
					for _, c := range cids {
						g(boson.NewAddress(r), boson.NewAddress(c))
					}
				}
				return nil
			}
		}
		switch what {
		case "ci.GetChunkInfo":
			f = each(func(r, c boson.Address) { _ = b.ci.GetChunkInfo(r, c) })
		case "ci.GetChunkInfoDiscoverOverlays":
			f = each(func(r, c boson.Address) { _ = b.ci.GetChunkInfoDiscoverOverlays(r) })
		case "ci.GetChunkInfoServerOverlays":
			f = each(func(r, c boson.Address) { _ = b.ci.GetChunkInfoServerOverlays(r) })
		case "ci.GetFileList":
			f = func() error {
				_, _ = b.ci.GetFileList(n.self)
				_, _ = b.ci.GetFileList(n.peerA())
				_, _ = b.ci.GetFileList(n.peerB())
				return nil
			}
		case "ci.IsDiscover":
			f = each(func(r, c boson.Address) { _ = b.ci.IsDiscover(r) })
		case "ci.GetChunkInfoSource":
			f = each(func(r, c boson.Address) { _ = b.ci.GetChunkInfoSource(r) })
		case "ci.GetChunkPyramid":
			f = each(func(r, c boson.Address) { _ = b.ci.GetChunkPyramid(r) })
		case "ci.OnChunkTransferred":
			f = each(func(r, c boson.Address) { _ = b.ci.OnChunkTransferred(c, r, n.peerA(), n.self) })
		case "ci.CancelFindChunkInfo":
			f = each(func(r, c boson.Address) { b.ci.CancelFindChunkInfo(r) })
		case "ci.DelDiscover":
			f = each(func(r, c boson.Address) { b.ci.DelDiscover(r) })
		}
	case *hiveBundle:
		switch what {
		case "kad.Snapshot":
			f = func() error { _ = n.kad.Snapshot(); return nil }
		case "kad.ClosestPeer":
			f = func() error {
				for _, r := range roots {
					_, _ = n.kad.ClosestPeer(boson.NewAddress(r), false, topology.Filter{})
				}
				_, _ = n.kad.ClosestPeer(n.self, true, topology.Filter{})
				_ = n.kad.NeighborhoodDepth()
				return nil
			}
		case "kad.EachKnownPeer":
			f = func() error {
				return n.kad.EachKnownPeer(func(a boson.Address, po uint8) (bool, bool, error) { _ = a.String(); return false, false, nil })
			}
		case "book.Addresses":
			f = func() error {
				as, err := n.book.Addresses()
				for _, a := range as {
					_ = a.String()
				}
				_, _ = n.book.Overlays()
				return err
			}
		}
	case *rtBundle:
		switch what {
		case "rt.GetRoute":
			f = func() error {
				for _, r := range roots {
					_, _ = b.svc.GetRoute(ctx, boson.NewAddress(r))
				}
				return nil
			}
		case "rt.GetNextHop":
			f = func() error {
				for _, r := range roots {
					_, _ = b.svc.GetNextHopRandomOrFind(ctx, boson.NewAddress(r))
				}
				return nil
			}
		case "rt.GetTargetNeighbor":
			f = func() error {
				for _, r := range roots {
					_, _ = b.svc.GetTargetNeighbor(ctx, boson.NewAddress(r), 2)
				}
				return nil
			}
		case "rt.IsNeighbor":
			f = func() error {
				for _, r := range roots {
					_ = b.svc.IsNeighbor(boson.NewAddress(r))
				}
				return nil
			}
		case "rt.DelRoute":
			f = func() error {
				for _, r := range roots {
					_ = b.svc.DelRoute(ctx, boson.NewAddress(r))
				}
				return nil
			}
		case "rt.book":
			f = func() error {
				as, err := n.book.Addresses()
				for _, a := range as {
					_ = a.String()
				}
				for _, r := range roots {
					_, _ = n.book.Get(boson.NewAddress(r))
				}
				return err
			}
		}
	case *trBundle:
		switch what {
		case "tr.LastReceivedCheque":
			f = func() error { _, _ = b.svc.LastReceivedCheque(n.peerA()); return nil }
		case "tr.TrafficInfo":
			f = func() error { _, _ = b.svc.TrafficInfo(); return nil }
		case "tr.TrafficCheques":
			f = func() error { _, _ = b.svc.TrafficCheques(); return nil }
		}
	case *mcBundle:
		switch what {
		case "mc.Snapshot":
			f = func() error { _ = b.svc.Snapshot(); return nil }
		case "mc.GetGroupPeers":
			f = func() error {
				_, _ = b.svc.GetGroupPeers(b.name)
				for _, r := range roots {
					_, _ = b.svc.GetGroupPeers(hex.EncodeToString(r))
				}
				return nil
			}
		case "mc.GetOptimumPeer":
			f = func() error {
				_, _ = b.svc.GetOptimumPeer(b.name)
				for _, r := range roots {
					_, _ = b.svc.GetOptimumPeer(hex.EncodeToString(r))
				}
				return nil
			}
		case "mc.Multicast":
			f = func() error {
				for _, r := range append(roots, b.gid.Bytes()) {
					_ = b.svc.Multicast(&mcpb.MulticastMsg{Gid: r, Data: []byte("x")})
				}
				return nil
			}
		case "mc.RemoveGroup":
			f = func() error {
				for _, r := range append(roots, b.gid.Bytes()) {
					_ = b.svc.RemoveGroup(boson.NewAddress(r), mcmodel.GTypeJoin)
					_ = b.svc.RemoveGroup(boson.NewAddress(r), mcmodel.GTypeObserve)
				}
				return nil
			}
		}
	}
	if f == nil {
		return outcome{}, fmt.Errorf("follow-up %q does not apply to message type %q", what, kit.Str(n.par, "mt"))
	}
	return run(followTimeout, f), nil
}

// ---------------------------------------------------------------------------------------------
// one scenario
// ---------------------------------------------------------------------------------------------

func runScenario(w *world, sc kit.Scenario, settleMax time.Duration, emit func(kit.Ev), mark func(kit.Ev)) error {
	t0 := time.Now()
	var tSetup, tOps, tSettle time.Duration
	n, err := w.newNode(sc.Par, sc.Scn)
	if err != nil {
		return err
	}
	mt, pre := kit.Str(sc.Par, "mt"), kit.Str(sc.Par, "pre")
	defer func() {
		t1 := time.Now()
		n.close()
		if os.Getenv("VERIF_TIMING") != "" {
			fmt.Fprintf(os.Stderr, "TIMING %s %s setup=%v ops=%v settle=%v close=%v\n", mt, pre, tSetup, tOps, tSettle, time.Since(t1))
		}
	}()
	group := groupOf(mt)
	if err := n.setup(group, pre); err != nil {
		return fmt.Errorf("setup %s/%s: %w", mt, pre, err)
	}
	baseline := goroutines()
	tSetup = time.Since(t0)
	t0 = time.Now()
	for _, op := range sc.Ops {
		name := kit.Str(op, "op")
		switch name {
		case "msg", "raw":
			m := kit.Str(op, "mt")
			if groupOf(m) != group {
				return fmt.Errorf("message type %q in a %q scenario", m, group)
			}
			f, _ := op["f"].(map[string]interface{})
			if f == nil {
				return fmt.Errorf("message without field shapes")
			}
			pl, err := n.build(m, f)
			if err != nil {
				return err
			}
			ev := kit.Ev{"op": name, "mt": m, "f": f}
			if name == "raw" {
				cls := kit.Str(op, "cls")
				if pl.wire, err = n.rawBytes(cls, pl.wire); err != nil {
					return err
				}
				ev["cls"] = cls
			}
			ev["len"] = len(pl.wire)
			mark(kit.Ev{"dop": name, "mt": m, "f": f, "cls": kit.Str(op, "cls")})
			o, _ := n.exec(pl)
			emit(o.into(ev))
		case "follow":
			what := kit.Str(op, "what")
			mark(kit.Ev{"dop": "follow", "what": what})
			o, err := n.follow(what)
			if err != nil {
				return err
			}
			emit(o.into(kit.Ev{"op": "follow", "what": what}))
		default:
			return fmt.Errorf("unknown op %q", name)
		}
	}
	tOps = time.Since(t0)
	t0 = time.Now()
	settle(baseline, settleMax)
	tSettle = time.Since(t0)
	return nil
}
