package main

import (
	"bytes"
	"context"
	"crypto/ecdsa"
	"errors"
	"fmt"
	"io"
	"io/ioutil"
	"math/rand"
	"os"
	"runtime"
	"runtime/debug"
	"strings"
	"sync"
	"time"

	accmock "github.com/gauss-project/aurorafs/pkg/accounting/mock"
	"github.com/gauss-project/aurorafs/pkg/addressbook"
	"github.com/gauss-project/aurorafs/pkg/aurora"
	"github.com/gauss-project/aurorafs/pkg/boson"
	"github.com/gauss-project/aurorafs/pkg/cac"
	"github.com/gauss-project/aurorafs/pkg/crypto"
	discmock "github.com/gauss-project/aurorafs/pkg/discovery/mock"
	"github.com/gauss-project/aurorafs/pkg/file/pipeline/builder"
	"github.com/gauss-project/aurorafs/pkg/localstore"
	"github.com/gauss-project/aurorafs/pkg/logging"
	"github.com/gauss-project/aurorafs/pkg/p2p"
	p2pmock "github.com/gauss-project/aurorafs/pkg/p2p/mock"
	"github.com/gauss-project/aurorafs/pkg/shed"
	statemock "github.com/gauss-project/aurorafs/pkg/statestore/mock"
	"github.com/gauss-project/aurorafs/pkg/storage"
	"github.com/gauss-project/aurorafs/pkg/subscribe"
	"github.com/gauss-project/aurorafs/pkg/topology/kademlia"
	"github.com/gauss-project/aurorafs/pkg/topology/lightnode"
	"github.com/gauss-project/aurorafs/pkg/tracing"
	ma "github.com/multiformats/go-multiaddr"

	"verifharness/internal/kit"
	"verifharness/internal/memstream"
)

const (
	networkID      = uint64(77)
	handlerTimeout = 8 * time.Second // a handler / client read that has not returned by then is logged as returned=false
	followTimeout  = 8 * time.Second
)

var _ = accmock.NewAccounting

// world is what all scenarios of one child process share (expensive, immutable fixtures).
type world struct {
	logger  logging.Logger
	tracer  *tracing.Tracer
	rng     *rand.Rand
	store   *localstore.DB
	mdb     *shed.DB
	nodeKey *ecdsa.PrivateKey
	self    boson.Address
	peers   []*peerFix // honest peers (keys, overlays, underlays, signed records)

	fileRoot   boson.Address   // root of a 3-chunk file stored locally
	fileChunks []boson.Address // all chunk addresses of that file (root first)
	seq        int
}

type peerFix struct {
	key      *ecdsa.PrivateKey
	overlay  boson.Address
	underlay ma.Multiaddr
	record   *aurora.Address
	eth      []byte
}

var peerUnderlays = []string{
	"/ip4/127.0.0.1/tcp/1634/p2p/16Uiu2HAkx8ULY8cTXhdVAcMmLcH9AsTKz6uBQ7DPLKRjMLgBVYkA",
	"/ip4/10.34.35.60/tcp/7070/p2p/16Uiu2HAkx8ULY8cTXhdVAcMmLcH9AsTKz6uBQ7DPLKRjMLgBVYkS",
	"/ip4/172.16.1.9/tcp/443/p2p/16Uiu2HAm5BTwE3mXzoWDoxSNnwRCEJvpg4CaE7iSCX4jcpHYYrc4",
	"/ip4/192.168.7.7/tcp/1700/p2p/16Uiu2HAmTBuJT9LvNmBiQiNoTsxE5mtNy6YG3paw79m94CRa9sRb",
}

const nodeUnderlay = "/ip4/192.168.9.9/tcp/1800/p2p/16Uiu2HAmTBuJT9LvNmBiQiNoTsxE5mtNy6YG3paw79m94CRa9sRb"

func newKey(rng *rand.Rand) (*ecdsa.PrivateKey, error) {
	b := make([]byte, 32)
	rng.Read(b)
	b[0] &= 0x7f
	b[31] |= 1
	return crypto.DecodeSecp256k1PrivateKey(b)
}

func newWorld() (*world, error) {
	w := &world{logger: logging.New(ioutil.Discard, 0), rng: kit.Rng(37)}
	tracer, _, err := tracing.NewTracer(&tracing.Options{Enabled: false})
	if err != nil {
		return nil, err
	}
	w.tracer = tracer
	if w.nodeKey, err = newKey(w.rng); err != nil {
		return nil, err
	}
	if w.self, err = crypto.NewOverlayAddress(w.nodeKey.PublicKey, networkID); err != nil {
		return nil, err
	}
	for _, us := range peerUnderlays {
		k, err := newKey(w.rng)
		if err != nil {
			return nil, err
		}
		ov, err := crypto.NewOverlayAddress(k.PublicKey, networkID)
		if err != nil {
			return nil, err
		}
		u, err := ma.NewMultiaddr(us)
		if err != nil {
			return nil, err
		}
		rec, err := aurora.NewAddress(crypto.NewDefaultSigner(k), u, ov, networkID)
		if err != nil {
			return nil, err
		}
		eth, err := crypto.NewEthereumAddress(k.PublicKey)
		if err != nil {
			return nil, err
		}
		w.peers = append(w.peers, &peerFix{key: k, overlay: ov, underlay: u, record: rec, eth: eth})
	}
	// one local store with one stored file (three data chunks and an intermediate root)
	w.store, err = localstore.New("", w.self.Bytes(), &localstore.Options{Capacity: 1 << 40}, w.logger)
	if err != nil {
		return nil, err
	}
	content := make([]byte, 2*boson.ChunkSize+4097)
	w.rng.Read(content)
	rec := &recPutter{inner: w.store}
	pipe := builder.NewPipelineBuilder(context.Background(), rec, storage.ModePutUpload, false)
	w.fileRoot, err = builder.FeedPipeline(context.Background(), pipe, bytes.NewReader(content))
	if err != nil {
		return nil, err
	}
	w.fileChunks = append(w.fileChunks, w.fileRoot)
	for _, a := range rec.addrs {
		if !a.Equal(w.fileRoot) {
			w.fileChunks = append(w.fileChunks, a)
		}
	}
	if len(w.fileChunks) < 3 {
		return nil, fmt.Errorf("stored file has only %d chunks", len(w.fileChunks))
	}
	return w, nil
}

type recPutter struct {
	inner storage.Putter
	mu    sync.Mutex
	addrs []boson.Address
}

func (r *recPutter) Put(ctx context.Context, mode storage.ModePut, chs ...boson.Chunk) ([]bool, error) {
	r.mu.Lock()
	for _, c := range chs {
		r.addrs = append(r.addrs, c.Address())
	}
	r.mu.Unlock()
	return r.inner.Put(ctx, mode, chs...)
}

// p2pStub is the repository's p2p mock; its relay entry point is not implemented there (panics), so it is
// overridden by one that consumes the stream and reports the call.
type p2pStub struct {
	*p2pmock.Service
}

func (p p2pStub) CallHandlerWithConnChain(ctx context.Context, last, src p2p.Peer, stream p2p.Stream, protocolName, protocolVersion, streamName string) error {
	return errors.New("verif: no such relayed protocol")
}

// ---------------------------------------------------------------------------------------------
// node: the per-scenario environment
// ---------------------------------------------------------------------------------------------

type node struct {
	w       *world
	par     map[string]interface{}
	id      int
	rng     *rand.Rand
	self    boson.Address
	st      *memstream.Streamer
	book    addressbook.Interface
	kad     *kademlia.Kad
	mdb     *shed.DB
	subPub  subscribe.SubPub
	p2ps    p2pStub
	light   *lightnode.Container
	cleanup []func()
	// roots / addresses the follow-ups look at (the message's and the node's own)
	roots [][]byte
	cids  [][]byte
	svc   interface{} // protocol specific bundle
	// how peers answer streams the node opens: protocol/stream -> behaviour
	answers map[string]memstream.PeerFunc
	amu     sync.Mutex
	netFail bool
}

func (w *world) newNode(par map[string]interface{}, scn int) (*node, error) {
	w.seq++
	n := &node{w: w, par: par, id: scn, rng: rand.New(rand.NewSource(kit.Seed()*7919 + int64(scn))), self: w.self,
		answers: map[string]memstream.PeerFunc{}}
	n.book = addressbook.New(statemock.NewStateStore())
	n.subPub = subscribe.NewSubPub()
	n.p2ps = p2pStub{p2pmock.New()}
	n.light = lightnode.NewContainer(n.self)
	n.st = &memstream.Streamer{Base: n.self, Mode: aurora.NewModel().SetMode(aurora.FullNode)}
	n.st.Dial = func(kind string, addr boson.Address, protocol, version, stream string) (memstream.PeerFunc, error) {
		if n.netFail {
			return nil, errors.New("verif: peer unreachable")
		}
		n.amu.Lock()
		f, ok := n.answers[protocol+"/"+stream]
		n.amu.Unlock()
		if ok {
			return f, nil
		}
		return sink, nil
	}
	return n, nil
}

// sink is the default remote peer: it answers nothing (closes its sending side at once, so that the node's
// reads end instead of waiting for the protocol's own 30 s timeouts) and reads whatever the node sends.
func sink(ctx context.Context, s *memstream.Stream) {
	_ = s.Close()
	_, _ = io.Copy(ioutil.Discard, s)
}

// withKad gives the node a kademlia with two connected peers (0, 1) and one merely known peer (2).
func (n *node) withKad() error {
	if n.kad != nil {
		return nil
	}
	// the peer-metrics database is shared by the scenarios of one process (opening one costs ~0.1 s)
	if n.w.mdb == nil {
		mdb, err := shed.NewDB("", nil)
		if err != nil {
			return err
		}
		n.w.mdb = mdb
	}
	mdb := n.w.mdb
	n.mdb = mdb
	kad, err := kademlia.New(n.self, n.book, discmock.NewDiscovery(), n.p2ps, nil, n.light, nil, mdb, n.w.logger, n.subPub,
		kademlia.Options{BinMaxPeers: 10, NodeMode: aurora.NewModel().SetMode(aurora.FullNode)})
	if err != nil {
		return err
	}
	n.kad = kad
	n.p2ps.SetPickyNotifier(kad)
	full := aurora.NewModel().SetMode(aurora.FullNode)
	for i, p := range n.w.peers[:3] {
		if err := n.book.Put(p.overlay, *p.record); err != nil {
			return err
		}
		if i < 2 {
			if err := kad.Connected(context.Background(), p2p.Peer{Address: p.overlay, Mode: full}, true); err != nil {
				return err
			}
		} else {
			kad.AddPeers(p.overlay)
		}
	}
	return nil
}

func (n *node) peerA() boson.Address { return n.w.peers[0].overlay }
func (n *node) peerB() boson.Address { return n.w.peers[1].overlay }
func (n *node) fullPeer(a boson.Address) p2p.Peer {
	return p2p.Peer{Address: a, Mode: aurora.NewModel().SetMode(aurora.FullNode)}
}

func (n *node) close() {
	n.st.Shutdown(300 * time.Millisecond)
	for i := len(n.cleanup) - 1; i >= 0; i-- {
		n.cleanup[i]()
	}
}

// ---------------------------------------------------------------------------------------------
// guarded execution
// ---------------------------------------------------------------------------------------------

type outcome struct {
	returned, panicked  bool
	pmsg, pfunc, pwhere string
	err                 string
}

func (o outcome) into(ev kit.Ev) kit.Ev {
	ev["returned"], ev["panicked"], ev["pmsg"], ev["pfunc"], ev["pwhere"], ev["err"] = o.returned, o.panicked, o.pmsg, o.pfunc, o.pwhere, o.err
	return ev
}

func topFrame(stack []byte) (fn, where string) {
	lines := strings.Split(string(stack), "\n")
	after := false
	for i, l := range lines {
		if strings.HasPrefix(l, "panic(") {
			after = true
			continue
		}
		if after && strings.HasPrefix(l, "github.com/gauss-project/aurorafs/pkg/") {
			if fn == "" {
				if i+1 < len(lines) {
					where = frameWhere(lines[i+1])
				}
				fn = frameName(l)
			} else {
				fn += " < " + frameName(l)
			}
			if strings.Count(fn, " < ") >= 2 {
				return
			}
		}
	}
	return
}

// run executes f in its own goroutine (as the p2p layer runs a handler), recovers a panic of that goroutine,
// and waits at most d for it to return.
func run(d time.Duration, f func() error) outcome {
	ch := make(chan outcome, 1)
	go func() {
		var o outcome
		defer func() {
			if r := recover(); r != nil {
				o.panicked = true
				o.pmsg = fmt.Sprint(r)
				o.pfunc, o.pwhere = topFrame(debug.Stack())
			}
			o.returned = true
			ch <- o
		}()
		if err := f(); err != nil {
			o.err = err.Error()
			if len(o.err) > 160 {
				o.err = o.err[:160]
			}
		}
	}()
	select {
	case o := <-ch:
		return o
	case <-time.After(d):
		if os.Getenv("VERIF_DUMP") != "" {
			buf := make([]byte, 1<<20)
			fmt.Fprintf(os.Stderr, "=== not returned after %s ===\n%s\n", d, buf[:runtime.Stack(buf, true)])
		}
		return outcome{returned: false}
	}
}

// serve runs a stream handler on a fresh in-memory stream whose remote side has already written `wire` and closed.
func (n *node) serve(h p2p.HandlerFunc, peer p2p.Peer, wire []byte) (outcome, int) {
	local, remote := memstream.Pair()
	if len(wire) > 0 {
		_, _ = remote.Write(wire)
	}
	_ = remote.Close()
	var got int
	done := make(chan struct{})
	go func() {
		defer close(done)
		nn, _ := io.Copy(ioutil.Discard, remote)
		got = int(nn)
	}()
	ctx, cancel := context.WithTimeout(context.Background(), handlerTimeout-500*time.Millisecond)
	o := run(handlerTimeout, func() error { return h(ctx, peer, local) })
	cancel()
	_ = local.Reset()
	select {
	case <-done:
	case <-time.After(200 * time.Millisecond):
	}
	return o, got
}

func handlerOf(spec p2p.ProtocolSpec, name string) (p2p.HandlerFunc, error) {
	for _, s := range spec.StreamSpecs {
		if s.Name == name {
			return s.Handler, nil
		}
	}
	return nil, fmt.Errorf("protocol %s has no stream %q", spec.Name, name)
}

// settle waits until the goroutines the scenario started are gone (bounded).
func settle(baseline int, max time.Duration) {
	deadline := time.Now().Add(max)
	for time.Now().Before(deadline) {
		if runtime.NumGoroutine() <= baseline {
			return
		}
		time.Sleep(2 * time.Millisecond)
	}
}

// validChunk returns a content-addressed chunk (address, span+data) over n random bytes.
func (n *node) validChunk(size int) (boson.Address, []byte) {
	d := make([]byte, size)
	n.rng.Read(d)
	c, err := cac.New(d)
	if err != nil {
		panic(err)
	}
	return c.Address(), c.Data()
}

func goroutines() int { return runtime.NumGoroutine() }
