// lsdrv: conformance driver of the local-store family (C12, C13, C15, C16, C17).
//
// Node under test "B": real localstore + netstore + retrieval + traversal +
// pinning + chunkinfo + api (internal/nodelite), driven only through the entry
// points the node itself uses: the HTTP API handlers (upload, download with
// targets, local read, pin, unpin, delete), pinning.Service, netstore.Get under
// a file context, the garbage collector's function (run synchronously through
// the verif hook) and a restart. A second real node "A" holds every catalogue
// file and serves pyramid / chunk-info / retrieval requests over an in-memory
// switchboard, so cached ("requested") files are produced by the real flow.
//
// The driver has no oracle: after every operation it dumps B's indexes and
// chunk-info records under abstract chunk names; the TLA+ judge decides.
package main

import (
	"bufio"
	"bytes"
	"context"
	"encoding/hex"
	"encoding/json"
	"fmt"
	"io/ioutil"
	"math/rand"
	"net/http"
	"os"
	"os/exec"
	"sort"
	"strings"
	"sync"
	"sync/atomic"
	"time"

	"github.com/gauss-project/aurorafs/pkg/boson"
	"github.com/gauss-project/aurorafs/pkg/file/joiner"
	"github.com/gauss-project/aurorafs/pkg/file/loadsave"
	"github.com/gauss-project/aurorafs/pkg/localstore"
	"github.com/gauss-project/aurorafs/pkg/logging"
	"github.com/gauss-project/aurorafs/pkg/manifest"
	"github.com/gauss-project/aurorafs/pkg/sctx"
	"github.com/gauss-project/aurorafs/pkg/storage"

	"verifharness/internal/kit"
	"verifharness/internal/nodelite"
	"verifharness/internal/swb"
)

const CS = 262144

// ---------------------------------------------------------------- catalogue

type fileDef struct {
	Name    string
	Blocks  string // letters of the catalogue blocks
	Content []byte
	Ref     boson.Address
	Chunks  []string // names of all chunks written for it (W(f))
	Data    []string // distinct data chunks, order of first occurrence (availability bit order)
	Occ     map[string]int
	FileRef boson.Address // reference of the file entry inside the manifest
}

type catalogue struct {
	files map[string]*fileDef
	order []string
	names map[string]string // hex address -> abstract chunk name
}

func block(letter byte, seed int64) []byte {
	n := CS
	if letter == 'T' {
		n = 1000
	}
	b := make([]byte, n)
	rand.New(rand.NewSource(seed*131 + int64(letter))).Read(b)
	return b
}

var fileBlocks = [][2]string{{"F1", "XY"}, {"F2", "XYZ"}, {"F3", "XY"}, {"F4", "ZZ"}, {"F5", "Y"}, {"F6", "XT"}, {"F7", "ZT"}}

func addrRand(r *rand.Rand) boson.Address {
	b := make([]byte, 32)
	r.Read(b)
	return boson.NewAddress(b)
}

// buildCatalogue uploads every catalogue file alone into a fresh scratch node to learn the
// set of chunks written for it, and names the chunks.
func buildCatalogue(logger logging.Logger, seed int64) (*catalogue, error) {
	cat := &catalogue{files: map[string]*fileDef{}, names: map[string]string{}}
	blockOf := map[string]string{}
	rng := rand.New(rand.NewSource(seed + 99))
	for _, fb := range fileBlocks {
		fd := &fileDef{Name: fb[0], Blocks: fb[1], Occ: map[string]int{}}
		for i := 0; i < len(fb[1]); i++ {
			fd.Content = append(fd.Content, block(fb[1][i], seed)...)
		}
		board := swb.NewBoard()
		n, err := nodelite.New(board, addrRand(rng), "", nil, logger)
		if err != nil {
			return nil, err
		}
		ref, _, err := n.Upload(strings.ToLower(fd.Name), fd.Content, false, false)
		if err != nil {
			n.Close()
			return nil, err
		}
		fd.Ref = ref
		st, err := n.Store.VerifDump()
		if err != nil {
			n.Close()
			return nil, err
		}
		// data chunk list in traversal order
		lists, _, err := n.Trav.GetChunkHashes(context.Background(), ref, nil)
		if err != nil {
			n.Close()
			return nil, err
		}
		isData := map[string]bool{}
		var dataOrder []string
		for _, l := range lists {
			for _, a := range l {
				h := hex.EncodeToString(a)
				if !isData[h] {
					isData[h] = true
					dataOrder = append(dataOrder, h)
				}
				fd.Occ[h]++
			}
		}
		// name data chunks after the block they carry
		for _, e := range st.Retrieval {
			h := hex.EncodeToString(e.Address)
			if isData[h] && len(e.Data) >= 8 {
				for _, L := range []byte("XYZT") {
					if bytes.Equal(e.Data[8:], block(L, seed)) {
						blockOf[h] = string(L)
					}
				}
			}
		}
		// the file entry reference (for side-effect free local reads)
		ls := loadsave.NewReadonly(n.Store, storage.ModeGetLookup)
		m, err := manifest.NewDefaultManifestReference(ref, ls)
		if err != nil {
			n.Close()
			return nil, err
		}
		e, err := m.Lookup(context.Background(), strings.ToLower(fd.Name))
		if err != nil {
			n.Close()
			return nil, err
		}
		fd.FileRef = e.Reference()
		var others []string
		for _, e := range st.Retrieval {
			h := hex.EncodeToString(e.Address)
			if !isData[h] {
				others = append(others, h)
			}
		}
		sort.Strings(others)
		mi := 0
		for _, h := range others {
			if _, ok := cat.names[h]; ok {
				continue
			}
			switch {
			case h == hex.EncodeToString(ref.Bytes()):
				cat.names[h] = "M:" + fd.Name
			case h == hex.EncodeToString(fd.FileRef.Bytes()):
				cat.names[h] = "r:" + fd.Name
			default:
				cat.names[h] = fmt.Sprintf("m:%s:%d", fd.Name, mi)
				mi++
			}
		}
		for _, h := range dataOrder {
			if _, ok := cat.names[h]; !ok {
				if b, ok := blockOf[h]; ok {
					cat.names[h] = b
				} else {
					cat.names[h] = "d:" + h[:6]
				}
			}
		}
		for _, e := range st.Retrieval {
			fd.Chunks = append(fd.Chunks, cat.names[hex.EncodeToString(e.Address)])
		}
		sort.Strings(fd.Chunks)
		occ := map[string]int{}
		for h, c := range fd.Occ {
			occ[cat.names[h]] = c
		}
		fd.Occ = occ
		for _, h := range dataOrder {
			fd.Data = append(fd.Data, cat.names[h])
		}
		cat.files[fd.Name] = fd
		cat.order = append(cat.order, fd.Name)
		n.Close()
	}
	return cat, nil
}

func (c *catalogue) name(addr []byte) string {
	h := hex.EncodeToString(addr)
	if n, ok := c.names[h]; ok {
		return n
	}
	return "?" + h[:8]
}

func (c *catalogue) addrOf(name string) (boson.Address, bool) {
	for h, n := range c.names {
		if n == name {
			return boson.MustParseHexAddress(h), true
		}
	}
	return boson.ZeroAddress, false
}

// ---------------------------------------------------------------- projection

func bitsOf(b []byte, n int) []int {
	out := make([]int, 0, n)
	for i := 0; i < n; i++ {
		if i/8 < len(b) && b[i/8]&(1<<uint(i%8)) != 0 {
			out = append(out, 1)
		} else {
			out = append(out, 0)
		}
	}
	return out
}

func localRead(b *nodelite.Node, fd *fileDef) bool {
	ctx := context.Background()
	ls := loadsave.NewReadonly(b.Store, storage.ModeGetLookup)
	m, err := manifest.NewDefaultManifestReference(fd.Ref, ls)
	if err != nil {
		return false
	}
	e, err := m.Lookup(ctx, strings.ToLower(fd.Name))
	if err != nil {
		return false
	}
	j, _, err := joiner.New(ctx, b.Store, storage.ModeGetLookup, e.Reference())
	if err != nil {
		return false
	}
	got, err := ioutil.ReadAll(j)
	if err != nil {
		return false
	}
	return bytes.Equal(got, fd.Content)
}

func project(b *nodelite.Node, cat *catalogue, files []string) (kit.Ev, error) {
	st, err := b.Store.VerifDump()
	if err != nil {
		return nil, err
	}
	data := []string{}
	for _, e := range st.Retrieval {
		data = append(data, cat.name(e.Address))
	}
	sort.Strings(data)
	pin := [][]interface{}{}
	for _, e := range st.Pin {
		pin = append(pin, []interface{}{cat.name(e.Address), int(e.PinCounter)})
	}
	sort.Slice(pin, func(i, j int) bool { return pin[i][0].(string) < pin[j][0].(string) })
	gc := [][]interface{}{}
	gcsum := 0
	for _, e := range st.GC {
		gc = append(gc, []interface{}{cat.name(e.Address), int(e.GCounter)})
		gcsum += int(e.GCounter)
	}
	acc := []string{}
	for _, e := range st.Access {
		acc = append(acc, cat.name(e.Address))
	}
	sort.Strings(acc)
	pinned, err := b.Pin.Pins()
	if err != nil {
		return nil, err
	}
	pins := []string{}
	for _, p := range pinned {
		pins = append(pins, cat.name(p.Bytes()))
	}
	sort.Strings(pins)
	_, roots := b.CI.GetFileList(b.Addr)
	listed := map[string]bool{}
	for _, r := range roots {
		listed[r.String()] = true
	}
	fl := map[string]interface{}{}
	for _, f := range files {
		fd := cat.files[f]
		rec := map[string]interface{}{}
		rec["readable"] = localRead(b, fd)
		rec["listed"] = listed[fd.Ref.String()]
		bits := []int{}
		blen := 0
		others := 0
		for _, o := range b.CI.GetChunkInfoServerOverlays(fd.Ref) {
			if o.Overlay == b.Addr.String() {
				blen = o.Bit.Len
				bits = bitsOf(o.Bit.B, o.Bit.Len)
			} else {
				others++
			}
		}
		rec["bits"] = bits
		rec["bitlen"] = blen
		rec["servers"] = others
		rec["discover"] = len(b.CI.GetChunkInfoDiscoverOverlays(fd.Ref))
		src := b.CI.GetChunkInfoSource(fd.Ref)
		rec["source"] = len(src.ChunkSource)
		rec["pyrsource"] = src.PyramidSource != ""
		keys := 0
		for _, pfx := range []string{"chunk-", "discover-", "sourceChunk-", "sourcePyramid-"} {
			if err := b.State.Iterate(pfx+fd.Ref.String(), func(k, v []byte) (bool, error) {
				keys++
				return false, nil
			}); err != nil {
				return nil, err
			}
		}
		rec["keys"] = keys
		has, err := b.Pin.HasPin(fd.Ref)
		if err != nil {
			return nil, err
		}
		rec["rootpin"] = has
		fl[f] = rec
	}
	return kit.Ev{"data": data, "pin": pin, "gc": gc, "gcsum": gcsum, "gcsize": int(st.GCSize), "acc": acc,
		"pins": pins, "files": fl}, nil
}

// ---------------------------------------------------------------- execution

var clock int64 = 1000

// gcMu: plain collections share it, a collection with a racing access (package-global hook) owns it
var gcMu sync.RWMutex

type runner struct {
	cat    *catalogue
	src    *nodelite.Node // node A
	board  *swb.Board
	logger logging.Logger
}

func (r *runner) run(sc kit.Scenario, rng *rand.Rand) (evs []kit.Ev, err error) {
	files := kit.StrList(sc.Par, "files")
	if len(files) == 0 {
		files = r.cat.order
	}
	dir := ""
	for _, op := range sc.Ops {
		if kit.Str(op, "op") == "restart" {
			d, e := ioutil.TempDir("", "verif-ls")
			if e != nil {
				return nil, e
			}
			dir = d
			defer os.RemoveAll(d)
		}
	}
	b, err := nodelite.New(r.board, addrRand(rng), dir, nil, r.logger)
	if err != nil {
		return nil, err
	}
	defer b.Close()

	defs := map[string]interface{}{}
	for _, f := range files {
		fd := r.cat.files[f]
		if fd == nil {
			return nil, fmt.Errorf("unknown file %s", f)
		}
		occ := [][]interface{}{}
		for _, c := range fd.Chunks {
			n := fd.Occ[c]
			if n == 0 {
				n = 1
			}
			occ = append(occ, []interface{}{c, n})
		}
		defs[f] = map[string]interface{}{"chunks": fd.Chunks, "data": fd.Data, "root": r.cat.name(fd.Ref.Bytes()), "occ": occ}
	}
	st, err := project(b, r.cat, files)
	if err != nil {
		return nil, err
	}
	evs = append(evs, kit.Ev{"op": "reset", "defs": defs, "fileset": files, "st": st})

	emit := func(ev kit.Ev) error {
		b.Settle()
		st, err := project(b, r.cat, files)
		if err != nil {
			return err
		}
		ev["st"] = st
		evs = append(evs, ev)
		return nil
	}

	for _, op := range sc.Ops {
		name := kit.Str(op, "op")
		ev := kit.Ev{"op": name}
		var fd *fileDef
		if f := kit.Str(op, "f"); f != "" {
			fd = r.cat.files[f]
			if fd == nil {
				return nil, fmt.Errorf("unknown file %s", f)
			}
			ev["f"] = f
		}
		switch name {
		case "upload":
			pin := kit.Bool(op, "pin")
			ref, code, uerr := b.Upload(strings.ToLower(fd.Name), fd.Content, pin, false)
			ev["pin"], ev["code"] = pin, code
			ev["ok"] = uerr == nil && ref.Equal(fd.Ref)
		case "download", "read":
			sel := kit.Str(op, "sel")
			if sel == "" {
				sel = "all"
			}
			hdr := map[string]string{}
			lo, hi := 0, len(fd.Content)-1
			switch sel {
			case "first":
				lo, hi = 0, 9
			case "second":
				if len(fd.Content) > CS+10 {
					lo, hi = CS, CS+9
				} else {
					lo, hi = 0, 9
				}
			}
			if sel != "all" {
				hdr["Range"] = fmt.Sprintf("bytes=%d-%d", lo, hi)
			}
			url := "/aurora/" + fd.Ref.String() + "/"
			if name == "download" {
				url += "?targets=" + r.src.Addr.String()
			}
			// miss: the remote source is a partial holder for the time of this download (its pyramid is intact, one
			// data chunk is absent from its store); the chunk is put back afterwards
			hidden := false
			if miss := kit.Str(op, "miss"); name == "download" && miss != "" && miss != "none" {
				cname := fd.Data[0]
				if miss == "datalast" {
					cname = fd.Data[len(fd.Data)-1]
				}
				ev["miss"], ev["missc"] = miss, cname
				if maddr, ok := r.cat.addrOf(cname); ok {
					srcHide.Store(maddr.String())
					hidden = true
				}
			}
			code, body := b.Do(http.MethodGet, url, hdr, nil)
			if hidden {
				// the chunk stays absent at the source until the node is quiet (retries of the retrieval loop must not find it)
				r.board.WaitHandlers(20 * time.Second)
				time.Sleep(50 * time.Millisecond)
				r.board.WaitHandlers(20 * time.Second)
				b.Settle()
				srcHide.Store("")
			}
			ev["sel"], ev["code"] = sel, code
			ev["ok"] = (code == 200 || code == 206) && bytes.Equal(body, fd.Content[lo:hi+1])
		case "pin":
			code, _ := b.Do(http.MethodPost, "/pins/"+fd.Ref.String(), nil, nil)
			ev["code"] = code
		case "unpin":
			code, _ := b.Do(http.MethodDelete, "/pins/"+fd.Ref.String(), nil, nil)
			ev["code"] = code
		case "pinsvc":
			e := b.Pin.CreatePin(context.Background(), fd.Ref, true)
			ev["err"] = e != nil
		case "unpinsvc":
			e := b.Pin.DeletePin(context.Background(), fd.Ref)
			ev["err"] = e != nil
		case "delete":
			code, _ := b.Do(http.MethodDelete, "/aurora/"+fd.Ref.String(), nil, nil)
			ev["code"] = code
		case "touch":
			// netstore.Get of one locally present chunk under the file's context
			kind := kit.Str(op, "kind")
			var cname string
			switch kind {
			case "root":
				cname = r.cat.name(fd.Ref.Bytes())
			case "inter":
				cname = r.cat.name(fd.FileRef.Bytes())
			case "data0":
				cname = fd.Data[0]
			case "datalast":
				cname = fd.Data[len(fd.Data)-1]
			case "foreign":
				cname = kit.Str(op, "c")
			}
			ev["kind"], ev["c"] = kind, cname
			addr, ok := r.cat.addrOf(cname)
			if !ok {
				return nil, fmt.Errorf("touch: no chunk %s", cname)
			}
			// local chunks only: a miss would go to the network, which is the download operation
			if has, _ := b.Store.Has(context.Background(), storage.ModeHasChunk, addr); !has {
				ev["skipped"] = true
			} else {
				ev["skipped"] = false
				_, e := b.NS.Get(sctx.SetRootHash(context.Background(), fd.Ref), storage.ModeGetRequest, addr)
				ev["err"] = e != nil
			}
		case "gc":
			capn := kit.Int(op, "cap")
			ev["cap"] = capn
			runs := 0
			done := false
			var gerr error
			race, isRace := op["race"].(map[string]interface{})
			if isRace {
				gcMu.Lock()
			} else {
				gcMu.RLock()
			}
			if isRace {
				// an access to a file between candidate selection and eviction of the first run
				// (the hook is package-global: a racing collection excludes every other collection)
				rf := r.cat.files[kit.Str(race, "f")]
				fired := false
				localstore.VerifSetGCIteratorDoneHook(func() {
					if fired || rf == nil {
						return
					}
					fired = true
					switch kit.Str(race, "op") {
					case "read":
						b.Do(http.MethodGet, "/aurora/"+rf.Ref.String()+"/", nil, nil)
					case "touch":
						if addr, ok := r.cat.addrOf(rf.Data[0]); ok {
							_, _ = b.NS.Get(sctx.SetRootHash(context.Background(), rf.Ref), storage.ModeGetRequest, addr)
						}
					case "pin":
						b.Do(http.MethodPost, "/pins/"+rf.Ref.String(), nil, nil)
					case "delete":
						b.Do(http.MethodDelete, "/aurora/"+rf.Ref.String(), nil, nil)
					}
					b.Store.VerifWaitUpdateGC()
				})
				ev["race"] = map[string]interface{}{"op": kit.Str(race, "op"), "f": kit.Str(race, "f")}
			}
			for runs < 12 && !done {
				_, done, gerr = b.Store.VerifCollectGarbage(uint64(capn))
				runs++
				if gerr != nil {
					break
				}
			}
			ev["runs"], ev["done"], ev["err"] = runs, done, gerr != nil
			if isRace {
				localstore.VerifSetGCIteratorDoneHook(nil)
				gcMu.Unlock()
			} else {
				gcMu.RUnlock()
			}
		case "restart":
			if e := b.Restart(); e != nil {
				return nil, fmt.Errorf("restart: %w", e)
			}
		default:
			return nil, fmt.Errorf("unknown op %q", name)
		}
		if err := emit(ev); err != nil {
			return nil, err
		}
	}
	return evs, nil
}

// runChunks (parent): the node's own goroutines are not the driver's to guard -- a panic there (e.g. a late
// chunk-info response for a file that was just deleted) kills the process. Scenarios therefore run in child
// processes, a few hundred each; a chunk whose child died is run again (such crashes depend on timing), and
// only a chunk that dies three times makes the run fail (exit 2, no verdict).
func runChunks(scs []kit.Scenario, out *kit.Out) error {
	const chunk = 250
	for lo := 0; lo < len(scs); lo += chunk {
		hi := lo + chunk
		if hi > len(scs) {
			hi = len(scs)
		}
		dir, err := ioutil.TempDir("", "verif-lschunk")
		if err != nil {
			return err
		}
		var buf bytes.Buffer
		for _, sc := range scs[lo:hi] {
			b, _ := json.Marshal(sc)
			buf.Write(b)
			buf.WriteByte('\n')
		}
		if err := ioutil.WriteFile(dir+"/scn.ndjson", buf.Bytes(), 0600); err != nil {
			return err
		}
		var lastErr string
		ok := false
		for attempt := 1; attempt <= 3 && !ok; attempt++ {
			cmd := exec.Command(os.Args[0], "child", dir+"/scn.ndjson", dir+"/trace.ndjson")
			var stderr bytes.Buffer
			cmd.Stderr = &stderr
			if err := cmd.Run(); err != nil {
				tail := stderr.String()
				if len(tail) > 1500 {
					tail = tail[len(tail)-1500:]
				}
				first := stderr.String()
				if len(first) > 600 {
					first = first[:600]
				}
				lastErr = first + " ... " + tail
				fmt.Fprintf(os.Stderr, "NOTE: node process died while running scenarios %d..%d (attempt %d): %s\n", lo+1, hi, attempt, first)
				continue
			}
			os.Stderr.Write(stderr.Bytes())
			ok = true
		}
		if !ok {
			os.RemoveAll(dir)
			return fmt.Errorf("child process died three times on scenarios %d..%d: %s", lo+1, hi, lastErr)
		}
		f, err := os.Open(dir + "/trace.ndjson")
		if err != nil {
			return err
		}
		rd := bufio.NewReaderSize(f, 1<<20)
		for {
			line, err := rd.ReadBytes('\n')
			if len(line) > 1 {
				var e map[string]interface{}
				if je := json.Unmarshal(line, &e); je != nil {
					return je
				}
				scn := int(e["scn"].(float64))
				op, _ := e["op"].(string)
				delete(e, "scn")
				delete(e, "i")
				if op == "reset" {
					delete(e, "op")
					out.Begin(scn, kit.Ev(e))
				} else {
					out.Emit(kit.Ev(e))
				}
			}
			if err != nil {
				break
			}
		}
		f.Close()
		os.RemoveAll(dir)
	}
	return nil
}

// srcHide names one chunk address the source node's retrieval handler does not find (a partial holder); "" = none.
var srcHide atomic.Value

type hideStorer struct{ storage.Storer }

func (h *hideStorer) Get(ctx context.Context, mode storage.ModeGet, addr boson.Address) (boson.Chunk, error) {
	if v, _ := srcHide.Load().(string); v != "" && v == addr.String() {
		return nil, storage.ErrNotFound
	}
	return h.Storer.Get(ctx, mode, addr)
}

func main() {
	if len(os.Args) >= 2 && os.Args[1] == "exec" {
		kit.Main(runChunks)
		return
	}
	if len(os.Args) >= 2 && os.Args[1] == "child" {
		os.Args[1] = "exec"
	}
	kit.Main(func(scs []kit.Scenario, out *kit.Out) error {
		logger := logging.New(ioutil.Discard, 0)
		localstore.VerifSetNow(func() int64 { return atomic.AddInt64(&clock, 1) })
		seed := kit.Seed()
		cat, err := buildCatalogue(logger, seed)
		if err != nil {
			return fmt.Errorf("catalogue: %w", err)
		}
		board := swb.NewBoard()
		src, err := nodelite.NewWithOptions(board, addrRand(rand.New(rand.NewSource(seed+7))), "", nil, logger,
			nodelite.Options{WrapStorer: func(st storage.Storer) storage.Storer { return &hideStorer{Storer: st} }})
		if err != nil {
			return err
		}
		for _, f := range cat.order {
			fd := cat.files[f]
			ref, _, err := src.Upload(strings.ToLower(fd.Name), fd.Content, false, false)
			if err != nil || !ref.Equal(fd.Ref) {
				return fmt.Errorf("source upload %s: %v", f, err)
			}
		}
		r := &runner{cat: cat, src: src, board: board, logger: logger}

		workers := 12
		if w := os.Getenv("VERIF_WORKERS"); w != "" {
			fmt.Sscanf(w, "%d", &workers)
		}
		results := make([][]kit.Ev, len(scs))
		errs := make([]error, len(scs))
		var wg sync.WaitGroup
		next := int64(-1)
		for w := 0; w < workers; w++ {
			wg.Add(1)
			go func(w int) {
				defer wg.Done()
				for {
					i := int(atomic.AddInt64(&next, 1))
					if i >= len(scs) {
						return
					}
					rng := rand.New(rand.NewSource(seed*1000003 + int64(scs[i].Scn)))
					results[i], errs[i] = r.run(scs[i], rng)
				}
			}(w)
		}
		wg.Wait()
		for _, p := range board.TakePanics() {
			fmt.Fprintln(os.Stderr, "NOTE: stream handler panicked (recovered by the harness):", p)
		}
		for i, sc := range scs {
			if errs[i] != nil {
				return fmt.Errorf("scenario %d: %w", sc.Scn, errs[i])
			}
			for j, ev := range results[i] {
				if j == 0 {
					delete(ev, "op")
					out.Begin(sc.Scn, ev)
				} else {
					out.Emit(ev)
				}
			}
		}
		return nil
	})
}
