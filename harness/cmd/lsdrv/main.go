// lsdrv: conformance driver of the local-store family (C12, C13, C15, C16, C17).
//
// Node under test "B": real localstore + netstore + retrieval + traversal +
// pinning + chunkinfo + api (internal/nodelite), driven only through the entry
// points the node itself uses: the HTTP API handlers (upload, download with
// targets, local read, pin, unpin, delete), pinning.Service, netstore.Get under
// a file context, the garbage collector's function (run synchronously through
// the verif hook) and a restart. A second real node "A" holds every catalogue
// file and serves pyramid / chunk-info / retrieval requests over an in-memory
// switchboard, so cached ("requested") files are produced by the real flow.
//
// The driver has no oracle: after every operation it dumps B's indexes and
// chunk-info records under abstract chunk names; the TLA+ judge decides.
package main

import (
	"archive/tar"
	"bufio"
	"bytes"
	"context"
	"encoding/hex"
	"encoding/json"
	"fmt"
	"io/ioutil"
	"math/rand"
	"net/http"
	"os"
	"os/exec"
	"sort"
	"strings"
	"sync"
	"sync/atomic"
	"time"

	"github.com/gauss-project/aurorafs/pkg/boson"
	"github.com/gauss-project/aurorafs/pkg/file/joiner"
	"github.com/gauss-project/aurorafs/pkg/file/loadsave"
	"github.com/gauss-project/aurorafs/pkg/localstore"
	"github.com/gauss-project/aurorafs/pkg/logging"
	"github.com/gauss-project/aurorafs/pkg/manifest"
	"github.com/gauss-project/aurorafs/pkg/sctx"
	"github.com/gauss-project/aurorafs/pkg/storage"

	"verifharness/internal/kit"
	"verifharness/internal/nodelite"
	"verifharness/internal/swb"
)

const CS = 262144

// ---------------------------------------------------------------- catalogue

// member: one file entry of a manifest (a single-file upload has one, a directory upload several)
type member struct {
	Path    string
	Content []byte
	FileRef boson.Address // reference of the file entry inside the manifest
}

type fileDef struct {
	Name    string
	Blocks  string // letters of the catalogue blocks; '|' separates the member files of a directory
	Dir     bool   // uploaded as a directory (POST /aurora with a tar, Aurora-Collection: true)
	Members []member
	Content []byte // content of the first member
	Ref     boson.Address
	Chunks  []string // names of all chunks written for it (W(f))
	Data    []string // distinct data chunks, order of first occurrence (availability bit order)
	Occ     map[string]int
	FileRef boson.Address // reference of the first member's file entry inside the manifest
}

// mem returns the member a selector names ("m2" = second member; everything else the first)
func (fd *fileDef) mem(sel string) *member {
	if sel == "m2" && len(fd.Members) >= 2 {
		return &fd.Members[1]
	}
	return &fd.Members[0]
}

// upload stores a catalogue file on node n through the API: POST /aurora?name= for a single file,
// POST /aurora with a tar of the members (Aurora-Collection) for a directory.
func upload(n *nodelite.Node, fd *fileDef, pin bool) (boson.Address, int, error) {
	if !fd.Dir {
		return n.Upload(fd.Members[0].Path, fd.Members[0].Content, pin, false)
	}
	var buf bytes.Buffer
	tw := tar.NewWriter(&buf)
	for _, m := range fd.Members {
		if err := tw.WriteHeader(&tar.Header{Name: m.Path, Mode: 0600, Size: int64(len(m.Content))}); err != nil {
			return boson.ZeroAddress, 0, err
		}
		if _, err := tw.Write(m.Content); err != nil {
			return boson.ZeroAddress, 0, err
		}
	}
	if err := tw.Close(); err != nil {
		return boson.ZeroAddress, 0, err
	}
	hdr := map[string]string{"Content-Type": "application/x-tar", "Aurora-Collection": "true"}
	if pin {
		hdr["Aurora-Pin"] = "true"
	}
	code, body := n.Do(http.MethodPost, "/aurora", hdr, buf.Bytes())
	if code != http.StatusCreated {
		return boson.ZeroAddress, code, fmt.Errorf("upload dir: status %d: %s", code, body)
	}
	var r struct {
		Reference boson.Address `json:"reference"`
	}
	if err := json.Unmarshal(body, &r); err != nil {
		return boson.ZeroAddress, code, err
	}
	return r.Reference, code, nil
}

type catalogue struct {
	files map[string]*fileDef
	order []string
	names map[string]string // hex address -> abstract chunk name
}

func block(letter byte, seed int64) []byte {
	n := CS
	if letter == 'T' {
		n = 1000
	}
	b := make([]byte, n)
	rand.New(rand.NewSource(seed*131 + int64(letter))).Read(b)
	return b
}

// F*: single-file manifests. D*: directories (two member files a.bin, b.bin under one manifest root); every directory
// holds the one-chunk file T as its second member, D1's first member is the content of F1, D2's / D3's a one-chunk file.
var fileBlocks = [][2]string{{"F1", "XY"}, {"F2", "XYZ"}, {"F3", "XY"}, {"F4", "ZZ"}, {"F5", "Y"}, {"F6", "XT"}, {"F7", "ZT"},
	{"D1", "XY|T"}, {"D2", "Z|T"}, {"D3", "Y|T"}}

func addrRand(r *rand.Rand) boson.Address {
	b := make([]byte, 32)
	r.Read(b)
	return boson.NewAddress(b)
}

// buildCatalogue uploads every catalogue file alone into a fresh scratch node to learn the
// set of chunks written for it, and names the chunks.
// need (nil = all): the files the scenarios of this process name; the others are left out (building one costs ~1 s of CPU).
func buildCatalogue(logger logging.Logger, seed int64, need map[string]bool) (*catalogue, error) {
	cat := &catalogue{files: map[string]*fileDef{}, names: map[string]string{}}
	blockOf := map[string]string{}
	rng := rand.New(rand.NewSource(seed + 99))
	for _, fb := range fileBlocks {
		if need != nil && !need[fb[0]] {
			continue
		}
		fd := &fileDef{Name: fb[0], Blocks: fb[1], Occ: map[string]int{}}
		parts := strings.Split(fb[1], "|")
		fd.Dir = len(parts) > 1
		for k, part := range parts {
			m := member{Path: strings.ToLower(fd.Name)}
			if fd.Dir {
				m.Path = string(rune('a'+k)) + ".bin"
			}
			for i := 0; i < len(part); i++ {
				m.Content = append(m.Content, block(part[i], seed)...)
			}
			fd.Members = append(fd.Members, m)
		}
		fd.Content = fd.Members[0].Content
		board := swb.NewBoard()
		n, err := nodelite.New(board, addrRand(rng), "", nil, logger)
		if err != nil {
			return nil, err
		}
		ref, _, err := upload(n, fd, false)
		if err != nil {
			n.Close()
			return nil, err
		}
		fd.Ref = ref
		st, err := n.Store.VerifDump()
		if err != nil {
			n.Close()
			return nil, err
		}
		// data chunk list in traversal order
		lists, _, err := n.Trav.GetChunkHashes(context.Background(), ref, nil)
		if err != nil {
			n.Close()
			return nil, err
		}
		isData := map[string]bool{}
		var dataOrder []string
		for _, l := range lists {
			for _, a := range l {
				h := hex.EncodeToString(a)
				if !isData[h] {
					isData[h] = true
					dataOrder = append(dataOrder, h)
				}
				fd.Occ[h]++
			}
		}
		// name data chunks after the block they carry
		for _, e := range st.Retrieval {
			h := hex.EncodeToString(e.Address)
			if isData[h] && len(e.Data) >= 8 {
				for _, L := range []byte("XYZT") {
					if bytes.Equal(e.Data[8:], block(L, seed)) {
						blockOf[h] = string(L)
					}
				}
			}
		}
		// the file entry reference (for side-effect free local reads)
		ls := loadsave.NewReadonly(n.Store, storage.ModeGetLookup)
		m, err := manifest.NewDefaultManifestReference(ref, ls)
		if err != nil {
			n.Close()
			return nil, err
		}
		fileRefs := map[string]bool{}
		for k := range fd.Members {
			e, err := m.Lookup(context.Background(), fd.Members[k].Path)
			if err != nil {
				n.Close()
				return nil, err
			}
			fd.Members[k].FileRef = e.Reference()
			fileRefs[hex.EncodeToString(e.Reference().Bytes())] = true
		}
		fd.FileRef = fd.Members[0].FileRef
		var others []string
		for _, e := range st.Retrieval {
			h := hex.EncodeToString(e.Address)
			if !isData[h] {
				others = append(others, h)
			}
		}
		sort.Strings(others)
		mi := 0
		for _, h := range others {
			if _, ok := cat.names[h]; ok {
				continue
			}
			switch {
			case h == hex.EncodeToString(ref.Bytes()):
				cat.names[h] = "M:" + fd.Name
			case h == hex.EncodeToString(fd.FileRef.Bytes()):
				cat.names[h] = "r:" + fd.Name
			case fileRefs[h]:
				cat.names[h] = "r:" + fd.Name + ":b"
			default:
				cat.names[h] = fmt.Sprintf("m:%s:%d", fd.Name, mi)
				mi++
			}
		}
		for _, h := range dataOrder {
			if _, ok := cat.names[h]; !ok {
				if b, ok := blockOf[h]; ok {
					cat.names[h] = b
				} else {
					cat.names[h] = "d:" + h[:6]
				}
			}
		}
		for _, e := range st.Retrieval {
			fd.Chunks = append(fd.Chunks, cat.names[hex.EncodeToString(e.Address)])
		}
		sort.Strings(fd.Chunks)
		occ := map[string]int{}
		for h, c := range fd.Occ {
			occ[cat.names[h]] = c
		}
		fd.Occ = occ
		for _, h := range dataOrder {
			fd.Data = append(fd.Data, cat.names[h])
		}
		cat.files[fd.Name] = fd
		cat.order = append(cat.order, fd.Name)
		n.Close()
	}
	return cat, nil
}

func (c *catalogue) name(addr []byte) string {
	h := hex.EncodeToString(addr)
	if n, ok := c.names[h]; ok {
		return n
	}
	return "?" + h[:8]
}

func (c *catalogue) addrOf(name string) (boson.Address, bool) {
	for h, n := range c.names {
		if n == name {
			return boson.MustParseHexAddress(h), true
		}
	}
	return boson.ZeroAddress, false
}

// ---------------------------------------------------------------- projection

func bitsOf(b []byte, n int) []int {
	out := make([]int, 0, n)
	for i := 0; i < n; i++ {
		if i/8 < len(b) && b[i/8]&(1<<uint(i%8)) != 0 {
			out = append(out, 1)
		} else {
			out = append(out, 0)
		}
	}
	return out
}

func localRead(b *nodelite.Node, fd *fileDef) bool {
	ctx := context.Background()
	ls := loadsave.NewReadonly(b.Store, storage.ModeGetLookup)
	m, err := manifest.NewDefaultManifestReference(fd.Ref, ls)
	if err != nil {
		return false
	}
	for _, mb := range fd.Members {
		e, err := m.Lookup(ctx, mb.Path)
		if err != nil {
			return false
		}
		j, _, err := joiner.New(ctx, b.Store, storage.ModeGetLookup, e.Reference())
		if err != nil {
			return false
		}
		got, err := ioutil.ReadAll(j)
		if err != nil || !bytes.Equal(got, mb.Content) {
			return false
		}
	}
	return true
}

func project(b *nodelite.Node, cat *catalogue, files []string) (kit.Ev, error) {
	st, err := b.Store.VerifDump()
	if err != nil {
		return nil, err
	}
	data := []string{}
	for _, e := range st.Retrieval {
		data = append(data, cat.name(e.Address))
	}
	sort.Strings(data)
	pin := [][]interface{}{}
	for _, e := range st.Pin {
		pin = append(pin, []interface{}{cat.name(e.Address), int(e.PinCounter)})
	}
	sort.Slice(pin, func(i, j int) bool { return pin[i][0].(string) < pin[j][0].(string) })
	gc := [][]interface{}{}
	gcsum := 0
	for _, e := range st.GC {
		gc = append(gc, []interface{}{cat.name(e.Address), int(e.GCounter)})
		gcsum += int(e.GCounter)
	}
	acc := []string{}
	for _, e := range st.Access {
		acc = append(acc, cat.name(e.Address))
	}
	sort.Strings(acc)
	pinned, err := b.Pin.Pins()
	if err != nil {
		return nil, err
	}
	pins := []string{}
	for _, p := range pinned {
		pins = append(pins, cat.name(p.Bytes()))
	}
	sort.Strings(pins)
	_, roots := b.CI.GetFileList(b.Addr)
	listed := map[string]bool{}
	for _, r := range roots {
		listed[r.String()] = true
	}
	fl := map[string]interface{}{}
	for _, f := range files {
		fd := cat.files[f]
		rec := map[string]interface{}{}
		rec["readable"] = localRead(b, fd)
		rec["listed"] = listed[fd.Ref.String()]
		bits := []int{}
		blen := 0
		others := 0
		for _, o := range b.CI.GetChunkInfoServerOverlays(fd.Ref) {
			if o.Overlay == b.Addr.String() {
				blen = o.Bit.Len
				bits = bitsOf(o.Bit.B, o.Bit.Len)
			} else {
				others++
			}
		}
		rec["bits"] = bits
		rec["bitlen"] = blen
		rec["servers"] = others
		rec["discover"] = len(b.CI.GetChunkInfoDiscoverOverlays(fd.Ref))
		src := b.CI.GetChunkInfoSource(fd.Ref)
		rec["source"] = len(src.ChunkSource)
		rec["pyrsource"] = src.PyramidSource != ""
		keys := 0
		for _, pfx := range []string{"chunk-", "discover-", "sourceChunk-", "sourcePyramid-"} {
			if err := b.State.Iterate(pfx+fd.Ref.String(), func(k, v []byte) (bool, error) {
				keys++
				return false, nil
			}); err != nil {
				return nil, err
			}
		}
		rec["keys"] = keys
		has, err := b.Pin.HasPin(fd.Ref)
		if err != nil {
			return nil, err
		}
		rec["rootpin"] = has
		fl[f] = rec
	}
	return kit.Ev{"data": data, "pin": pin, "gc": gc, "gcsum": gcsum, "gcsize": int(st.GCSize), "acc": acc,
		"pins": pins, "files": fl}, nil
}

// ---------------------------------------------------------------- execution

var clock int64 = 1000

// gcMu: plain collections share it, a collection with a racing access (package-global hook) owns it
var gcMu sync.RWMutex

type runner struct {
	cat    *catalogue
	src    *nodelite.Node // node A
	board  *swb.Board
	logger logging.Logger
}

func (r *runner) run(sc kit.Scenario, rng *rand.Rand) (evs []kit.Ev, err error) {
	files := kit.StrList(sc.Par, "files")
	if len(files) == 0 {
		files = r.cat.order
	}
	dir := ""
	for _, op := range sc.Ops {
		if kit.Str(op, "op") == "restart" {
			d, e := ioutil.TempDir("", "verif-ls")
			if e != nil {
				return nil, e
			}
			dir = d
			defer os.RemoveAll(d)
		}
	}
	b, err := nodelite.New(r.board, addrRand(rng), dir, nil, r.logger)
	if err != nil {
		return nil, err
	}
	defer b.Close()
	// release: parks the store's own collection worker (see the racing download of the gc operation); it is let go
	// after the last dump, before the node is closed
	release := make(chan struct{})
	workerParked := false
	defer close(release)

	defs := map[string]interface{}{}
	for _, f := range files {
		fd := r.cat.files[f]
		if fd == nil {
			return nil, fmt.Errorf("unknown file %s", f)
		}
		occ := [][]interface{}{}
		for _, c := range fd.Chunks {
			n := fd.Occ[c]
			if n == 0 {
				n = 1
			}
			occ = append(occ, []interface{}{c, n})
		}
		defs[f] = map[string]interface{}{"chunks": fd.Chunks, "data": fd.Data, "root": r.cat.name(fd.Ref.Bytes()), "occ": occ}
	}
	st, err := project(b, r.cat, files)
	if err != nil {
		return nil, err
	}
	evs = append(evs, kit.Ev{"op": "reset", "defs": defs, "fileset": files, "st": st})

	emit := func(ev kit.Ev) error {
		b.Settle()
		st, err := project(b, r.cat, files)
		if err != nil {
			return err
		}
		ev["st"] = st
		evs = append(evs, ev)
		return nil
	}

	defer srcHide.Delete(b.Addr.String())
	for _, op := range sc.Ops {
		srcHide.Delete(b.Addr.String())
		name := kit.Str(op, "op")
		ev := kit.Ev{"op": name}
		var fd *fileDef
		if f := kit.Str(op, "f"); f != "" {
			fd = r.cat.files[f]
			if fd == nil {
				return nil, fmt.Errorf("unknown file %s", f)
			}
			ev["f"] = f
		}
		switch name {
		case "upload":
			pin := kit.Bool(op, "pin")
			ref, code, uerr := upload(b, fd, pin)
			ev["pin"], ev["code"] = pin, code
			ev["ok"] = uerr == nil && ref.Equal(fd.Ref)
		case "download", "read":
			sel := kit.Str(op, "sel")
			if sel == "" {
				sel = "all"
			}
			// a directory is read one member file at a time (GET /aurora/{ref}/{path}): sel "m1" / "m2"; the byte-range
			// selectors and "all" name the single file of a single-file manifest (its index document: empty path)
			mb := fd.mem(sel)
			content := mb.Content
			hdr := map[string]string{}
			lo, hi := 0, len(content)-1
			switch sel {
			case "first":
				lo, hi = 0, 9
			case "second":
				if len(content) > CS+10 {
					lo, hi = CS, CS+9
				} else {
					lo, hi = 0, 9
				}
			}
			if sel == "first" || sel == "second" {
				hdr["Range"] = fmt.Sprintf("bytes=%d-%d", lo, hi)
			}
			url := "/aurora/" + fd.Ref.String() + "/"
			if fd.Dir {
				url += mb.Path
			}
			if name == "download" {
				url += "?targets=" + r.src.Addr.String()
			}
			// miss: the remote source is a partial holder for the time of this download (its pyramid is intact, one
			// data chunk is absent from its store); the chunk is put back afterwards
			hidden := false
			if miss := kit.Str(op, "miss"); name == "download" && miss != "" && miss != "none" {
				cname := fd.Data[0]
				if miss == "datalast" {
					cname = fd.Data[len(fd.Data)-1]
				}
				ev["miss"], ev["missc"] = miss, cname
				if maddr, ok := r.cat.addrOf(cname); ok {
					srcHide.Store(b.Addr.String(), maddr.String())
					hidden = true
				}
			}
			code, body := b.Do(http.MethodGet, url, hdr, nil)
			if hidden {
				// the chunk stays absent at the source for this node until its next operation starts (late retries of the
				// retrieval loop must not find it). (Board.WaitHandlers is not used: its WaitGroup is shared by the scenarios
				// of all goroutines, a Wait that overlaps their new streams panics.)
				time.Sleep(150 * time.Millisecond)
				b.Settle()
			}
			ev["sel"], ev["code"] = sel, code
			ev["ok"] = (code == 200 || code == 206) && bytes.Equal(body, content[lo:hi+1])
		case "pin":
			code, _ := b.Do(http.MethodPost, "/pins/"+fd.Ref.String(), nil, nil)
			ev["code"] = code
		case "unpin":
			code, _ := b.Do(http.MethodDelete, "/pins/"+fd.Ref.String(), nil, nil)
			ev["code"] = code
		case "pinsvc":
			e := b.Pin.CreatePin(context.Background(), fd.Ref, true)
			ev["err"] = e != nil
		case "unpinsvc":
			e := b.Pin.DeletePin(context.Background(), fd.Ref)
			ev["err"] = e != nil
		case "delete":
			code, _ := b.Do(http.MethodDelete, "/aurora/"+fd.Ref.String(), nil, nil)
			ev["code"] = code
		case "touch":
			// netstore.Get of one locally present chunk under the file's context
			kind := kit.Str(op, "kind")
			var cname string
			switch kind {
			case "root":
				cname = r.cat.name(fd.Ref.Bytes())
			case "inter":
				cname = r.cat.name(fd.FileRef.Bytes())
			case "data0":
				cname = fd.Data[0]
			case "datalast":
				cname = fd.Data[len(fd.Data)-1]
			case "foreign":
				cname = kit.Str(op, "c")
			}
			ev["kind"], ev["c"] = kind, cname
			addr, ok := r.cat.addrOf(cname)
			if !ok {
				return nil, fmt.Errorf("touch: no chunk %s", cname)
			}
			// local chunks only: a miss would go to the network, which is the download operation
			if has, _ := b.Store.Has(context.Background(), storage.ModeHasChunk, addr); !has {
				ev["skipped"] = true
			} else {
				ev["skipped"] = false
				_, e := b.NS.Get(sctx.SetRootHash(context.Background(), fd.Ref), storage.ModeGetRequest, addr)
				ev["err"] = e != nil
			}
		case "gc":
			capn := kit.Int(op, "cap")
			ev["cap"] = capn
			runs := 0
			done := false
			var gerr error
			race, isRace := op["race"].(map[string]interface{})
			raceCode := 0
			var raceErr error
			if isRace {
				gcMu.Lock()
			} else {
				gcMu.RLock()
			}
			if isRace {
				// an access to a file between candidate selection and eviction of the first run
				// (the hook is package-global: a racing collection excludes every other collection)
				rf := r.cat.files[kit.Str(race, "f")]
				fired := false
				var inRace int32
				parked := make(chan struct{}, 1)
				localstore.VerifSetGCIteratorDoneHook(func() {
					if atomic.LoadInt32(&inRace) == 1 {
						// The driver's goroutine is inside this hook performing the racing operation, so this call comes from the
						// store's own collection worker: a put that reaches the capacity wakes it. In the node the worker IS the
						// running collection and the wake-up only queues its next run; here the run is on the driver's goroutine,
						// so the worker is parked at this point (a second, concurrent run does not exist in the node) until the
						// scenario is over.
						select {
						case parked <- struct{}{}:
						default:
						}
						<-release
						return
					}
					if fired || rf == nil {
						return
					}
					fired = true
					before, e0 := b.Store.VerifDump()
					atomic.StoreInt32(&inRace, 1)
					switch kit.Str(race, "op") {
					case "download":
						// the complete download of another file: its request puts commit between candidate selection and the
						// release of the evicted entries
						code, _ := b.Do(http.MethodGet, "/aurora/"+rf.Ref.String()+"/?targets="+r.src.Addr.String(), nil, nil)
						raceCode = code
					case "read":
						b.Do(http.MethodGet, "/aurora/"+rf.Ref.String()+"/", nil, nil)
					case "touch":
						// (a locally present chunk only, as in the touch operation: a miss would go to the network and put)
						if addr, ok := r.cat.addrOf(rf.Data[0]); ok {
							if has, _ := b.Store.Has(context.Background(), storage.ModeHasChunk, addr); has {
								_, _ = b.NS.Get(sctx.SetRootHash(context.Background(), rf.Ref), storage.ModeGetRequest, addr)
							}
						}
					case "pin":
						b.Do(http.MethodPost, "/pins/"+rf.Ref.String(), nil, nil)
					case "delete":
						b.Do(http.MethodDelete, "/aurora/"+rf.Ref.String(), nil, nil)
					}
					b.Store.VerifWaitUpdateGC()
					if st, e := b.Store.VerifDump(); e0 == nil && e == nil && st.GCSize != before.GCSize && st.GCSize >= uint64(capn) && !workerParked {
						// the counter changed and ended at the capacity or beyond: the last change woke the worker, which arrives here
						select {
						case <-parked:
							workerParked = true
						case <-time.After(60 * time.Second):
							raceErr = fmt.Errorf("gc race: the collection worker did not arrive at the hook")
						}
					}
					atomic.StoreInt32(&inRace, 0)
				})
				ev["race"] = map[string]interface{}{"op": kit.Str(race, "op"), "f": kit.Str(race, "f")}
			}
			for runs < 12 && !done {
				_, done, gerr = b.Store.VerifCollectGarbage(uint64(capn))
				runs++
				if gerr != nil {
					break
				}
			}
			ev["runs"], ev["done"], ev["err"] = runs, done, gerr != nil
			if isRace {
				localstore.VerifSetGCIteratorDoneHook(nil)
				gcMu.Unlock()
				if raceCode != 0 {
					ev["racecode"] = raceCode
				}
				if raceErr != nil {
					return nil, raceErr
				}
			} else {
				gcMu.RUnlock()
			}
		case "restart":
			if workerParked {
				return nil, fmt.Errorf("restart after a collection raced by a download: not supported (the store's worker is parked)")
			}
			if e := b.Restart(); e != nil {
				return nil, fmt.Errorf("restart: %w", e)
			}
		default:
			return nil, fmt.Errorf("unknown op %q", name)
		}
		if err := emit(ev); err != nil {
			return nil, err
		}
	}
	return evs, nil
}

// runChunks (parent): the node's own goroutines are not the driver's to guard -- a panic there (e.g. a late
// chunk-info response for a file that was just deleted) kills the process. Scenarios therefore run in child
// processes, a few hundred each; a chunk whose child died is run again (such crashes depend on timing), and
// only a chunk that dies three times makes the run fail (exit 2, no verdict).
func runChunks(scs []kit.Scenario, out *kit.Out) error {
	const chunk = 250
	for lo := 0; lo < len(scs); lo += chunk {
		hi := lo + chunk
		if hi > len(scs) {
			hi = len(scs)
		}
		dir, err := ioutil.TempDir("", "verif-lschunk")
		if err != nil {
			return err
		}
		var buf bytes.Buffer
		for _, sc := range scs[lo:hi] {
			b, _ := json.Marshal(sc)
			buf.Write(b)
			buf.WriteByte('\n')
		}
		if err := ioutil.WriteFile(dir+"/scn.ndjson", buf.Bytes(), 0600); err != nil {
			return err
		}
		var lastErr string
		ok := false
		for attempt := 1; attempt <= 3 && !ok; attempt++ {
			cmd := exec.Command(os.Args[0], "child", dir+"/scn.ndjson", dir+"/trace.ndjson")
			var stderr bytes.Buffer
			cmd.Stderr = &stderr
			if err := cmd.Run(); err != nil {
				tail := stderr.String()
				if len(tail) > 1500 {
					tail = tail[len(tail)-1500:]
				}
				first := stderr.String()
				if len(first) > 600 {
					first = first[:600]
				}
				lastErr = first + " ... " + tail
				fmt.Fprintf(os.Stderr, "NOTE: node process died while running scenarios %d..%d (attempt %d): %s\n", lo+1, hi, attempt, first)
				continue
			}
			os.Stderr.Write(stderr.Bytes())
			ok = true
		}
		if !ok {
			os.RemoveAll(dir)
			return fmt.Errorf("child process died three times on scenarios %d..%d: %s", lo+1, hi, lastErr)
		}
		f, err := os.Open(dir + "/trace.ndjson")
		if err != nil {
			return err
		}
		rd := bufio.NewReaderSize(f, 1<<20)
		for {
			line, err := rd.ReadBytes('\n')
			if len(line) > 1 {
				var e map[string]interface{}
				if je := json.Unmarshal(line, &e); je != nil {
					return je
				}
				scn := int(e["scn"].(float64))
				op, _ := e["op"].(string)
				delete(e, "scn")
				delete(e, "i")
				if op == "reset" {
					delete(e, "op")
					out.Begin(scn, kit.Ev(e))
				} else {
					out.Emit(kit.Ev(e))
				}
			}
			if err != nil {
				break
			}
		}
		f.Close()
		os.RemoveAll(dir)
	}
	return nil
}

// srcHide: requester overlay -> one chunk address the source node's retrieval handler does not find for that requester
// (the source is a partial holder for one downloading node; the scenarios of the other goroutines are not affected).
// The requester is read from the handler's context: retrieval stores the peer address there under an unexported key,
// and a value context prints its string values.
var srcHide sync.Map

type hideStorer struct{ storage.Storer }

func (h *hideStorer) Get(ctx context.Context, mode storage.ModeGet, addr boson.Address) (boson.Chunk, error) {
	a, cs, hit := addr.String(), "", false
	srcHide.Range(func(k, v interface{}) bool {
		if v.(string) == a {
			if cs == "" {
				cs = fmt.Sprint(ctx)
			}
			if strings.Contains(cs, k.(string)) {
				hit = true
				return false
			}
		}
		return true
	})
	if hit {
		return nil, storage.ErrNotFound
	}
	return h.Storer.Get(ctx, mode, addr)
}

func main() {
	if len(os.Args) >= 2 && os.Args[1] == "catalogue" {
		// prints the chunk structure of the catalogue (what NodeGen.tla's CatData / CatOther / CatSplit transcribe)
		cat, err := buildCatalogue(logging.New(ioutil.Discard, 0), kit.Seed(), nil)
		if err != nil {
			fmt.Fprintln(os.Stderr, err)
			os.Exit(2)
		}
		for _, f := range cat.order {
			fd := cat.files[f]
			refs := []string{}
			for _, m := range fd.Members {
				refs = append(refs, m.Path+"="+cat.name(m.FileRef.Bytes()))
			}
			fmt.Printf("%s blocks=%s data=%v chunks=%v members=%v occ=%v\n", f, fd.Blocks, fd.Data, fd.Chunks, refs, fd.Occ)
		}
		return
	}
	if len(os.Args) >= 2 && os.Args[1] == "exec" {
		kit.Main(runChunks)
		return
	}
	if len(os.Args) >= 2 && os.Args[1] == "child" {
		os.Args[1] = "exec"
	}
	kit.Main(func(scs []kit.Scenario, out *kit.Out) error {
		logger := logging.New(ioutil.Discard, 0)
		localstore.VerifSetNow(func() int64 { return atomic.AddInt64(&clock, 1) })
		seed := kit.Seed()
		need := map[string]bool{}
		for _, sc := range scs {
			fs := kit.StrList(sc.Par, "files")
			if len(fs) == 0 {
				need = nil
				break
			}
			for _, f := range fs {
				need[f] = true
			}
		}
		cat, err := buildCatalogue(logger, seed, need)
		if err != nil {
			return fmt.Errorf("catalogue: %w", err)
		}
		board := swb.NewBoard()
		src, err := nodelite.NewWithOptions(board, addrRand(rand.New(rand.NewSource(seed+7))), "", nil, logger,
			nodelite.Options{WrapStorer: func(st storage.Storer) storage.Storer { return &hideStorer{Storer: st} }})
		if err != nil {
			return err
		}
		for _, f := range cat.order {
			fd := cat.files[f]
			ref, _, err := upload(src, fd, false)
			if err != nil || !ref.Equal(fd.Ref) {
				return fmt.Errorf("source upload %s: %v", f, err)
			}
		}
		r := &runner{cat: cat, src: src, board: board, logger: logger}

		workers := 12
		if w := os.Getenv("VERIF_WORKERS"); w != "" {
			fmt.Sscanf(w, "%d", &workers)
		}
		results := make([][]kit.Ev, len(scs))
		errs := make([]error, len(scs))
		var wg sync.WaitGroup
		next := int64(-1)
		for w := 0; w < workers; w++ {
			wg.Add(1)
			go func(w int) {
				defer wg.Done()
				for {
					i := int(atomic.AddInt64(&next, 1))
					if i >= len(scs) {
						return
					}
					rng := rand.New(rand.NewSource(seed*1000003 + int64(scs[i].Scn)))
					results[i], errs[i] = r.run(scs[i], rng)
				}
			}(w)
		}
		wg.Wait()
		for _, p := range board.TakePanics() {
			fmt.Fprintln(os.Stderr, "NOTE: stream handler panicked (recovered by the harness):", p)
		}
		for i, sc := range scs {
			if errs[i] != nil {
				return fmt.Errorf("scenario %d: %w", sc.Scn, errs[i])
			}
			for j, ev := range results[i] {
				if j == 0 {
					delete(ev, "op")
					out.Begin(sc.Scn, ev)
				} else {
					out.Emit(ev)
				}
			}
		}
		return nil
	})
}
