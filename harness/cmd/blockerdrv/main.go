// blockerdrv: conformance driver for pkg/blocker (C26).
//
// mode "det": the sequencer resolution is set to a day, so neither background
// goroutine of the Blocker ever fires; the sequence is advanced and the sweeps
// are run through the verif hooks.  mode "rt": the real sequencer and wake-up
// goroutines run with a resolution of a few milliseconds; the driver sleeps,
// samples the sequence before and after every call and orders the asynchronous
// Blocklist callbacks against its own calls by tickets from one atomic counter
// (a callback's ticket is taken inside the sweep, i.e. under the Blocker's lock).
//
// Every Blocklist call of the Blocker is logged as a "cb" event with the
// sequence value read at the call.  No oracle here.
package main

import (
	"errors"
	"fmt"
	"io/ioutil"
	"sort"
	"sync"
	"sync/atomic"
	"time"

	"github.com/gauss-project/aurorafs/pkg/blocker"
	"github.com/gauss-project/aurorafs/pkg/boson"
	"github.com/gauss-project/aurorafs/pkg/logging"
	"github.com/gauss-project/aurorafs/pkg/p2p"

	"verifharness/internal/kit"
)

const maxPeers = 3

func addr(p int) boson.Address {
	b := make([]byte, 32)
	for i := range b {
		b[i] = byte(p * 17)
	}
	b[0] = byte(p)
	return boson.NewAddress(b)
}

func peerOf(a boson.Address) int {
	for p := 1; p <= maxPeers; p++ {
		if a.Equal(addr(p)) {
			return p
		}
	}
	return 0
}

type cbRec struct {
	p      int
	sq     uint64
	c      int64
	durOK  bool
	reason string
	cbk    bool
}

// stub is the p2p.Blocklister handed to the Blocker.
type stub struct {
	status  int32 // p2p.NetworkStatus, atomic
	ticket  int64 // atomic
	mu      sync.Mutex
	b       *blocker.Blocker
	recs    []cbRec
	seen    [maxPeers + 1]int
	fail    bool
	wantDur time.Duration
}

func (s *stub) NetworkStatus() p2p.NetworkStatus {
	return p2p.NetworkStatus(atomic.LoadInt32(&s.status))
}

func (s *stub) next() int64 { return atomic.AddInt64(&s.ticket, 1) }

func (s *stub) Blocklist(a boson.Address, d time.Duration, reason string) error {
	s.mu.Lock()
	defer s.mu.Unlock()
	var sq uint64
	if s.b != nil {
		sq = s.b.VerifSequence()
	}
	p := peerOf(a)
	s.recs = append(s.recs, cbRec{p: p, sq: sq, c: s.next(), durOK: d == s.wantDur, reason: reason})
	if p > 0 {
		s.seen[p]++
	}
	if s.fail {
		return errors.New("stub: blocklisting failed")
	}
	return nil
}

// callback is the Blocker's blocklistCallback.
func (s *stub) callback(a boson.Address) {
	s.mu.Lock()
	defer s.mu.Unlock()
	p := peerOf(a)
	for i := len(s.recs) - 1; i >= 0; i-- {
		if s.recs[i].p == p {
			s.recs[i].cbk = true
			return
		}
	}
}

func (s *stub) drain() []cbRec {
	s.mu.Lock()
	defer s.mu.Unlock()
	r := s.recs
	s.recs = nil
	return r
}

func (s *stub) seenCount(p int) int {
	s.mu.Lock()
	defer s.mu.Unlock()
	return s.seen[p]
}

func netCode(name string) (p2p.NetworkStatus, error) {
	switch name {
	case "up":
		return p2p.NetworkStatusAvailable, nil
	case "down":
		return p2p.NetworkStatusUnavailable, nil
	case "unk":
		return p2p.NetworkStatusUnknown, nil
	}
	return 0, fmt.Errorf("unknown network status %q", name)
}

func project(b *blocker.Blocker) [][]int {
	fl := b.VerifFlagged()
	out := make([][]int, 0, len(fl))
	for _, f := range fl {
		out = append(out, []int{peerOf(f.Address), int(f.BlockAfter)})
	}
	sort.Slice(out, func(i, j int) bool { return out[i][0] < out[j][0] })
	return out
}

func emitCbs(out *kit.Out, recs []cbRec) {
	for _, r := range recs {
		out.Emit(kit.Ev{"op": "cb", "p": r.p, "sq": int(r.sq), "c": int(r.c), "dur_ok": r.durOK,
			"reason": r.reason, "cbk": r.cbk})
	}
}

func run(sc kit.Scenario, out *kit.Out) error {
	mode := kit.Str(sc.Par, "mode")
	T := kit.Int(sc.Par, "T")
	if T < 2 {
		return fmt.Errorf("scenario %d: T must be >= 2", sc.Scn)
	}
	var res, wake time.Duration
	switch mode {
	case "det":
		res = 24 * time.Hour
		wake = res
	case "rt":
		res = 5 * time.Millisecond
		if us := kit.Int(sc.Par, "res_us"); us > 0 {
			res = time.Duration(us) * time.Microsecond
		}
		wake = res
	default:
		return fmt.Errorf("scenario %d: unknown mode %q", sc.Scn, mode)
	}
	old := blocker.VerifSetResolution(res)
	defer blocker.VerifSetResolution(old)

	st := &stub{status: int32(p2p.NetworkStatusAvailable), wantDur: 7 * res}
	// whether the stub's Blocklist fails is a function of scenario id and seed (stable under re-runs)
	st.fail = (int64(sc.Scn)+kit.Seed())%4 == 0
	b := blocker.New(st, time.Duration(T)*res, st.wantDur, wake, st.callback, logging.New(ioutil.Discard, 0))
	st.mu.Lock()
	st.b = b
	st.mu.Unlock()
	defer b.Close()

	base := [maxPeers + 1]int{}
	netName := "up"
	out.Begin(sc.Scn, kit.Ev{"mode": mode, "T": T, "res_us": resUS(mode, res), "fail": st.fail,
		"s0": int(b.VerifSequence()), "s1": int(b.VerifSequence()), "st": project(b)})
	for _, op := range sc.Ops {
		name := kit.Str(op, "op")
		ev := kit.Ev{"op": name, "net": netName}
		emitCbs(out, st.drain()) // happened before this call started
		t0 := st.next()
		s0 := b.VerifSequence()
		switch name {
		case "flag":
			p := kit.Int(op, "p")
			ev["p"] = p
			base[p] = st.seenCount(p)
			b.Flag(addr(p))
		case "unflag":
			p := kit.Int(op, "p")
			ev["p"] = p
			b.Unflag(addr(p))
		case "prune":
			seen := kit.IntList(op, "seen")
			as := make([]boson.Address, 0, len(seen))
			for _, p := range seen {
				as = append(as, addr(p))
			}
			if seen == nil {
				seen = []int{}
			}
			ev["seen"] = seen
			b.PruneUnseen(as)
		case "net":
			s := kit.Str(op, "s")
			code, err := netCode(s)
			if err != nil {
				return err
			}
			atomic.StoreInt32(&st.status, int32(code))
			netName = s
			ev["s"] = s
			if mode == "rt" {
				// let a tick that had already read the old status finish before sampling
				time.Sleep(4 * res)
			}
		case "adv":
			if mode != "det" {
				return fmt.Errorf("scenario %d: adv outside det mode", sc.Scn)
			}
			n := kit.Int(op, "n")
			ev["n"] = n
			b.VerifAdvance(uint64(n))
		case "sweep":
			b.VerifSweep()
		case "wait":
			if mode != "rt" {
				return fmt.Errorf("scenario %d: wait outside rt mode", sc.Scn)
			}
			k := kit.Int(op, "k")
			ev["k"] = k
			begin := time.Now()
			s0 = b.VerifSequence()
			time.Sleep(time.Duration(k) * res)
			ev["sw"] = int(b.VerifSequence())
			ev["el_us"] = int(time.Since(begin) / time.Microsecond)
		case "await":
			if mode != "rt" {
				return fmt.Errorf("scenario %d: await outside rt mode", sc.Scn)
			}
			p := kit.Int(op, "p")
			ev["p"] = p
			deadline := time.Now().Add(5 * time.Second)
			got := false
			for {
				if st.seenCount(p) > base[p] {
					got = true
					break
				}
				if time.Now().After(deadline) {
					break
				}
				time.Sleep(res / 2)
			}
			ev["got"] = got
		default:
			return fmt.Errorf("unknown op %q", name)
		}
		s1 := b.VerifSequence()
		t1 := st.next()
		if _, ok := ev["sw"]; !ok {
			ev["sw"] = int(s1)
		}
		ev["s0"], ev["s1"], ev["t0"], ev["t1"] = int(s0), int(s1), int(t0), int(t1)
		ev["st"] = project(b)
		var after []cbRec
		for _, r := range st.drain() {
			if r.c < t1 {
				emitCbs(out, []cbRec{r}) // during the call
			} else {
				after = append(after, r)
			}
		}
		out.Emit(ev)
		emitCbs(out, after)
	}
	if mode == "rt" {
		time.Sleep(2 * res)
	}
	emitCbs(out, st.drain())
	return nil
}

func main() {
	kit.Main(func(scs []kit.Scenario, out *kit.Out) error {
		for _, sc := range scs {
			if err := run(sc, out); err != nil {
				return err
			}
		}
		return nil
	})
}

// resUS is the resolution in microseconds as logged (1 in det mode: a day does not fit TLC's integers).
func resUS(mode string, res time.Duration) int {
	if mode == "det" {
		return 1
	}
	return int(res / time.Microsecond)
}
