// kaddrv: conformance driver for the kademlia topology (C22, C23, C24).
//
// Executes generated histories on a real kademlia.Kad built the way the
// repository's own tests build it (p2p mock, discovery mock, address book on
// the mock state store, pinger mock, in-memory shed metrics DB; Start is never
// called, so no manage loop runs) and logs what every call returned plus a
// projection of the exported state (NeighborhoodDepth, EachPeer, EachKnownPeer,
// Snapshot).  No oracle here: the TLA+ trace specification spec/kad/KadTrace.tla
// judges the log.
//
// Churn (C23): a "closest" / "closestn" operation may carry "gates": while the
// walk of the call stands on its k-th visit the listed events (connected,
// disconnected, ...) are executed, on the walking goroutine, from inside the
// injectable Options.ReachabilityFunc (par.allreach), which the topology calls
// once per visited peer of a reachability-filtered walk.  Such a call is logged
// as "wbegin", the events (with `during`), then the call's own event (`conc`,
// `visits`, `seen`, `left` = gates the walk never reached).
//
// kademlia.New rewrites package-level saturation thresholds from
// Options.BinMaxPeers.  Scenarios with different settings therefore never share
// a process: the parent groups scenarios by par.binmax and runs one child of
// this same binary per group.
package main

import (
	"context"
	"encoding/json"
	"errors"
	"fmt"
	"io"
	"io/ioutil"
	"os"
	"os/exec"
	"path/filepath"
	"sort"
	"sync"
	"time"

	"github.com/gauss-project/aurorafs/pkg/addressbook"
	"github.com/gauss-project/aurorafs/pkg/aurora"
	"github.com/gauss-project/aurorafs/pkg/boson"
	"github.com/gauss-project/aurorafs/pkg/crypto"
	discmock "github.com/gauss-project/aurorafs/pkg/discovery/mock"
	"github.com/gauss-project/aurorafs/pkg/logging"
	"github.com/gauss-project/aurorafs/pkg/p2p"
	p2pmock "github.com/gauss-project/aurorafs/pkg/p2p/mock"
	pingpongmock "github.com/gauss-project/aurorafs/pkg/pingpong/mock"
	"github.com/gauss-project/aurorafs/pkg/shed"
	mockstate "github.com/gauss-project/aurorafs/pkg/statestore/mock"
	"github.com/gauss-project/aurorafs/pkg/subscribe"
	"github.com/gauss-project/aurorafs/pkg/topology"
	"github.com/gauss-project/aurorafs/pkg/topology/kademlia"
	ma "github.com/multiformats/go-multiaddr"

	"verifharness/internal/kadaddr"
	"verifharness/internal/kit"
)

const childEnv = "VERIF_KADDRV_CHILD"

// node is one Kad instance with its test doubles.
type node struct {
	kad   *kademlia.Kad
	db    *shed.DB
	ab    addressbook.Interface
	mu    sync.Mutex
	discs int // number of p2p.Disconnect calls made by the topology
	// onVisit, when set, is called from Options.ReachabilityFunc, i.e. once for every peer a
	// reachability-filtered walk of the connected peers looks at (scheduling gate, see runCall)
	onVisit func(boson.Address)
}

var (
	logger    = logging.New(ioutil.Discard, 0)
	signerKey crypto.Signer
)

func newNode(space *kadaddr.Space, binmax int, allreach bool) (*node, error) {
	// in-memory metrics DB as in the repository's tests; a small write buffer
	// (the default one is allocated and zeroed on every open)
	db, err := shed.NewDB("", &shed.Options{Driver: `leveldb:{"WriteBuffer":65536}`})
	if err != nil {
		return nil, err
	}
	n := &node{db: db}
	n.ab = addressbook.New(mockstate.NewStateStore())
	p2ps := p2pmock.New(
		p2pmock.WithDisconnectFunc(func(boson.Address, string) error {
			n.mu.Lock()
			n.discs++
			n.mu.Unlock()
			return nil
		}),
	)
	ppm := pingpongmock.New(func(_ context.Context, _ boson.Address, _ ...string) (time.Duration, error) {
		return 0, nil
	})
	opts := kademlia.Options{
		NodeMode:    aurora.NewModel().SetMode(aurora.FullNode),
		BinMaxPeers: binmax,
	}
	if allreach {
		// as TestOversaturation does: every peer counts as reachable.  The function is also the
		// place where a walk over the connected peers can be held while events happen.
		opts.ReachabilityFunc = func(a boson.Address) bool {
			if f := n.onVisit; f != nil {
				f(a)
			}
			return false
		}
	}
	kad, err := kademlia.New(space.Base(), n.ab, discmock.NewDiscovery(), p2ps, ppm, nil, nil, db, logger, subscribe.NewSubPub(), opts)
	if err != nil {
		db.Close()
		return nil, err
	}
	p2ps.SetPickyNotifier(kad)
	n.kad = kad
	return n, nil
}

// discard releases the instance.  Kad.Close is not called: without Start it
// waits five seconds for a manage loop that never ran; nothing of the instance
// is used afterwards, so only the metrics DB (the memory) is closed.
func (n *node) discard() {
	_ = n.db.Close()
}

// signed address-book records, reused by the instances of one process
var bookCache = map[string]*aurora.Address{}

func (n *node) putBook(a boson.Address) error {
	aa := bookCache[a.ByteString()]
	if aa == nil {
		m, err := ma.NewMultiaddr("/ip4/127.0.0.1/tcp/1634/dns/" + a.String())
		if err != nil {
			return err
		}
		aa, err = aurora.NewAddress(signerKey, m, a, 0)
		if err != nil {
			return err
		}
		bookCache[a.ByteString()] = aa
	}
	return n.ab.Put(a, *aa)
}

func pairOf(space *kadaddr.Space, a boson.Address) []int {
	b, i, ok := space.Abstract(a)
	if !ok {
		return []int{-1, -1}
	}
	return []int{b, i}
}

func addrOf(space *kadaddr.Space, v interface{}) (boson.Address, []int, error) {
	b, i, err := kadaddr.Pair(v)
	if err != nil {
		return boson.ZeroAddress, nil, err
	}
	a, err := space.Addr(b, i)
	return a, []int{b, i}, err
}

func addrsOf(space *kadaddr.Space, l []interface{}) ([]boson.Address, [][]int, error) {
	out := []boson.Address{}
	ps := [][]int{}
	for _, v := range l {
		a, p, err := addrOf(space, v)
		if err != nil {
			return nil, nil, err
		}
		out = append(out, a)
		ps = append(ps, p)
	}
	return out, ps, nil
}

func status(s string) (p2p.ReachabilityStatus, error) {
	switch s {
	case "public":
		return p2p.ReachabilityStatusPublic, nil
	case "private":
		return p2p.ReachabilityStatusPrivate, nil
	case "unknown":
		return p2p.ReachabilityStatusUnknown, nil
	}
	return 0, fmt.Errorf("unknown reachability status %q", s)
}

// project dumps the exported view of the topology.
func project(space *kadaddr.Space, n *node) kit.Ev {
	conn := [][]int{}
	cpo := []int{}
	pub := [][]int{}
	_, infos := n.kad.SnapshotConnected()
	_ = n.kad.EachPeer(func(a boson.Address, po uint8) (bool, bool, error) {
		conn = append(conn, pairOf(space, a))
		cpo = append(cpo, int(po))
		// the reachability the topology itself reports for the peer
		if pi := infos[a.String()]; pi != nil && pi.Metrics != nil && pi.Metrics.Reachability == p2p.ReachabilityStatusPublic.String() {
			pub = append(pub, pairOf(space, a))
		}
		return false, false, nil
	}, topology.Filter{})
	known := [][]int{}
	_ = n.kad.EachKnownPeer(func(a boson.Address, po uint8) (bool, bool, error) {
		known = append(known, pairOf(space, a))
		return false, false, nil
	})
	snap := n.kad.Snapshot()
	n.mu.Lock()
	d := n.discs
	n.mu.Unlock()
	return kit.Ev{
		"depth": int(n.kad.NeighborhoodDepth()),
		"conn":  conn,
		"cpo":   cpo,
		"pub":   pub,
		"known": known,
		"snapc": snap.Connected,
		"snapk": snap.Population,
		"snapd": int(snap.Depth),
		"discs": d,
	}
}

func errName(err error) string {
	switch {
	case err == nil:
		return ""
	case errors.Is(err, topology.ErrOversaturated):
		return "oversaturated"
	case errors.Is(err, topology.ErrNotFound):
		return "notfound"
	case errors.Is(err, topology.ErrWantSelf):
		return "wantself"
	}
	return "err:" + err.Error()
}

func fullMode() aurora.Model { return aurora.NewModel().SetMode(aurora.FullNode) }
func bootMode() aurora.Model { return aurora.NewModel().SetMode(aurora.BootNode) }

func runScenario(sc kit.Scenario, out *kit.Out) error {
	binmax := kit.Int(sc.Par, "binmax")
	allreach := kit.Bool(sc.Par, "allreach")
	space := kadaddr.New(kit.Seed()*7919 + int64(sc.Scn))
	n, err := newNode(space, binmax, allreach)
	if err != nil {
		return err
	}
	defer func() { n.discard() }()
	begin := kit.Ev{"binmax": binmax, "allreach": allreach, "st": project(space, n)}
	out.Begin(sc.Scn, begin)
	ctx := context.Background()
	// bookkeeping of the driver's own calls (not an oracle): serial of the instance and
	// the number of non-public reachability reports made to it
	inst, dem := 0, 0
	var step func(op map[string]interface{}, during int) error
	// gated runs a ClosestPeer(s) call whose operation carries "gates": while the walk stands on its
	// k-th visit (k-th call of Options.ReachabilityFunc made by this call) the events listed for k are
	// executed and logged, on this goroutine, exactly as top-level operations are; the walk resumes
	// afterwards.  Visits made by those events themselves (depth recomputation) do not count.
	gated := func(op map[string]interface{}, begin kit.Ev, call func()) (kit.Ev, error) {
		if !allreach {
			return nil, fmt.Errorf("gates need par.allreach (Options.ReachabilityFunc)")
		}
		type gate struct {
			k int
			o map[string]interface{}
		}
		gates := []gate{}
		for _, gv := range kit.List(op, "gates") {
			gm, _ := gv.(map[string]interface{})
			o, _ := gm["o"].(map[string]interface{})
			if o == nil {
				return nil, fmt.Errorf("malformed gate %v", gv)
			}
			gates = append(gates, gate{kit.Int(gm, "k"), o})
		}
		begin["op"] = "wbegin"
		begin["kind"] = kit.Str(op, "op")
		begin["panicked"] = false
		begin["st"] = project(space, n)
		begin["inst"], begin["dem"] = inst, dem
		out.Emit(begin)
		k, ran, busy := 0, 0, false
		seen := [][]int{}
		var gerr error
		cur := n
		cur.onVisit = func(a boson.Address) {
			if busy {
				return
			}
			k++
			seen = append(seen, pairOf(space, a))
			busy = true
			for _, g := range gates {
				if g.k == k && gerr == nil {
					ran++
					gerr = step(g.o, k)
				}
			}
			busy = false
		}
		defer func() { cur.onVisit = nil }()
		call()
		return kit.Ev{"conc": true, "visits": k, "seen": seen, "left": len(gates) - ran}, gerr
	}
	step = func(op map[string]interface{}, during int) error {
		name := kit.Str(op, "op")
		ev := kit.Ev{"op": name}
		if during > 0 {
			ev["during"] = during
		}
		var perr error
		panicked, msg := kit.Guard(func() {
			switch name {
			case "fresh":
				n.discard()
				n, perr = newNode(space, binmax, allreach)
				inst, dem = inst+1, 0
			case "connected":
				a, p, e := addrOf(space, op["p"])
				if e != nil {
					perr = e
					return
				}
				if e := n.putBook(a); e != nil {
					perr = e
					return
				}
				force := kit.Bool(op, "force")
				ev["p"], ev["force"] = p, force
				ev["err"] = errName(n.kad.Connected(ctx, p2p.Peer{Address: a, Mode: fullMode()}, force))
			case "pick":
				a, p, e := addrOf(space, op["p"])
				if e != nil {
					perr = e
					return
				}
				ev["p"] = p
				ev["res"] = n.kad.Pick(p2p.Peer{Address: a, Mode: fullMode()})
			case "outbound":
				a, p, e := addrOf(space, op["p"])
				if e != nil {
					perr = e
					return
				}
				if e := n.putBook(a); e != nil {
					perr = e
					return
				}
				boot := kit.Bool(op, "boot")
				ev["p"], ev["boot"] = p, boot
				mode := fullMode()
				if boot {
					mode = bootMode()
				}
				n.kad.Outbound(p2p.Peer{Address: a, Mode: mode})
			case "disconnected":
				a, p, e := addrOf(space, op["p"])
				if e != nil {
					perr = e
					return
				}
				ev["p"] = p
				n.kad.Disconnected(p2p.Peer{Address: a, Mode: fullMode()}, "verif")
			case "force":
				a, p, e := addrOf(space, op["p"])
				if e != nil {
					perr = e
					return
				}
				ev["p"] = p
				ev["err"] = errName(n.kad.DisconnectForce(a, "verif"))
			case "reachable":
				a, p, e := addrOf(space, op["p"])
				if e != nil {
					perr = e
					return
				}
				st, e := status(kit.Str(op, "status"))
				if e != nil {
					perr = e
					return
				}
				ev["p"], ev["status"] = p, kit.Str(op, "status")
				if st != p2p.ReachabilityStatusPublic {
					dem++
				}
				n.kad.Reachable(a, st)
			case "selfreach":
				st, e := status(kit.Str(op, "status"))
				if e != nil {
					perr = e
					return
				}
				ev["status"] = kit.Str(op, "status")
				n.kad.UpdateReachability(st)
			case "setradius":
				r := kit.Int(op, "r")
				ev["r"] = r
				n.kad.SetRadius(uint8(r))
			case "protect":
				as, ps, e := addrsOf(space, kit.List(op, "ps"))
				if e != nil {
					perr = e
					return
				}
				ev["ps"] = ps
				n.kad.RefreshProtectPeer(as)
			case "addpeers":
				as, ps, e := addrsOf(space, kit.List(op, "ps"))
				if e != nil {
					perr = e
					return
				}
				for _, a := range as {
					if e := n.putBook(a); e != nil {
						perr = e
						return
					}
				}
				ev["ps"] = ps
				n.kad.AddPeers(as...)
			case "closest":
				t, tp, e := addrOf(space, op["t"])
				if e != nil {
					perr = e
					return
				}
				skip, sp, e := addrsOf(space, kit.List(op, "skip"))
				if e != nil {
					perr = e
					return
				}
				incl, filt := kit.Bool(op, "incl"), kit.Bool(op, "filt")
				ev["t"], ev["skip"], ev["incl"], ev["filt"] = tp, sp, incl, filt
				var a boson.Address
				var err error
				call := func() { a, err = n.kad.ClosestPeer(t, incl, topology.Filter{Reachable: filt}, skip...) }
				if _, ok := op["gates"]; ok && during == 0 {
					extra, e := gated(op, kit.Ev{"t": tp, "skip": sp, "incl": incl, "filt": filt}, call)
					if e != nil {
						perr = e
						return
					}
					for k, v := range extra {
						ev[k] = v
					}
				} else {
					call()
				}
				ev["err"] = errName(err)
				if err == nil {
					ev["peer"] = pairOf(space, a)
				} else {
					ev["peer"] = []int{-2, -2}
				}
			case "closestn":
				t, tp, e := addrOf(space, op["t"])
				if e != nil {
					perr = e
					return
				}
				skip, sp, e := addrsOf(space, kit.List(op, "skip"))
				if e != nil {
					perr = e
					return
				}
				cnt, filt := kit.Int(op, "n"), kit.Bool(op, "filt")
				ev["t"], ev["skip"], ev["n"], ev["filt"] = tp, sp, cnt, filt
				var as []boson.Address
				var err error
				call := func() { as, err = n.kad.ClosestPeers(t, cnt, topology.Filter{Reachable: filt}, skip...) }
				if _, ok := op["gates"]; ok && during == 0 {
					extra, e := gated(op, kit.Ev{"t": tp, "skip": sp, "n": cnt, "filt": filt}, call)
					if e != nil {
						perr = e
						return
					}
					for k, v := range extra {
						ev[k] = v
					}
				} else {
					call()
				}
				ev["err"] = errName(err)
				ps := [][]int{}
				for _, a := range as {
					ps = append(ps, pairOf(space, a))
				}
				ev["peers"] = ps
			default:
				perr = fmt.Errorf("unknown op %q", name)
			}
		})
		if perr != nil {
			return perr
		}
		ev["panicked"] = panicked
		if panicked {
			ev["panic"] = msg
		}
		ev["st"] = project(space, n)
		ev["inst"], ev["dem"] = inst, dem
		out.Emit(ev)
		return nil
	}
	for _, op := range sc.Ops {
		if err := step(op, 0); err != nil {
			return err
		}
	}
	return nil
}

func runAll(scs []kit.Scenario, out *kit.Out) error {
	for _, sc := range scs {
		if err := runScenario(sc, out); err != nil {
			return fmt.Errorf("scenario %d: %w", sc.Scn, err)
		}
	}
	return nil
}

// runGroups runs one child process per distinct par.binmax.
func runGroups(scs []kit.Scenario, outPath string) error {
	groups := map[int][]kit.Scenario{}
	for _, sc := range scs {
		b := kit.Int(sc.Par, "binmax")
		groups[b] = append(groups[b], sc)
	}
	keys := []int{}
	for k := range groups {
		keys = append(keys, k)
	}
	sort.Ints(keys)
	dir, err := ioutil.TempDir("", "verif-kaddrv")
	if err != nil {
		return err
	}
	defer os.RemoveAll(dir)
	type job struct {
		trace string
		err   error
		msg   []byte
	}
	jobs := make([]*job, len(keys))
	var wg sync.WaitGroup
	for i, k := range keys {
		scn := filepath.Join(dir, fmt.Sprintf("scn-%d.ndjson", k))
		f, err := os.Create(scn)
		if err != nil {
			return err
		}
		enc := json.NewEncoder(f)
		for _, sc := range groups[k] {
			if err := enc.Encode(sc); err != nil {
				return err
			}
		}
		if err := f.Close(); err != nil {
			return err
		}
		j := &job{trace: filepath.Join(dir, fmt.Sprintf("trace-%d.ndjson", k))}
		jobs[i] = j
		wg.Add(1)
		go func(scn string, j *job) {
			defer wg.Done()
			cmd := exec.Command(os.Args[0], "exec", scn, j.trace)
			cmd.Env = append(os.Environ(), childEnv+"=1")
			j.msg, j.err = cmd.CombinedOutput()
		}(scn, j)
	}
	wg.Wait()
	dst, err := os.Create(outPath)
	if err != nil {
		return err
	}
	defer dst.Close()
	for _, j := range jobs {
		if j.err != nil {
			return fmt.Errorf("child: %v: %s", j.err, j.msg)
		}
		src, err := os.Open(j.trace)
		if err != nil {
			return err
		}
		_, err = io.Copy(dst, src)
		src.Close()
		if err != nil {
			return err
		}
	}
	return nil
}

func main() {
	var kb [32]byte
	kit.Rng(22).Read(kb[:])
	kb[0] = 1
	signerKey = crypto.NewDefaultSigner(crypto.Secp256k1PrivateKeyFromBytes(kb[:]))
	if os.Getenv(childEnv) == "" && len(os.Args) >= 4 && os.Args[1] == "exec" {
		scs, err := kit.ReadScenarios(os.Args[2])
		if err == nil {
			err = runGroups(scs, os.Args[3])
		}
		if err != nil {
			fmt.Fprintln(os.Stderr, "driver:", err)
			os.Exit(2)
		}
		return
	}
	kit.Main(runAll)
}
