// addrdrv: conformance driver for peer address records (C34).
//
// A scenario names one acceptance path and one honest record (key, underlay,
// network id); its operations are the record itself, single-field mutations of
// it, boundary shifts (underlay tail moved in front of the overlay / overlay head
// appended to the underlay: same signed bytes, other field lengths) and records the
// key signed itself for an overlay that is not its own (spec/addrrecord/AddrRecordGen.tla).  The driver concretises each
// symbolic record with real secp256k1 keys and multiaddrs, presents it to
//
//	parse      aurora.ParseAddress
//	handle     handshake Service.Handle   (inbound: Syn, then Ack carrying the record)
//	handshake  handshake Service.Handshake (outbound: SynAck carrying the record)
//	underlay   routetab Service.FindUnderlay (reply read from the relay stream)
//	ulist      routetab onRouteResp handler (underlay list carried by a route response)
//
// and logs what came back.  No expected values here: AddrRecordTrace.tla judges.
package main

import (
	"bytes"
	"context"
	"crypto/ecdsa"
	"fmt"
	"io/ioutil"
	"math/big"
	"strconv"
	"strings"
	"time"

	"github.com/gauss-project/aurorafs/pkg/addressbook"
	"github.com/gauss-project/aurorafs/pkg/aurora"
	"github.com/gauss-project/aurorafs/pkg/boson"
	"github.com/gauss-project/aurorafs/pkg/crypto"
	"github.com/gauss-project/aurorafs/pkg/logging"
	"github.com/gauss-project/aurorafs/pkg/p2p"
	"github.com/gauss-project/aurorafs/pkg/p2p/libp2p/verifhs"
	p2pmock "github.com/gauss-project/aurorafs/pkg/p2p/mock"
	"github.com/gauss-project/aurorafs/pkg/p2p/protobuf"
	"github.com/gauss-project/aurorafs/pkg/routetab"
	routepb "github.com/gauss-project/aurorafs/pkg/routetab/pb"
	statemock "github.com/gauss-project/aurorafs/pkg/statestore/mock"
	"github.com/gauss-project/aurorafs/pkg/topology/lightnode"
	libp2ppeer "github.com/libp2p/go-libp2p-core/peer"
	ma "github.com/multiformats/go-multiaddr"

	"verifharness/internal/kit"
	"verifharness/internal/memstream"
)

var logger = logging.New(ioutil.Discard, 0)

// fixtures ---------------------------------------------------------------------------------

var underlayStr = map[int]string{
	1: "/ip4/127.0.0.1/tcp/1634/p2p/16Uiu2HAkx8ULY8cTXhdVAcMmLcH9AsTKz6uBQ7DPLKRjMLgBVYkA",
	2: "/ip4/10.34.35.60/tcp/7070/p2p/16Uiu2HAkx8ULY8cTXhdVAcMmLcH9AsTKz6uBQ7DPLKRjMLgBVYkS",
	3: "/dns4/node.example.org/tcp/443/p2p/16Uiu2HAm5BTwE3mXzoWDoxSNnwRCEJvpg4CaE7iSCX4jcpHYYrc4",
}

// the node under test (its own underlay as the remote observes it)
const nodeUnderlay = "/ip4/192.168.7.7/tcp/1700/p2p/16Uiu2HAmTBuJT9LvNmBiQiNoTsxE5mtNy6YG3paw79m94CRa9sRb"

var netID = map[int]uint64{1: 10, 2: 0x0102030405060708}

type fixtures struct {
	keys    map[int]*ecdsa.PrivateKey
	nodeKey *ecdsa.PrivateKey
	under   map[int]ma.Multiaddr
	ucuts   map[int][]int // byte offsets of the model's cut points of each underlay (AddrRecord.tla UnBase)
	mask    byte
	junk    []byte // seeded bytes that belong to nobody
}

// overlay cut points (AddrRecord.tla OvCutBytes)
var ovCuts = []int{0, 1, 31, 32}

// cutsOf: start, end of the 1st component, end of the 2nd, one byte before the end, end.
func cutsOf(m ma.Multiaddr) ([]int, error) {
	comps := ma.Split(m)
	if len(comps) != 3 {
		return nil, fmt.Errorf("underlay %s: %d components, want 3", m, len(comps))
	}
	l1, l2, n := len(comps[0].Bytes()), len(comps[1].Bytes()), len(m.Bytes())
	return []int{0, l1, l1 + l2, n - 1, n}, nil
}

func newFixtures() (*fixtures, error) {
	f := &fixtures{keys: map[int]*ecdsa.PrivateKey{}, under: map[int]ma.Multiaddr{}, ucuts: map[int][]int{}}
	rng := kit.Rng(34)
	mk := func() (*ecdsa.PrivateKey, error) {
		b := make([]byte, 32)
		rng.Read(b)
		b[0] &= 0x7f // below the group order
		b[31] |= 1   // not zero
		return crypto.DecodeSecp256k1PrivateKey(b)
	}
	var err error
	for i := 1; i <= 3; i++ {
		if f.keys[i], err = mk(); err != nil {
			return nil, err
		}
	}
	// key 3 is the first key of the seeded stream whose overlay on network 1 STARTS WITH A ZERO BYTE: for it the overlay
	// without its first byte (31 bytes) and the overlay have the same value as big-endian numbers / zero-padded hashes
	for try := 0; ; try++ {
		ov, err := crypto.NewOverlayAddress(f.keys[3].PublicKey, netID[1])
		if err != nil {
			return nil, err
		}
		if ov.Bytes()[0] == 0 {
			break
		}
		if try > 1<<16 {
			return nil, fmt.Errorf("no key with a zero-led overlay among %d candidates", try)
		}
		if f.keys[3], err = mk(); err != nil {
			return nil, err
		}
	}
	if f.nodeKey, err = mk(); err != nil {
		return nil, err
	}
	for i, s := range underlayStr {
		if f.under[i], err = ma.NewMultiaddr(s); err != nil {
			return nil, err
		}
		if f.ucuts[i], err = cutsOf(f.under[i]); err != nil {
			return nil, err
		}
	}
	f.junk = make([]byte, 42)
	rng.Read(f.junk)
	f.junk[0] |= 1 // "pre1" never prepends a zero byte ("prez" does)
	f.mask = byte(1) << uint(rng.Intn(8))
	return f, nil
}

// secp256k1 group order
var curveN, _ = new(big.Int).SetString("FFFFFFFFFFFFFFFFFFFFFFFFFFFFFFFEBAAEDCE6AF48A03BBFD25E8CD0364141", 16)

// record is the concrete (underlay, overlay, signature) presented to the code.
type record struct {
	underlay, overlay, sig []byte
}

func (f *fixtures) honest(k, u int, net uint64) (*record, error) {
	key := f.keys[k]
	ov, err := crypto.NewOverlayAddress(key.PublicKey, net)
	if err != nil {
		return nil, err
	}
	a, err := aurora.NewAddress(crypto.NewDefaultSigner(key), f.under[u], ov, net)
	if err != nil {
		return nil, err
	}
	ub, err := f.under[u].MarshalBinary()
	if err != nil {
		return nil, err
	}
	ub = append([]byte{}, ub...) // MarshalBinary hands out the multiaddr's own bytes
	return &record{underlay: ub, overlay: append([]byte{}, ov.Bytes()...), sig: append([]byte{}, a.Signature...)}, nil
}

// checkNet concretises the network id a record is checked on (AddrRecord.tla CheckNet): another id of the universe,
// or the signing id changed only in its upper 32 bits ("hi32") or in one bit ("b<k>").
func checkNet(d map[string]interface{}) (uint64, error) {
	base := netID[kit.Int(d, "vn")]
	if kit.Str(d, "mut") != "net" {
		return base, nil
	}
	how := kit.Str(d, "how")
	switch {
	case how == "other":
		return base, nil
	case how == "hi32":
		return netID[kit.Int(d, "n")] ^ 0x8000000100000000, nil
	default:
		k, ok := pos(how)
		if !ok || k > 63 {
			return 0, fmt.Errorf("network id variant %q", how)
		}
		return netID[kit.Int(d, "n")] ^ (uint64(1) << uint(k)), nil
	}
}

func pos(how string) (int, bool) {
	if strings.HasPrefix(how, "b") && how != "blast" {
		n, err := strconv.Atoi(how[1:])
		return n, err == nil
	}
	return 0, false
}

// build concretises the descriptor d (see AddrRecord.tla RecOf).
func (f *fixtures) build(d map[string]interface{}) (*record, error) {
	k, u, n := kit.Int(d, "k"), kit.Int(d, "u"), kit.Int(d, "n")
	mut, how := kit.Str(d, "mut"), kit.Str(d, "how")
	r, err := f.honest(k, u, netID[n])
	if err != nil {
		return nil, err
	}
	switch mut {
	case "none", "net", "net_field":
	case "underlay_other":
		ub, err := f.under[kit.Int(d, "mu")].MarshalBinary()
		if err != nil {
			return nil, err
		}
		r.underlay = append([]byte{}, ub...)
	case "underlay_byte":
		i := len(r.underlay) - 1
		if p, ok := pos(how); ok {
			i = p
		}
		if i >= len(r.underlay) {
			return nil, fmt.Errorf("underlay position %d out of range", i)
		}
		r.underlay[i] ^= f.mask
	case "overlay_other":
		ov, err := crypto.NewOverlayAddress(f.keys[kit.Int(d, "mk")].PublicKey, netID[n])
		if err != nil {
			return nil, err
		}
		r.overlay = append([]byte{}, ov.Bytes()...)
	case "overlay_byte":
		if r.overlay, err = f.damagedOverlay(r.overlay, how); err != nil {
			return nil, err
		}
	case "shift":
		// the boundary between the two fields is moved; underlay || overlay stays what the key signed
		cut, err := strconv.Atoi(how[1:])
		if err != nil || len(how) != 2 {
			return nil, fmt.Errorf("shift %q", how)
		}
		all := append(append([]byte{}, r.underlay...), r.overlay...)
		var at int
		switch {
		case how[0] == 'c' && cut < len(f.ucuts[u]):
			at = f.ucuts[u][cut]
		case how[0] == 'o' && cut < len(ovCuts):
			at = len(r.underlay) + ovCuts[cut]
		default:
			return nil, fmt.Errorf("shift %q", how)
		}
		r.underlay, r.overlay = all[:at:at], all[at:]
	case "claim":
		// the key itself signs (underlay, claimed overlay, network id) for an overlay that is not its own
		claimed := r.overlay
		if how == "other" {
			ov, err := crypto.NewOverlayAddress(f.keys[kit.Int(d, "mk")].PublicKey, netID[n])
			if err != nil {
				return nil, err
			}
			claimed = append([]byte{}, ov.Bytes()...)
		} else if claimed, err = f.damagedOverlay(r.overlay, how); err != nil {
			return nil, err
		}
		a, err := aurora.NewAddress(crypto.NewDefaultSigner(f.keys[k]), f.under[u], boson.NewAddress(claimed), netID[n])
		if err != nil {
			return nil, err
		}
		r.overlay, r.sig = claimed, append([]byte{}, a.Signature...)
	case "sig_byte":
		p, ok := pos(how)
		if !ok || p >= len(r.sig) {
			return nil, fmt.Errorf("signature damage %q", how)
		}
		if p == 64 {
			r.sig[64] ^= 0x07 // 27 <-> 28: the other recovery id
		} else {
			r.sig[p] ^= f.mask
		}
	case "sig_len":
		switch how {
		case "empty":
			r.sig = []byte{}
		case "short64":
			r.sig = r.sig[:64]
		case "long66":
			r.sig = append(r.sig, 27)
		default:
			return nil, fmt.Errorf("signature length damage %q", how)
		}
	case "sig_otherkey":
		other := f.keys[kit.Int(d, "mk")]
		a, err := aurora.NewAddress(crypto.NewDefaultSigner(other), f.under[u], boson.NewAddress(r.overlay), netID[n])
		if err != nil {
			return nil, err
		}
		r.sig = append([]byte{}, a.Signature...)
	case "sig_twin":
		s := new(big.Int).SetBytes(r.sig[32:64])
		s.Sub(curveN, s)
		sb := s.Bytes()
		tw := make([]byte, 65)
		copy(tw, r.sig[:32])
		copy(tw[64-len(sb):64], sb)
		tw[64] = r.sig[64] ^ 0x07
		r.sig = tw
	case "reply_other":
		return f.honest(kit.Int(d, "mk"), u, netID[n])
	default:
		return nil, fmt.Errorf("unknown mutation %q", mut)
	}
	return r, nil
}

// damagedOverlay: AddrRecord.tla OvDamaged (one byte changed, or another length that still contains the overlay's bytes).
func (f *fixtures) damagedOverlay(ov []byte, how string) ([]byte, error) {
	ov = append([]byte{}, ov...)
	switch how {
	case "short31":
		return ov[:31], nil
	case "tail31":
		return ov[1:], nil
	case "long33":
		return append(ov, 0), nil
	case "pre1":
		return append(append([]byte{}, f.junk[:1]...), ov...), nil
	case "prez":
		return append([]byte{0}, ov...), nil
	case "pre42":
		return append(append([]byte{}, f.junk...), ov...), nil
	case "empty":
		return []byte{}, nil
	}
	p, ok := pos(how)
	if !ok || p >= len(ov) {
		return nil, fmt.Errorf("overlay damage %q", how)
	}
	ov[p] ^= f.mask
	return ov, nil
}

func sameAddr(a *aurora.Address, r *record) bool {
	if a == nil || a.Underlay == nil {
		return false
	}
	return bytes.Equal(a.Overlay.Bytes(), r.overlay) && bytes.Equal(a.Underlay.Bytes(), r.underlay) && bytes.Equal(a.Signature, r.sig)
}

func errs(e error) string {
	if e == nil {
		return ""
	}
	return e.Error()
}

type resolverSame struct{}

func (resolverSame) Resolve(observed ma.Multiaddr) (ma.Multiaddr, error) { return observed, nil }

// node under test for the handshake paths
type hsNode struct {
	svc  *verifhs.Service
	info *libp2ppeer.AddrInfo
}

func (f *fixtures) newHandshake(net uint64) (*hsNode, error) {
	nma, err := ma.NewMultiaddr(nodeUnderlay)
	if err != nil {
		return nil, err
	}
	info, err := libp2ppeer.AddrInfoFromP2pAddr(nma)
	if err != nil {
		return nil, err
	}
	ov, err := crypto.NewOverlayAddress(f.nodeKey.PublicKey, net)
	if err != nil {
		return nil, err
	}
	svc, err := verifhs.New(crypto.NewDefaultSigner(f.nodeKey), resolverSame{}, ov, net, aurora.NewModel().SetMode(aurora.FullNode),
		"", info.ID, logger, lightnode.NewContainer(ov), lightnode.DefaultLightNodeLimit)
	if err != nil {
		return nil, err
	}
	return &hsNode{svc: svc, info: info}, nil
}

type rtNode struct {
	svc    *routetab.Service
	book   addressbook.Interface
	st     *memstream.Streamer
	self   boson.Address
	cancel context.CancelFunc
}

func (f *fixtures) newRoutetab(net uint64) (*rtNode, error) {
	ov, err := crypto.NewOverlayAddress(f.nodeKey.PublicKey, net)
	if err != nil {
		return nil, err
	}
	book := addressbook.New(statemock.NewStateStore())
	st := &memstream.Streamer{Base: ov, Mode: aurora.NewModel().SetMode(aurora.FullNode)}
	ctx, cancel := context.WithCancel(context.Background())
	svc := routetab.New(ov, ctx, p2pmock.New(), st, book, net, lightnode.NewContainer(ov), nil, statemock.NewStateStore(), logger, routetab.Options{})
	return &rtNode{svc: svc, book: book, st: st, self: ov, cancel: cancel}, nil
}

func handlerOf(spec p2p.ProtocolSpec, name string) p2p.HandlerFunc {
	for _, s := range spec.StreamSpecs {
		if s.Name == name {
			return s.Handler
		}
	}
	return nil
}

func run(f *fixtures, sc kit.Scenario, out *kit.Out) error {
	path := kit.Str(sc.Par, "path")
	out.Begin(sc.Scn, kit.Ev{"path": path})
	hs := map[uint64]*hsNode{}
	rt := map[uint64]*rtNode{}
	defer func() {
		for _, n := range rt {
			n.cancel()
		}
	}()
	fullMode := aurora.NewModel().SetMode(aurora.FullNode).Bv.Bytes()

	for _, d := range sc.Ops {
		r, err := f.build(d)
		if err != nil {
			return err
		}
		mut := kit.Str(d, "mut")
		vn, err := checkNet(d)
		if err != nil {
			return err
		}
		ev := kit.Ev{"op": path, "k": kit.Int(d, "k"), "u": kit.Int(d, "u"), "n": kit.Int(d, "n"), "vn": kit.Int(d, "vn"),
			"mut": mut, "mk": kit.Int(d, "mk"), "mu": kit.Int(d, "mu"), "how": kit.Str(d, "how"),
			"accepted": false, "same": false, "err": "", "panicked": false, "pmsg": "",
			"ulen": len(r.underlay), "olen": len(r.overlay), "slen": len(r.sig),
			"ucuts": []interface{}{f.ucuts[1], f.ucuts[2], f.ucuts[3]}}

		// the network id a handshake Ack names in its own field
		fieldNet := vn
		if mut == "net_field" {
			for _, other := range netID {
				if other != vn {
					fieldNet = other
				}
			}
		}

		switch path {
		case "parse":
			var a *aurora.Address
			var e error
			ev["panicked"], ev["pmsg"] = kit.Guard(func() { a, e = aurora.ParseAddress(r.underlay, r.overlay, r.sig, vn) })
			ev["accepted"], ev["err"], ev["same"] = e == nil && a != nil, errs(e), sameAddr(a, r)

		case "handle", "handshake":
			node := hs[vn]
			if node == nil {
				if node, err = f.newHandshake(vn); err != nil {
					return err
				}
				hs[vn] = node
			}
			local, remote := memstream.Pair()
			w := protobuf.NewWriter(remote)
			ack := &verifhs.Ack{
				Address:   &verifhs.BzzAddress{Underlay: r.underlay, Overlay: r.overlay, Signature: r.sig},
				NetworkID: fieldNet, NodeMode: fullMode, WelcomeMessage: "hi",
			}
			// the remote peer's transport address (what libp2p reports; not part of the record)
			pma, _ := ma.NewMultiaddr(underlayStr[2])
			pinfo, err := libp2ppeer.AddrInfoFromP2pAddr(pma)
			if err != nil {
				return err
			}
			nodeMA, _ := ma.NewMultiaddr(nodeUnderlay)
			nodeMAb, _ := nodeMA.MarshalBinary()
			var info *aurora.AddressInfo
			var e error
			ctx, cancel := context.WithTimeout(context.Background(), 5*time.Second)
			if path == "handle" {
				if err := w.WriteMsg(&verifhs.Syn{ObservedUnderlay: nodeMAb}); err != nil {
					cancel()
					return err
				}
				if err := w.WriteMsg(ack); err != nil {
					cancel()
					return err
				}
				ev["panicked"], ev["pmsg"] = kit.Guard(func() { info, e = node.svc.Handle(ctx, local, pinfo.Addrs[0], pinfo.ID) })
			} else {
				if err := w.WriteMsg(&verifhs.SynAck{Syn: &verifhs.Syn{ObservedUnderlay: nodeMAb}, Ack: ack}); err != nil {
					cancel()
					return err
				}
				ev["panicked"], ev["pmsg"] = kit.Guard(func() { info, e = node.svc.Handshake(ctx, local, pinfo.Addrs[0], pinfo.ID) })
			}
			cancel()
			_ = local.Reset()
			_ = remote.Reset()
			ev["accepted"], ev["err"] = e == nil && info != nil, errs(e)
			if info != nil {
				ev["same"] = sameAddr(info.Address, r)
			}

		case "underlay":
			node := rt[vn]
			if node == nil {
				if node, err = f.newRoutetab(vn); err != nil {
					return err
				}
				rt[vn] = node
			}
			// the overlay the node asks for: the claimed one (for reply_other: the overlay of key k, while the reply is key mk's record)
			target := boson.NewAddress(r.overlay)
			if mut == "reply_other" {
				ov, err := crypto.NewOverlayAddress(f.keys[kit.Int(d, "k")].PublicKey, vn)
				if err != nil {
					return err
				}
				target = ov
			}
			node.st.Dial = func(kind string, addr boson.Address, protocol, version, stream string) (memstream.PeerFunc, error) {
				return func(ctx context.Context, s *memstream.Stream) {
					pw, pr := protobuf.NewWriterAndReader(s)
					var req routepb.UnderlayReq
					_ = pr.ReadMsg(&req)
					_ = pw.WriteMsg(&routepb.UnderlayResp{Dest: r.overlay, Underlay: r.underlay, Signature: r.sig})
					_ = s.Close()
				}, nil
			}
			var a *aurora.Address
			var e error
			ev["panicked"], ev["pmsg"] = kit.Guard(func() { a, e = node.svc.FindUnderlay(context.Background(), target, 2*time.Second) })
			node.st.Shutdown(time.Second)
			ev["accepted"], ev["err"], ev["same"] = e == nil && a != nil, errs(e), sameAddr(a, r)
			// what the address book now holds for the claimed overlay
			stored, _ := node.book.Get(boson.NewAddress(r.overlay))
			ev["stored"] = stored != nil
			_ = node.book.Remove(boson.NewAddress(r.overlay))

		case "ulist":
			node := rt[vn]
			if node == nil {
				if node, err = f.newRoutetab(vn); err != nil {
					return err
				}
				rt[vn] = node
			}
			h := handlerOf(node.svc.Protocol(), "onRouteResp")
			if h == nil {
				return fmt.Errorf("routetab: no onRouteResp handler")
			}
			local, remote := memstream.Pair()
			hop1, hop2 := make([]byte, 32), make([]byte, 32)
			hop1[0], hop2[0] = 0xa1, 0xa2
			msg := &routepb.RouteResp{
				Dest:  hop1,
				Paths: []*routepb.Path{{Sign: []byte{1}, Bodys: [][]byte{{1}}, Items: [][]byte{hop1, hop2}}},
				UType: 1,
				UList: []*routepb.UnderlayResp{{Dest: r.overlay, Underlay: r.underlay, Signature: r.sig}},
			}
			if err := protobuf.NewWriter(remote).WriteMsg(msg); err != nil {
				return err
			}
			_ = remote.Close()
			var e error
			ctx, cancel := context.WithTimeout(context.Background(), 5*time.Second)
			ev["panicked"], ev["pmsg"] = kit.Guard(func() {
				e = h(ctx, p2p.Peer{Address: boson.NewAddress(hop2), Mode: aurora.NewModel().SetMode(aurora.FullNode)}, local)
			})
			cancel()
			_ = local.Reset()
			stored, _ := node.book.Get(boson.NewAddress(r.overlay))
			ev["err"] = errs(e)
			ev["accepted"] = stored != nil
			ev["same"] = sameAddr(stored, r)
			ev["stored"] = stored != nil
			_ = node.book.Remove(boson.NewAddress(r.overlay))

		default:
			return fmt.Errorf("unknown path %q", path)
		}
		out.Emit(ev)
	}
	return nil
}

func main() {
	kit.Main(func(scs []kit.Scenario, out *kit.Out) error {
		f, err := newFixtures()
		if err != nil {
			return err
		}
		for _, sc := range scs {
			if err := run(f, sc, out); err != nil {
				return fmt.Errorf("scenario %d: %w", sc.Scn, err)
			}
		}
		return nil
	})
}
