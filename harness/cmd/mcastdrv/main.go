// mcastdrv: conformance driver for pkg/multicast (C38).
//
//	par.kind = "member": one real multicast.Service; group membership transitions
//	                     through the notify / handshake handlers, the outgoing
//	                     handshake, peer-state events and the bare add/remove/prune
//	                     transitions; the three lists are logged after every step
//	par.kind = "flood":  several real multicast.Service instances (each with its own
//	                     instance of the package-global cache, selected through the
//	                     verif hook) joined by a queueing streamer; originations,
//	                     delivery order, losses and window expiries come from the
//	                     scenario (a TLC behaviour of Multicast.tla); a receive handler
//	                     runs in one step (deliver) or in two (begin: the handler runs
//	                     until its first outgoing stream, where the streamer holds it up;
//	                     finish: it is let go), so that the handlers of two copies of a
//	                     message at one node overlap
//
// The driver holds no oracle; MulticastTrace.tla judges the log.
package main

import (
	"bytes"
	"context"
	"fmt"
	"io/ioutil"
	"runtime"
	"sort"
	"sync"
	"time"

	"github.com/gauss-project/aurorafs/pkg/aurora"
	"github.com/gauss-project/aurorafs/pkg/boson"
	"github.com/gauss-project/aurorafs/pkg/logging"
	"github.com/gauss-project/aurorafs/pkg/multicast"
	"github.com/gauss-project/aurorafs/pkg/multicast/model"
	"github.com/gauss-project/aurorafs/pkg/multicast/pb"
	"github.com/gauss-project/aurorafs/pkg/p2p"
	"github.com/gauss-project/aurorafs/pkg/p2p/protobuf"
	rmock "github.com/gauss-project/aurorafs/pkg/routetab/mock"
	"github.com/gauss-project/aurorafs/pkg/subscribe"
	kmock "github.com/gauss-project/aurorafs/pkg/topology/kademlia/mock"

	"verifharness/internal/kit"
	"verifharness/internal/routex"
)

const (
	streamHandshake = "handshake"
	streamMulticast = "multicast"
	streamNotify    = "notify"
	drainCap        = 3000
)

var fullMode = aurora.NewModel().SetMode(aurora.FullNode)

// route is the routetab.RouteTab given to the service: the repository's mock with a
// neighbour relation the scenario controls.
type route struct {
	rmock.MockRouteTable
	mu  sync.Mutex
	nbr map[string]bool
}

func (r *route) IsNeighbor(a boson.Address) bool {
	r.mu.Lock()
	defer r.mu.Unlock()
	return r.nbr[a.ByteString()]
}
func (r *route) set(a boson.Address, v bool) {
	r.mu.Lock()
	defer r.mu.Unlock()
	r.nbr[a.ByteString()] = v
}

// kad is the topology driver given to the service: the repository's mock; the
// peer-state subscription is captured so that the scenario can publish events.
type kad struct {
	*kmock.Mock
	mu    sync.Mutex
	state subscribe.INotifier
}

func (k *kad) SubscribePeerState(n subscribe.INotifier) {
	k.mu.Lock()
	k.state = n
	k.mu.Unlock()
}

// pubsub records what the service publishes to its subscribers.
type pubsub struct {
	mu   sync.Mutex
	msgs []multicast.Message // group / multicastMsg
	logs []string            // group / logContent events
}

func (p *pubsub) Subscribe(subscribe.INotifier, string, string, string) error { return nil }
func (p *pubsub) Publish(ns, kind, param string, m interface{}) error {
	p.mu.Lock()
	defer p.mu.Unlock()
	switch kind {
	case "multicastMsg":
		if x, ok := m.(multicast.Message); ok {
			p.msgs = append(p.msgs, x)
		}
	case "logContent":
		if x, ok := m.(multicast.LogContent); ok {
			p.logs = append(p.logs, x.Event)
		}
	}
	return nil
}
func (p *pubsub) PublishArray(string, string, string, []interface{}) error { return nil }
func (p *pubsub) take() ([]multicast.Message, []string) {
	p.mu.Lock()
	defer p.mu.Unlock()
	m, l := p.msgs, p.logs
	p.msgs, p.logs = nil, nil
	return m, l
}

func gidOf(g int) boson.Address { return routex.FixedAddr(200 + g) }

func intsOf(v interface{}) []int {
	out := []int{}
	if l, ok := v.([]interface{}); ok {
		for _, x := range l {
			if f, ok := x.(float64); ok {
				out = append(out, int(f))
			}
		}
	}
	return out
}

func encode(m protobuf.Message) []byte {
	var b bytes.Buffer
	if err := protobuf.NewWriter(&b).WriteMsg(m); err != nil {
		panic(err)
	}
	return b.Bytes()
}

func sortedNums(book *routex.Book, as []boson.Address) []int {
	out := book.Nums(as)
	sort.Ints(out)
	return out
}

// waitGoroutines waits until the helpers started by AddGroup (handshake-all, discover)
// are gone again.
func waitGoroutines(base int) {
	for i := 0; i < 2000 && runtime.NumGoroutine() > base; i++ {
		time.Sleep(100 * time.Microsecond)
	}
}

type svcNode struct {
	i     int
	svc   *multicast.Service
	route *route
	kad   *kad
	ps    *pubsub
}

func newSvc(i int, book *routex.Book, nt *routex.Net, logger logging.Logger) *svcNode {
	r := &route{MockRouteTable: rmock.NewMockRouteTable(), nbr: map[string]bool{}}
	k := &kad{Mock: kmock.NewMockKademlia()}
	ps := &pubsub{}
	svc := multicast.NewService(book.Addr(i), fullMode, nil, nt.Streamer(i), k, r, logger, ps, multicast.Option{Dev: true})
	return &svcNode{i: i, svc: svc, route: r, kad: k, ps: ps}
}

// ---------------------------------------------------------------------------------
// membership
// ---------------------------------------------------------------------------------

func observeGroups(ev kit.Ev, n *svcNode, book *routex.Book, groups []int, nbrs, pend map[int]bool) {
	gl := []interface{}{}
	for _, g := range groups {
		conn, kept, known, ok := n.svc.VerifGroupLists(gidOf(g))
		e := kit.Ev{"g": g, "ex": ok, "conn": sortedNums(book, conn), "kept": sortedNums(book, kept), "known": sortedNums(book, known)}
		gp, err := n.svc.GetGroupPeers(gidOf(g).String())
		if err != nil || gp == nil {
			e["gp_ok"], e["gp_conn"], e["gp_keep"] = false, []int{}, []int{}
		} else {
			e["gp_ok"], e["gp_conn"], e["gp_keep"] = true, sortedNums(book, gp.Connected), sortedNums(book, gp.Keep)
		}
		gl = append(gl, e)
	}
	ev["groups"] = gl
	nb := []int{}
	for p, v := range nbrs {
		if v {
			nb = append(nb, p)
		}
	}
	sort.Ints(nb)
	ev["nbr"] = nb
	pd := []int{}
	for p, v := range pend {
		if v {
			pd = append(pd, p)
		}
	}
	sort.Ints(pd)
	ev["pend"] = pd
}

func runMember(sc kit.Scenario, logger logging.Logger) (evs []kit.Ev, err error) {
	book := routex.NewBook()
	nt := routex.NewNet()
	self := 99
	n := newSvc(self, book, nt, logger)
	n.svc.Start()
	defer n.svc.Close()
	ctx := context.Background()
	groups := kit.IntList(sc.Par, "groups")
	nbrs := map[int]bool{}
	pend := map[int]bool{} // disconnect notifications not yet published to the service
	// what the played peer answers to an outgoing handshake
	var answer []byte
	nt.Reply = func(from int, to boson.Address, stream string) []byte {
		if stream == streamHandshake {
			return answer
		}
		return nil
	}
	first := kit.Ev{"kind": "member", "maxknown": multicast.VerifMaxKnownPeers, "panicked": false, "herr": ""}
	observeGroups(first, n, book, groups, nbrs, pend)
	evs = append(evs, first)

	gids := func(gs []int) [][]byte {
		var o [][]byte
		for _, g := range gs {
			o = append(o, gidOf(g).Bytes())
		}
		return o
	}
	for _, op := range sc.Ops {
		name := kit.Str(op, "op")
		ev := kit.Ev{"op": name, "kind": "member", "maxknown": multicast.VerifMaxKnownPeers, "herr": ""}
		for _, k := range []string{"p", "g", "k"} {
			if _, ok := op[k]; ok {
				ev[k] = kit.Int(op, k)
			}
		}
		for _, k := range []string{"join", "keep", "into"} {
			if _, ok := op[k]; ok {
				ev[k] = kit.Bool(op, k)
			}
		}
		if _, ok := op["gs"]; ok {
			ev["gs"] = intsOf(op["gs"])
		}
		if _, ok := op["dir"]; ok {
			ev["dir"] = kit.Str(op, "dir")
		}
		p := kit.Int(op, "p")
		peer := p2p.Peer{Address: book.Addr(p), Mode: fullMode}
		n.svc.VerifUnthrottle()
		var herr error
		var call func()
		switch name {
		case "connect":
			call = func() { n.route.set(book.Addr(p), true); nbrs[p] = true }
		case "nbrdown":
			// the route table no longer lists p as a neighbour; the service has not been told yet
			call = func() { n.route.set(book.Addr(p), false); nbrs[p] = false; pend[p] = true }
		case "event", "disconnect":
			call = func() {
				if name == "disconnect" {
					n.route.set(book.Addr(p), false)
					nbrs[p] = false
				}
				pend[p] = false
				n.kad.mu.Lock()
				st := n.kad.state
				n.kad.mu.Unlock()
				if st == nil {
					panic("no peer-state subscription")
				}
				_ = st.Notify("", p2p.PeerInfo{Overlay: book.Addr(p), State: p2p.PeerStateDisconnect})
				// the service handles events one at a time from a channel of capacity 10:
				// once 11 further (ignored) values have been accepted, the event is done
				for i := 0; i < 11; i++ {
					_ = st.Notify("", "verif-sentinel")
				}
			}
		case "notify":
			status := int32(multicast.NotifyLeaveGroup)
			if kit.Bool(op, "join") {
				status = int32(multicast.NotifyJoinGroup)
			}
			in := routex.NewIncoming(encode(&pb.Notify{Status: status, Gids: gids(intsOf(op["gs"]))}))
			h := routex.Handler(n.svc.Protocol(), streamNotify)
			call = func() { herr = h(ctx, peer, in) }
		case "handshake":
			if kit.Str(op, "dir") == "out" {
				answer = encode(&pb.GIDs{Gid: gids(intsOf(op["gs"]))})
				call = func() { herr = n.svc.Handshake(ctx, book.Addr(p)) }
			} else {
				in := routex.NewIncoming(encode(&pb.GIDs{Gid: gids(intsOf(op["gs"]))}))
				h := routex.Handler(n.svc.Protocol(), streamHandshake)
				call = func() { herr = h(ctx, peer, in) }
			}
		case "add":
			call = func() { n.svc.VerifGroupAdd(gidOf(kit.Int(op, "g")), book.Addr(p), kit.Bool(op, "keep")) }
		case "remove":
			call = func() { n.svc.VerifGroupRemove(gidOf(kit.Int(op, "g")), book.Addr(p), kit.Bool(op, "into")) }
		case "prune":
			call = func() { n.svc.VerifGroupPruneKnown(gidOf(kit.Int(op, "g"))) }
		case "fill":
			call = func() {
				for i := 1; i <= kit.Int(op, "k"); i++ {
					n.svc.VerifGroupAdd(gidOf(kit.Int(op, "g")), book.Addr(i), false)
				}
			}
		default:
			return nil, fmt.Errorf("member: unknown op %v", op["op"])
		}
		panicked, msg := kit.Guard(call)
		ev["panicked"] = panicked
		if panicked {
			ev["panic"] = msg
		}
		if herr != nil {
			ev["herr"] = herr.Error()
		}
		// outgoing streams of this step are of no further interest
		for _, s := range nt.Queue() {
			nt.Take(s)
		}
		observeGroups(ev, n, book, groups, nbrs, pend)
		evs = append(evs, ev)
	}
	return evs, nil
}

// ---------------------------------------------------------------------------------
// flooding
// ---------------------------------------------------------------------------------

type copyMsg struct {
	Origin, Serial, From, To int
	Relay                    bool
	Bad                      string
}

func (c copyMsg) ev() kit.Ev {
	return kit.Ev{"origin": c.Origin, "serial": c.Serial, "from": c.From, "to": c.To, "relay": c.Relay}
}

// running is a receive handler started by a "begin" step: it is held up at its first
// outgoing stream (a slow network) until the scenario's "finish" step.
type running struct {
	c        copyMsg
	n        *svcNode
	blocked  chan struct{} // closed when the handler reaches its first outgoing stream
	release  chan struct{} // closed by finish
	done     chan struct{}
	herr     error
	panicked bool
	pmsg     string
}

type floodRun struct {
	book  *routex.Book
	net   *routex.Net
	nodes map[int]*svcNode
	order []int
	gid   boson.Address
	seen  int
	sent  int
	lost  int
	deliv int
	norig int
	nwin  int

	hmu    sync.Mutex
	byGo   map[uint64]*running // handler goroutine -> its record
	active []*running          // begun and not finished, in begin order
}

// goid is the number of the calling goroutine (only used to tell which held-up handler opens a stream).
func goid() uint64 {
	var buf [64]byte
	b := buf[:runtime.Stack(buf[:], false)]
	b = bytes.TrimPrefix(b, []byte("goroutine "))
	var id uint64
	for _, ch := range b {
		if ch < '0' || ch > '9' {
			break
		}
		id = id*10 + uint64(ch-'0')
	}
	return id
}

// gate is the streamer's hook: a handler started by "begin" waits here, before its first outgoing
// stream is queued, until "finish"; everybody else passes.
func (r *floodRun) gate(from int, to boson.Address, stream string) {
	r.hmu.Lock()
	h := r.byGo[goid()]
	r.hmu.Unlock()
	if h == nil {
		return
	}
	select {
	case <-h.release:
		return
	default:
	}
	select {
	case <-h.blocked:
	default:
		close(h.blocked)
	}
	<-h.release
}

// begin starts the receive handler of a queued copy and returns when it has ended or is held up.
func (r *floodRun) begin(s *routex.Sent, c copyMsg) (kit.Ev, error) {
	ev := kit.Ev{"op": "begin", "kind": "flood", "m": c.ev(), "forced": true, "herr": "", "panicked": false}
	r.net.Take(s)
	r.deliv++
	n, ok := r.nodes[c.To]
	if !ok || c.Bad != "" {
		ev["herr"] = "undeliverable " + c.Bad
		ev["blocked"] = false
		r.observe(ev, nil)
		return ev, nil
	}
	multicast.VerifUseCache(n.i)
	hf := routex.Handler(n.svc.Protocol(), streamMulticast)
	h := &running{c: c, n: n, blocked: make(chan struct{}), release: make(chan struct{}), done: make(chan struct{})}
	data := s.Bytes()
	go func() {
		defer close(h.done)
		id := goid()
		r.hmu.Lock()
		r.byGo[id] = h
		r.hmu.Unlock()
		defer func() {
			r.hmu.Lock()
			delete(r.byGo, id)
			r.hmu.Unlock()
		}()
		h.panicked, h.pmsg = kit.Guard(func() {
			h.herr = hf(context.Background(), p2p.Peer{Address: r.book.Addr(c.From), Mode: fullMode}, routex.NewIncoming(data))
		})
	}()
	select {
	case <-h.done:
		ev["blocked"] = false
		ev["panicked"] = h.panicked
		if h.panicked {
			ev["panic"] = h.pmsg
		}
		if h.herr != nil {
			ev["herr"] = h.herr.Error()
		}
	case <-h.blocked:
		ev["blocked"] = true
		r.active = append(r.active, h)
	case <-time.After(20 * time.Second):
		return nil, fmt.Errorf("begin: the handler of %+v neither ended nor reached an outgoing stream", c)
	}
	r.observe(ev, n)
	return ev, nil
}

// finish lets a held-up handler go on and waits for its end (ran=false: it had ended in its begin step).
func (r *floodRun) finish(h *running, c copyMsg, forced bool) (kit.Ev, error) {
	ev := kit.Ev{"op": "finish", "kind": "flood", "m": c.ev(), "forced": forced, "herr": "", "panicked": false, "ran": h != nil}
	if h == nil {
		if n, ok := r.nodes[c.To]; ok {
			r.observe(ev, n)
		} else {
			r.observe(ev, nil)
		}
		return ev, nil
	}
	for i, x := range r.active {
		if x == h {
			r.active = append(r.active[:i], r.active[i+1:]...)
			break
		}
	}
	multicast.VerifUseCache(h.n.i)
	close(h.release)
	select {
	case <-h.done:
	case <-time.After(20 * time.Second):
		return nil, fmt.Errorf("finish: the handler of %+v does not end", c)
	}
	ev["panicked"] = h.panicked
	if h.panicked {
		ev["panic"] = h.pmsg
	}
	if h.herr != nil {
		ev["herr"] = h.herr.Error()
	}
	r.observe(ev, h.n)
	return ev, nil
}

func (r *floodRun) findActive(want map[string]interface{}) *running {
	for _, h := range r.active {
		c := h.c
		if c.Origin == kit.Int(want, "origin") && c.Serial == kit.Int(want, "serial") && c.From == kit.Int(want, "from") && c.To == kit.Int(want, "to") {
			return h
		}
	}
	return nil
}

func (r *floodRun) decode(s *routex.Sent) copyMsg {
	c := copyMsg{From: s.From, To: r.book.Num(s.To), Relay: s.Relay}
	if s.Stream != streamMulticast {
		c.Bad = "stream " + s.Stream
		return c
	}
	var m pb.MulticastMsg
	if err := protobuf.NewReader(bytes.NewReader(s.Bytes())).ReadMsg(&m); err != nil {
		c.Bad = err.Error()
		return c
	}
	c.Origin, c.Serial = r.book.Num(boson.NewAddress(m.Origin)), int(m.Id)
	return c
}

func (r *floodRun) observe(ev kit.Ev, n *svcNode) {
	sent := []interface{}{}
	for _, s := range r.net.Since(r.seen) {
		c := r.decode(s)
		e := c.ev()
		e["stream"] = s.Stream
		sent = append(sent, e)
		r.sent++
	}
	r.seen = r.net.Seq()
	ev["sent"] = sent
	ev["qlen"] = len(r.net.Queue())
	notified := []interface{}{}
	logs := []string{}
	if n != nil {
		ev["node"] = n.i
		msgs, lg := n.ps.take()
		for _, m := range msgs {
			notified = append(notified, kit.Ev{"origin": r.book.Num(m.Origin), "serial": int(m.ID), "from": r.book.Num(m.From)})
		}
		logs = append(logs, lg...)
	} else {
		ev["node"] = 0
	}
	ev["notified"] = notified
	ev["logs"] = logs
}

func (r *floodRun) deliver(s *routex.Sent, c copyMsg, forced bool) kit.Ev {
	ev := kit.Ev{"op": "deliver", "kind": "flood", "m": c.ev(), "forced": forced, "herr": ""}
	r.net.Take(s)
	r.deliv++
	n, ok := r.nodes[c.To]
	if !ok || c.Bad != "" {
		ev["herr"] = "undeliverable " + c.Bad
		ev["panicked"] = false
		r.observe(ev, nil)
		return ev
	}
	multicast.VerifUseCache(n.i)
	h := routex.Handler(n.svc.Protocol(), streamMulticast)
	var herr error
	panicked, msg := kit.Guard(func() {
		herr = h(context.Background(), p2p.Peer{Address: r.book.Addr(c.From), Mode: fullMode}, routex.NewIncoming(s.Bytes()))
	})
	ev["panicked"] = panicked
	if panicked {
		ev["panic"] = msg
	}
	if herr != nil {
		ev["herr"] = herr.Error()
	}
	r.observe(ev, n)
	return ev
}

func (r *floodRun) find(want map[string]interface{}) (*routex.Sent, copyMsg, bool) {
	for _, s := range r.net.Queue() {
		c := r.decode(s)
		if c.Bad == "" && c.Origin == kit.Int(want, "origin") && c.Serial == kit.Int(want, "serial") && c.From == kit.Int(want, "from") && c.To == kit.Int(want, "to") {
			return s, c, true
		}
	}
	return nil, copyMsg{}, false
}

func runFlood(sc kit.Scenario, out *kit.Out, logger logging.Logger) error {
	multicast.VerifResetCaches()
	r := &floodRun{book: routex.NewBook(), net: routex.NewNet(), nodes: map[int]*svcNode{}, gid: gidOf(1), byGo: map[uint64]*running{}}
	r.net.Gate = r.gate
	defer func() { // never leave a handler goroutine parked (error paths)
		for _, h := range r.active {
			close(h.release)
		}
	}()
	r.order = kit.IntList(sc.Par, "nodes")
	sort.Ints(r.order)
	joined := map[int]bool{}
	for _, j := range kit.IntList(sc.Par, "joined") {
		joined[j] = true
	}
	far := map[[2]int]bool{} // far[a,b]: b is a group peer of a but not a direct neighbour (kept, relayed)
	for _, l := range kit.List(sc.Par, "far") {
		ab := intsOf(l)
		if len(ab) == 2 {
			far[[2]int{ab[0], ab[1]}] = true
		}
	}
	for _, x := range r.order {
		n := newSvc(x, r.book, r.net, logger)
		r.nodes[x] = n
		multicast.VerifUseCache(x)
		base := runtime.NumGoroutine()
		gt := model.GTypeObserve
		if joined[x] {
			gt = model.GTypeJoin
		}
		if err := n.svc.AddGroup([]model.ConfigNodeGroup{{Name: r.gid.String(), GType: gt}}); err != nil {
			return err
		}
		waitGoroutines(base)
		if joined[x] {
			if err := n.svc.SubscribeMulticastMsg(nil, nil, r.gid); err != nil {
				return err
			}
		}
	}
	links := [][]int{}
	h := func(n *svcNode) p2p.HandlerFunc { return routex.Handler(n.svc.Protocol(), streamNotify) }
	for _, l := range kit.List(sc.Par, "links") {
		ab := intsOf(l)
		if len(ab) != 2 || r.nodes[ab[0]] == nil || r.nodes[ab[1]] == nil {
			return fmt.Errorf("flood scenario %d: bad link %v", sc.Scn, l)
		}
		sort.Ints(ab)
		links = append(links, ab)
		// each end learns the other as a group peer through the notify handler
		for _, d := range [][2]int{{ab[0], ab[1]}, {ab[1], ab[0]}} {
			n, v := r.nodes[d[0]], d[1]
			n.route.set(r.book.Addr(v), !far[[2]int{d[0], v}])
			multicast.VerifUseCache(n.i)
			n.svc.VerifUnthrottle()
			in := routex.NewIncoming(encode(&pb.Notify{Status: int32(multicast.NotifyJoinGroup), Gids: [][]byte{r.gid.Bytes()}}))
			if err := h(n)(context.Background(), p2p.Peer{Address: r.book.Addr(v), Mode: fullMode}, in); err != nil {
				return err
			}
		}
	}
	for _, s := range r.net.Queue() {
		r.net.Take(s)
	}
	r.seen = r.net.Seq()
	peers := []interface{}{}
	for _, x := range r.order {
		n := r.nodes[x]
		n.ps.take()
		conn, kept, _, _ := n.svc.VerifGroupLists(r.gid)
		peers = append(peers, []interface{}{x, sortedNums(r.book, conn), sortedNums(r.book, kept)})
	}
	jl := []int{}
	for _, x := range r.order {
		if joined[x] {
			jl = append(jl, x)
		}
	}
	first := kit.Ev{"kind": "flood", "nodes": r.order, "links": links, "joined": jl, "peers": peers, "panicked": false, "herr": ""}
	r.observe(first, nil)
	out.Begin(sc.Scn, first)

	for _, op := range sc.Ops {
		var ev kit.Ev
		switch kit.Str(op, "op") {
		case "originate":
			n := r.nodes[kit.Int(op, "n")]
			if n == nil {
				return fmt.Errorf("originate: unknown node")
			}
			multicast.VerifUseCache(n.i)
			ev = kit.Ev{"op": "originate", "kind": "flood", "n": n.i, "herr": ""}
			var err error
			panicked, msg := kit.Guard(func() { err = n.svc.Multicast(&pb.MulticastMsg{Gid: r.gid.Bytes(), Data: []byte{byte(n.i)}}) })
			ev["panicked"] = panicked
			if panicked {
				ev["panic"] = msg
			}
			if err != nil {
				ev["herr"] = err.Error()
			}
			r.norig++
			r.observe(ev, n)
		case "deliver", "lose":
			want, _ := op["m"].(map[string]interface{})
			s, c, ok := r.find(want)
			if !ok {
				ev = kit.Ev{"op": "miss", "kind": "flood", "what": kit.Str(op, "op"), "m": want, "panicked": false, "herr": ""}
				r.observe(ev, nil)
			} else if kit.Str(op, "op") == "lose" {
				r.net.Take(s)
				r.lost++
				ev = kit.Ev{"op": "lose", "kind": "flood", "m": c.ev(), "panicked": false, "herr": ""}
				r.observe(ev, nil)
			} else {
				ev = r.deliver(s, c, true)
			}
		case "begin":
			want, _ := op["m"].(map[string]interface{})
			s, c, ok := r.find(want)
			if !ok {
				ev = kit.Ev{"op": "miss", "kind": "flood", "what": "begin", "m": want, "panicked": false, "herr": ""}
				r.observe(ev, nil)
			} else {
				var err error
				if ev, err = r.begin(s, c); err != nil {
					return err
				}
			}
		case "finish":
			want, _ := op["m"].(map[string]interface{})
			c := copyMsg{Origin: kit.Int(want, "origin"), Serial: kit.Int(want, "serial"), From: kit.Int(want, "from"), To: kit.Int(want, "to")}
			var err error
			if ev, err = r.finish(r.findActive(want), c, true); err != nil {
				return err
			}
		case "expire":
			n := r.nodes[kit.Int(op, "n")]
			if n == nil {
				return fmt.Errorf("expire: unknown node")
			}
			multicast.VerifUseCache(n.i)
			multicast.VerifClearCache()
			r.nwin++
			ev = kit.Ev{"op": "expire", "kind": "flood", "n": n.i, "panicked": false, "herr": ""}
			r.observe(ev, n)
		default:
			return fmt.Errorf("flood: unknown op %v", op["op"])
		}
		out.Emit(ev)
	}
	// handlers still held up are let go (oldest first), then whatever is queued is delivered
	for len(r.active) > 0 {
		h := r.active[0]
		ev, err := r.finish(h, h.c, false)
		if err != nil {
			return err
		}
		out.Emit(ev)
	}
	drained := 0
	for drained < drainCap {
		q := r.net.Queue()
		if len(q) == 0 {
			break
		}
		out.Emit(r.deliver(q[0], r.decode(q[0]), false))
		drained++
	}
	end := kit.Ev{"op": "end", "kind": "flood", "panicked": false, "herr": "", "total_sent": r.sent, "delivered": r.deliv, "lost": r.lost,
		"left": len(r.net.Queue()), "drained": drained, "capped": drained >= drainCap, "norig": r.norig, "nwin": r.nwin, "nlinks": len(links)}
	r.observe(end, nil)
	out.Emit(end)
	return nil
}

func main() {
	kit.Main(func(scs []kit.Scenario, out *kit.Out) error {
		logger := logging.New(ioutil.Discard, 0)
		// membership scenarios are independent single services and mostly wait (a freshly created group
		// spaces its first peers notification by 500 ms, slept under the group lock): they run concurrently,
		// on the base cache (only the notification de-duplication key lives there); events keep scenario order
		multicast.VerifResetCaches()
		member := map[int][]kit.Ev{}
		var mu sync.Mutex
		var wg sync.WaitGroup
		var firstErr error
		sem := make(chan struct{}, 24)
		for i, sc := range scs {
			if kit.Str(sc.Par, "kind") != "member" {
				continue
			}
			i, sc := i, sc
			wg.Add(1)
			sem <- struct{}{}
			go func() {
				defer wg.Done()
				defer func() { <-sem }()
				evs, err := runMember(sc, logger)
				mu.Lock()
				member[i] = evs
				if err != nil && firstErr == nil {
					firstErr = err
				}
				mu.Unlock()
			}()
		}
		wg.Wait()
		if firstErr != nil {
			return firstErr
		}
		for i, sc := range scs {
			var err error
			switch kit.Str(sc.Par, "kind") {
			case "member":
				for j, ev := range member[i] {
					if j == 0 {
						out.Begin(sc.Scn, ev)
					} else {
						out.Emit(ev)
					}
				}
			case "flood":
				err = runFlood(sc, out, logger)
			default:
				err = fmt.Errorf("scenario %d: unknown kind %q", sc.Scn, kit.Str(sc.Par, "kind"))
			}
			if err != nil {
				return err
			}
		}
		return nil
	})
}
