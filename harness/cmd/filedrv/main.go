// filedrv: conformance driver for the file pipeline and the joiner (C01, C02, C07).
//
// Scenarios come from spec/filetree/FileTreeGen.tla.  Two kinds:
//
//	par.kind = "file"    real constants: content of par.s[0]*262144+par.s[1] seeded bytes is uploaded through
//	                     builder.NewPipelineBuilder (plain or encrypted) with the prescribed write splits into a
//	                     recording in-memory store; `open` opens the most recent upload with joiner.New and the
//	                     prescribed Read / ReadAt / Seek calls follow.  64-bit quantities are logged as pairs
//	                     [q, r] = q*262144 + r (TLC integers are 32 bit).
//	par.kind = "scaled"  the writer side assembled by hand from the exported constructors with branching 2..5
//	                     and 128-byte chunks (feeder -> bmt -> store -> hashtrie), to reach 3..8 levels.
//
// The driver holds no oracle.  It logs what the calls returned, booleans of byte identity against the bytes it
// supplied itself, and the value of the TLC-emitted tree *shape* under an independent keccak/BMT evaluator
// (internal/filex).  FileTreeTrace.tla judges.
package main

import (
	"context"
	"fmt"
	"io"
	"os"
	"runtime"
	"runtime/debug"
	"sync/atomic"
	"time"

	"github.com/gauss-project/aurorafs/pkg/boson"
	"github.com/gauss-project/aurorafs/pkg/file"
	"github.com/gauss-project/aurorafs/pkg/file/joiner"
	"github.com/gauss-project/aurorafs/pkg/file/pipeline"
	"github.com/gauss-project/aurorafs/pkg/file/pipeline/bmt"
	"github.com/gauss-project/aurorafs/pkg/file/pipeline/builder"
	"github.com/gauss-project/aurorafs/pkg/file/pipeline/feeder"
	"github.com/gauss-project/aurorafs/pkg/file/pipeline/hashtrie"
	"github.com/gauss-project/aurorafs/pkg/file/pipeline/store"
	"github.com/gauss-project/aurorafs/pkg/storage"

	"verifharness/internal/filex"
	"verifharness/internal/kit"
	"verifharness/internal/supervise"
)

const cs = boson.ChunkSize

var ctx = context.Background()

func timing(f string, a ...interface{}) {
	if os.Getenv("FILEDRV_TIMING") != "" {
		fmt.Fprintf(os.Stderr, f+"\n", a...)
	}
}

func pair(m map[string]interface{}, k string) int64 { return filex.Join(kit.IntList(m, k)) }

// ---------------------------------------------------------------------------------------------------------
// writing with a prescribed split
// ---------------------------------------------------------------------------------------------------------

type writeLog struct {
	nwrites int
	wsum    int64
	ok      bool // every Write returned (len(b), nil)
	err     string
}

// chunkReader hands out at most w bytes per Read (for builder.FeedPipeline).
type chunkReader struct {
	c    *filex.Content
	off  int64
	w    int
	nrd  int
	last bool // return the final bytes together with io.EOF
}

func (r *chunkReader) Read(p []byte) (int, error) {
	if r.off >= r.c.Size {
		return 0, io.EOF
	}
	n := r.w
	if n > len(p) {
		n = len(p)
	}
	if int64(n) > r.c.Size-r.off {
		n = int(r.c.Size - r.off)
	}
	r.c.Fill(p[:n], r.off)
	r.off += int64(n)
	r.nrd++
	if r.last && r.off >= r.c.Size {
		return n, io.EOF
	}
	return n, nil
}

// writeSplit writes the whole content into p as the split prescribes and calls Sum (or FeedPipeline).
func writeSplit(p pipeline.Interface, c *filex.Content, split map[string]interface{}, chunk int) (sum []byte, wl writeLog) {
	wl.ok = true
	off := int64(0)
	var buf []byte
	write := func(n int64) bool {
		if n > c.Size-off {
			n = c.Size - off
		}
		if int64(cap(buf)) < n {
			buf = make([]byte, n)
		}
		b := buf[:n]
		c.Fill(b, off)
		var wn int
		var err error
		if pk, msg := kit.Guard(func() { wn, err = p.Write(b) }); pk {
			wl.err, wl.ok = "panic: "+msg, false
			return false
		}
		wl.nwrites++
		wl.wsum += n
		off += n
		if err != nil {
			wl.err, wl.ok = "write: "+err.Error(), false
			return false
		}
		if int64(wn) != n {
			wl.ok = false
		}
		return true
	}
	kind := kit.Str(split, "kind")
	switch kind {
	case "one":
		if !write(c.Size) {
			return nil, wl
		}
	case "pieces", "zeros":
		w := int64(kit.Int(split, "w"))
		if w < 1 {
			w = 1
		}
		for off < c.Size {
			if kind == "zeros" && !write(0) {
				return nil, wl
			}
			if !write(w) {
				return nil, wl
			}
		}
		if kind == "zeros" && !write(0) {
			return nil, wl
		}
	case "rand":
		rng := kit.Rng(int64(kit.Int(split, "salt")))
		max := int64(kit.Int(split, "max"))
		if max < 1 {
			max = 2 * int64(chunk)
		}
		for off < c.Size {
			n := rng.Int63n(max + 1)
			switch rng.Intn(8) { // favour chunk-edge lengths
			case 0:
				n = int64(chunk)
			case 1:
				n = int64(chunk) - 1
			case 2:
				n = int64(chunk) + 1
			}
			if !write(n) {
				return nil, wl
			}
		}
	case "list":
		for _, w := range kit.IntList(split, "ws") {
			if !write(int64(w)) {
				return nil, wl
			}
		}
	case "feed":
		r := &chunkReader{c: c, w: kit.Int(split, "w"), last: kit.Bool(split, "eofWithData")}
		if r.w < 1 {
			r.w = 1
		}
		var addr boson.Address
		var err error
		if pk, msg := kit.Guard(func() { addr, err = builder.FeedPipeline(ctx, p, r) }); pk {
			wl.err, wl.ok = "panic: "+msg, false
			return nil, wl
		}
		wl.nwrites, wl.wsum = r.nrd, r.off
		if err != nil {
			wl.err, wl.ok = "feed: "+err.Error(), false
			return nil, wl
		}
		return addr.Bytes(), wl
	default:
		wl.err, wl.ok = "driver: unknown split "+kind, false
		return nil, wl
	}
	var err error
	if pk, msg := kit.Guard(func() { sum, err = p.Sum() }); pk {
		wl.err = "panic: " + msg
		return nil, wl
	}
	if err != nil {
		wl.err = "sum: " + err.Error()
		return nil, wl
	}
	// the hash trie returns a slice of its own level buffer
	return append([]byte(nil), sum...), wl
}

// ---------------------------------------------------------------------------------------------------------
// scenarios
// ---------------------------------------------------------------------------------------------------------

type upload struct {
	st  *filex.Store
	ref []byte
}

// evalShape evaluates the TLC-emitted shape on the content with the independent evaluator and checks, by byte
// identity, that the store holds every chunk of the evaluated tree under its address (treeStored).
func evalShape(shape interface{}, c *filex.Content, st *filex.Store, ev kit.Ev) error {
	ev["refExpected"], ev["evalNodes"], ev["evalBytes"], ev["treeStored"] = "", [][]int{}, filex.Split(0), false
	if shape == nil {
		return nil
	}
	var missing int32
	res, err := filex.Eval(shape, c, func(addr []byte, span uint64, payload []byte) {
		if !st.Holds(addr, span, payload) {
			atomic.AddInt32(&missing, 1)
		}
	})
	if err != nil {
		return err
	}
	ev["treeStored"] = atomic.LoadInt32(&missing) == 0
	ev["refExpected"] = filex.Hex(res.Ref)
	ev["evalNodes"] = filex.Compact(res.Nodes)
	ev["evalBytes"] = filex.Split(res.Bytes)
	return nil
}

func runFile(sc kit.Scenario, out *kit.Out) error {
	size := pair(sc.Par, "s")
	enc := kit.Bool(sc.Par, "enc")
	cid := kit.Int(sc.Par, "cid")
	big := size > 64<<20
	if big {
		old := debug.SetGCPercent(10)
		defer func() { debug.SetGCPercent(old); runtime.GC(); debug.FreeOSMemory() }()
	}
	c := filex.NewContent(uint64(kit.Seed())*1000003+uint64(cid), size)
	out.Begin(sc.Scn, kit.Ev{"kind": "file", "s": filex.Split(size), "enc": enc, "st": filex.Split(0)})

	// the most recent upload is the one `open` refers to (the stores of earlier ones are dropped: large files)
	var cur *upload
	nup := 0
	var j file.Joiner
	pos := func() []int {
		if j == nil {
			return filex.Split(0)
		}
		p, err := j.Seek(0, io.SeekCurrent)
		if err != nil {
			return filex.Split(-1)
		}
		return filex.Split(p)
	}
	tScn := time.Now()
	defer func() {
		timing("scn %d enc=%v size=%d ops=%d total %v", sc.Scn, enc, size, len(sc.Ops), time.Since(tScn))
	}()
	for _, op := range sc.Ops {
		name := kit.Str(op, "op")
		ev := kit.Ev{"op": name, "err": "", "panicked": false}
		switch name {
		case "upload":
			nup++
			split, _ := op["split"].(map[string]interface{})
			if big { // at most one large store alive
				cur, j = nil, nil
				runtime.GC()
			}
			st := filex.NewStore()
			p := builder.NewPipelineBuilder(ctx, st, storage.ModePutUpload, enc)
			t0 := time.Now()
			ref, wl := writeSplit(p, c, split, cs)
			timing("scn %d upload %s enc=%v size=%d: write+sum %v", sc.Scn, kit.Str(split, "kind"), enc, size, time.Since(t0))
			t0 = time.Now()
			ev["k"], ev["enc"], ev["split"] = nup, enc, kit.Str(split, "kind")
			ev["nwrites"], ev["wsum"], ev["wroteOk"], ev["err"] = wl.nwrites, filex.Split(wl.wsum), wl.ok, wl.err
			ev["ref"], ev["refLen"] = filex.Hex(ref), len(ref)
			ev["nputs"] = len(st.Puts)
			ev["puts"] = [][]int{}
			if !enc {
				ev["puts"] = st.PutRecs()
			}
			if err := evalShape(op["shape"], c, st, ev); err != nil {
				return err
			}
			timing("scn %d eval %v", sc.Scn, time.Since(t0))
			// reported size: joiner.New's second result and Size()
			ev["jerr"], ev["jsize"], ev["sizeFn"] = "", filex.Split(-1), filex.Split(-1)
			if ref != nil {
				var jj file.Joiner
				var span int64
				var err error
				if pk, msg := kit.Guard(func() { jj, span, err = joiner.New(ctx, st, storage.ModeGetRequest, boson.NewAddress(ref)) }); pk {
					ev["jerr"] = "panic: " + msg
				} else if err != nil {
					ev["jerr"] = err.Error()
				} else {
					ev["jsize"], ev["sizeFn"] = filex.Split(span), filex.Split(jj.Size())
				}
			}
			cur = &upload{st: st, ref: ref}
			ev["st"] = pos()
		case "open":
			u := cur
			if u == nil || u.ref == nil {
				return fmt.Errorf("scenario %d: open without an upload that produced a reference", sc.Scn)
			}
			var err error
			j = nil
			var jj file.Joiner
			if pk, msg := kit.Guard(func() { jj, _, err = joiner.New(ctx, u.st, storage.ModeGetRequest, boson.NewAddress(u.ref)) }); pk {
				ev["panicked"], ev["err"] = true, msg
			} else if err != nil {
				ev["err"] = err.Error()
			} else {
				j = jj
			}
			ev["k"] = nup
			ev["st"] = pos()
		case "read", "readat":
			if j == nil {
				return fmt.Errorf("scenario %d: %s without an open joiner", sc.Scn, name)
			}
			l, cp := kit.Int(op, "len"), kit.Int(op, "cap")
			if cp < l {
				return fmt.Errorf("scenario %d: cap < len", sc.Scn)
			}
			full := make([]byte, cp)
			for i := range full {
				full[i] = 0xA5
			}
			buf := full[:l:cp]
			var at int64
			if name == "read" {
				at = filex.Join(pos())
				ev["pos"] = filex.Split(at)
			} else {
				at = pair(op, "off")
				ev["off"] = filex.Split(at)
			}
			var n int
			var err error
			pk, msg := kit.Guard(func() {
				if name == "read" {
					n, err = j.Read(buf)
				} else {
					n, err = j.ReadAt(buf, at)
				}
			})
			ev["len"], ev["cap"], ev["n"] = l, cp, n
			ev["eof"] = err == io.EOF
			if err != nil && err != io.EOF {
				ev["err"] = err.Error()
			}
			if pk {
				ev["panicked"], ev["err"] = true, msg
			}
			m := n
			if m > l {
				m = l
			}
			if m < 0 {
				m = 0
			}
			ev["bytesMatch"] = c.Equal(buf[:m], at)
			tail := true
			for _, x := range full[l:] {
				if x != 0xA5 {
					tail = false
					break
				}
			}
			ev["tailUntouched"] = tail
			ev["st"] = pos()
		case "seek":
			if j == nil {
				return fmt.Errorf("scenario %d: seek without an open joiner", sc.Scn)
			}
			off, wh := pair(op, "off"), kit.Int(op, "whence")
			var ret int64
			var err error
			if pk, msg := kit.Guard(func() { ret, err = j.Seek(off, wh) }); pk {
				ev["panicked"], ev["err"] = true, msg
			}
			ev["whence"], ev["off"], ev["ret"] = wh, filex.Split(off), filex.Split(ret)
			ev["failed"] = err != nil
			if err != nil {
				ev["err"] = err.Error()
			}
			ev["st"] = pos()
		case "readall":
			if j == nil {
				return fmt.Errorf("scenario %d: readall without an open joiner", sc.Scn)
			}
			bl := kit.Int(op, "blen")
			buf := make([]byte, bl)
			at := filex.Join(pos())
			start := at
			match, ended, nreads := true, "eof", 0
			pk, msg := kit.Guard(func() {
				for {
					n, err := j.Read(buf)
					nreads++
					if n > 0 {
						if n > bl || !c.Equal(buf[:n], at) {
							match = false
						}
						at += int64(n)
					}
					if err == io.EOF {
						return
					}
					if err != nil {
						ended = "error: " + err.Error()
						return
					}
					if n == 0 {
						ended = "stall"
						return
					}
				}
			})
			if pk {
				ev["panicked"], ev["err"] = true, msg
			}
			ev["blen"], ev["pos"], ev["total"] = bl, filex.Split(start), filex.Split(at-start)
			ev["nreads"], ev["allMatch"], ev["ended"] = nreads, match, ended
			ev["st"] = pos()
		default:
			return fmt.Errorf("scenario %d: unknown op %q", sc.Scn, name)
		}
		out.Emit(ev)
	}
	return nil
}

// runScaled: every op builds the writer side by hand with the scenario's branching and a 128-byte chunk.
func runScaled(sc kit.Scenario, out *kit.Out) error {
	B, chunk := kit.Int(sc.Par, "B"), kit.Int(sc.Par, "cs")
	if B < 2 || chunk < 32 {
		return fmt.Errorf("scenario %d: bad scaled parameters", sc.Scn)
	}
	out.Begin(sc.Scn, kit.Ev{"kind": "scaled", "B": B, "cs": chunk, "st": filex.Split(0)})
	for idx, op := range sc.Ops {
		if kit.Str(op, "op") != "tree" {
			return fmt.Errorf("scenario %d: unknown op %v", sc.Scn, op["op"])
		}
		n, last := kit.Int(op, "n"), kit.Int(op, "last")
		size := int64(n-1)*int64(chunk) + int64(last)
		c := filex.NewContent(uint64(kit.Seed())*1000003+uint64(7919*B+n*31+last+idx), size)
		st := filex.NewStore()
		pf := func() pipeline.ChainWriter {
			return bmt.NewBmtWriter(store.NewStoreWriter(ctx, st, storage.ModePutUpload, nil))
		}
		ht := hashtrie.NewHashTrieWriter(chunk, B, boson.HashSize, pf)
		p := feeder.NewChunkFeederWriter(chunk, bmt.NewBmtWriter(store.NewStoreWriter(ctx, st, storage.ModePutUpload, ht)))
		split, _ := op["split"].(map[string]interface{})
		ref, wl := writeSplit(p, c, split, chunk)
		ev := kit.Ev{"op": "tree", "B": B, "cs": chunk, "n": n, "last": last, "split": kit.Str(split, "kind"),
			"nwrites": wl.nwrites, "wsum": filex.Split(wl.wsum), "wroteOk": wl.ok, "err": wl.err, "panicked": false,
			"ref": filex.Hex(ref), "refLen": len(ref), "puts": st.PutRecs(), "nputs": len(st.Puts), "st": filex.Split(0)}
		if err := evalShape(op["shape"], c, st, ev); err != nil {
			return err
		}
		out.Emit(ev)
	}
	return nil
}

func main() {
	if !supervise.IsChild() {
		// the joiner and the pipeline start goroutines of their own: a panic there cannot be recovered by the
		// driver, so scenarios run in child processes and a crash becomes a `crash` event (internal/supervise)
		kit.Main(func(scs []kit.Scenario, out *kit.Out) error {
			return supervise.Run(scs, out, func(sc kit.Scenario) kit.Ev {
				if kit.Str(sc.Par, "kind") == "scaled" {
					return kit.Ev{"kind": "scaled", "B": kit.Int(sc.Par, "B"), "cs": kit.Int(sc.Par, "cs"), "st": filex.Split(0)}
				}
				return kit.Ev{"kind": "file", "s": filex.Split(pair(sc.Par, "s")), "enc": kit.Bool(sc.Par, "enc"), "st": filex.Split(0)}
			})
		})
		return
	}
	kit.Main(func(scs []kit.Scenario, out *kit.Out) error {
		for _, sc := range scs {
			var err error
			switch kit.Str(sc.Par, "kind") {
			case "file":
				err = runFile(sc, out)
			case "scaled":
				err = runScaled(sc, out)
			default:
				err = fmt.Errorf("scenario %d: unknown kind %v", sc.Scn, sc.Par["kind"])
			}
			if err != nil {
				return err
			}
		}
		return nil
	})
}
