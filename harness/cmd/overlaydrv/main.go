// overlaydrv: conformance driver for proximity order and XOR distance (C20).
// Calls boson.Proximity / ExtendedProximity / DistanceCmp / Distance / Address.Closer on the
// addresses a scenario names (or draws from the seed) and logs arguments and results.
// No oracle here: OverlayTrace.tla evaluates the defining equations on the logged arguments.
package main

import (
	"fmt"
	"math/rand"

	"github.com/gauss-project/aurorafs/pkg/boson"

	"verifharness/internal/kit"
)

func toBytes(v interface{}) []byte {
	l, _ := v.([]interface{})
	out := make([]byte, 0, len(l))
	for _, x := range l {
		f, _ := x.(float64)
		out = append(out, byte(int(f)))
	}
	return out
}

func ints(b []byte) []int {
	out := make([]int, len(b))
	for i, x := range b {
		out[i] = int(x)
	}
	return out
}

func randBytes(r *rand.Rand, n int) []byte {
	b := make([]byte, n)
	r.Read(b)
	return b
}

// differAt returns a copy of x whose first difference from x is bit k (0 = top bit of byte 0);
// the bits after k are random. k < 0: an equal copy.
func differAt(r *rand.Rand, x []byte, k int) []byte {
	y := append([]byte(nil), x...)
	if k < 0 || k >= len(x)*8 {
		return y
	}
	tail := randBytes(r, len(x))
	bi := k / 8
	keep := byte(0xff) << uint(8-k%8) // bits before k inside byte bi
	y[bi] = (x[bi] & keep) | (tail[bi] &^ keep)
	y[bi] = (y[bi] &^ (0x80 >> uint(k%8))) | (^x[bi] & (0x80 >> uint(k%8)))
	copy(y[bi+1:], tail[bi+1:])
	return y
}

func prox(ev kit.Ev, x, y []byte) {
	ev["x"], ev["y"] = ints(x), ints(y)
	ev["p"] = int(boson.Proximity(x, y))
	ev["pr"] = int(boson.Proximity(y, x))
	ev["ep"] = int(boson.ExtendedProximity(x, y))
	ev["epr"] = int(boson.ExtendedProximity(y, x))
}

func pad(b []byte, n int) []byte {
	if len(b) >= n {
		return b
	}
	return append(make([]byte, n-len(b)), b...)
}

func cmp(ev kit.Ev, t, x, y []byte) {
	ev["t"], ev["x"], ev["y"] = ints(t), ints(x), ints(y)
	ev["err"] = ""
	seterr := func(e error) {
		if e != nil && ev["err"] == "" {
			ev["err"] = e.Error()
		}
	}
	c, err := boson.DistanceCmp(t, x, y)
	seterr(err)
	cr, err := boson.DistanceCmp(t, y, x)
	seterr(err)
	ev["c"], ev["cr"] = c, cr
	ax, ay, at := boson.NewAddress(x), boson.NewAddress(y), boson.NewAddress(t)
	cl, err := ax.Closer(at, ay) // x is closer to t than y
	seterr(err)
	clr, err := ay.Closer(at, ax)
	seterr(err)
	ev["closer"], ev["closerr"] = cl, clr
	ev["dx"], ev["dy"] = []int{}, []int{}
	if d, err := boson.Distance(t, x); err != nil {
		seterr(err)
	} else {
		ev["dx"] = ints(pad(d.Bytes(), len(t)))
	}
	if d, err := boson.Distance(t, y); err != nil {
		seterr(err)
	} else {
		ev["dy"] = ints(pad(d.Bytes(), len(t)))
	}
}

func run(sc kit.Scenario, out *kit.Out) error {
	out.Begin(sc.Scn, kit.Ev{})
	for i, op := range sc.Ops {
		name := kit.Str(op, "op")
		ev := kit.Ev{"op": name}
		r := kit.Rng(int64(sc.Scn)*100003 + int64(i))
		var perr string
		p, msg := kit.Guard(func() {
			switch name {
			case "prox":
				prox(ev, toBytes(op["x"]), toBytes(op["y"]))
			case "proxrand":
				k := kit.Int(op, "k")
				x := randBytes(r, 32)
				ev["k"] = k
				prox(ev, x, differAt(r, x, k))
			case "cmp":
				cmp(ev, toBytes(op["t"]), toBytes(op["x"]), toBytes(op["y"]))
			case "cmprand":
				s := kit.Int(op, "shared")
				x := randBytes(r, 32)
				y := append(append([]byte(nil), x[:s]...), randBytes(r, 32-s)...)
				t := randBytes(r, 32)
				if r.Intn(2) == 0 { // a target in the neighbourhood of x and y
					copy(t, x[:s])
				}
				ev["shared"] = s
				cmp(ev, t, x, y)
			case "cmpk":
				// x and y share exactly k leading bits; the target lies inside the shared prefix
				// (then its bit k is random), anywhere, or on x itself
				k, tgt := kit.Int(op, "k"), kit.Str(op, "tgt")
				x := randBytes(r, 32)
				y := differAt(r, x, k)
				t := randBytes(r, 32)
				switch tgt {
				case "in":
					full := k / 8
					copy(t[:full], x[:full])
					keep := byte(0xff) << uint(8-k%8)
					t[full] = (x[full] & keep) | (t[full] &^ keep)
				case "x":
					copy(t, x)
				}
				ev["k"], ev["tgt"] = k, tgt
				cmp(ev, t, x, y)
			default:
				perr = "unknown op " + name
			}
		})
		if perr != "" {
			return fmt.Errorf("%s", perr)
		}
		if p {
			return fmt.Errorf("scenario %d op %d (%s) panicked: %s", sc.Scn, i, name, msg)
		}
		out.Emit(ev)
	}
	return nil
}

func main() {
	kit.Main(func(scs []kit.Scenario, out *kit.Out) error {
		for _, sc := range scs {
			if err := run(sc, out); err != nil {
				return err
			}
		}
		return nil
	})
}
