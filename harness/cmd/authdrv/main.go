// authdrv: conformance driver for API access tokens (C35).
//
// Executes generated token histories (spec/authtoken/AuthTokenGen.tla) on real
// auth.Authenticator objects: node 1 is "this node" (every Enforce / RefreshKey
// runs there), node 2 is another node with another encryption key.  The driver
// keeps the token strings in slots, damages them as the scenario says, and logs
// what every call returned (allowed / expiry error / other error / panicked) and,
// after each changing operation, three probe Enforce calls per slot.  No oracle
// here: AuthTokenTrace.tla judges.
package main

import (
	"encoding/base64"
	"errors"
	"fmt"
	"io/ioutil"
	"math/rand"
	"strings"
	"sync"
	"time"

	"github.com/gauss-project/aurorafs/pkg/auth"
	"github.com/gauss-project/aurorafs/pkg/logging"

	"verifharness/internal/kit"
)

var logger = logging.New(ioutil.Discard, 0)

const (
	posDuration   = 3600  // seconds: unexpired for the whole run
	negDuration   = -3600 // a token born expired
	shortDuration = 2     // a real expiry: alive when issued, expired after a "wait"
	margin        = 300 * time.Millisecond
)

func dur(s string) (int, error) {
	switch s {
	case "pos":
		return posDuration, nil
	case "neg":
		return negDuration, nil
	case "short":
		return shortDuration, nil
	}
	return 0, fmt.Errorf("unknown duration %q", s)
}

func pathOf(op map[string]interface{}) (string, []string) {
	segs := kit.StrList(op, "path")
	if segs == nil {
		segs = []string{}
	}
	var b strings.Builder
	for _, s := range segs {
		b.WriteByte('/')
		b.WriteString(s)
	}
	return b.String(), segs
}

func errs(e error) string {
	if e == nil {
		return ""
	}
	return e.Error()
}

type slot struct {
	set bool
	tok string
	cls string // how the string was damaged since it was issued ("none", a damage or junk class)
	// real-time tokens: the issuing call happened between t0 and t1, the token lives for ttl
	short  bool
	t0, t1 time.Time
}

// fresh tells on which side of a short expiry a call that ran from `before` to `after` fell, with a safety
// margin; "edge" = too close to tell (the judge does not judge such a call).  "" for tokens without a real expiry.
func (s *slot) fresh(before, after time.Time) string {
	if !s.short {
		return ""
	}
	ttl := shortDuration * time.Second
	switch {
	case after.Before(s.t0.Add(ttl - margin)):
		return "alive"
	case before.After(s.t1.Add(ttl + margin)):
		return "expired"
	}
	return "edge"
}

// probe runs one Enforce and reports the raw result.
func probe(a *auth.Authenticator, tok, path, method string) kit.Ev {
	var allowed bool
	var err error
	p, _ := kit.Guard(func() { allowed, err = a.Enforce(tok, path, method) })
	return kit.Ev{"a": allowed && !p, "x": errors.Is(err, auth.ErrTokenExpired), "e": err != nil, "p": p}
}

func project(a *auth.Authenticator, slots map[int]*slot) []interface{} {
	st := []interface{}{}
	for i := 1; i <= 2; i++ {
		s := slots[i]
		if s == nil || !s.set {
			st = append(st, kit.Ev{"set": false})
			continue
		}
		st = append(st, kit.Ev{"set": true,
			"c": probe(a, s.tok, "/apiPort", "GET"),
			"r": probe(a, s.tok, "/bytes", "POST"),
			"m": probe(a, s.tok, "/topology", "GET")})
	}
	return st
}

func damage(rng *rand.Rand, tok, cls string) (string, error) {
	raw, err := base64.StdEncoding.DecodeString(tok)
	if err != nil {
		return "", fmt.Errorf("token to damage is not base64: %w", err)
	}
	if len(raw) < 12+16+1 {
		return "", fmt.Errorf("token to damage is too short (%d bytes)", len(raw))
	}
	bit := byte(1) << uint(rng.Intn(8))
	switch cls {
	case "flip_nonce":
		raw[rng.Intn(12)] ^= bit
	case "flip_body":
		raw[12+rng.Intn(len(raw)-28)] ^= bit
	case "flip_tag":
		raw[len(raw)-16+rng.Intn(16)] ^= bit
	case "trunc0":
		raw = raw[:0]
	case "trunc5":
		raw = raw[:5]
	case "trunc11":
		raw = raw[:11]
	case "trunc12":
		raw = raw[:12]
	case "trunc13":
		raw = raw[:13]
	case "trunc27":
		raw = raw[:27]
	case "ext1":
		raw = append(raw, byte(rng.Intn(256)))
	default:
		return "", fmt.Errorf("unknown damage class %q", cls)
	}
	return base64.StdEncoding.EncodeToString(raw), nil
}

func junk(rng *rand.Rand, cls string) (string, error) {
	switch cls {
	case "notbase64":
		return "!!not*base64~" + fmt.Sprint(rng.Intn(1000)) + "!!", nil
	case "random":
		b := make([]byte, 40+rng.Intn(40))
		rng.Read(b)
		return base64.StdEncoding.EncodeToString(b), nil
	case "emptystr":
		return "", nil
	}
	return "", fmt.Errorf("unknown junk class %q", cls)
}

// recorder collects the events of one scenario (real-time scenarios run concurrently and are logged afterwards).
type recorder struct {
	begin kit.Ev
	evs   []kit.Ev
}

func (r *recorder) Emit(ev kit.Ev) { r.evs = append(r.evs, ev) }

func run(sc kit.Scenario, out *recorder) error {
	realtime := kit.Str(sc.Par, "family") == "realtime"
	nodes := map[int]*auth.Authenticator{}
	for i, key := range map[int]string{1: "verif-node-one-encryption-key", 2: "verif-node-two-encryption-key"} {
		a, err := auth.New(key, "unused-password-hash", logger)
		if err != nil {
			return err
		}
		nodes[i] = a
	}
	self := nodes[1]
	rng := kit.Rng(int64(3500 + sc.Scn))
	slots := map[int]*slot{1: {}, 2: {}}
	out.begin = kit.Ev{"st": project(self, slots)}
	// real-time histories are observed by their explicit Enforce operations only: the probes would "use" a token
	probeAll := func() interface{} { return project(self, slots) }

	for _, op := range sc.Ops {
		name := kit.Str(op, "op")
		ev := kit.Ev{"op": name}
		switch name {
		case "gen":
			s, key, role := kit.Int(op, "slot"), kit.Int(op, "key"), kit.Str(op, "role")
			d, err := dur(kit.Str(op, "dur"))
			if err != nil {
				return err
			}
			node := nodes[key]
			if node == nil || slots[s] == nil {
				return fmt.Errorf("gen: bad key/slot %d/%d", key, s)
			}
			var tok string
			var e error
			t0 := time.Now()
			p, pmsg := kit.Guard(func() { tok, e = node.GenerateKey(role, d) })
			ok := !p && e == nil
			if ok {
				slots[s] = &slot{set: true, tok: tok, cls: "none", short: d == shortDuration, t0: t0, t1: time.Now()}
			}
			ev["slot"], ev["key"], ev["role"], ev["dur"] = s, key, role, kit.Str(op, "dur")
			ev["ok"], ev["err"], ev["panicked"], ev["pmsg"] = ok, errs(e), p, pmsg
			ev["st"] = project(self, slots)

		case "refresh":
			src, dst := kit.Int(op, "src"), kit.Int(op, "dst")
			d, err := dur(kit.Str(op, "dur"))
			if err != nil {
				return err
			}
			if slots[src] == nil || slots[dst] == nil || !slots[src].set {
				return fmt.Errorf("refresh: bad slots %d -> %d", src, dst)
			}
			var tok string
			var e error
			cls := slots[src].cls
			srcSlot := slots[src]
			t0 := time.Now()
			p, pmsg := kit.Guard(func() { tok, e = self.RefreshKey(slots[src].tok, d) })
			t1 := time.Now()
			ok := !p && e == nil
			if ok {
				slots[dst] = &slot{set: true, tok: tok, cls: "none", short: d == shortDuration, t0: t0, t1: t1}
			}
			if f := srcSlot.fresh(t0, t1); f != "" {
				ev["fresh"] = f
			}
			ev["src"], ev["dst"], ev["dur"], ev["cls"] = src, dst, kit.Str(op, "dur"), cls
			ev["ok"], ev["expired"], ev["err"], ev["panicked"], ev["pmsg"] = ok, errors.Is(e, auth.ErrTokenExpired), errs(e), p, pmsg
			ev["st"] = project(self, slots)

		case "tamper":
			s, cls := kit.Int(op, "slot"), kit.Str(op, "cls")
			if slots[s] == nil || !slots[s].set {
				return fmt.Errorf("tamper: empty slot %d", s)
			}
			t, err := damage(rng, slots[s].tok, cls)
			if err != nil {
				return err
			}
			old := slots[s]
			slots[s] = &slot{set: true, tok: t, cls: cls, short: old.short, t0: old.t0, t1: old.t1}
			ev["slot"], ev["cls"] = s, cls
			ev["st"] = project(self, slots)

		case "wait":
			// let the clock pass every short expiry (plus the margin)
			var until time.Time
			for _, sl := range slots {
				if sl != nil && sl.set && sl.short {
					if t := sl.t1.Add(shortDuration*time.Second + margin + 100*time.Millisecond); t.After(until) {
						until = t
					}
				}
			}
			if d := time.Until(until); d > 0 {
				time.Sleep(d)
			}

		case "junk":
			s, cls := kit.Int(op, "slot"), kit.Str(op, "cls")
			if slots[s] == nil {
				return fmt.Errorf("junk: bad slot %d", s)
			}
			t, err := junk(rng, cls)
			if err != nil {
				return err
			}
			slots[s] = &slot{set: true, tok: t, cls: cls}
			ev["slot"], ev["cls"] = s, cls
			ev["st"] = project(self, slots)

		case "enforce":
			s := kit.Int(op, "slot")
			if slots[s] == nil || !slots[s].set {
				return fmt.Errorf("enforce: empty slot %d", s)
			}
			path, segs := pathOf(op)
			method := kit.Str(op, "method")
			var allowed bool
			var e error
			t0 := time.Now()
			p, pmsg := kit.Guard(func() { allowed, e = self.Enforce(slots[s].tok, path, method) })
			if f := slots[s].fresh(t0, time.Now()); f != "" {
				ev["fresh"] = f
			}
			ev["slot"], ev["path"], ev["method"], ev["cls"] = s, segs, method, slots[s].cls
			ev["allowed"], ev["expired"], ev["err"], ev["panicked"], ev["pmsg"] = allowed && !p, errors.Is(e, auth.ErrTokenExpired), errs(e), p, pmsg

		default:
			return fmt.Errorf("unknown op %q", name)
		}
		if realtime {
			delete(ev, "st")
		}
		out.Emit(ev)
	}
	_ = probeAll
	return nil
}

func main() {
	kit.Main(func(scs []kit.Scenario, out *kit.Out) error {
		recs := make([]*recorder, len(scs))
		errsC := make([]error, len(scs))
		var wg sync.WaitGroup
		for i, sc := range scs {
			recs[i] = &recorder{}
			if kit.Str(sc.Par, "family") == "realtime" {
				// real-time histories sleep: they run concurrently (own authenticators each)
				wg.Add(1)
				go func(i int, sc kit.Scenario) {
					defer wg.Done()
					errsC[i] = run(sc, recs[i])
				}(i, sc)
				continue
			}
			errsC[i] = run(sc, recs[i])
		}
		wg.Wait()
		for i, sc := range scs {
			if errsC[i] != nil {
				return fmt.Errorf("scenario %d: %w", sc.Scn, errsC[i])
			}
			out.Begin(sc.Scn, recs[i].begin)
			for _, ev := range recs[i].evs {
				out.Emit(ev)
			}
		}
		return nil
	})
}
