// authdrv: conformance driver for API access tokens (C35).
//
// Executes generated token histories (spec/authtoken/AuthTokenGen.tla) on real
// auth.Authenticator objects: node 1 is "this node" (every Enforce / RefreshKey
// runs there), node 2 is another node with another encryption key.  The driver
// keeps the token strings in slots, damages them as the scenario says, and logs
// what every call returned (allowed / expiry error / other error / panicked) and,
// after each changing operation, three probe Enforce calls per slot.  No oracle
// here: AuthTokenTrace.tla judges.
package main

import (
	"encoding/base64"
	"errors"
	"fmt"
	"io/ioutil"
	"math/rand"
	"strings"

	"github.com/gauss-project/aurorafs/pkg/auth"
	"github.com/gauss-project/aurorafs/pkg/logging"

	"verifharness/internal/kit"
)

var logger = logging.New(ioutil.Discard, 0)

const (
	posDuration = 3600  // seconds: unexpired for the whole run
	negDuration = -3600 // a token born expired
)

func dur(s string) (int, error) {
	switch s {
	case "pos":
		return posDuration, nil
	case "neg":
		return negDuration, nil
	}
	return 0, fmt.Errorf("unknown duration %q", s)
}

func pathOf(op map[string]interface{}) (string, []string) {
	segs := kit.StrList(op, "path")
	if segs == nil {
		segs = []string{}
	}
	var b strings.Builder
	for _, s := range segs {
		b.WriteByte('/')
		b.WriteString(s)
	}
	return b.String(), segs
}

func errs(e error) string {
	if e == nil {
		return ""
	}
	return e.Error()
}

type slot struct {
	set bool
	tok string
	cls string // how the string was damaged since it was issued ("none", a damage or junk class)
}

// probe runs one Enforce and reports the raw result.
func probe(a *auth.Authenticator, tok, path, method string) kit.Ev {
	var allowed bool
	var err error
	p, _ := kit.Guard(func() { allowed, err = a.Enforce(tok, path, method) })
	return kit.Ev{"a": allowed && !p, "x": errors.Is(err, auth.ErrTokenExpired), "e": err != nil, "p": p}
}

func project(a *auth.Authenticator, slots map[int]*slot) []interface{} {
	st := []interface{}{}
	for i := 1; i <= 2; i++ {
		s := slots[i]
		if s == nil || !s.set {
			st = append(st, kit.Ev{"set": false})
			continue
		}
		st = append(st, kit.Ev{"set": true,
			"c": probe(a, s.tok, "/apiPort", "GET"),
			"r": probe(a, s.tok, "/bytes", "POST"),
			"m": probe(a, s.tok, "/topology", "GET")})
	}
	return st
}

func damage(rng *rand.Rand, tok, cls string) (string, error) {
	raw, err := base64.StdEncoding.DecodeString(tok)
	if err != nil {
		return "", fmt.Errorf("token to damage is not base64: %w", err)
	}
	if len(raw) < 12+16+1 {
		return "", fmt.Errorf("token to damage is too short (%d bytes)", len(raw))
	}
	bit := byte(1) << uint(rng.Intn(8))
	switch cls {
	case "flip_nonce":
		raw[rng.Intn(12)] ^= bit
	case "flip_body":
		raw[12+rng.Intn(len(raw)-28)] ^= bit
	case "flip_tag":
		raw[len(raw)-16+rng.Intn(16)] ^= bit
	case "trunc0":
		raw = raw[:0]
	case "trunc5":
		raw = raw[:5]
	case "trunc11":
		raw = raw[:11]
	case "trunc12":
		raw = raw[:12]
	case "trunc13":
		raw = raw[:13]
	case "trunc27":
		raw = raw[:27]
	case "ext1":
		raw = append(raw, byte(rng.Intn(256)))
	default:
		return "", fmt.Errorf("unknown damage class %q", cls)
	}
	return base64.StdEncoding.EncodeToString(raw), nil
}

func junk(rng *rand.Rand, cls string) (string, error) {
	switch cls {
	case "notbase64":
		return "!!not*base64~" + fmt.Sprint(rng.Intn(1000)) + "!!", nil
	case "random":
		b := make([]byte, 40+rng.Intn(40))
		rng.Read(b)
		return base64.StdEncoding.EncodeToString(b), nil
	case "emptystr":
		return "", nil
	}
	return "", fmt.Errorf("unknown junk class %q", cls)
}

func run(sc kit.Scenario, out *kit.Out) error {
	nodes := map[int]*auth.Authenticator{}
	for i, key := range map[int]string{1: "verif-node-one-encryption-key", 2: "verif-node-two-encryption-key"} {
		a, err := auth.New(key, "unused-password-hash", logger)
		if err != nil {
			return err
		}
		nodes[i] = a
	}
	self := nodes[1]
	rng := kit.Rng(int64(3500 + sc.Scn))
	slots := map[int]*slot{1: {}, 2: {}}
	out.Begin(sc.Scn, kit.Ev{"st": project(self, slots)})

	for _, op := range sc.Ops {
		name := kit.Str(op, "op")
		ev := kit.Ev{"op": name}
		switch name {
		case "gen":
			s, key, role := kit.Int(op, "slot"), kit.Int(op, "key"), kit.Str(op, "role")
			d, err := dur(kit.Str(op, "dur"))
			if err != nil {
				return err
			}
			node := nodes[key]
			if node == nil || slots[s] == nil {
				return fmt.Errorf("gen: bad key/slot %d/%d", key, s)
			}
			var tok string
			var e error
			p, pmsg := kit.Guard(func() { tok, e = node.GenerateKey(role, d) })
			ok := !p && e == nil
			if ok {
				slots[s] = &slot{set: true, tok: tok, cls: "none"}
			}
			ev["slot"], ev["key"], ev["role"], ev["dur"] = s, key, role, kit.Str(op, "dur")
			ev["ok"], ev["err"], ev["panicked"], ev["pmsg"] = ok, errs(e), p, pmsg
			ev["st"] = project(self, slots)

		case "refresh":
			src, dst := kit.Int(op, "src"), kit.Int(op, "dst")
			d, err := dur(kit.Str(op, "dur"))
			if err != nil {
				return err
			}
			if slots[src] == nil || slots[dst] == nil || !slots[src].set {
				return fmt.Errorf("refresh: bad slots %d -> %d", src, dst)
			}
			var tok string
			var e error
			cls := slots[src].cls
			p, pmsg := kit.Guard(func() { tok, e = self.RefreshKey(slots[src].tok, d) })
			ok := !p && e == nil
			if ok {
				slots[dst] = &slot{set: true, tok: tok, cls: "none"}
			}
			ev["src"], ev["dst"], ev["dur"], ev["cls"] = src, dst, kit.Str(op, "dur"), cls
			ev["ok"], ev["expired"], ev["err"], ev["panicked"], ev["pmsg"] = ok, errors.Is(e, auth.ErrTokenExpired), errs(e), p, pmsg
			ev["st"] = project(self, slots)

		case "tamper":
			s, cls := kit.Int(op, "slot"), kit.Str(op, "cls")
			if slots[s] == nil || !slots[s].set {
				return fmt.Errorf("tamper: empty slot %d", s)
			}
			t, err := damage(rng, slots[s].tok, cls)
			if err != nil {
				return err
			}
			slots[s] = &slot{set: true, tok: t, cls: cls}
			ev["slot"], ev["cls"] = s, cls
			ev["st"] = project(self, slots)

		case "junk":
			s, cls := kit.Int(op, "slot"), kit.Str(op, "cls")
			if slots[s] == nil {
				return fmt.Errorf("junk: bad slot %d", s)
			}
			t, err := junk(rng, cls)
			if err != nil {
				return err
			}
			slots[s] = &slot{set: true, tok: t, cls: cls}
			ev["slot"], ev["cls"] = s, cls
			ev["st"] = project(self, slots)

		case "enforce":
			s := kit.Int(op, "slot")
			if slots[s] == nil || !slots[s].set {
				return fmt.Errorf("enforce: empty slot %d", s)
			}
			path, segs := pathOf(op)
			method := kit.Str(op, "method")
			var allowed bool
			var e error
			p, pmsg := kit.Guard(func() { allowed, e = self.Enforce(slots[s].tok, path, method) })
			ev["slot"], ev["path"], ev["method"], ev["cls"] = s, segs, method, slots[s].cls
			ev["allowed"], ev["expired"], ev["err"], ev["panicked"], ev["pmsg"] = allowed && !p, errors.Is(e, auth.ErrTokenExpired), errs(e), p, pmsg

		default:
			return fmt.Errorf("unknown op %q", name)
		}
		out.Emit(ev)
	}
	return nil
}

func main() {
	kit.Main(func(scs []kit.Scenario, out *kit.Out) error {
		for _, sc := range scs {
			if err := run(sc, out); err != nil {
				return fmt.Errorf("scenario %d: %w", sc.Scn, err)
			}
		}
		return nil
	})
}
