// blocklistdrv: conformance driver for the peer blocklist (C25).
// Executes generated histories of Add/Remove/Exists/Peers at driver-controlled
// clock times on the real blocklist (pkg/p2p/libp2p/internal/blocklist, reached
// through the verif-tagged package verifbl) over both state stores, and logs
// what each call returned plus a projection: for every peer, the answer Exists
// gives now and at a fixed list of later instants (asked through a second
// Blocklist over a write-discarding view of the same store, so that probing
// changes nothing).  No oracle here.
package main

import (
	"fmt"
	"io/ioutil"
	"sort"
	"time"

	"github.com/gauss-project/aurorafs/pkg/boson"
	"github.com/gauss-project/aurorafs/pkg/logging"
	"github.com/gauss-project/aurorafs/pkg/p2p/libp2p/verifbl"
	ldbstore "github.com/gauss-project/aurorafs/pkg/statestore/leveldb"
	"github.com/gauss-project/aurorafs/pkg/statestore/mock"
	"github.com/gauss-project/aurorafs/pkg/storage"

	"verifharness/internal/kit"
)

const nPeers = 2

// probe offsets (in clock units after "now"); must equal Offs in BlocklistTrace.tla
var offs = []int{0, 1, 2, 3, 4, 5, 6, 7, 8, 9, 10, 11, 12, 16, 24, 50, 1000000}

// clock units used for the abstract unit of the specification
var units = []time.Duration{time.Second, time.Millisecond, 1500 * time.Millisecond, time.Hour, time.Nanosecond}

// roStore lets reads through and discards writes.
type roStore struct{ storage.StateStorer }

func (roStore) Put(string, interface{}) error { return nil }
func (roStore) Delete(string) error           { return nil }
func (roStore) Close() error                  { return nil }

func addr(p int) boson.Address {
	b := make([]byte, 32)
	for i := range b {
		b[i] = byte(p)
	}
	b[31] = byte(0xA0 + p)
	return boson.NewAddress(b)
}

func peerOf(a boson.Address) int {
	for p := 1; p <= nPeers; p++ {
		if a.Equal(addr(p)) {
			return p
		}
	}
	return 0
}

func errs(e error) string {
	if e == nil {
		return ""
	}
	return e.Error()
}

type world struct {
	now   int
	unit  time.Duration
	shift int // the clock the package sees is now+shift units
}

var base = time.Unix(1700000000, 0)

func (w *world) time() time.Time {
	return base.Add(time.Duration(w.now+w.shift) * w.unit)
}

// project asks, for every peer, Exists at now+off for each probe offset.
func project(w *world, store storage.StateStorer) ([][]bool, string) {
	pb := verifbl.New(roStore{store})
	out := make([][]bool, 0, nPeers)
	perr := ""
	for p := 1; p <= nPeers; p++ {
		row := make([]bool, 0, len(offs))
		for _, o := range offs {
			w.shift = o
			ok, err := pb.Exists(addr(p))
			if err != nil && perr == "" {
				perr = "probe: " + err.Error()
			}
			row = append(row, ok)
		}
		out = append(out, row)
	}
	w.shift = 0
	return out, perr
}

// wipe deletes every blocklist entry from a store.
func wipe(s storage.StateStorer) error {
	var keys []string
	if err := s.Iterate("blocklist-", func(k, _ []byte) (bool, error) {
		keys = append(keys, string(k))
		return false, nil
	}); err != nil {
		return err
	}
	for _, k := range keys {
		if err := s.Delete(k); err != nil {
			return err
		}
	}
	return nil
}

func run(sc kit.Scenario, impl string, store storage.StateStorer, unit time.Duration, out *kit.Out) error {
	w := &world{unit: unit}
	verifbl.SetTimeNow(w.time)
	defer verifbl.SetTimeNow(nil)
	bl := verifbl.New(store)

	st, perr := project(w, store)
	out.Begin(sc.Scn, kit.Ev{"impl": impl, "unit": unit.String(), "now": 0, "err": perr, "st": st})
	for _, op := range sc.Ops {
		name := kit.Str(op, "op")
		ev := kit.Ev{"op": name, "impl": impl, "err": ""}
		switch name {
		case "add":
			p, d := kit.Int(op, "p"), kit.Int(op, "d")
			ev["p"], ev["d"] = p, d
			ev["err"] = errs(bl.Add(addr(p), time.Duration(d)*unit))
		case "remove":
			p := kit.Int(op, "p")
			ev["p"] = p
			ev["err"] = errs(bl.Remove(addr(p)))
		case "exists":
			p := kit.Int(op, "p")
			ok, err := bl.Exists(addr(p))
			ev["p"], ev["res"], ev["err"] = p, ok, errs(err)
		case "peers":
			ps, err := bl.Peers()
			ids := []int{}
			unknown := 0
			for _, bp := range ps {
				if id := peerOf(bp.Address); id > 0 {
					ids = append(ids, id)
				} else {
					unknown++
				}
			}
			sort.Ints(ids)
			ev["ps"], ev["n"], ev["unknown"], ev["err"] = ids, len(ps), unknown, errs(err)
		case "tick":
			s := kit.Int(op, "s")
			w.now += s
			ev["s"] = s
		default:
			return fmt.Errorf("unknown op %q", name)
		}
		st, perr := project(w, store)
		ev["st"], ev["now"] = st, w.now
		if perr != "" && ev["err"] == "" {
			ev["err"] = perr
		}
		out.Emit(ev)
	}
	return nil
}

func main() {
	kit.Main(func(scs []kit.Scenario, out *kit.Out) error {
		logger := logging.New(ioutil.Discard, 0)
		mem, err := ldbstore.NewInMemoryStateStore(logger)
		if err != nil {
			return err
		}
		defer mem.Close()
		for _, sc := range scs {
			// the clock unit is a function of the scenario id and the seed (stable when a scenario is re-run alone)
			unit := units[int((int64(sc.Scn)+kit.Seed())%int64(len(units)))]
			if u := kit.Str(sc.Par, "unit"); u != "" {
				d, err := time.ParseDuration(u)
				if err != nil {
					return err
				}
				unit = d
			}
			// one in-memory LevelDB store serves all scenarios (opening one costs ~100 ms); it is
			// emptied here, and the judge checks the first projection of every scenario
			if err := wipe(mem); err != nil {
				return err
			}
			if err := run(sc, "leveldb-mem", mem, unit, out); err != nil {
				return err
			}
			ms := mock.NewStateStore()
			if err := run(sc, "mock", ms, unit, out); err != nil {
				return err
			}
			ms.Close()
		}
		return nil
	})
}
