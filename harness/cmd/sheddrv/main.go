// sheddrv: conformance driver for pkg/shed (C19).
// Executes generated histories on a real shed.DB (LevelDB driver, in memory; on a temporary
// directory when the history reopens the database) with three indexes, a uint64 field, a
// string field and a uint64 vector, and logs what each call returned plus a projection of the
// store.  No oracle here: ShedTrace.tla judges the log.
package main

import (
	"errors"
	"fmt"
	"io/ioutil"
	"os"
	"strings"

	"github.com/gauss-project/aurorafs/pkg/shed"
	"github.com/gauss-project/aurorafs/pkg/shed/driver"

	"verifharness/internal/kit"
)

func keyOf(v interface{}) []byte {
	l, _ := v.([]interface{})
	out := make([]byte, 0, len(l))
	for _, x := range l {
		f, _ := x.(float64)
		out = append(out, byte(int(f)))
	}
	return out
}

func keysOf(v interface{}) [][]byte {
	l, _ := v.([]interface{})
	out := make([][]byte, 0, len(l))
	for _, x := range l {
		out = append(out, keyOf(x))
	}
	return out
}

func codes(k []byte) []int {
	out := make([]int, len(k))
	for i, b := range k {
		out[i] = int(b)
	}
	return out
}

func valOf(it shed.Item) int {
	if len(it.Data) == 1 {
		return int(it.Data[0])
	}
	return -len(it.Data) - 1 // never a value the scenarios write
}

func strOf(n int) string { return []string{"", "x", "yy"}[n] }

var errCallback = errors.New("callback error")

// the index functions: key = Item.Address as is, value = Item.Data as is
var funcs = shed.IndexFuncs{
	EncodeKey:   func(f shed.Item) ([]byte, error) { return f.Address, nil },
	DecodeKey:   func(k []byte) (shed.Item, error) { return shed.Item{Address: k}, nil },
	EncodeValue: func(f shed.Item) ([]byte, error) { return f.Data, nil },
	DecodeValue: func(kf shed.Item, v []byte) (shed.Item, error) { return shed.Item{Data: v}, nil },
}

type store struct {
	dir   string // "" = in memory
	db    *shed.DB
	idx   [3]shed.Index
	u     shed.Uint64Field
	s     shed.StringField
	v     shed.Uint64Vector
	batch driver.Batching
}

func (st *store) open() error {
	// default driver with small buffers (a fresh database per scenario: the 32 MiB defaults dominate the run time)
	db, err := shed.NewDB(st.dir, &shed.Options{Driver: `leveldb:{"WriteBuffer":262144,"BlockCacheCapacity":262144}`})
	if err != nil {
		return err
	}
	st.db = db
	for i, name := range []string{"A", "B", "C"} {
		if st.idx[i], err = db.NewIndex(name, funcs); err != nil {
			return err
		}
	}
	if st.u, err = db.NewUint64Field("u"); err != nil {
		return err
	}
	if st.s, err = db.NewStringField("s"); err != nil {
		return err
	}
	if st.v, err = db.NewUint64Vector("v"); err != nil {
		return err
	}
	st.batch = db.NewBatch()
	return nil
}

// tmpBase: a memory-backed directory if there is one (every Put is a synchronous write).
func tmpBase() string {
	if fi, err := os.Stat("/dev/shm"); err == nil && fi.IsDir() {
		return "/dev/shm"
	}
	return ""
}

func item(k []byte, v int) shed.Item { return shed.Item{Address: k, Data: []byte{byte(v)}} }

// note records an error other than "not found" in the event.
func note(ev kit.Ev, err error) {
	if err != nil && !errors.Is(err, driver.ErrNotFound) && ev["err"] == "" {
		ev["err"] = err.Error()
	}
}

func (st *store) project(ev kit.Ev, universe [][][]byte) {
	rows := []interface{}{}
	dump := []interface{}{}
	cnt := []int{}
	for x := 0; x < 3; x++ {
		for _, k := range universe[x] {
			it, err := st.idx[x].Get(shed.Item{Address: k})
			if err == nil {
				rows = append(rows, []interface{}{x + 1, codes(k), valOf(it)})
			} else {
				note(ev, err)
			}
		}
		d := []interface{}{}
		note(ev, st.idx[x].Iterate(func(it shed.Item) (bool, error) {
			d = append(d, []interface{}{codes(it.Address), valOf(it)})
			return false, nil
		}, nil))
		dump = append(dump, d)
		n, err := st.idx[x].Count()
		note(ev, err)
		cnt = append(cnt, n)
	}
	ev["st"], ev["dump"], ev["cnt"] = rows, dump, cnt
	u, err := st.u.Get()
	note(ev, err)
	s, err := st.s.Get()
	note(ev, err)
	fv := []uint64{}
	for j := uint64(0); j < 2; j++ {
		v, err := st.v.Get(j)
		note(ev, err)
		fv = append(fv, v)
	}
	ev["fu"], ev["fs"], ev["fv"] = u, s, fv
}

func run(sc kit.Scenario, out *kit.Out) error {
	var universe [][][]byte
	for _, ks := range kit.List(sc.Par, "keys") {
		universe = append(universe, keysOf(ks))
	}
	if len(universe) != 3 {
		return fmt.Errorf("scenario %d: par.keys must list three key universes", sc.Scn)
	}
	st := &store{}
	impl := "leveldb-mem"
	for _, op := range sc.Ops {
		if kit.Str(op, "op") == "reopen" {
			dir, err := ioutil.TempDir(tmpBase(), "verif-shed")
			if err != nil {
				return err
			}
			defer os.RemoveAll(dir)
			st.dir, impl = dir, "leveldb-disk"
			break
		}
	}
	if err := st.open(); err != nil {
		return err
	}
	defer func() { st.db.Close() }()
	reset := kit.Ev{"impl": impl, "err": ""}
	st.project(reset, universe)
	out.Begin(sc.Scn, reset)
	for _, op := range sc.Ops {
		name := kit.Str(op, "op")
		ev := kit.Ev{"op": name, "err": ""}
		x := kit.Int(op, "x")
		var ix shed.Index
		if x >= 1 && x <= 3 {
			ix = st.idx[x-1]
			ev["x"] = x
		}
		k := keyOf(op["k"])
		v := kit.Int(op, "v")
		j := uint64(kit.Int(op, "j"))
		var fatal error
		panicked, msg := kit.Guard(func() {
			switch name {
			case "put":
				ev["k"], ev["v"] = codes(k), v
				note(ev, ix.Put(item(k, v)))
			case "del":
				ev["k"] = codes(k)
				note(ev, ix.Delete(shed.Item{Address: k}))
			case "bput":
				ev["k"], ev["v"] = codes(k), v
				note(ev, ix.PutInBatch(st.batch, item(k, v)))
			case "bdel":
				ev["k"] = codes(k)
				note(ev, ix.DeleteInBatch(st.batch, shed.Item{Address: k}))
			case "commit":
				note(ev, st.batch.Commit())
				st.batch = st.db.NewBatch()
			case "reopen":
				note(ev, st.db.Close())
				if err := st.open(); err != nil {
					fatal = fmt.Errorf("reopen: %w", err)
				}
			case "get":
				ev["k"] = codes(k)
				it, err := ix.Get(shed.Item{Address: k})
				note(ev, err)
				ev["found"], ev["v"] = err == nil, 0
				if err == nil {
					ev["v"] = valOf(it)
				}
			case "has":
				ev["k"] = codes(k)
				ok, err := ix.Has(shed.Item{Address: k})
				note(ev, err)
				ev["found"] = ok
			case "hasmulti", "fill":
				ks := keysOf(op["ks"])
				cs := make([]interface{}, 0, len(ks))
				items := make([]shed.Item, 0, len(ks))
				for _, kk := range ks {
					cs = append(cs, codes(kk))
					items = append(items, shed.Item{Address: kk})
				}
				ev["ks"] = cs
				if name == "hasmulti" {
					have, err := ix.HasMulti(items...)
					note(ev, err)
					if have == nil {
						have = []bool{}
					}
					ev["found"] = have
				} else {
					err := ix.Fill(items)
					note(ev, err)
					ev["ok"] = err == nil
					vs := []int{}
					for _, it := range items {
						if it.Data == nil {
							vs = append(vs, 0)
						} else {
							vs = append(vs, valOf(it))
						}
					}
					ev["vs"] = vs
				}
			case "iter":
				pfx, start := keyOf(op["pfx"]), keyOf(op["start"])
				hs, skip, rev := kit.Bool(op, "hs"), kit.Bool(op, "skip"), kit.Bool(op, "rev")
				kind, at := kit.Str(op, "kind"), kit.Int(op, "at")
				ev["pfx"], ev["start"], ev["hs"], ev["skip"], ev["rev"], ev["kind"], ev["at"] = codes(pfx), codes(start), hs, skip, rev, kind, at
				opts := &shed.IterateOptions{SkipStartFromItem: skip, Reverse: rev}
				if len(pfx) > 0 {
					opts.Prefix = pfx
				}
				if hs {
					opts.StartFrom = &shed.Item{Address: start}
				}
				visited := []interface{}{}
				n := 0
				err := ix.Iterate(func(it shed.Item) (bool, error) {
					n++
					visited = append(visited, []interface{}{codes(it.Address), valOf(it)})
					if n == at && kind == "err" {
						return false, errCallback
					}
					return n == at && kind == "stop", nil
				}, opts)
				ev["visited"] = visited
				ev["cberr"] = errors.Is(err, errCallback)
				if !errors.Is(err, errCallback) {
					note(ev, err)
				}
			case "first", "last":
				pfx := keyOf(op["pfx"])
				ev["pfx"] = codes(pfx)
				var p []byte
				if len(pfx) > 0 {
					p = pfx
				}
				var it shed.Item
				var err error
				if name == "first" {
					it, err = ix.First(p)
				} else {
					it, err = ix.Last(p)
				}
				note(ev, err)
				ev["found"], ev["k"], ev["v"] = err == nil, []int{-1}, 0
				if err == nil {
					ev["k"], ev["v"] = codes(it.Address), valOf(it)
				}
			case "count":
				n, err := ix.Count()
				note(ev, err)
				ev["n"] = n
			case "countfrom":
				ev["k"] = codes(k)
				n, err := ix.CountFrom(shed.Item{Address: k})
				note(ev, err)
				ev["n"] = n
			// uint64 field
			case "uget":
				r, err := st.u.Get()
				note(ev, err)
				ev["v"] = r
			case "uput":
				ev["v"] = v
				note(ev, st.u.Put(uint64(v)))
			case "ubput":
				ev["v"] = v
				note(ev, st.u.PutInBatch(st.batch, uint64(v)))
			case "uinc", "udec", "ubinc", "ubdec":
				var r uint64
				var err error
				switch name {
				case "uinc":
					r, err = st.u.Inc()
				case "udec":
					r, err = st.u.Dec()
				case "ubinc":
					r, err = st.u.IncInBatch(st.batch)
				default:
					r, err = st.u.DecInBatch(st.batch)
				}
				note(ev, err)
				ev["v"] = r
			// string field
			case "sget":
				r, err := st.s.Get()
				note(ev, err)
				ev["v"] = r
			case "sput":
				ev["v"] = v
				note(ev, st.s.Put(strOf(v)))
			case "sbput":
				ev["v"] = v
				note(ev, st.s.PutInBatch(st.batch, strOf(v)))
			// uint64 vector
			case "vget":
				ev["j"] = j
				r, err := st.v.Get(j)
				note(ev, err)
				ev["v"] = r
			case "vput":
				ev["j"], ev["v"] = j, v
				note(ev, st.v.Put(j, uint64(v)))
			case "vbput":
				ev["j"], ev["v"] = j, v
				note(ev, st.v.PutInBatch(st.batch, j, uint64(v)))
			case "vinc", "vdec", "vbinc", "vbdec":
				ev["j"] = j
				var r uint64
				var err error
				switch name {
				case "vinc":
					r, err = st.v.Inc(j)
				case "vdec":
					r, err = st.v.Dec(j)
				case "vbinc":
					r, err = st.v.IncInBatch(st.batch, j)
				default:
					r, err = st.v.DecInBatch(st.batch, j)
				}
				note(ev, err)
				ev["v"] = r
			default:
				fatal = fmt.Errorf("unknown op %q", name)
			}
		})
		if fatal != nil {
			return fatal
		}
		if panicked {
			// a panic of the code under test is an observation, not a driver failure
			ev["err"] = "panic: " + strings.TrimSpace(msg)
			for f, d := range map[string]interface{}{"found": false, "v": 0, "k": []int{-1}, "n": 0, "visited": []interface{}{},
				"cberr": false, "ok": false, "vs": []int{}} {
				if _, ok := ev[f]; !ok {
					ev[f] = d
				}
			}
			if name == "hasmulti" {
				ev["found"] = []bool{}
			}
		}
		st.project(ev, universe)
		out.Emit(ev)
	}
	return nil
}

func main() {
	kit.Main(func(scs []kit.Scenario, out *kit.Out) error {
		for _, sc := range scs {
			if err := run(sc, out); err != nil {
				return err
			}
		}
		return nil
	})
}
