// kvdrv: conformance driver for the state stores (C18).
// Executes generated histories on statestore/leveldb (on disk and in memory)
// and statestore/mock, and logs what each call returned plus a projection of
// the store (Get of every key of the universe).  No oracle here.
package main

import (
	"encoding/binary"
	"errors"
	"fmt"
	"io/ioutil"
	"os"

	"github.com/gauss-project/aurorafs/pkg/logging"
	ldbstore "github.com/gauss-project/aurorafs/pkg/statestore/leveldb"
	"github.com/gauss-project/aurorafs/pkg/statestore/mock"
	"github.com/gauss-project/aurorafs/pkg/storage"

	"verifharness/internal/kit"
)

// binVal is a value with its own binary encoding (the BinaryMarshaler path).
type binVal struct{ V int }

func (b *binVal) MarshalBinary() ([]byte, error) {
	out := make([]byte, 5)
	out[0] = 0xB1
	binary.BigEndian.PutUint32(out[1:], uint32(b.V))
	return out, nil
}
func (b *binVal) UnmarshalBinary(d []byte) error {
	if len(d) != 5 || d[0] != 0xB1 {
		return errNotBin
	}
	b.V = int(binary.BigEndian.Uint32(d[1:]))
	return nil
}

var errNotBin = errors.New("not binVal")
var errCallback = errors.New("callback error")

func keyOf(v interface{}) string {
	var b []byte
	if l, ok := v.([]interface{}); ok {
		for _, x := range l {
			b = append(b, byte(x.(float64)))
		}
	}
	return string(b)
}
func codes(k string) []int {
	out := make([]int, 0, len(k))
	for i := 0; i < len(k); i++ {
		out = append(out, int(k[i]))
	}
	return out
}

var universe = []string{"a", "a-", "ab", "b", "ba"}

type impl struct {
	name   string
	open   func() (storage.StateStorer, error)
	reopen bool
}

func get(s storage.StateStorer, k string) (found bool, v int, err error) {
	var b binVal
	e := s.Get(k, &b)
	if e == nil {
		return true, b.V, nil
	}
	if errors.Is(e, storage.ErrNotFound) {
		return false, 0, nil
	}
	if errors.Is(e, errNotBin) {
		var n int
		if e2 := s.Get(k, &n); e2 != nil {
			return false, 0, e2
		}
		return true, n, nil
	}
	return false, 0, e
}

func project(s storage.StateStorer) ([]interface{}, string) {
	st := []interface{}{}
	for _, k := range universe {
		f, v, err := get(s, k)
		if err != nil {
			return st, "project: " + err.Error()
		}
		if f {
			st = append(st, []interface{}{codes(k), v})
		}
	}
	return st, ""
}

func errs(e error) string {
	if e == nil {
		return ""
	}
	return e.Error()
}

func run(sc kit.Scenario, im impl, out *kit.Out) error {
	s, err := im.open()
	if err != nil {
		return err
	}
	defer func() { s.Close() }()
	out.Begin(sc.Scn, kit.Ev{"impl": im.name, "err": "", "st": []interface{}{}})
	for _, op := range sc.Ops {
		ev := kit.Ev{"op": kit.Str(op, "op"), "err": "", "impl": im.name}
		switch kit.Str(op, "op") {
		case "put":
			k, v := keyOf(op["k"]), kit.Int(op, "v")
			ev["k"], ev["v"], ev["enc"] = codes(k), v, kit.Str(op, "enc")
			if kit.Str(op, "enc") == "bin" {
				ev["err"] = errs(s.Put(k, &binVal{v}))
			} else {
				ev["err"] = errs(s.Put(k, v))
			}
		case "get":
			k := keyOf(op["k"])
			f, v, e := get(s, k)
			ev["k"], ev["found"], ev["v"], ev["err"] = codes(k), f, v, errs(e)
		case "del":
			k := keyOf(op["k"])
			ev["k"] = codes(k)
			ev["err"] = errs(s.Delete(k))
		case "iter":
			p, kind, at := keyOf(op["p"]), kit.Str(op, "kind"), kit.Int(op, "at")
			visited := [][]int{}
			n := 0
			e := s.Iterate(p, func(key, val []byte) (bool, error) {
				// the stores keep their own schema marker in the same key space; it
				// is not part of the map the property talks about: skipped, not counted
				if string(key) == "statestore_schema" || string(key) == "schema_name" {
					return false, nil
				}
				n++
				visited = append(visited, codes(string(key)))
				if kind == "err" && n == at {
					return false, errCallback
				}
				if kind == "stoperr" && n == at {
					return true, errCallback
				}
				if kind == "stop" && n == at {
					return true, nil
				}
				return false, nil
			})
			vis := [][]int{}
			for _, c := range visited {
				vis = append(vis, c)
			}
			ev["p"], ev["kind"], ev["at"], ev["visited"] = codes(p), kind, at, vis
			ev["cberr"] = errors.Is(e, errCallback)
			if e != nil && !errors.Is(e, errCallback) {
				ev["err"] = e.Error()
			}
		case "reopen":
			if !im.reopen {
				continue
			}
			if e := s.Close(); e != nil {
				ev["err"] = e.Error()
			}
			s, err = im.open()
			if err != nil {
				return fmt.Errorf("reopen: %w", err)
			}
		default:
			return fmt.Errorf("unknown op %v", op["op"])
		}
		st, perr := project(s)
		ev["st"] = st
		if perr != "" && ev["err"] == "" {
			ev["err"] = perr
		}
		out.Emit(ev)
	}
	return nil
}

func main() {
	kit.Main(func(scs []kit.Scenario, out *kit.Out) error {
		logger := logging.New(ioutil.Discard, 0)
		for _, sc := range scs {
			dir, err := ioutil.TempDir("", "verif-kv")
			if err != nil {
				return err
			}
			var mem storage.StateStorer
			impls := []impl{
				{"leveldb-disk", func() (storage.StateStorer, error) { return ldbstore.NewStateStore(dir, logger) }, true},
				{"leveldb-mem", func() (storage.StateStorer, error) {
					if mem == nil {
						var e error
						mem, e = ldbstore.NewInMemoryStateStore(logger)
						return mem, e
					}
					return mem, nil
				}, false},
				{"mock", func() (storage.StateStorer, error) { return mock.NewStateStore(), nil }, false},
			}
			for _, im := range impls {
				if err := run(sc, im, out); err != nil {
					os.RemoveAll(dir)
					return err
				}
			}
			os.RemoveAll(dir)
		}
		return nil
	})
}
