// encdrv: conformance driver for chunk encryption (C08).
//
// Scenario kinds (par.kind):
//
//	cipher  two encryption.New(key, pad, ctr, keccak) objects, one used for Encrypt, one for
//	        Decrypt; ops enc(n) / dec / resetE / resetD.  Logged: lengths, error flags and
//	        whether the decryption starts with the bytes this driver supplied.
//	get     one chunk of a claimed span (given as base-4096 digits of the number of full
//	        chunks before the last one, plus the size of the last one) with a payload of the
//	        given length is encrypted with encryption.NewChunkEncrypter (what the encrypted
//	        file writer does), put in a map store and read through encryption/store.New.
//	        Logged: the returned length and whether span and payload came back.
//
// No expected values here: EncryptTrace.tla judges the log.
package main

import (
	"bytes"
	"context"
	"encoding/binary"
	"errors"
	"fmt"
	"math/rand"

	"github.com/gauss-project/aurorafs/pkg/boson"
	"github.com/gauss-project/aurorafs/pkg/encryption"
	encstore "github.com/gauss-project/aurorafs/pkg/encryption/store"
	"github.com/gauss-project/aurorafs/pkg/storage"
	"golang.org/x/crypto/sha3"

	"verifharness/internal/kit"
)

// mapStore is the storage.Getter the decrypting store reads from.
type mapStore map[string]boson.Chunk

func (m mapStore) Get(_ context.Context, _ storage.ModeGet, addr boson.Address) (boson.Chunk, error) {
	if ch, ok := m[string(addr.Bytes())]; ok {
		return ch, nil
	}
	return nil, storage.ErrNotFound
}

func randBytes(r *rand.Rand, n int) []byte {
	b := make([]byte, n)
	r.Read(b)
	return b
}

func errs(e error) string {
	if e == nil {
		return ""
	}
	return e.Error()
}

func runCipher(sc kit.Scenario, out *kit.Out) error {
	r := kit.Rng(int64(sc.Scn))
	pad := kit.Int(sc.Par, "pad")
	keyNo := kit.Int(sc.Par, "key")
	// three fixed keys per seed
	key := randBytes(kit.Rng(int64(1000+keyNo)), encryption.KeyLength)
	var ctr uint32
	switch kit.Str(sc.Par, "ctr") {
	case "zero":
		ctr = 0
	case "c4096":
		ctr = 4096
	case "max":
		ctr = 0xFFFFFFFF
	default:
		return fmt.Errorf("unknown counter class %v", sc.Par["ctr"])
	}
	enc := encryption.New(key, pad, ctr, sha3.NewLegacyKeccak256)
	dec := encryption.New(key, pad, ctr, sha3.NewLegacyKeccak256)
	out.Begin(sc.Scn, kit.Ev{"kind": "cipher", "pad": pad, "key": keyNo, "ctr": kit.Str(sc.Par, "ctr")})
	var plain, cipher []byte
	have := false
	for _, op := range sc.Ops {
		name := kit.Str(op, "op")
		ev := kit.Ev{"op": name}
		switch name {
		case "enc":
			n := kit.Int(op, "n")
			p := randBytes(r, n)
			var c []byte
			var err error
			panicked, msg := kit.Guard(func() { c, err = enc.Encrypt(p) })
			if panicked {
				err = errors.New("panic: " + msg)
			}
			ev["n"], ev["err"], ev["errText"], ev["outLen"] = n, err != nil, errs(err), len(c)
			if err == nil {
				plain, cipher, have = p, c, true
			}
		case "dec":
			if !have {
				return fmt.Errorf("scenario %d: dec before any successful enc", sc.Scn)
			}
			var d []byte
			var err error
			panicked, msg := kit.Guard(func() { d, err = dec.Decrypt(cipher) })
			if panicked {
				err = errors.New("panic: " + msg)
			}
			ev["inLen"], ev["err"], ev["errText"], ev["outLen"] = len(cipher), err != nil, errs(err), len(d)
			ev["prefix"] = err == nil && len(d) >= len(plain) && bytes.Equal(d[:len(plain)], plain)
		case "resetE":
			enc.Reset()
		case "resetD":
			dec.Reset()
		default:
			return fmt.Errorf("unknown op %v", op["op"])
		}
		out.Emit(ev)
	}
	return nil
}

func runGet(sc kit.Scenario, out *kit.Out) error {
	r := kit.Rng(int64(sc.Scn))
	out.Begin(sc.Scn, kit.Ev{"kind": "get"})
	for _, op := range sc.Ops {
		if kit.Str(op, "op") != "get" {
			return fmt.Errorf("unknown op %v", op["op"])
		}
		md := kit.IntList(op, "md")
		t, plen := kit.Int(op, "t"), kit.Int(op, "plen")
		if len(md) != 4 {
			return fmt.Errorf("scenario %d: md must have four digits", sc.Scn)
		}
		// span = (d0 + d1*4096 + d2*4096^2 + d3*4096^3) * ChunkSize + t
		var m uint64
		for i := 3; i >= 0; i-- {
			m = m*4096 + uint64(md[i])
		}
		if m > (1<<63-1)/boson.ChunkSize {
			return fmt.Errorf("scenario %d: span does not fit 63 bits", sc.Scn)
		}
		span := m*boson.ChunkSize + uint64(t)
		payload := randBytes(r, plen)
		chunkData := make([]byte, 8+plen)
		binary.LittleEndian.PutUint64(chunkData[:8], span)
		copy(chunkData[8:], payload)

		// what the encrypted writer does with a chunk (pkg/file/pipeline/encryption)
		key, encSpan, encData, err := encryption.NewChunkEncrypter().EncryptChunk(chunkData)
		if err != nil {
			return fmt.Errorf("scenario %d: EncryptChunk: %w", sc.Scn, err)
		}
		stored := append(append([]byte{}, encSpan...), encData...)
		addr := randBytes(r, boson.HashSize)
		st := mapStore{string(addr): boson.NewChunk(boson.NewAddress(addr), stored)}

		ref := append(append([]byte{}, addr...), key...)
		var ch boson.Chunk
		var gerr error
		panicked, msg := kit.Guard(func() {
			ch, gerr = encstore.New(st).Get(context.Background(), storage.ModeGetRequest, boson.NewAddress(ref))
		})
		ev := kit.Ev{"op": "get", "md": md, "t": t, "plen": plen, "span": fmt.Sprint(span),
			"chunkLen": len(stored), "panicked": panicked, "panicText": msg, "err": errs(gerr),
			"gotLen": 0, "spanEcho": false, "prefix": false}
		if !panicked && gerr == nil {
			d := ch.Data()
			ev["gotLen"] = len(d)
			ev["spanEcho"] = len(d) >= 8 && bytes.Equal(d[:8], chunkData[:8])
			if len(d) >= 8 {
				// the bytes that came back, as far as they go, are the bytes supplied
				n := len(d) - 8
				if n > len(payload) {
					n = len(payload)
				}
				ev["prefix"] = bytes.Equal(d[8:8+n], payload[:n])
			}
		}
		out.Emit(ev)
	}
	return nil
}

func main() {
	kit.Main(func(scs []kit.Scenario, out *kit.Out) error {
		for _, sc := range scs {
			var err error
			switch kit.Str(sc.Par, "kind") {
			case "cipher":
				err = runCipher(sc, out)
			case "get":
				err = runGet(sc, out)
			default:
				err = fmt.Errorf("scenario %d: unknown kind %v", sc.Scn, sc.Par["kind"])
			}
			if err != nil {
				return err
			}
		}
		return nil
	})
}
