// encdrv: conformance driver for chunk encryption (C08).
//
// Scenario kinds (par.kind):
//
//	cipher  two encryption.New(key, pad, ctr, keccak) objects, one used for Encrypt, one for
//	        Decrypt; ops enc(n) / dec / resetE / resetD.  Logged: lengths, error flags and
//	        whether the decryption starts with the bytes this driver supplied.
//	get     one chunk of a claimed span (given as base-4096 digits of the number of full
//	        chunks before the last one, plus the size of the last one) with a payload of the
//	        given length is encrypted with encryption.NewChunkEncrypter (what the encrypted
//	        file writer does), put in a map store and read through encryption/store.New.
//	        Logged: the returned length and whether span and payload came back.
//
//	file    a file of `full` chunks plus `last` bytes is written through the encrypted pipeline of
//	        pkg/file/pipeline (assembled as builder.newEncryptionPipeline does, with a recording
//	        writer in front of the encryption writer), then every chunk the writer stored is read
//	        back through the decrypting store.  Logged per chunk: what the writer handed over
//	        before encryption (span, payload length) and what the reader returned.
//
// No expected values here: EncryptTrace.tla judges the log.
package main

import (
	"bytes"
	"context"
	"encoding/binary"
	"errors"
	"fmt"
	"math/rand"
	"runtime"
	"sync"

	"github.com/gauss-project/aurorafs/pkg/boson"
	"github.com/gauss-project/aurorafs/pkg/encryption"
	encstore "github.com/gauss-project/aurorafs/pkg/encryption/store"
	"github.com/gauss-project/aurorafs/pkg/file/pipeline"
	pbmt "github.com/gauss-project/aurorafs/pkg/file/pipeline/bmt"
	penc "github.com/gauss-project/aurorafs/pkg/file/pipeline/encryption"
	"github.com/gauss-project/aurorafs/pkg/file/pipeline/feeder"
	"github.com/gauss-project/aurorafs/pkg/file/pipeline/hashtrie"
	pstore "github.com/gauss-project/aurorafs/pkg/file/pipeline/store"
	"github.com/gauss-project/aurorafs/pkg/storage"
	"golang.org/x/crypto/sha3"

	"verifharness/internal/kit"
)

// mapStore is the storage.Getter the decrypting store reads from.
type mapStore map[string]boson.Chunk

func (m mapStore) Get(_ context.Context, _ storage.ModeGet, addr boson.Address) (boson.Chunk, error) {
	if ch, ok := m[string(addr.Bytes())]; ok {
		return ch, nil
	}
	return nil, storage.ErrNotFound
}

func (m mapStore) Put(_ context.Context, _ storage.ModePut, chs ...boson.Chunk) ([]bool, error) {
	exist := make([]bool, len(chs))
	for i, ch := range chs {
		_, exist[i] = m[string(ch.Address().Bytes())]
		m[string(ch.Address().Bytes())] = ch
	}
	return exist, nil
}

// recorder sits in front of the encryption writer: it sees every chunk (span || payload) the
// writer is about to encrypt and store, and afterwards the reference and key it was stored under.
type recorded struct {
	plain    []byte // span || payload, before encryption
	ref, key []byte
}
type recorder struct {
	next pipeline.ChainWriter
	log  *[]recorded
}

func (r recorder) ChainWrite(p *pipeline.PipeWriteArgs) error {
	plain := append([]byte{}, p.Data...)
	if err := r.next.ChainWrite(p); err != nil {
		return err
	}
	*r.log = append(*r.log, recorded{plain: plain, ref: append([]byte{}, p.Ref...), key: append([]byte{}, p.Key...)})
	return nil
}
func (r recorder) Sum() ([]byte, error) { return r.next.Sum() }

// spanDigits writes a span s >= 1 as (s-1) div ChunkSize in base 4096 (least significant digit first) and
// ((s-1) mod ChunkSize) + 1; s = 0 is all zeros.  (TLC integers are 32-bit: a representation, not a computation.)
func spanDigits(s uint64) ([]int, int) {
	if s == 0 {
		return []int{0, 0, 0, 0}, 0
	}
	m, t := (s-1)/boson.ChunkSize, int((s-1)%boson.ChunkSize)+1
	md := make([]int, 4)
	for i := 0; i < 3; i++ {
		md[i] = int(m % 4096)
		m /= 4096
	}
	md[3] = int(m)
	return md, t
}

func runFile(sc kit.Scenario, out *recOut) error {
	r := kit.Rng(int64(sc.Scn))
	out.Begin(sc.Scn, kit.Ev{"kind": "file"})
	ctx := context.Background()
	for _, op := range sc.Ops {
		if kit.Str(op, "op") != "upload" {
			return fmt.Errorf("unknown op %v", op["op"])
		}
		full, last := kit.Int(op, "full"), kit.Int(op, "last")
		st := mapStore{}
		var log []recorded
		short := func() pipeline.ChainWriter {
			lsw := pstore.NewStoreWriter(ctx, st, storage.ModePutUpload, nil)
			return recorder{penc.NewEncryptionWriter(encryption.NewChunkEncrypter(), pbmt.NewBmtWriter(lsw)), &log}
		}
		tw := hashtrie.NewHashTrieWriter(boson.ChunkSize, boson.Branches/2, boson.HashSize+encryption.KeyLength, short)
		lsw := pstore.NewStoreWriter(ctx, st, storage.ModePutUpload, tw)
		top := recorder{penc.NewEncryptionWriter(encryption.NewChunkEncrypter(), pbmt.NewBmtWriter(lsw)), &log}
		w := feeder.NewChunkFeederWriter(boson.ChunkSize, top)
		data := randBytes(r, full*boson.ChunkSize+last)
		_, werr := w.Write(data)
		var root []byte
		var serr error
		if werr == nil {
			root, serr = w.Sum()
		}
		out.Emit(kit.Ev{"op": "upload", "full": full, "last": last, "werr": errs(werr), "err": errs(serr),
			"rootLen": len(root), "chunks": len(log)})
		for _, c := range log {
			span := binary.LittleEndian.Uint64(c.plain[:8])
			md, t := spanDigits(span)
			ref := append(append([]byte{}, c.ref...), c.key...)
			var ch boson.Chunk
			var gerr error
			panicked, msg := kit.Guard(func() {
				ch, gerr = encstore.New(st).Get(ctx, storage.ModeGetRequest, boson.NewAddress(ref))
			})
			ev := kit.Ev{"op": "chunk", "md": md, "t": t, "span": fmt.Sprint(span), "storedLen": len(c.plain) - 8,
				"refLen": len(ref), "panicked": panicked, "panicText": msg, "err": errs(gerr),
				"gotLen": 0, "spanEcho": false, "prefix": false}
			if !panicked && gerr == nil {
				d := ch.Data()
				ev["gotLen"] = len(d)
				ev["spanEcho"] = len(d) >= 8 && bytes.Equal(d[:8], c.plain[:8])
				if len(d) >= 8 {
					n := len(d) - 8
					if n > len(c.plain)-8 {
						n = len(c.plain) - 8
					}
					ev["prefix"] = bytes.Equal(d[8:8+n], c.plain[8:8+n])
				}
			}
			out.Emit(ev)
		}
	}
	return nil
}

func randBytes(r *rand.Rand, n int) []byte {
	b := make([]byte, n)
	r.Read(b)
	return b
}

func errs(e error) string {
	if e == nil {
		return ""
	}
	return e.Error()
}

func runCipher(sc kit.Scenario, out *recOut) error {
	r := kit.Rng(int64(sc.Scn))
	pad := kit.Int(sc.Par, "pad")
	keyNo := kit.Int(sc.Par, "key")
	// three fixed keys per seed
	key := randBytes(kit.Rng(int64(1000+keyNo)), encryption.KeyLength)
	var ctr uint32
	switch kit.Str(sc.Par, "ctr") {
	case "zero":
		ctr = 0
	case "c4096":
		ctr = 4096
	case "max":
		ctr = 0xFFFFFFFF
	default:
		return fmt.Errorf("unknown counter class %v", sc.Par["ctr"])
	}
	enc := encryption.New(key, pad, ctr, sha3.NewLegacyKeccak256)
	dec := encryption.New(key, pad, ctr, sha3.NewLegacyKeccak256)
	out.Begin(sc.Scn, kit.Ev{"kind": "cipher", "pad": pad, "key": keyNo, "ctr": kit.Str(sc.Par, "ctr")})
	var plain, cipher []byte
	have := false
	for _, op := range sc.Ops {
		name := kit.Str(op, "op")
		ev := kit.Ev{"op": name}
		switch name {
		case "enc":
			n := kit.Int(op, "n")
			p := randBytes(r, n)
			var c []byte
			var err error
			panicked, msg := kit.Guard(func() { c, err = enc.Encrypt(p) })
			if panicked {
				err = errors.New("panic: " + msg)
			}
			ev["n"], ev["err"], ev["errText"], ev["outLen"] = n, err != nil, errs(err), len(c)
			if err == nil {
				plain, cipher, have = p, c, true
			}
		case "dec":
			if !have {
				// the model had Encrypt succeed, the code refused: nothing to decrypt (the judge
				// has already charged the enc event; its model follows the observation)
				ev["inLen"], ev["err"], ev["errText"], ev["outLen"], ev["prefix"] = 0, true, "no ciphertext", 0, false
				out.Emit(ev)
				continue
			}
			var d []byte
			var err error
			panicked, msg := kit.Guard(func() { d, err = dec.Decrypt(cipher) })
			if panicked {
				err = errors.New("panic: " + msg)
			}
			ev["inLen"], ev["err"], ev["errText"], ev["outLen"] = len(cipher), err != nil, errs(err), len(d)
			ev["prefix"] = err == nil && len(d) >= len(plain) && bytes.Equal(d[:len(plain)], plain)
		case "resetE":
			enc.Reset()
		case "resetD":
			dec.Reset()
		default:
			return fmt.Errorf("unknown op %v", op["op"])
		}
		out.Emit(ev)
	}
	return nil
}

func runGet(sc kit.Scenario, out *recOut) error {
	r := kit.Rng(int64(sc.Scn))
	out.Begin(sc.Scn, kit.Ev{"kind": "get"})
	for _, op := range sc.Ops {
		if kit.Str(op, "op") != "get" {
			return fmt.Errorf("unknown op %v", op["op"])
		}
		md := kit.IntList(op, "md")
		t, plen := kit.Int(op, "t"), kit.Int(op, "plen")
		if len(md) != 4 {
			return fmt.Errorf("scenario %d: md must have four digits", sc.Scn)
		}
		// span = (d0 + d1*4096 + d2*4096^2 + d3*4096^3) * ChunkSize + t
		var m uint64
		for i := 3; i >= 0; i-- {
			m = m*4096 + uint64(md[i])
		}
		if m > (1<<63-1)/boson.ChunkSize {
			return fmt.Errorf("scenario %d: span does not fit 63 bits", sc.Scn)
		}
		span := m*boson.ChunkSize + uint64(t)
		payload := randBytes(r, plen)
		chunkData := make([]byte, 8+plen)
		binary.LittleEndian.PutUint64(chunkData[:8], span)
		copy(chunkData[8:], payload)

		// what the encrypted writer does with a chunk (pkg/file/pipeline/encryption)
		key, encSpan, encData, err := encryption.NewChunkEncrypter().EncryptChunk(chunkData)
		if err != nil {
			// the writer's own encryption step refused a chunk: logged, not a driver problem
			out.Emit(kit.Ev{"op": "get", "md": md, "t": t, "plen": plen, "span": fmt.Sprint(span), "chunkLen": 0,
				"panicked": false, "panicText": "", "err": "EncryptChunk: " + err.Error(), "gotLen": 0, "spanEcho": false, "prefix": false})
			continue
		}
		stored := append(append([]byte{}, encSpan...), encData...)
		addr := randBytes(r, boson.HashSize)
		st := mapStore{string(addr): boson.NewChunk(boson.NewAddress(addr), stored)}

		ref := append(append([]byte{}, addr...), key...)
		var ch boson.Chunk
		var gerr error
		panicked, msg := kit.Guard(func() {
			ch, gerr = encstore.New(st).Get(context.Background(), storage.ModeGetRequest, boson.NewAddress(ref))
		})
		ev := kit.Ev{"op": "get", "md": md, "t": t, "plen": plen, "span": fmt.Sprint(span),
			"chunkLen": len(stored), "panicked": panicked, "panicText": msg, "err": errs(gerr),
			"gotLen": 0, "spanEcho": false, "prefix": false}
		if !panicked && gerr == nil {
			d := ch.Data()
			ev["gotLen"] = len(d)
			ev["spanEcho"] = len(d) >= 8 && bytes.Equal(d[:8], chunkData[:8])
			if len(d) >= 8 {
				// the bytes that came back, as far as they go, are the bytes supplied
				n := len(d) - 8
				if n > len(payload) {
					n = len(payload)
				}
				ev["prefix"] = bytes.Equal(d[8:8+n], payload[:n])
			}
		}
		out.Emit(ev)
	}
	return nil
}

// recOut collects the events of one scenario (scenarios run side by side; kit.Out is sequential).
type recOut struct {
	begin kit.Ev
	evs   []kit.Ev
}

func (r *recOut) Begin(_ int, fields kit.Ev) { r.begin = fields }
func (r *recOut) Emit(e kit.Ev)              { r.evs = append(r.evs, e) }

func main() {
	kit.Main(func(scs []kit.Scenario, out *kit.Out) error {
		recs := make([]recOut, len(scs))
		errsOf := make([]error, len(scs))
		next := make(chan int)
		var wg sync.WaitGroup
		for w := 0; w < runtime.NumCPU(); w++ {
			wg.Add(1)
			go func() {
				defer wg.Done()
				for i := range next {
					sc := scs[i]
					switch kit.Str(sc.Par, "kind") {
					case "cipher":
						errsOf[i] = runCipher(sc, &recs[i])
					case "get":
						errsOf[i] = runGet(sc, &recs[i])
					case "file":
						errsOf[i] = runFile(sc, &recs[i])
					default:
						errsOf[i] = fmt.Errorf("scenario %d: unknown kind %v", sc.Scn, sc.Par["kind"])
					}
				}
			}()
		}
		for i := range scs {
			next <- i
		}
		close(next)
		wg.Wait()
		for i := range scs {
			if errsOf[i] != nil {
				return errsOf[i]
			}
			out.Begin(scs[i].Scn, recs[i].begin)
			for _, e := range recs[i].evs {
				out.Emit(e)
			}
		}
		return nil
	})
}
