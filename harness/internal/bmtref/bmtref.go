// Package bmtref is an independent evaluator of the hash terms the BMT checks use:
//
//	keccak256(span || R(data zero-padded to the capacity))
//	R(two segments)  = keccak256(left || right)
//	R(2n segments)   = keccak256(R(first n) || R(last n))
//
// It deliberately shares nothing with /repo/pkg/bmt (nor its reference package): plain
// recursion over 32-byte segments with legacy keccak256 from golang.org/x/crypto/sha3.
package bmtref

import "golang.org/x/crypto/sha3"

const SegmentSize = 32

func keccak(parts ...[]byte) []byte {
	h := sha3.NewLegacyKeccak256()
	for _, p := range parts {
		h.Write(p)
	}
	return h.Sum(nil)
}

// CapacitySegments is the number of leaf segments of a tree built for segmentCount segments:
// the next power of two, at least 2.
func CapacitySegments(segmentCount int) int {
	c := 2
	for c < segmentCount {
		c *= 2
	}
	return c
}

// Evaluator hashes data against one tree size.
type Evaluator struct {
	segs  int      // leaf segments (power of two >= 2)
	zeros [][]byte // zeros[k] = root of an all-zero subtree of 2^k segments
}

func New(segmentCount int) *Evaluator {
	e := &Evaluator{segs: CapacitySegments(segmentCount)}
	z := make([]byte, SegmentSize)
	e.zeros = append(e.zeros, z)
	for n := 1; n < e.segs; n *= 2 {
		z = keccak(z, z)
		e.zeros = append(e.zeros, z)
	}
	return e
}

// Capacity in bytes.
func (e *Evaluator) Capacity() int { return e.segs * SegmentSize }

func (e *Evaluator) segment(data []byte, i int) []byte {
	s := make([]byte, SegmentSize)
	lo := i * SegmentSize
	if lo < len(data) {
		copy(s, data[lo:])
	}
	return s
}

// sub is the root of the subtree over segments [lo, lo+n), n = 2^k.
func (e *Evaluator) sub(data []byte, lo, n, k int) []byte {
	if lo*SegmentSize >= len(data) {
		return e.zeros[k]
	}
	if n == 2 {
		return keccak(e.segment(data, lo), e.segment(data, lo+1))
	}
	return keccak(e.sub(data, lo, n/2, k-1), e.sub(data, lo+n/2, n/2, k-1))
}

// Root is the BMT root of data (at most Capacity bytes are looked at) zero-padded to the capacity.
func (e *Evaluator) Root(data []byte) []byte {
	if len(data) > e.Capacity() {
		data = data[:e.Capacity()]
	}
	k := 0
	for n := 1; n < e.segs; n *= 2 {
		k++
	}
	return e.sub(data, 0, e.segs, k)
}

// Digest is keccak256(span || Root(data)).
func (e *Evaluator) Digest(span, data []byte) []byte {
	return keccak(span, e.Root(data))
}
