// Package sched forces a schedule on goroutines of the real code.
//
// The code under test is given harness-supplied dependencies (a state store, a
// settlement stub, a protocol stub).  Every call into such a dependency is a
// *gate*: when the calling goroutine is a registered thread the call parks
// until the controller releases it.  The controller (one goroutine, the driver)
// starts operations, waits until the thread has reached its next gate or has
// returned, and releases gates in the order a TLC behaviour prescribes.  Nothing
// is ordered by wall-clock time.  A thread that is blocked on a lock of the code
// under test is recognised by the state of its goroutine ("sync.Mutex.Lock" in
// the runtime's goroutine dump), not by a timeout; when it moves on later, the
// next Wait/Poll picks it up.
package sched

import (
	"bytes"
	"runtime"
	"strconv"
	"strings"
	"sync"
	"time"
)

// Status of a thread as seen by the controller.
type Status struct {
	Kind  string                 // "gate" | "ret" | "blocked" | "idle"
	Point string                 // gate name
	Info  map[string]interface{} // what the gate saw (arguments of the dependency call)
	Ret   interface{}            // result of the operation (Kind == "ret")
}

type release struct {
	err error
	val interface{}
}

type thread struct {
	id      int
	gid     uint64
	notify  chan Status
	rel     chan release
	parked  bool
	running bool
	last    Status
}

// Ctl is the controller.
type Ctl struct {
	mu      sync.Mutex
	byGid   map[uint64]*thread
	threads map[int]*thread
	// Grace bounds how long a thread may be neither at a gate, nor returned, nor blocked on a mutex ("stuck").
	Grace time.Duration
	dead  bool
	// proxy: gates named in proxyPoints that are reached by goroutines which are not registered threads are
	// attributed to this thread (an operation that hands its work to goroutines it spawns, e.g. a refresh
	// running one worker per peer); proxyMatch identifies those workers in a goroutine dump
	proxy       int
	proxyPoints map[string]bool
	proxyMatch  string
}

// SetProxy: see Ctl.proxy.  id 0 switches it off.
func (c *Ctl) SetProxy(id int, match string, points ...string) {
	c.mu.Lock()
	defer c.mu.Unlock()
	c.proxy, c.proxyMatch = id, match
	c.proxyPoints = map[string]bool{}
	for _, p := range points {
		c.proxyPoints[p] = true
	}
}

func New() *Ctl {
	return &Ctl{byGid: map[uint64]*thread{}, threads: map[int]*thread{}, Grace: 20 * time.Second}
}

func gid() uint64 {
	var b [64]byte
	n := runtime.Stack(b[:], false)
	// "goroutine 123 [running]:"
	s := b[10:n]
	i := 0
	for i < len(s) && s[i] >= '0' && s[i] <= '9' {
		i++
	}
	v, _ := strconv.ParseUint(string(s[:i]), 10, 64)
	return v
}

// Gate is called by a harness-supplied dependency.  When the caller is a
// registered thread it parks until released and returns what the controller
// passed to Release; for any other goroutine it returns (nil, nil, false) at once.
func (c *Ctl) Gate(point string, info map[string]interface{}) (val interface{}, err error, gated bool) {
	g := gid()
	c.mu.Lock()
	t := c.byGid[g]
	if t == nil && c.proxy != 0 && c.proxyPoints[point] {
		if pt := c.threads[c.proxy]; pt != nil && pt.running {
			t = pt
		}
	}
	if t == nil || c.dead {
		c.mu.Unlock()
		return nil, nil, false
	}
	t.parked = true
	c.mu.Unlock()
	t.notify <- Status{Kind: "gate", Point: point, Info: info}
	r := <-t.rel
	return r.val, r.err, true
}

// Start runs f as the next operation of thread id (in a fresh goroutine).
func (c *Ctl) Start(id int, f func() interface{}) {
	c.mu.Lock()
	t := c.threads[id]
	if t == nil {
		t = &thread{id: id, notify: make(chan Status, 4), rel: make(chan release, 1)}
		c.threads[id] = t
	}
	t.running = true
	c.mu.Unlock()
	ready := make(chan struct{})
	go func() {
		g := gid()
		c.mu.Lock()
		t.gid = g
		c.byGid[g] = t
		c.mu.Unlock()
		close(ready)
		r := f()
		c.mu.Lock()
		delete(c.byGid, g)
		c.mu.Unlock()
		t.notify <- Status{Kind: "ret", Ret: r}
	}()
	<-ready
}

// Wait waits until the thread reaches a gate or returns; "blocked" after Grace.
func (c *Ctl) Wait(id int) Status {
	return c.wait(id, true)
}

// Poll is Wait without waiting.
func (c *Ctl) Poll(id int) Status {
	return c.wait(id, false)
}

func (c *Ctl) wait(id int, block bool) Status {
	c.mu.Lock()
	t := c.threads[id]
	grace := c.Grace
	if t == nil || !t.running {
		c.mu.Unlock()
		return Status{Kind: "idle"}
	}
	reported := t.last.Kind == "gate"
	last := t.last
	g := t.gid
	match := ""
	if c.proxy == id {
		match = c.proxyMatch
	}
	c.mu.Unlock()
	if reported || !block {
		select {
		case s := <-t.notify:
			return c.note(t, s)
		default:
			if reported {
				return last // still parked at the gate already reported
			}
			return Status{Kind: "blocked"}
		}
	}
	// phase 1: the thread normally shows up within microseconds
	select {
	case s := <-t.notify:
		return c.note(t, s)
	case <-time.After(300 * time.Microsecond):
	}
	// phase 2: positive observation of "blocked on a mutex of the code under test" (goroutine state),
	// never a guess from elapsed time; Grace only bounds how long a thread may stay unaccounted for
	end := time.Now().Add(grace)
	for {
		select {
		case s := <-t.notify:
			return c.note(t, s)
		default:
		}
		if onMutex(g, match) {
			// settle: it may have been granted the mutex in this very instant
			select {
			case s := <-t.notify:
				return c.note(t, s)
			case <-time.After(200 * time.Microsecond):
			}
			if onMutex(g, match) {
				return Status{Kind: "blocked"}
			}
		}
		if time.Now().After(end) {
			return Status{Kind: "stuck"}
		}
		time.Sleep(100 * time.Microsecond)
	}
}

var (
	dumpMu  sync.Mutex
	dumpBuf = make([]byte, 1<<18)
)

// onMutex reports whether goroutine g is waiting for a sync.Mutex / semaphore -- or, when g waits for workers it
// spawned (sync.WaitGroup.Wait) and match is set, whether such a worker (a goroutine whose stack mentions match)
// is waiting for a mutex.
func onMutex(g uint64, match string) bool {
	dumpMu.Lock()
	defer dumpMu.Unlock()
	var buf []byte
	for {
		n := runtime.Stack(dumpBuf, true)
		if n < len(dumpBuf) {
			buf = dumpBuf[:n]
			break
		}
		dumpBuf = make([]byte, 2*len(dumpBuf))
	}
	hdr := []byte("goroutine " + strconv.FormatUint(g, 10) + " [")
	i := bytes.Index(buf, hdr)
	if i < 0 {
		return false
	}
	rest := buf[i+len(hdr):]
	k := bytes.IndexByte(rest, ']')
	if k < 0 {
		return false
	}
	state := string(rest[:k])
	if lockState(state) {
		return true
	}
	if match == "" || !strings.HasPrefix(state, "sync.WaitGroup.Wait") {
		return false
	}
	for _, blk := range bytes.Split(buf, []byte("\n\n")) {
		if !bytes.HasPrefix(blk, []byte("goroutine ")) {
			continue
		}
		a := bytes.IndexByte(blk, '[')
		b := bytes.IndexByte(blk, ']')
		if a < 0 || b < a {
			continue
		}
		if lockState(string(blk[a+1:b])) && bytes.Contains(blk, []byte(match)) {
			return true
		}
	}
	return false
}

func lockState(state string) bool {
	return strings.HasPrefix(state, "sync.Mutex.Lock") || strings.HasPrefix(state, "semacquire") ||
		strings.HasPrefix(state, "sync.RWMutex")
}
func (c *Ctl) note(t *thread, s Status) Status {
	c.mu.Lock()
	defer c.mu.Unlock()
	t.last = s
	if s.Kind == "ret" {
		t.running = false
		t.parked = false
	}
	return s
}

// Parked reports whether the thread sits at a gate (and which).
func (c *Ctl) Parked(id int) (bool, Status) {
	c.mu.Lock()
	defer c.mu.Unlock()
	t := c.threads[id]
	if t == nil || !t.running || !t.parked || t.last.Kind != "gate" {
		return false, Status{}
	}
	return true, t.last
}

// Running reports whether the thread has an operation in flight.
func (c *Ctl) Running(id int) bool {
	c.mu.Lock()
	defer c.mu.Unlock()
	t := c.threads[id]
	return t != nil && t.running
}

// AnyRunning reports whether any thread has an operation in flight.
func (c *Ctl) AnyRunning() bool {
	c.mu.Lock()
	defer c.mu.Unlock()
	for _, t := range c.threads {
		if t.running {
			return true
		}
	}
	return false
}

// Release lets a parked thread continue; the dependency call returns (val, err).
func (c *Ctl) Release(id int, val interface{}, err error) bool {
	c.mu.Lock()
	t := c.threads[id]
	if t == nil || !t.running || !t.parked || t.last.Kind != "gate" {
		c.mu.Unlock()
		return false
	}
	t.parked = false
	t.last = Status{}
	c.mu.Unlock()
	t.rel <- release{val: val, err: err}
	return true
}

// Kill ends forcing: every parked gate returns err, later gates pass through.
// Threads still running are given a moment to finish; they are abandoned otherwise.
func (c *Ctl) Kill(err error) {
	c.mu.Lock()
	c.dead = true
	var ts []*thread
	for _, t := range c.threads {
		ts = append(ts, t)
	}
	c.mu.Unlock()
	for _, t := range ts {
		// drain a pending arrival that was never consumed
		select {
		case s := <-t.notify:
			c.note(t, s)
		default:
		}
		c.mu.Lock()
		parked := t.running && t.parked
		t.parked = false
		c.mu.Unlock()
		if parked {
			t.rel <- release{err: err}
		}
	}
	end := time.Now().Add(2 * time.Second)
	for _, t := range ts {
		for {
			c.mu.Lock()
			running := t.running
			c.mu.Unlock()
			if !running {
				break
			}
			select {
			case s := <-t.notify:
				c.note(t, s)
				if s.Kind == "gate" {
					// arrived after the kill raced: let it go
					c.mu.Lock()
					t.parked = false
					c.mu.Unlock()
					t.rel <- release{err: err}
				}
				continue
			case <-time.After(time.Until(end)):
				c.mu.Lock()
				t.running = false
				c.mu.Unlock()
			}
			break
		}
	}
}
