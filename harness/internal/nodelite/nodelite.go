// Package nodelite wires the storage side of an AuroraFS node in-process the
// way pkg/node/node.go does: real localstore + netstore + retrieval +
// traversal + pinning + chunkinfo + api, joined to a peer node by in-memory
// streams (streamtest.Recorder in each direction). Route table, accounting,
// chain oracle and resolver are the repository's mocks.
package nodelite

import (
	"bytes"
	"context"
	"encoding/json"
	"fmt"
	"io/ioutil"
	"net/http"
	"math/big"
	"net/http/httptest"
	"time"

	"github.com/gauss-project/aurorafs/pkg/accounting"
	accmock "github.com/gauss-project/aurorafs/pkg/accounting/mock"
	"github.com/gauss-project/aurorafs/pkg/api"
	"github.com/gauss-project/aurorafs/pkg/boson"
	"github.com/gauss-project/aurorafs/pkg/chunkinfo"
	"github.com/gauss-project/aurorafs/pkg/localstore"
	"github.com/gauss-project/aurorafs/pkg/logging"
	"github.com/gauss-project/aurorafs/pkg/netstore"
		"github.com/gauss-project/aurorafs/pkg/pinning"
	resolvermock "github.com/gauss-project/aurorafs/pkg/resolver/mock"
	"github.com/gauss-project/aurorafs/pkg/retrieval"
	"github.com/gauss-project/aurorafs/pkg/routetab"
	rmock "github.com/gauss-project/aurorafs/pkg/routetab/mock"
	"github.com/gauss-project/aurorafs/pkg/settlement"
	omock "github.com/gauss-project/aurorafs/pkg/settlement/chain/oracle/mock"
	ldbstate "github.com/gauss-project/aurorafs/pkg/statestore/leveldb"
	"github.com/gauss-project/aurorafs/pkg/storage"
	"github.com/gauss-project/aurorafs/pkg/subscribe"
	"github.com/gauss-project/aurorafs/pkg/tracing"
	"github.com/gauss-project/aurorafs/pkg/traversal"

	"verifharness/internal/swb"
)

// HugeCapacity keeps the background GC worker asleep; collection is run
// synchronously through the verif hook with the capacity of the scenario.
const HugeCapacity = 1 << 40

// Node is one in-process node.
type Node struct {
	Addr   boson.Address
	Dir    string // localstore path ("" = in memory)
	State  storage.StateStorer
	Store  *localstore.DB
	NS     *netstore.Store
	Trav   traversal.Traverser
	Pin    *pinning.Service
	CI     *chunkinfo.ChunkInfo
	Retr   *retrieval.Service
	API    http.Handler
	Port   *swb.Port
	Logger logging.Logger
	srv    api.Service
	// Acc is the real accounting (only with Options.Settlement), before any wrapping.
	Acc  *accounting.Accounting
	opts Options
}

// Options select alternatives to the default wiring (all optional; the zero
// value is the wiring of New).
type Options struct {
	// Settlement, when set, makes the node use the REAL accounting.Accounting
	// (payment tolerance / threshold below) on top of this settlement layer
	// instead of the repository's accounting mock.
	Settlement settlement.Interface
	Tolerance  *big.Int
	Threshold  *big.Int
	// WrapAccounting may wrap the accounting handed to retrieval (recording).
	WrapAccounting func(accounting.Interface) accounting.Interface
	// WrapStorer may wrap the storer handed to retrieval (recording); netstore,
	// traversal and chunkinfo keep the bare local store.
	WrapStorer func(storage.Storer) storage.Storer
	// WrapChunkInfo may wrap the chunk-info service handed to retrieval.
	WrapChunkInfo func(*chunkinfo.ChunkInfo) chunkinfo.Interface
	// Route, when set, replaces the node's route-table mock.
	Route routetab.RouteTab
	// StoreDriver, when set, is passed to localstore as Options.Driver (e.g.
	// `leveldb:{"WriteBuffer":65536}`: an in-memory store otherwise zeroes a large write buffer per open).
	StoreDriver string
}

// NewWithOptions builds a node like New with the alternatives of o.
func NewWithOptions(board *swb.Board, addr boson.Address, dir string, state storage.StateStorer, logger logging.Logger, o Options) (*Node, error) {
	n := &Node{Addr: addr, Dir: dir, State: state, Logger: logger, Port: board.Port(addr), opts: o}
	if n.State == nil {
		st, err := ldbstate.NewInMemoryStateStore(logger)
		if err != nil {
			return nil, err
		}
		n.State = st
	}
	if err := n.start(); err != nil {
		return nil, err
	}
	return n, nil
}

// New builds a node. state may be nil (fresh in-memory LevelDB state store).
func New(board *swb.Board, addr boson.Address, dir string, state storage.StateStorer, logger logging.Logger) (*Node, error) {
	n := &Node{Addr: addr, Dir: dir, State: state, Logger: logger, Port: board.Port(addr)}
	if n.State == nil {
		st, err := ldbstate.NewInMemoryStateStore(logger)
		if err != nil {
			return nil, err
		}
		n.State = st
	}
	if err := n.start(); err != nil {
		return nil, err
	}
	return n, nil
}

func (n *Node) start() error {
	var err error
	n.Store, err = localstore.New(n.Dir, n.Addr.Bytes(), &localstore.Options{Capacity: HugeCapacity, Driver: n.opts.StoreDriver}, n.Logger)
	if err != nil {
		return err
	}
	mroute := rmock.NewMockRouteTable()
	var route routetab.RouteTab = &mroute
	if n.opts.Route != nil {
		route = n.opts.Route
	}
	var acc accounting.Interface = accmock.NewAccounting()
	if n.opts.Settlement != nil {
		n.Acc = accounting.NewAccounting(n.opts.Tolerance, n.opts.Threshold, n.Logger, n.State, n.opts.Settlement)
		acc = n.Acc
	}
	if n.opts.WrapAccounting != nil {
		acc = n.opts.WrapAccounting(acc)
	}
	var rstore storage.Storer = n.Store
	if n.opts.WrapStorer != nil {
		rstore = n.opts.WrapStorer(n.Store)
	}
	subPub := subscribe.NewSubPub()
	tracer, _, err := tracing.NewTracer(&tracing.Options{Enabled: false})
	if err != nil {
		return err
	}
	n.Retr = retrieval.New(n.Addr, n.Port, route, rstore, true, n.Logger, tracer, acc, subPub)
	n.NS = netstore.New(n.Store, n.Retr, n.Logger, n.Addr)
	n.Trav = traversal.New(n.NS)
	n.Pin = pinning.NewService(n.Store, n.State, n.Trav)
	n.CI = chunkinfo.New(n.Addr, n.Port, n.Logger, n.Trav, n.State, n.NS, route, omock.NewServer(), resolvermock.NewResolver(), subPub)
	if err := n.CI.InitChunkInfo(); err != nil {
		return err
	}
	n.Store.SetChunkInfo(n.CI)
	n.NS.SetChunkInfo(n.CI)
	if n.opts.WrapChunkInfo != nil {
		n.Retr.Config(n.opts.WrapChunkInfo(n.CI))
	} else {
		n.Retr.Config(n.CI)
	}
	n.srv = api.New(n.NS, resolvermock.NewResolver(), n.Addr, n.CI, n.Trav, n.Pin, nil, n.Logger, tracer, nil, nil,
		omock.NewServer(), nil, nil, api.Options{BufferSizeMul: 8})
	n.API = n.srv
	n.Port.SetProtocols(n.CI.Protocol(), n.Retr.Protocol())
	return nil
}

// Restart closes the local store and rebuilds every service on the same
// on-disk store and the same state store (what a process restart does).
func (n *Node) Restart() error {
	n.Store.VerifWaitUpdateGC()
	if err := n.Store.Close(); err != nil {
		return err
	}
	return n.start()
}

// Close releases the node.
func (n *Node) Close() {
	n.Store.VerifWaitUpdateGC()
	_ = n.Store.Close()
	_ = n.State.Close()
}

// Do performs an API request against the node and returns status and body.
func (n *Node) Do(method, url string, hdr map[string]string, body []byte) (int, []byte) {
	req := httptest.NewRequest(method, url, bytes.NewReader(body))
	for k, v := range hdr {
		req.Header.Set(k, v)
	}
	w := httptest.NewRecorder()
	n.API.ServeHTTP(w, req)
	res := w.Result()
	defer res.Body.Close()
	b, _ := ioutil.ReadAll(res.Body)
	return res.StatusCode, b
}

// Upload posts a file (POST /aurora?name=…); returns the manifest reference.
func (n *Node) Upload(name string, content []byte, pin, encrypt bool) (boson.Address, int, error) {
	hdr := map[string]string{"Content-Type": "application/octet-stream"}
	if pin {
		hdr["Aurora-Pin"] = "true"
	}
	if encrypt {
		hdr["Aurora-Encrypt"] = "true"
	}
	code, body := n.Do(http.MethodPost, "/aurora?name="+name, hdr, content)
	if code != http.StatusCreated {
		return boson.ZeroAddress, code, fmt.Errorf("upload: status %d: %s", code, body)
	}
	var r struct {
		Reference boson.Address `json:"reference"`
	}
	if err := json.Unmarshal(body, &r); err != nil {
		return boson.ZeroAddress, code, err
	}
	return r.Reference, code, nil
}

// Download gets /aurora/{ref}[?targets=…]; returns status and content.
func (n *Node) Download(ref boson.Address, target *boson.Address) (int, []byte) {
	url := "/aurora/" + ref.String() + "/"
	if target != nil {
		url += "?targets=" + target.String()
	}
	return n.Do(http.MethodGet, url, nil, nil)
}

// Settle waits for asynchronous bookkeeping (access updates) to finish.
func (n *Node) Settle() {
	time.Sleep(time.Millisecond)
	n.Store.VerifWaitUpdateGC()
}

var _ = context.Background
