// Package crashdb is a fault-enumerating storage driver for pkg/shed, registered
// through the exported driver registry under the name "verifcrash". It wraps the
// repository's in-memory LevelDB driver, appends every storage write (a direct
// Put/Delete, or the commit of a batch with all its operations) to a log, and can
// rebuild the database that a crash after the first k writes would leave behind.
package crashdb

import (
	"fmt"
	"sync"

	"github.com/gauss-project/aurorafs/pkg/shed"
	"github.com/gauss-project/aurorafs/pkg/shed/driver"
	"github.com/gauss-project/aurorafs/pkg/shed/leveldb"
)

const Name = "verifcrash"

// W is one key operation.
type W struct {
	Key driver.Key
	Val []byte
	Del bool
}

// Entry is one atomic storage write: a direct write (one op) or a batch commit.
type Entry struct {
	Batch bool
	Ops   []W
}

// Log is the ordered list of atomic writes of one database.
type Log struct {
	mu      sync.Mutex
	Entries []Entry
}

func (l *Log) add(e Entry) {
	l.mu.Lock()
	l.Entries = append(l.Entries, e)
	l.mu.Unlock()
}

// Len is the number of atomic writes so far.
func (l *Log) Len() int {
	l.mu.Lock()
	defer l.mu.Unlock()
	return len(l.Entries)
}

// Prefix copies the first n entries.
func (l *Log) Prefix(n int) []Entry {
	l.mu.Lock()
	defer l.mu.Unlock()
	return append([]Entry(nil), l.Entries[:n]...)
}

var (
	regMu   sync.Mutex
	pending = map[string]*DB{}
	nextID  int
	once    sync.Once
)

type drv struct{}

func (drv) Open(dsn, options string) (driver.DB, error) {
	regMu.Lock()
	defer regMu.Unlock()
	db, ok := pending[options]
	if !ok {
		return nil, fmt.Errorf("crashdb: no prepared database %q", options)
	}
	delete(pending, options)
	return db, nil
}

// Prepare builds a database holding the given entries and returns the driver
// string to pass in localstore.Options.Driver / shed.Options.Driver, plus the log
// that will record the writes made from now on.
func Prepare(entries []Entry) (string, *Log, error) {
	once.Do(func() { shed.Register(Name, drv{}) })
	inner, err := leveldb.Driver{}.Open("", "")
	if err != nil {
		return "", nil, err
	}
	bdb := inner.(driver.BatchDB)
	for _, e := range entries {
		if e.Batch {
			b := bdb.NewBatch()
			for _, w := range e.Ops {
				if w.Del {
					err = b.Delete(w.Key)
				} else {
					err = b.Put(w.Key, driver.Value{Data: w.Val})
				}
				if err != nil {
					return "", nil, err
				}
			}
			if err = b.Commit(); err != nil {
				return "", nil, err
			}
			continue
		}
		for _, w := range e.Ops {
			if w.Del {
				err = bdb.Delete(w.Key)
			} else {
				err = bdb.Put(w.Key, driver.Value{Data: w.Val})
			}
			if err != nil {
				return "", nil, err
			}
		}
	}
	regMu.Lock()
	nextID++
	id := fmt.Sprintf("db%d", nextID)
	log := &Log{}
	pending[id] = &DB{BatchDB: bdb, log: log}
	regMu.Unlock()
	return Name + ":" + id, log, nil
}

// DB records writes and forwards everything to the wrapped LevelDB.
type DB struct {
	driver.BatchDB
	log *Log
}

func cp(b []byte) []byte { return append([]byte(nil), b...) }

func (d *DB) Put(key driver.Key, value driver.Value) error {
	d.log.add(Entry{Ops: []W{{Key: driver.Key{Prefix: key.Prefix, Data: cp(key.Data)}, Val: cp(value.Data)}}})
	return d.BatchDB.Put(key, value)
}

func (d *DB) Delete(key driver.Key) error {
	d.log.add(Entry{Ops: []W{{Key: driver.Key{Prefix: key.Prefix, Data: cp(key.Data)}, Del: true}}})
	return d.BatchDB.Delete(key)
}

func (d *DB) NewBatch() driver.Batching {
	return &batch{db: d, inner: d.BatchDB.NewBatch()}
}

type batch struct {
	db    *DB
	inner driver.Batching
	ops   []W
}

func (b *batch) Put(key driver.Key, value driver.Value) error {
	b.ops = append(b.ops, W{Key: driver.Key{Prefix: key.Prefix, Data: cp(key.Data)}, Val: cp(value.Data)})
	return b.inner.Put(key, value)
}

func (b *batch) Delete(key driver.Key) error {
	b.ops = append(b.ops, W{Key: driver.Key{Prefix: key.Prefix, Data: cp(key.Data)}, Del: true})
	return b.inner.Delete(key)
}

func (b *batch) Commit() error {
	if len(b.ops) > 0 {
		b.db.log.add(Entry{Batch: true, Ops: b.ops})
	}
	return b.inner.Commit()
}
