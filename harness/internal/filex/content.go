package filex

import (
	"bytes"
	"context"
	"encoding/binary"
	"sync"

	"github.com/gauss-project/aurorafs/pkg/boson"
	"github.com/gauss-project/aurorafs/pkg/storage"
)

// Content is a seeded pseudo-random byte string of a given size with random access: the 8-byte word w of
// the string is splitmix64(seed + w).  Small contents are materialised, large ones regenerated on demand.
type Content struct {
	Seed uint64
	Size int64
	mem  []byte
}

func splitmix(x uint64) uint64 {
	x += 0x9E3779B97F4A7C15
	x = (x ^ (x >> 30)) * 0xBF58476D1CE4E5B9
	x = (x ^ (x >> 27)) * 0x94D049BB133111EB
	return x ^ (x >> 31)
}

// NewContent builds the content; sizes up to materialiseMax are kept in memory.
func NewContent(seed uint64, size int64) *Content {
	c := &Content{Seed: splitmix(seed) | 1, Size: size}
	const materialiseMax = 64 << 20
	if size <= materialiseMax {
		c.mem = make([]byte, size)
		c.gen(c.mem, 0)
	}
	return c
}

func (c *Content) gen(dst []byte, off int64) {
	var w [8]byte
	i := 0
	if off%8 == 0 { // aligned fast path
		for ; i+8 <= len(dst); i += 8 {
			binary.LittleEndian.PutUint64(dst[i:], splitmix(c.Seed+(uint64(off+int64(i))/8)*0x2545F4914F6CDD1D))
		}
	}
	for i < len(dst) {
		word := uint64(off+int64(i)) / 8
		binary.LittleEndian.PutUint64(w[:], splitmix(c.Seed+word*0x2545F4914F6CDD1D))
		in := int((off + int64(i)) % 8)
		i += copy(dst[i:], w[in:])
	}
}

// Fill dst with the bytes [off, off+len(dst)) of the content (bytes beyond Size are not defined; callers
// never ask for them).
func (c *Content) Fill(dst []byte, off int64) {
	if c.mem != nil {
		copy(dst, c.mem[off:off+int64(len(dst))])
		return
	}
	c.gen(dst, off)
}

// Equal reports whether got equals the content bytes [off, off+len(got)).
func (c *Content) Equal(got []byte, off int64) bool {
	if len(got) == 0 {
		return true
	}
	if off < 0 || off+int64(len(got)) > c.Size {
		return false
	}
	want := make([]byte, len(got))
	c.Fill(want, off)
	for i := range got {
		if got[i] != want[i] {
			return false
		}
	}
	return true
}

// PutRec is one recorded Put: span read from the first 8 bytes of the chunk data, and the payload length.
type PutRec struct {
	Span uint64
	Plen int
}

// Store is an in-memory chunk store that records every Put in order.  Like shed/localstore (and the
// repository's own storage mock, which documents why) it copies the chunk data: the chunk feeder reuses its
// buffer across the chunks of one Write call.
type Store struct {
	mu    sync.Mutex
	m     map[string][]byte
	Puts  []PutRec
	Gets  int
}

func NewStore() *Store { return &Store{m: make(map[string][]byte)} }

func (s *Store) Put(_ context.Context, _ storage.ModePut, chs ...boson.Chunk) ([]bool, error) {
	s.mu.Lock()
	defer s.mu.Unlock()
	exist := make([]bool, len(chs))
	for i, ch := range chs {
		k := string(ch.Address().Bytes())
		_, exist[i] = s.m[k]
		d := ch.Data()
		b := make([]byte, len(d))
		copy(b, d)
		s.m[k] = b
		var sp uint64
		if len(d) >= 8 {
			sp = binary.LittleEndian.Uint64(d[:8])
		}
		pl := len(d) - 8
		if pl < 0 {
			pl = -1
		}
		s.Puts = append(s.Puts, PutRec{sp, pl})
	}
	return exist, nil
}

func (s *Store) Get(_ context.Context, _ storage.ModeGet, addr boson.Address) (boson.Chunk, error) {
	s.mu.Lock()
	defer s.mu.Unlock()
	s.Gets++
	v, ok := s.m[string(addr.Bytes())]
	if !ok {
		return nil, storage.ErrNotFound
	}
	return boson.NewChunk(addr, v), nil
}

// Holds reports whether the chunk stored under addr is exactly le64(span) || payload.
func (s *Store) Holds(addr []byte, span uint64, payload []byte) bool {
	s.mu.Lock()
	v, ok := s.m[string(addr)]
	s.mu.Unlock()
	if !ok || len(v) != len(payload)+8 || binary.LittleEndian.Uint64(v[:8]) != span {
		return false
	}
	return bytes.Equal(v[8:], payload)
}

// Len is the number of distinct chunks held.
func (s *Store) Len() int {
	s.mu.Lock()
	defer s.mu.Unlock()
	return len(s.m)
}

// PutRecs run-length encodes the recorded Puts in the record format of the evaluator.
func (s *Store) PutRecs() [][]int {
	s.mu.Lock()
	defer s.mu.Unlock()
	recs := make([]Rec, 0, len(s.Puts))
	for _, p := range s.Puts {
		sp := Split(int64(p.Span))
		recs = append(recs, Rec{sp[0], sp[1], p.Plen, 1})
	}
	return Compact(recs)
}
