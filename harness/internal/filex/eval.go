// Package filex holds what the file-family driver (cmd/filedrv) needs besides the code under test:
// seeded content, a recording chunk store, and an INDEPENDENT evaluator of tree-hash terms.
//
// The evaluator interprets a tree *shape* that TLC emitted (grouping, spans, carry are all decided in
// TLA+, spec/filetree/FileTree.tla) and maps
//
//	leaf  (len)            -> keccak256( le64(len)  || BMTroot(data) )
//	node  (span, children) -> keccak256( le64(span) || BMTroot(ref(child1) || ... || ref(childk)) )
//
// with its own keccak (golang.org/x/crypto/sha3, legacy Keccak-256) and its own BMT root: the binary
// Merkle tree over the 8192 32-byte segments of the payload zero-padded to 256 KiB, every inner node
// being keccak256(left || right).  Nothing of /repo is called here.
package filex

import (
	"encoding/binary"
	"encoding/hex"
	"fmt"
	"hash"
	"runtime"
	"sync"

	"golang.org/x/crypto/sha3"
)

const (
	segSize  = 32
	segCount = 8192 // 8192 * 32 = 256 KiB
	bmtDepth = 13   // 2^13 = 8192
)

// keccak is a reusable legacy Keccak-256 state (Read squeezes the digest without copying the state).
type keccak interface {
	hash.Hash
	Read([]byte) (int, error)
}

func newKeccak() keccak { return sha3.NewLegacyKeccak256().(keccak) }

// Keccak256 of the concatenation of the parts.
func Keccak256(parts ...[]byte) []byte {
	h := newKeccak()
	for _, p := range parts {
		h.Write(p)
	}
	out := make([]byte, 32)
	h.Read(out)
	return out
}

// zero[k] = BMT root of a subtree of 2^k zero segments (zero[0] = 32 zero bytes).
var zero = func() [bmtDepth + 1][]byte {
	var z [bmtDepth + 1][]byte
	z[0] = make([]byte, segSize)
	for k := 1; k <= bmtDepth; k++ {
		z[k] = Keccak256(z[k-1], z[k-1])
	}
	return z
}()

// hasher computes BMT roots level by level in a scratch buffer.
type hasher struct {
	h       keccak
	scratch []byte // the nodes of the current level that cover data, 32 bytes each
}

func newHasher() *hasher { return &hasher{h: newKeccak(), scratch: make([]byte, segSize*segCount/2)} }

// root of the binary Merkle tree over the 8192 segments of payload zero-padded to 256 KiB: level 1 hashes pairs
// of segments, every further level pairs of nodes; a subtree that covers no payload byte is zero[its height].
func (b *hasher) root(payload []byte) []byte {
	if len(payload) > segSize*segCount {
		panic("filex: payload longer than 256 KiB")
	}
	if len(payload) == 0 {
		return zero[bmtDepth]
	}
	nseg := (len(payload) + segSize - 1) / segSize
	cnt := (nseg + 1) / 2
	var block [2 * segSize]byte
	for i := 0; i < cnt; i++ {
		lo, hi := 2*segSize*i, 2*segSize*(i+1)
		in := block[:]
		if hi <= len(payload) {
			in = payload[lo:hi]
		} else {
			block = [2 * segSize]byte{}
			copy(block[:], payload[lo:])
		}
		b.h.Reset()
		b.h.Write(in)
		b.h.Read(b.scratch[segSize*i : segSize*(i+1)])
	}
	for k := 1; k < bmtDepth; k++ { // scratch holds cnt nodes of height k
		n2 := (cnt + 1) / 2
		for i := 0; i < n2; i++ {
			b.h.Reset()
			b.h.Write(b.scratch[2*segSize*i : 2*segSize*i+segSize])
			if 2*i+1 < cnt {
				b.h.Write(b.scratch[2*segSize*i+segSize : 2*segSize*(i+1)])
			} else {
				b.h.Write(zero[k])
			}
			b.h.Read(b.scratch[segSize*i : segSize*(i+1)]) // writes trail the reads
		}
		cnt = n2
	}
	return b.scratch[:segSize]
}

func (b *hasher) addr(span uint64, payload []byte) []byte {
	var sp [8]byte
	binary.LittleEndian.PutUint64(sp[:], span)
	r := b.root(payload)
	b.h.Reset()
	b.h.Write(sp[:])
	b.h.Write(r)
	out := make([]byte, 32)
	b.h.Read(out)
	return out
}

// BMTRoot of a payload of at most 256 KiB.
func BMTRoot(payload []byte) []byte {
	return append([]byte(nil), newHasher().root(payload)...)
}

// ChunkAddr is the address of a content-addressed chunk with the given span and payload.
func ChunkAddr(span uint64, payload []byte) []byte { return newHasher().addr(span, payload) }

// Rec is one chunk record: span split base 262144, payload length, repetition count.
type Rec [4]int

// Base of the split representation of 64-bit numbers (TLC integers are 32 bit).
const Base = 262144

// Split v = q*Base + r with 0 <= r < Base (floor division, so negative values are representable).
func Split(v int64) []int {
	q := v / Base
	r := v % Base
	if r < 0 {
		r += Base
		q--
	}
	return []int{int(q), int(r)}
}

// Join is the inverse of Split.
func Join(p []int) int64 {
	if len(p) != 2 {
		return 0
	}
	return int64(p[0])*Base + int64(p[1])
}

// Compact run-length encodes adjacent equal records.
func Compact(in []Rec) [][]int {
	out := [][]int{}
	for _, r := range in {
		if n := len(out); n > 0 && out[n-1][0] == r[0] && out[n-1][1] == r[1] && out[n-1][2] == r[2] {
			out[n-1][3] += r[3]
			continue
		}
		out = append(out, []int{r[0], r[1], r[2], r[3]})
	}
	return out
}

// Source gives the bytes [off, off+len(dst)) of the content a shape is evaluated on.
type Source interface {
	Fill(dst []byte, off int64)
}

// EvalResult is what the evaluation of a shape yields.
type EvalResult struct {
	Ref    []byte
	Nodes  []Rec // post-order chunk records of the evaluated shape
	Leaves int64 // number of leaf chunks
	Bytes  int64 // bytes consumed by the leaves
}

// Visit is called for every chunk of the evaluated shape (concurrently for leaves) with the chunk's address, span
// and payload; the payload slice is only valid during the call.
type Visit func(addr []byte, span uint64, payload []byte)

type evaluator struct {
	src   Source
	off   int64
	nodes []Rec
	nleaf int64
	visit Visit
}

// Eval interprets a shape (decoded JSON as emitted by TLC):
//
//	{"l": len, "x": count}            count consecutive leaves of len bytes each
//	{"q":..,"r":..,"c":[shape...]}     an intermediate chunk with span q*262144+r over the children
//
// A shape list denotes the concatenation of the references of its members.
func Eval(shape interface{}, src Source, visit Visit) (res EvalResult, err error) {
	defer func() {
		if r := recover(); r != nil {
			err = fmt.Errorf("eval: %v", r)
		}
	}()
	e := &evaluator{src: src, visit: visit}
	refs := e.eval(shape)
	if len(refs) != 1 {
		return res, fmt.Errorf("eval: shape denotes %d references, want 1", len(refs))
	}
	return EvalResult{Ref: refs[0], Nodes: e.nodes, Leaves: e.nleaf, Bytes: e.off}, nil
}

func num(m map[string]interface{}, k string) int64 {
	f, ok := m[k].(float64)
	if !ok {
		panic("shape: missing number " + k)
	}
	return int64(f)
}

func (e *evaluator) eval(shape interface{}) [][]byte {
	m, ok := shape.(map[string]interface{})
	if !ok {
		panic("shape: not an object")
	}
	if _, isLeaf := m["l"]; isLeaf {
		l, x := num(m, "l"), num(m, "x")
		if l < 0 || l > segSize*segCount || x < 1 {
			panic("shape: bad leaf run")
		}
		refs := make([][]byte, x)
		first := e.off
		// leaves are independent: hash them on all cores
		var wg sync.WaitGroup
		workers := runtime.NumCPU()
		if int64(workers) > x {
			workers = int(x)
		}
		next := make(chan int64, workers)
		for w := 0; w < workers; w++ {
			wg.Add(1)
			go func() {
				defer wg.Done()
				buf := make([]byte, l)
				hs := newHasher()
				for i := range next {
					e.src.Fill(buf, first+i*l)
					refs[i] = hs.addr(uint64(l), buf)
					if e.visit != nil {
						e.visit(refs[i], uint64(l), buf)
					}
				}
			}()
		}
		for i := int64(0); i < x; i++ {
			next <- i
		}
		close(next)
		wg.Wait()
		e.off += l * x
		e.nleaf += x
		sp := Split(l)
		e.nodes = append(e.nodes, Rec{sp[0], sp[1], int(l), int(x)})
		return refs
	}
	cs, ok := m["c"].([]interface{})
	if !ok {
		panic("shape: node without children")
	}
	var payload []byte
	for _, c := range cs {
		for _, r := range e.eval(c) {
			payload = append(payload, r...)
		}
	}
	q, r := num(m, "q"), num(m, "r")
	span := uint64(q)*Base + uint64(r)
	e.nodes = append(e.nodes, Rec{int(q), int(r), len(payload), 1})
	addr := ChunkAddr(span, payload)
	if e.visit != nil {
		e.visit(addr, span, payload)
	}
	return [][]byte{addr}
}

// Hex of a reference.
func Hex(b []byte) string { return hex.EncodeToString(b) }
