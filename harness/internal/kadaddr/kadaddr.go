// Package kadaddr maps the abstract peers of the topology specifications to
// concrete 32-byte overlay addresses.
//
// An abstract address is a pair (bin, id).  Relative to the base address its
// XOR pattern ("diff string") is
//
//	0^bin  1  id[IDBits-1..0]  tail
//
// i.e. it shares exactly `bin` leading bits with the base, the next bit is
// flipped, the following IDBits bits carry `id` (most significant first) and
// the tail equals the base's (the base itself is pseudo-random, derived from
// the salt).  bin = SelfBin denotes the base address itself.  The diff string
// is exactly the one spec/kad/Kad.tla models (Diff), so every XOR comparison
// among three such addresses is decided by modelled bits.  Nothing here
// computes a distance or a proximity.
package kadaddr

import (
	"crypto/sha256"
	"encoding/binary"
	"fmt"

	"github.com/gauss-project/aurorafs/pkg/boson"
)

const (
	// IDBits is the number of id bits following the flipped bit.
	IDBits = 4
	// SelfBin as bin means "the base address itself".
	SelfBin = 99
	// MaxBin is the deepest bin an abstract peer may be placed in.
	MaxBin = 31
)

// Space is an address space around one base address.
type Space struct {
	base []byte
	salt int64
	rev  map[string][2]int
}

// New derives a base address from the salt (all bytes pseudo-random).
func New(salt int64) *Space {
	var s [8]byte
	binary.BigEndian.PutUint64(s[:], uint64(salt))
	h := sha256.Sum256(append([]byte("verif-kad-base"), s[:]...))
	return &Space{base: h[:], salt: salt, rev: map[string][2]int{}}
}

// Base is the base (own) overlay address.
func (s *Space) Base() boson.Address { return boson.NewAddress(append([]byte(nil), s.base...)) }

func setBit(b []byte, i int, v byte) {
	mask := byte(1) << uint(7-i%8)
	if v != 0 {
		b[i/8] |= mask
	} else {
		b[i/8] &^= mask
	}
}

func getBit(b []byte, i int) byte { return (b[i/8] >> uint(7-i%8)) & 1 }

// Addr returns the concrete address of the abstract address (bin, id).
func (s *Space) Addr(bin, id int) (boson.Address, error) {
	if bin == SelfBin {
		return s.Base(), nil
	}
	if bin < 0 || bin > MaxBin || id < 0 || id >= 1<<IDBits {
		return boson.ZeroAddress, fmt.Errorf("kadaddr: (%d,%d) outside the address space", bin, id)
	}
	out := make([]byte, 32)
	copy(out, s.base)
	setBit(out, bin, 1^getBit(s.base, bin))
	for j := 0; j < IDBits; j++ {
		bit := byte(id>>uint(IDBits-1-j)) & 1
		setBit(out, bin+1+j, bit^getBit(s.base, bin+1+j))
	}
	a := boson.NewAddress(out)
	s.rev[a.ByteString()] = [2]int{bin, id}
	return a, nil
}

// Abstract is the inverse of Addr for addresses produced by this Space
// (and the base); ok is false for any other address.
func (s *Space) Abstract(a boson.Address) (bin, id int, ok bool) {
	if a.Equal(s.Base()) {
		return SelfBin, 0, true
	}
	v, ok := s.rev[a.ByteString()]
	return v[0], v[1], ok
}

// Pair reads an abstract address from its JSON form [bin, id].
func Pair(v interface{}) (bin, id int, err error) {
	l, ok := v.([]interface{})
	if !ok || len(l) != 2 {
		return 0, 0, fmt.Errorf("kadaddr: not a [bin,id] pair: %v", v)
	}
	b, ok1 := l[0].(float64)
	i, ok2 := l[1].(float64)
	if !ok1 || !ok2 {
		return 0, 0, fmt.Errorf("kadaddr: not a [bin,id] pair: %v", v)
	}
	return int(b), int(i), nil
}
