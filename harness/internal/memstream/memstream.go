// Package memstream provides in-memory p2p.Stream pairs and a scriptable
// p2p.Streamer for conformance drivers: the code under test talks to a "peer"
// that is a function supplied by the driver (it writes the generated message
// shapes and reads whatever the node sends).  Nothing here judges anything.
package memstream

import (
	"context"
	"errors"
	"io"
	"sync"
	"time"

	"github.com/gauss-project/aurorafs/pkg/aurora"
	"github.com/gauss-project/aurorafs/pkg/boson"
	"github.com/gauss-project/aurorafs/pkg/p2p"
	ma "github.com/multiformats/go-multiaddr"
)

// ErrClosed is returned by writes on a closed direction.
var ErrClosed = errors.New("memstream: closed")

// FullCloseTimeout bounds the wait for the other side in FullClose.
var FullCloseTimeout = 200 * time.Millisecond

type half struct {
	mu     sync.Mutex
	cond   *sync.Cond
	buf    []byte
	off    int
	closed bool
	total  int
}

func newHalf() *half {
	h := &half{}
	h.cond = sync.NewCond(&h.mu)
	return h
}

func (h *half) write(p []byte) (int, error) {
	h.mu.Lock()
	defer h.mu.Unlock()
	if h.closed {
		return 0, ErrClosed
	}
	h.buf = append(h.buf, p...)
	h.total += len(p)
	h.cond.Broadcast()
	return len(p), nil
}

func (h *half) read(p []byte) (int, error) {
	h.mu.Lock()
	defer h.mu.Unlock()
	for h.off == len(h.buf) && !h.closed {
		h.cond.Wait()
	}
	if h.off == len(h.buf) {
		return 0, io.EOF
	}
	n := copy(p, h.buf[h.off:])
	h.off += n
	return n, nil
}

func (h *half) close() {
	h.mu.Lock()
	h.closed = true
	h.cond.Broadcast()
	h.mu.Unlock()
}

func (h *half) isClosed() bool {
	h.mu.Lock()
	defer h.mu.Unlock()
	return h.closed
}

// Stream is one end of an in-memory bidirectional stream.
type Stream struct {
	r, w     *half
	headers  p2p.Headers
	rheaders p2p.Headers
}

// Pair returns the two ends of a fresh stream.
func Pair() (*Stream, *Stream) {
	ab, ba := newHalf(), newHalf()
	return &Stream{r: ba, w: ab}, &Stream{r: ab, w: ba}
}

func (s *Stream) Read(p []byte) (int, error)  { return s.r.read(p) }
func (s *Stream) Write(p []byte) (int, error) { return s.w.write(p) }
func (s *Stream) Headers() p2p.Headers        { return s.headers }
func (s *Stream) ResponseHeaders() p2p.Headers {
	return s.rheaders
}

// Close closes the write direction (the reader on the other end sees EOF).
func (s *Stream) Close() error { s.w.close(); return nil }

// Reset closes both directions.
func (s *Stream) Reset() error { s.w.close(); s.r.close(); return nil }

// FullClose closes the write direction and waits (bounded) for the other side to close.
func (s *Stream) FullClose() error {
	s.w.close()
	deadline := time.Now().Add(FullCloseTimeout)
	for !s.r.isClosed() {
		if time.Now().After(deadline) {
			s.r.close()
			return errors.New("memstream: fullclose timeout")
		}
		time.Sleep(time.Millisecond)
	}
	return nil
}

// Written is the number of bytes written so far on this end.
func (s *Stream) Written() int {
	s.w.mu.Lock()
	defer s.w.mu.Unlock()
	return s.w.total
}

// PeerFunc is what the remote side of a stream does.
type PeerFunc func(ctx context.Context, s *Stream)

// Opened records one stream the node opened.
type Opened struct {
	Kind, Addr, Protocol, Version, Stream string
}

// Streamer is a scriptable p2p.StreamerPinger.
type Streamer struct {
	Base boson.Address
	Mode aurora.Model
	// Dial returns the behaviour of the remote side for a new stream, or an error (stream cannot be opened).
	// kind is "direct", "relay" or "chain".
	Dial func(kind string, addr boson.Address, protocol, version, stream string) (PeerFunc, error)
	// PingFn answers raw underlay pings (nil = success).
	PingFn func(ma.Multiaddr) (time.Duration, error)

	mu     sync.Mutex
	opened []Opened
	locals []*Stream
	active int
}

var errNoPeer = errors.New("memstream: no such peer")

func (t *Streamer) open(ctx context.Context, kind string, addr boson.Address, protocol, version, stream string) (p2p.Stream, error) {
	t.mu.Lock()
	t.opened = append(t.opened, Opened{kind, addr.String(), protocol, version, stream})
	t.mu.Unlock()
	if t.Dial == nil {
		return nil, errNoPeer
	}
	f, err := t.Dial(kind, addr, protocol, version, stream)
	if err != nil {
		return nil, err
	}
	if f == nil {
		return nil, errNoPeer
	}
	local, remote := Pair()
	t.mu.Lock()
	t.locals = append(t.locals, local)
	t.mu.Unlock()
	t.mu.Lock()
	t.active++
	t.mu.Unlock()
	go func() {
		defer func() {
			t.mu.Lock()
			t.active--
			t.mu.Unlock()
		}()
		f(context.Background(), remote)
	}()
	return local, nil
}

func (t *Streamer) NewStream(ctx context.Context, addr boson.Address, h p2p.Headers, protocol, version, stream string) (p2p.Stream, error) {
	return t.open(ctx, "direct", addr, protocol, version, stream)
}

func (t *Streamer) NewRelayStream(ctx context.Context, addr boson.Address, h p2p.Headers, protocol, version, stream string, midCall bool) (p2p.Stream, error) {
	return t.open(ctx, "relay", addr, protocol, version, stream)
}

func (t *Streamer) NewConnChainRelayStream(ctx context.Context, addr boson.Address, h p2p.Headers, protocol, version, stream string) (p2p.Stream, error) {
	return t.open(ctx, "chain", addr, protocol, version, stream)
}

func (t *Streamer) Ping(ctx context.Context, addr ma.Multiaddr) (time.Duration, error) {
	if t.PingFn != nil {
		return t.PingFn(addr)
	}
	return time.Millisecond, nil
}

// Opened lists the streams opened so far.
func (t *Streamer) Opened() []Opened {
	t.mu.Lock()
	defer t.mu.Unlock()
	return append([]Opened(nil), t.opened...)
}

// Shutdown resets every stream the node opened (releases blocked readers) and waits (bounded) for peer functions.
func (t *Streamer) Shutdown(wait time.Duration) {
	t.mu.Lock()
	ls := append([]*Stream(nil), t.locals...)
	t.mu.Unlock()
	for _, s := range ls {
		_ = s.Reset()
	}
	deadline := time.Now().Add(wait)
	for time.Now().Before(deadline) {
		t.mu.Lock()
		a := t.active
		t.mu.Unlock()
		if a == 0 {
			return
		}
		time.Sleep(time.Millisecond)
	}
}
