// Package settle holds the harness-supplied dependencies of the settlement
// drivers (chequedrv, trafficdrv, acctdrv): deterministic keys, a chain stub, a
// cash-out stub, a protocol (emit) stub, a publish/subscribe stub, a gating state
// store and a recording pass-through ChequeStore.  No oracle lives here.
package settle

import (
	"bytes"
	"context"
	"crypto/ecdsa"
	"encoding/json"
	"errors"
	"fmt"
	"io/ioutil"
	"math/big"
	"os"
	"os/exec"
	"runtime"
	"strconv"
	"strings"
	"sync"
	"time"

	"github.com/ethereum/go-ethereum/common"
	"github.com/ethereum/go-ethereum/core/types"
	"github.com/gauss-project/aurorafs/pkg/boson"
	"github.com/gauss-project/aurorafs/pkg/crypto"
	"github.com/gauss-project/aurorafs/pkg/logging"
	"github.com/gauss-project/aurorafs/pkg/settlement/chain"
	chequePkg "github.com/gauss-project/aurorafs/pkg/settlement/traffic/cheque"
	"github.com/gauss-project/aurorafs/pkg/settlement/traffic/trafficprotocol"
	"github.com/gauss-project/aurorafs/pkg/storage"
	"github.com/gauss-project/aurorafs/pkg/subscribe"

	"verifharness/internal/kit"
	"verifharness/internal/sched"
)

const ChainID = 1

// Logger discards.
func Logger() logging.Logger { return logging.New(ioutil.Discard, 0) }

var (
	keyMu   sync.Mutex
	keys    = map[int]*ecdsa.PrivateKey{}
	addrs   = map[int]common.Address{}
	signers = map[int]chequePkg.ChequeSigner{}
)

// Key i (0 = this node, 1.. = peers): fixed secp256k1 keys.
func Key(i int) *ecdsa.PrivateKey {
	keyMu.Lock()
	defer keyMu.Unlock()
	if k, ok := keys[i]; ok {
		return k
	}
	b := make([]byte, 32)
	for j := range b {
		b[j] = byte(0x11*(i+1) + j)
	}
	b[0] = 0x01
	k := crypto.Secp256k1PrivateKeyFromBytes(b)
	keys[i] = k
	return k
}

// Addr is the chain address of key i.
func Addr(i int) common.Address {
	k := Key(i)
	keyMu.Lock()
	defer keyMu.Unlock()
	if a, ok := addrs[i]; ok {
		return a
	}
	a, err := crypto.NewDefaultSigner(k).EthereumAddress()
	if err != nil {
		panic(err)
	}
	addrs[i] = a
	return a
}

// Overlay of peer i (any fixed 32 bytes).
func Overlay(i int) boson.Address {
	b := make([]byte, 32)
	for j := range b {
		b[j] = byte(0xA0 + i)
	}
	b[31] = byte(i)
	return boson.NewAddress(b)
}

// Signer for key i (real EIP-712 cheque signer).
func Signer(i int) chequePkg.ChequeSigner {
	k := Key(i)
	keyMu.Lock()
	defer keyMu.Unlock()
	if s, ok := signers[i]; ok {
		return s
	}
	s := chequePkg.NewChequeSigner(crypto.NewDefaultSigner(k), ChainID)
	signers[i] = s
	return s
}

// Sign makes a signed cheque with the real signer of key `signer`.
func Sign(recipient, issuer common.Address, cum int64, signer int) (*chequePkg.SignedCheque, error) {
	c := chequePkg.Cheque{Recipient: recipient, Beneficiary: issuer, CumulativePayout: big.NewInt(cum)}
	sig, err := Signer(signer).Sign(&c)
	if err != nil {
		return nil, err
	}
	return &chequePkg.SignedCheque{Cheque: c, Signature: sig}, nil
}

// ---------------------------------------------------------------------------
// chain stub
// ---------------------------------------------------------------------------

// Chain is the on-chain state supplied by the driver.  Every answer is a fresh
// big.Int (as a real client decodes a fresh value per call).
type Chain struct {
	mu    sync.Mutex
	Self  common.Address
	bal   map[common.Address]*big.Int
	trans map[[2]common.Address]*big.Int // [payer, payee] -> total cashed
	known map[common.Address]bool        // peers the chain lists for Self
}

var _ chain.Traffic = (*Chain)(nil)

func NewChain(self common.Address) *Chain {
	return &Chain{Self: self, bal: map[common.Address]*big.Int{}, trans: map[[2]common.Address]*big.Int{},
		known: map[common.Address]bool{}}
}

func (c *Chain) SetBalance(a common.Address, v int64) {
	c.mu.Lock()
	defer c.mu.Unlock()
	c.bal[a] = big.NewInt(v)
}
func (c *Chain) Balance(a common.Address) int64 {
	c.mu.Lock()
	defer c.mu.Unlock()
	if v, ok := c.bal[a]; ok {
		return v.Int64()
	}
	return 0
}
func (c *Chain) SetTrans(payer, payee common.Address, v int64) {
	c.mu.Lock()
	defer c.mu.Unlock()
	c.trans[[2]common.Address{payer, payee}] = big.NewInt(v)
}
func (c *Chain) Trans(payer, payee common.Address) int64 {
	c.mu.Lock()
	defer c.mu.Unlock()
	if v, ok := c.trans[[2]common.Address{payer, payee}]; ok {
		return v.Int64()
	}
	return 0
}
func (c *Chain) SetKnown(a common.Address) {
	c.mu.Lock()
	defer c.mu.Unlock()
	c.known[a] = true
}
func (c *Chain) list() []common.Address {
	c.mu.Lock()
	defer c.mu.Unlock()
	var out []common.Address
	for a := range c.known {
		out = append(out, a)
	}
	return out
}

func (c *Chain) TransferredAddress(common.Address) ([]common.Address, error) { return c.list(), nil }
func (c *Chain) RetrievedAddress(common.Address) ([]common.Address, error)   { return c.list(), nil }
func (c *Chain) BalanceOf(a common.Address) (*big.Int, error)                { return big.NewInt(c.Balance(a)), nil }
func (c *Chain) RetrievedTotal(common.Address) (*big.Int, error)             { return big.NewInt(0), nil }
func (c *Chain) TransferredTotal(a common.Address) (*big.Int, error) {
	c.mu.Lock()
	defer c.mu.Unlock()
	t := big.NewInt(0)
	for k, v := range c.trans {
		if k[0] == a {
			t.Add(t, v)
		}
	}
	return t, nil
}

// TransAmount(beneficiary, recipient): what `beneficiary` (the issuer) has paid out to `recipient` on chain.
func (c *Chain) TransAmount(beneficiary, recipient common.Address) (*big.Int, error) {
	return big.NewInt(c.Trans(beneficiary, recipient)), nil
}
func (c *Chain) CashChequeBeneficiary(ctx context.Context, peer boson.Address, beneficiary, recipient common.Address, cum *big.Int, sig []byte) (*types.Transaction, error) {
	return nil, errors.New("chain stub: CashChequeBeneficiary is not used (cash-out stub)")
}

// ---------------------------------------------------------------------------
// cash-out stub
// ---------------------------------------------------------------------------

// Cashout answers CashCheque with a fresh hash and every receipt with status 1;
// OnCash lets the driver move the chain state at the moment of the transaction.
type Cashout struct {
	mu     sync.Mutex
	n      int64
	OnCash func(peer boson.Address, beneficiary, recipient common.Address)
}

var _ chequePkg.CashoutService = (*Cashout)(nil)

func (c *Cashout) CashCheque(ctx context.Context, peer boson.Address, beneficiary, recipient common.Address) (common.Hash, error) {
	c.mu.Lock()
	c.n++
	n := c.n
	c.mu.Unlock()
	if c.OnCash != nil {
		c.OnCash(peer, beneficiary, recipient)
	}
	return common.BigToHash(big.NewInt(n)), nil
}
func (c *Cashout) WaitForReceipt(ctx context.Context, h common.Hash) (uint64, error) { return 1, nil }

// ---------------------------------------------------------------------------
// publish/subscribe stub
// ---------------------------------------------------------------------------

// SubPub drops everything but signals cash-out publications (the last thing the
// receipt worker does), so a driver can wait for the worker without sleeping.
type SubPub struct {
	CashOut chan struct{}
	mu      sync.Mutex
	counts  map[string]int
}

var _ subscribe.SubPub = (*SubPub)(nil)

func NewSubPub() *SubPub { return &SubPub{CashOut: make(chan struct{}, 64), counts: map[string]int{}} }

func (s *SubPub) Subscribe(subscribe.INotifier, string, string, string) error { return nil }
func (s *SubPub) Publish(ns, kind, param string, msg interface{}) error {
	s.mu.Lock()
	s.counts[kind]++
	s.mu.Unlock()
	if ns == "traffic" && kind == "cashOut" {
		select {
		case s.CashOut <- struct{}{}:
		default:
		}
	}
	return nil
}

// Count of publications of a kind ("header", "trafficCheque", "cashOut").
func (s *SubPub) Count(kind string) int {
	s.mu.Lock()
	defer s.mu.Unlock()
	return s.counts[kind]
}

// Await waits (bounded) until `kind` has been published n times.  The service publishes from goroutines it
// spawns and forgets; a driver that goes on before they have run lets them overlap the next call.
func (s *SubPub) Await(kind string, n int, d time.Duration) bool {
	end := time.Now().Add(d)
	for s.Count(kind) < n {
		if time.Now().After(end) {
			return false
		}
		time.Sleep(20 * time.Microsecond)
	}
	return true
}
func (s *SubPub) PublishArray(string, string, string, []interface{}) error { return nil }

// ---------------------------------------------------------------------------
// protocol (emit) stub
// ---------------------------------------------------------------------------

// Emitted is one cheque handed to the emit stub.
type Emitted struct {
	Peer      boson.Address
	Cheque    chequePkg.SignedCheque
	Cum       int64
	Delivered bool
}

// Emit implements trafficprotocol.Interface.  Fail decides the outcome for
// un-gated calls; a gated call (registered thread) parks at gate "emit" and
// fails iff the controller releases it with an error.
type Emit struct {
	mu   sync.Mutex
	Ctl  *sched.Ctl
	Fail bool
	Log  []Emitted
}

var _ trafficprotocol.Interface = (*Emit)(nil)

var ErrEmit = errors.New("emit stub: delivery failed")

func (e *Emit) EmitCheque(ctx context.Context, peer boson.Address, c *chequePkg.SignedCheque) error {
	// copy at the moment of the call: the caller may keep mutating the big.Int
	cp := chequePkg.SignedCheque{Cheque: chequePkg.Cheque{Recipient: c.Recipient, Beneficiary: c.Beneficiary,
		CumulativePayout: new(big.Int).Set(c.CumulativePayout)}, Signature: append([]byte(nil), c.Signature...)}
	cum := cp.CumulativePayout.Int64()
	var err error
	gated := false
	if e.Ctl != nil {
		_, err, gated = e.Ctl.Gate("emit", map[string]interface{}{"cum": cum})
	}
	e.mu.Lock()
	defer e.mu.Unlock()
	if !gated && e.Fail {
		err = ErrEmit
	}
	e.Log = append(e.Log, Emitted{Peer: peer, Cheque: cp, Cum: cum, Delivered: err == nil})
	return err
}

// SetFail decides the outcome of un-gated calls.
func (e *Emit) SetFail(f bool) {
	e.mu.Lock()
	e.Fail = f
	e.mu.Unlock()
}

// Peek returns the log without clearing it.
func (e *Emit) Peek() []Emitted {
	e.mu.Lock()
	defer e.mu.Unlock()
	return append([]Emitted(nil), e.Log...)
}

// Take returns and clears the log.
func (e *Emit) Take() []Emitted {
	e.mu.Lock()
	defer e.mu.Unlock()
	l := e.Log
	e.Log = nil
	return l
}

// ---------------------------------------------------------------------------
// gating state store
// ---------------------------------------------------------------------------

var ErrCrashed = errors.New("state store: closed (crash)")

// GateStore is a handle on a shared underlying store.  Put of a key with one of
// the Gated prefixes, issued by a registered thread, parks at gate "put" until
// released; a handle that was crashed fails every later call without writing.
type GateStore struct {
	storage.StateStorer
	Ctl   *sched.Ctl
	Gated []string
	// GatedGets: key prefixes whose Get is a gate as well
	GatedGets []string
	mu        sync.Mutex
	dead      bool
	Writes    []Write
}

// Write is one Put that reached the underlying store through this handle.
type Write struct {
	Key string
	Val string
}

func NewGateStore(inner storage.StateStorer, ctl *sched.Ctl, gated ...string) *GateStore {
	return &GateStore{StateStorer: inner, Ctl: ctl, Gated: gated}
}

func (g *GateStore) isDead() bool {
	g.mu.Lock()
	defer g.mu.Unlock()
	return g.dead
}

// Crash makes the handle fail from now on (the underlying store keeps its content).
func (g *GateStore) Crash() {
	g.mu.Lock()
	g.dead = true
	g.mu.Unlock()
}

// TakeWrites returns and clears the list of writes that reached the store.
func (g *GateStore) TakeWrites() []Write {
	g.mu.Lock()
	defer g.mu.Unlock()
	w := g.Writes
	g.Writes = nil
	return w
}

// Show renders a stored value for the log: totals as decimal strings, cheques by their cumulative payout.
func Show(i interface{}) string {
	switch v := i.(type) {
	case *big.Int:
		return v.String()
	case *chequePkg.Cheque:
		return v.CumulativePayout.String()
	case *chequePkg.SignedCheque:
		return v.CumulativePayout.String()
	case chequePkg.SignedCheque:
		return v.CumulativePayout.String()
	}
	return fmt.Sprint(i)
}

func (g *GateStore) Put(key string, i interface{}) error {
	if g.isDead() {
		return ErrCrashed
	}
	gate := false
	for _, p := range g.Gated {
		if strings.HasPrefix(key, p) {
			gate = true
		}
	}
	shown := Show(i) // the value as it is at the moment of the call
	if gate && g.Ctl != nil {
		if _, err, gated := g.Ctl.Gate("put", map[string]interface{}{"key": key, "val": shown}); gated && err != nil {
			return err
		}
		if g.isDead() {
			return ErrCrashed
		}
	}
	err := g.StateStorer.Put(key, i)
	if err == nil {
		g.mu.Lock()
		g.Writes = append(g.Writes, Write{Key: key, Val: shown})
		g.mu.Unlock()
	}
	return err
}

// Get of a key with one of the GatedGets prefixes parks at gate "get" *before* the read (the read happens when the
// gate is released) for a registered thread, or for a worker goroutine of the controller's proxy thread.
func (g *GateStore) Get(key string, i interface{}) error {
	if g.isDead() {
		return ErrCrashed
	}
	if g.Ctl != nil {
		for _, p := range g.GatedGets {
			if strings.HasPrefix(key, p) {
				if _, err, gated := g.Ctl.Gate("get", map[string]interface{}{"key": key}); gated && err != nil {
					return err
				}
				if g.isDead() {
					return ErrCrashed
				}
				break
			}
		}
	}
	return g.StateStorer.Get(key, i)
}
func (g *GateStore) Delete(key string) error {
	if g.isDead() {
		return ErrCrashed
	}
	return g.StateStorer.Delete(key)
}

// Close of a handle never closes the shared store.
func (g *GateStore) Close() error { return nil }

// ---------------------------------------------------------------------------
// name-spaced view of a shared store (opening a LevelDB per scenario costs ~10 ms)
// ---------------------------------------------------------------------------

// NSStore prefixes every key with a name space; iteration strips it again.
type NSStore struct {
	storage.StateStorer
	NS string
}

func (n *NSStore) Get(key string, i interface{}) error { return n.StateStorer.Get(n.NS+key, i) }
func (n *NSStore) Put(key string, i interface{}) error { return n.StateStorer.Put(n.NS+key, i) }
func (n *NSStore) Delete(key string) error             { return n.StateStorer.Delete(n.NS + key) }
func (n *NSStore) Iterate(prefix string, f storage.StateIterFunc) error {
	return n.StateStorer.Iterate(n.NS+prefix, func(k, v []byte) (bool, error) {
		return f(k[len(n.NS):], v)
	})
}
func (n *NSStore) Close() error { return nil }

// ---------------------------------------------------------------------------
// recording ChequeStore (pass-through)
// ---------------------------------------------------------------------------

// RecvCall is one call of ChequeStore.ReceiveCheque with what the real store returned.
type RecvCall struct {
	Amount *big.Int
	Err    error
}

// RecStore forwards every call to the real cheque store and records the return
// values of ReceiveCheque (the observation point the property names).
type RecStore struct {
	chequePkg.ChequeStore
	mu    sync.Mutex
	Calls []RecvCall
}

func (r *RecStore) ReceiveCheque(ctx context.Context, c *chequePkg.SignedCheque) (*big.Int, error) {
	a, err := r.ChequeStore.ReceiveCheque(ctx, c)
	r.mu.Lock()
	r.Calls = append(r.Calls, RecvCall{Amount: a, Err: err})
	r.mu.Unlock()
	return a, err
}

// Take returns and clears the recorded calls.
func (r *RecStore) Take() []RecvCall {
	r.mu.Lock()
	defer r.mu.Unlock()
	c := r.Calls
	r.Calls = nil
	return c
}

// ---------------------------------------------------------------------------
// chunked execution
// ---------------------------------------------------------------------------

// ChunkSize scenarios are run per process: the services under test leave goroutines behind that cannot be
// stopped (tickers, workers), and recognising a blocked goroutine dumps all goroutines.
var ChunkSize = 250

// ShouldChunk: a large run in the top-level process.
func ShouldChunk(scs []kit.Scenario) bool {
	return len(scs) > ChunkSize && os.Getenv("VERIF_DRV_CHILD") == ""
}

// Chunked executes the scenarios in child processes of this binary ("exec in out") and replays their events.
func Chunked(scs []kit.Scenario, out *kit.Out) error {
	dir, err := os.MkdirTemp("", "drv-chunk-")
	if err != nil {
		return err
	}
	defer os.RemoveAll(dir)
	for lo := 0; lo < len(scs); lo += ChunkSize {
		hi := lo + ChunkSize
		if hi > len(scs) {
			hi = len(scs)
		}
		in, tr := dir+"/scn.ndjson", dir+"/trace.ndjson"
		var buf bytes.Buffer
		for _, sc := range scs[lo:hi] {
			b, err := json.Marshal(sc)
			if err != nil {
				return err
			}
			buf.Write(b)
			buf.WriteByte('\n')
		}
		if err := os.WriteFile(in, buf.Bytes(), 0o600); err != nil {
			return err
		}
		// a chunk whose process died is run again (twice at most): the services under test publish from
		// unsynchronised goroutines and a crash of that kind is not what these drivers observe
		for attempt := 1; ; attempt++ {
			cmd := exec.Command(os.Args[0], "exec", in, tr)
			cmd.Env = append(os.Environ(), "VERIF_DRV_CHILD=1")
			var stderr bytes.Buffer
			cmd.Stderr = &stderr
			err := cmd.Run()
			if err == nil {
				break
			}
			msg := stderr.String()
			if attempt >= 3 || !strings.Contains(msg, "goroutine ") {
				if len(msg) > 3000 {
					msg = msg[:3000]
				}
				return fmt.Errorf("chunk %d-%d: %v: %s", lo, hi, err, msg)
			}
			fmt.Fprintf(os.Stderr, "chunk %d-%d crashed (attempt %d), running it again: %.300s\n", lo, hi, attempt, msg)
		}
		data, err := os.ReadFile(tr)
		if err != nil {
			return err
		}
		for _, line := range bytes.Split(data, []byte{'\n'}) {
			if len(line) == 0 {
				continue
			}
			var e kit.Ev
			if err := json.Unmarshal(line, &e); err != nil {
				return err
			}
			if e["op"] == "reset" {
				scn, _ := e["scn"].(float64)
				delete(e, "op")
				out.Begin(int(scn), e)
			} else {
				out.Emit(e)
			}
		}
	}
	return nil
}

// ---------------------------------------------------------------------------
// goroutine states (positive observation of "blocked", never a guess from elapsed time)
// ---------------------------------------------------------------------------

// GID is the id of the calling goroutine.
func GID() uint64 {
	var b [64]byte
	n := runtime.Stack(b[:], false)
	s := b[10:n] // "goroutine 123 [running]:"
	i := 0
	for i < len(s) && s[i] >= '0' && s[i] <= '9' {
		i++
	}
	v, _ := strconv.ParseUint(string(s[:i]), 10, 64)
	return v
}

// Goroutine is one entry of a goroutine dump.
type Goroutine struct {
	ID    uint64
	State string // "chan send", "chan receive", "sync.Mutex.Lock", "runnable", ...
	Stack string
}

var (
	gdumpMu  sync.Mutex
	gdumpBuf = make([]byte, 1<<18)
)

// Goroutines dumps all goroutines of the process.
func Goroutines() []Goroutine {
	gdumpMu.Lock()
	defer gdumpMu.Unlock()
	var buf []byte
	for {
		n := runtime.Stack(gdumpBuf, true)
		if n < len(gdumpBuf) {
			buf = gdumpBuf[:n]
			break
		}
		gdumpBuf = make([]byte, 2*len(gdumpBuf))
	}
	var out []Goroutine
	for _, blk := range bytes.Split(buf, []byte("\n\n")) {
		if !bytes.HasPrefix(blk, []byte("goroutine ")) {
			continue
		}
		a := bytes.IndexByte(blk, '[')
		b := bytes.IndexByte(blk, ']')
		if a < 0 || b < a {
			continue
		}
		id, _ := strconv.ParseUint(string(bytes.TrimSpace(blk[10:a])), 10, 64)
		st := string(blk[a+1 : b])
		if i := strings.IndexByte(st, ','); i >= 0 { // "chan send, 2 minutes"
			st = st[:i]
		}
		out = append(out, Goroutine{ID: id, State: st, Stack: string(blk[b+1:])})
	}
	return out
}

// LockWait: the state of a goroutine that waits for a sync.Mutex.
func LockWait(state string) bool {
	return strings.HasPrefix(state, "sync.Mutex.Lock") || strings.HasPrefix(state, "semacquire") || strings.HasPrefix(state, "sync.RWMutex")
}
