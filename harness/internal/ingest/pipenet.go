package ingest

import (
	"fmt"
	"context"
	"errors"
	"io"
	"sync"
	"time"

	"github.com/gauss-project/aurorafs/pkg/aurora"
	"github.com/gauss-project/aurorafs/pkg/boson"
	"github.com/gauss-project/aurorafs/pkg/p2p"
)

// PipeNet is the harness p2p.Streamer: every NewStream creates an in-memory duplex
// stream and runs the handler registered for the dialled peer on the other end.
// (streamtest.Recorder is not used because its reader reports EOF as soon as the
// writer has closed, even with unread bytes pending, which truncates large messages.)
type PipeNet struct {
	Base    boson.Address                                                     // who the handlers see as the remote peer
	Handler func(peer boson.Address, protocol, stream string) p2p.HandlerFunc // nil result: stream not supported
}

// handlerPanics collects panics of handler goroutines (a real node would have crashed); the driver reads them after
// each operation with TakeHandlerPanics and reports them in the operation's event.
var (
	hpMu          sync.Mutex
	handlerPanics []string
)

// TakeHandlerPanics returns and clears the panics recovered in handler goroutines since the last call.
func TakeHandlerPanics() []string {
	hpMu.Lock()
	defer hpMu.Unlock()
	p := handlerPanics
	handlerPanics = nil
	return p
}

var errNotSupported = errors.New("pipenet: stream not supported")
var errClosed = errors.New("pipenet: stream closed")

type half struct {
	mu     sync.Mutex
	cond   *sync.Cond
	buf    []byte
	closed bool
}

func newHalf() *half { h := &half{}; h.cond = sync.NewCond(&h.mu); return h }

func (h *half) Read(p []byte) (int, error) {
	h.mu.Lock()
	defer h.mu.Unlock()
	for len(h.buf) == 0 && !h.closed {
		h.cond.Wait()
	}
	if len(h.buf) == 0 {
		return 0, io.EOF
	}
	n := copy(p, h.buf)
	h.buf = h.buf[n:]
	return n, nil
}

func (h *half) Write(p []byte) (int, error) {
	h.mu.Lock()
	defer h.mu.Unlock()
	if h.closed {
		return 0, errClosed
	}
	h.buf = append(h.buf, p...)
	h.cond.Broadcast()
	return len(p), nil
}

func (h *half) close() {
	h.mu.Lock()
	h.closed = true
	h.cond.Broadcast()
	h.mu.Unlock()
}

func (h *half) isClosed() bool { h.mu.Lock(); defer h.mu.Unlock(); return h.closed }

type pipeStream struct{ r, w *half }

func (s *pipeStream) Read(p []byte) (int, error)   { return s.r.Read(p) }
func (s *pipeStream) Write(p []byte) (int, error)  { return s.w.Write(p) }
func (s *pipeStream) Close() error                 { s.w.close(); return nil }
func (s *pipeStream) Reset() error                 { s.w.close(); s.r.close(); return nil }
func (s *pipeStream) Headers() p2p.Headers         { return nil }
func (s *pipeStream) ResponseHeaders() p2p.Headers { return nil }
func (s *pipeStream) FullClose() error {
	s.w.close()
	for i := 0; i < 200; i++ { // wait for the other side to close, at most 2 s
		if s.r.isClosed() {
			return nil
		}
		time.Sleep(10 * time.Millisecond)
	}
	return errors.New("pipenet: fullclose timeout")
}

func (n *PipeNet) NewStream(ctx context.Context, addr boson.Address, _ p2p.Headers, protocol, version, stream string) (p2p.Stream, error) {
	h := n.Handler(addr, protocol, stream)
	if h == nil {
		return nil, errNotSupported
	}
	a2b, b2a := newHalf(), newHalf()
	client, server := &pipeStream{r: b2a, w: a2b}, &pipeStream{r: a2b, w: b2a}
	go func() {
		defer func() {
			if r := recover(); r != nil {
				hpMu.Lock()
				handlerPanics = append(handlerPanics, fmt.Sprint(r))
				hpMu.Unlock()
				_ = server.Reset()
			}
		}()
		peer := p2p.Peer{Address: n.Base, Mode: aurora.NewModel().SetMode(aurora.FullNode)}
		if err := h(context.Background(), peer, server); err != nil {
			_ = server.Reset() // what the libp2p service does when a handler fails
		} else {
			_ = server.Close()
		}
	}()
	return client, nil
}

func (n *PipeNet) NewRelayStream(ctx context.Context, addr boson.Address, h p2p.Headers, protocol, version, stream string, midCall bool) (p2p.Stream, error) {
	return nil, errNotSupported
}

func (n *PipeNet) NewConnChainRelayStream(ctx context.Context, target boson.Address, h p2p.Headers, protocol, version, stream string) (p2p.Stream, error) {
	return nil, errNotSupported
}

// handlersOf dispatches to the stream specs of real protocol specs.
func handlersOf(specs ...p2p.ProtocolSpec) func(boson.Address, string, string) p2p.HandlerFunc {
	return func(_ boson.Address, protocol, stream string) p2p.HandlerFunc {
		for _, ps := range specs {
			if ps.Name != protocol {
				continue
			}
			for _, ss := range ps.StreamSpecs {
				if ss.Name == stream {
					return ss.Handler
				}
			}
		}
		return nil
	}
}
