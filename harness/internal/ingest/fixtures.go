// Package ingest holds what harness/cmd/ingestdrv needs to drive the real retrieval
// client/relay, traversal.GetChunkHashes and chunkinfo's pyramid handling against an
// adversarial remote peer (property C06): honest fixtures, byte-level alterations of
// them, a recording store and the in-process wiring.
package ingest

import (
	"bytes"
	"context"
	"encoding/binary"
	"fmt"
	"math/rand"
	"sort"

	"github.com/gauss-project/aurorafs/pkg/boson"
	"github.com/gauss-project/aurorafs/pkg/file/loadsave"
	"github.com/gauss-project/aurorafs/pkg/file/pipeline"
	"github.com/gauss-project/aurorafs/pkg/file/pipeline/builder"
	"github.com/gauss-project/aurorafs/pkg/manifest"
	"github.com/gauss-project/aurorafs/pkg/storage"
	storemock "github.com/gauss-project/aurorafs/pkg/storage/mock"
	"github.com/gauss-project/aurorafs/pkg/traversal"

	"verifharness/internal/refhash"
)

// Chunk is a fixture chunk: the address and the honest payload.
type Chunk struct {
	Name string
	Addr []byte
	Data []byte
}

// File is a fixture file: its root and the pyramid an honest peer would send for it.
type File struct {
	Name    string
	Root    []byte
	Pyramid map[string][]byte // hex address -> payload (span || data)
}

// Fixtures is the fixture universe of spec/chunk/Ingest.tla.
type Fixtures struct {
	Chunks map[string]*Chunk // by name; "mn" holds one of the manifest nodes below the root
	Files  map[string]*File  // F1, F2, F3, M
	Names  map[string]string // hex address -> name ("mn" for every manifest node below the root)
	Wrong  []byte            // a single-owner payload for the address of s1 signed by another key
}

func sortedKeys(m map[string][]byte) []string {
	ks := make([]string, 0, len(m))
	for k := range m {
		ks = append(ks, k)
	}
	sort.Strings(ks)
	return ks
}

func randData(r *rand.Rand, n int) []byte {
	b := make([]byte, n)
	r.Read(b)
	if n > 0 && b[n-1] == 0 {
		b[n-1] = 0xa5 // honest payloads end in a non-zero byte: cutting one byte changes the hash
	}
	return b
}

func cacOf(data []byte) *Chunk {
	p := make([]byte, 8+len(data))
	binary.LittleEndian.PutUint64(p, uint64(len(data)))
	copy(p[8:], data)
	h, _ := refhash.BMT(p)
	return &Chunk{Addr: h, Data: p}
}

// Build creates the honest content with the repository's own upload pipeline and
// manifest code on a scratch store (what an honest peer holds), and takes the honest
// pyramids from traversal.GetPyramid on that store.
func Build(r *rand.Rand) (*Fixtures, error) {
	ctx := context.Background()
	srv := storemock.NewStorer()
	put := func(data []byte) (boson.Address, error) {
		return builder.FeedPipeline(ctx, builder.NewPipelineBuilder(ctx, srv, storage.ModePutUpload, false), bytes.NewReader(data))
	}
	fx := &Fixtures{Chunks: map[string]*Chunk{}, Files: map[string]*File{}, Names: map[string]string{}}
	name := func(n string, addr boson.Address) error {
		ch, err := srv.Get(ctx, storage.ModeGetRequest, addr)
		if err != nil {
			return fmt.Errorf("fixture %s: %w", n, err)
		}
		fx.Chunks[n] = &Chunk{Name: n, Addr: addr.Bytes(), Data: ch.Data()}
		fx.Names[addr.String()] = n
		return nil
	}
	trav := traversal.New(srv)
	file := func(n string, root boson.Address) error {
		py, err := trav.GetPyramid(ctx, root)
		if err != nil {
			return fmt.Errorf("fixture pyramid %s: %w", n, err)
		}
		fx.Files[n] = &File{Name: n, Root: root.Bytes(), Pyramid: py}
		return nil
	}

	// F1: one small chunk; F2: one full chunk; r3: root of a three-chunk file (two full leaves, one small)
	r1, err := put(randData(r, 100+r.Intn(100)))
	if err != nil {
		return nil, err
	}
	r2, err := put(randData(r, refhash.CS))
	if err != nil {
		return nil, err
	}
	r3, err := put(randData(r, 2*refhash.CS+64+r.Intn(64)))
	if err != nil {
		return nil, err
	}
	for n, a := range map[string]boson.Address{"c1": r1, "c2": r2, "r3": r3} {
		if err := name(n, a); err != nil {
			return nil, err
		}
	}
	rd := fx.Chunks["r3"].Data[8:]
	if len(rd) != 96 {
		return nil, fmt.Errorf("fixture F3: root holds %d bytes of references, want 96", len(rd))
	}
	for i, n := range []string{"l1", "l2", "l3"} {
		if err := name(n, boson.NewAddress(rd[32*i:32*i+32])); err != nil {
			return nil, err
		}
	}
	// F3: a directory manifest with one three-chunk file (a bare multi-chunk file cannot be verified from a
	// pyramid: the manifest probe of GetChunkHashes reads the leaves); M: a manifest with a small and a full file
	fa, err := put(randData(r, 60+r.Intn(60)))
	if err != nil {
		return nil, err
	}
	fb, err := put(randData(r, refhash.CS))
	if err != nil {
		return nil, err
	}
	dir := func(entries map[string]boson.Address, order []string) (boson.Address, error) {
		ls := loadsave.New(srv, func() pipeline.Interface { return builder.NewPipelineBuilder(ctx, srv, storage.ModePutUpload, false) })
		m, err := manifest.NewDefaultManifest(ls, false)
		if err != nil {
			return boson.ZeroAddress, err
		}
		for _, p := range order {
			if err := m.Add(ctx, p, manifest.NewEntry(entries[p], map[string]string{"Content-Type": "application/octet-stream"})); err != nil {
				return boson.ZeroAddress, err
			}
		}
		return m.Store(ctx)
	}
	m3, err := dir(map[string]boson.Address{"big.bin": r3}, []string{"big.bin"})
	if err != nil {
		return nil, err
	}
	m0, err := dir(map[string]boson.Address{"a.txt": fa, "b.bin": fb}, []string{"a.txt", "b.bin"})
	if err != nil {
		return nil, err
	}
	for n, a := range map[string]boson.Address{"m0": m0, "fa": fa, "fb": fb, "m3": m3} {
		if err := name(n, a); err != nil {
			return nil, err
		}
	}
	for n, a := range map[string]boson.Address{"F1": r1, "F2": r2, "F3": m3, "M": m0} {
		if err := file(n, a); err != nil {
			return nil, err
		}
	}
	for f, nodeName := range map[string]string{"M": "mn", "F3": "mn3"} {
		cnt := 0
		for _, k := range sortedKeys(fx.Files[f].Pyramid) {
			v := fx.Files[f].Pyramid[k]
			if _, known := fx.Names[k]; !known {
				cnt++
				fx.Names[k] = nodeName
				a, _ := boson.ParseHexAddress(k)
				fx.Chunks[nodeName] = &Chunk{Name: nodeName, Addr: a.Bytes(), Data: v}
			}
		}
		if cnt == 0 {
			return nil, fmt.Errorf("fixture %s: no manifest node below the root in the honest pyramid", f)
		}
	}
	for f, wants := range map[string][]string{"M": {"m0", "fa", "fb"}, "F3": {"m3", "r3"}} {
		for _, want := range wants {
			if _, ok := fx.Files[f].Pyramid[boson.NewAddress(fx.Chunks[want].Addr).String()]; !ok {
				return nil, fmt.Errorf("fixture %s: honest pyramid lacks %s", f, want)
			}
		}
		for _, leaf := range []string{"l1", "l2", "l3"} {
			if _, ok := fx.Files[f].Pyramid[boson.NewAddress(fx.Chunks[leaf].Addr).String()]; ok {
				return nil, fmt.Errorf("fixture %s: honest pyramid holds the leaf %s", f, leaf)
			}
		}
	}
	// shapes Ingest.tla relies on
	for n, full := range map[string]bool{"c1": false, "c2": true, "l1": true, "l3": false, "fa": false, "fb": true, "r3": false} {
		if (len(fx.Chunks[n].Data) == refhash.CS+8) != full {
			return nil, fmt.Errorf("fixture %s: payload of %d bytes, full=%v expected", n, len(fx.Chunks[n].Data), full)
		}
	}
	// unrelated valid chunks
	x, xf := cacOf(randData(r, 70)), cacOf(randData(r, refhash.CS))
	x.Name, xf.Name = "x", "xf"
	fx.Chunks["x"], fx.Chunks["xf"] = x, xf
	fx.Names[boson.NewAddress(x.Addr).String()] = "x"
	fx.Names[boson.NewAddress(xf.Addr).String()] = "xf"

	// single-owner chunks, built without pkg/soc
	for i, n := range []string{"s1", "s2"} {
		key := refhash.Key(refhash.Keccak([]byte(fmt.Sprintf("verif-ingest-key-%d-%d", i, r.Int63()))))
		id := refhash.Keccak([]byte(fmt.Sprintf("verif-ingest-id-%d-%d", i, r.Int63())))
		w := cacOf(randData(r, 40+r.Intn(40)))
		data, err := refhash.SignSoc(key, id, w.Addr, w.Data)
		if err != nil {
			return nil, err
		}
		addr := refhash.SocAddress(id, refhash.Owner(&key.PublicKey))
		fx.Chunks[n] = &Chunk{Name: n, Addr: addr, Data: data}
		fx.Names[boson.NewAddress(addr).String()] = n
		if n == "s1" {
			other := refhash.Key(refhash.Keccak([]byte(fmt.Sprintf("verif-ingest-otherkey-%d", r.Int63()))))
			fx.Wrong, err = refhash.SignSoc(other, id, w.Addr, w.Data)
			if err != nil {
				return nil, err
			}
		}
	}
	return fx, nil
}

// Payload concretises the payload term [of, cls] of Ingest.tla.
func (fx *Fixtures) Payload(r *rand.Rand, of, cls string) ([]byte, error) {
	c, ok := fx.Chunks[of]
	if !ok {
		return nil, fmt.Errorf("unknown fixture chunk %q", of)
	}
	b := append([]byte{}, c.Data...)
	junk := func(n int) []byte {
		j := make([]byte, n)
		r.Read(j)
		j[0] |= 1
		return j
	}
	switch cls {
	case "correct":
	case "trunc1":
		b = b[:len(b)-1]
	case "ext1":
		b = append(b, byte(1+r.Intn(255)))
	case "extZero":
		b = append(b, 0)
	case "bitflip":
		b[r.Intn(len(b))] ^= 1 << uint(r.Intn(8))
	case "sigflip":
		b[refhash.IDSize+r.Intn(64)] ^= 1 << uint(r.Intn(8))
	case "empty":
		b = []byte{}
	case "short7":
		b = b[:7]
	case "short5":
		b = b[:5]
	case "overlong":
		// boundary-dense: an upper length bound that is off by up to a span (8 bytes) must be hit
		b = append(b, junk([]int{1, 2, 7, 8, 9, 16, 64}[r.Intn(7)])...)
	case "overlongBig":
		b = append(b, junk(4096+r.Intn(4096))...)
	case "wrongOwner":
		if of != "s1" {
			return nil, fmt.Errorf("wrongOwner is only built for s1")
		}
		b = append([]byte{}, fx.Wrong...)
	default:
		return nil, fmt.Errorf("unknown payload class %q", cls)
	}
	return b, nil
}

// Entry is one pyramid entry as a peer sends it.
type Entry struct {
	Key  []byte
	Data []byte
}

// Map concretises the pyramid map class mc of Ingest.tla for file f.
func (fx *Fixtures) Map(r *rand.Rand, f, mc string) ([]Entry, error) {
	fl, ok := fx.Files[f]
	if !ok {
		return nil, fmt.Errorf("unknown fixture file %q", f)
	}
	m := map[string][]byte{}
	for k, v := range fl.Pyramid {
		m[k] = v
	}
	rootHex := boson.NewAddress(fl.Root).String()
	hexOf := func(n string) string { return boson.NewAddress(fx.Chunks[n].Addr).String() }
	// the altered entry: Victim / FullVictim of Ingest.tla
	victim, fullVictim := rootHex, ""
	switch f {
	case "F2":
		fullVictim = rootHex
	case "F3":
		victim = hexOf("r3") // the intermediate chunk of the three-chunk file
	case "M":
		victim, fullVictim = hexOf("fa"), hexOf("fb")
	}
	alter := func(hexKey, of, cls string) error {
		p, err := fx.Payload(r, of, cls)
		if err != nil {
			return err
		}
		m[hexKey] = p
		return nil
	}
	var err error
	switch mc {
	case "honest":
	case "extraConsistent":
		m[hexOf("x")] = fx.Chunks["x"].Data
	case "extraWrongHash":
		err = alter(hexOf("x"), "x", "bitflip")
	case "extraOverlong":
		err = alter(hexOf("xf"), "xf", "overlong")
	case "altered":
		err = alter(victim, fx.Names[victim], "bitflip")
	case "rootMissing":
		delete(m, rootHex)
	case "childMissing":
		if victim == rootHex {
			return nil, fmt.Errorf("childMissing does not apply to %s", f)
		}
		delete(m, victim)
	case "overlong", "overlongBig":
		if fullVictim == "" {
			return nil, fmt.Errorf("%s does not apply to %s", mc, f)
		}
		err = alter(fullVictim, fx.Names[fullVictim], mc)
	case "shortEntry":
		err = alter(victim, fx.Names[victim], "short5")
	default:
		return nil, fmt.Errorf("unknown map class %q", mc)
	}
	if err != nil {
		return nil, err
	}
	var out []Entry
	for _, k := range sortedKeys(m) {
		v := m[k]
		a, e := boson.ParseHexAddress(k)
		if e != nil {
			return nil, e
		}
		out = append(out, Entry{Key: a.Bytes(), Data: v})
	}
	// peers send entries in any order: seeded shuffle
	r.Shuffle(len(out), func(i, j int) { out[i], out[j] = out[j], out[i] })
	return out, nil
}
