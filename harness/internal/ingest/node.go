package ingest

import (
	"context"
	"fmt"
	"io/ioutil"
	"os"
	"sync"
	"time"

	accmock "github.com/gauss-project/aurorafs/pkg/accounting/mock"
	"github.com/gauss-project/aurorafs/pkg/boson"
	"github.com/gauss-project/aurorafs/pkg/chunkinfo"
	cipb "github.com/gauss-project/aurorafs/pkg/chunkinfo/pb"
	"github.com/gauss-project/aurorafs/pkg/logging"
	"github.com/gauss-project/aurorafs/pkg/p2p"
	"github.com/gauss-project/aurorafs/pkg/p2p/protobuf"
	resolvermock "github.com/gauss-project/aurorafs/pkg/resolver/mock"
	"github.com/gauss-project/aurorafs/pkg/retrieval"
	"github.com/gauss-project/aurorafs/pkg/retrieval/aco"
	rpb "github.com/gauss-project/aurorafs/pkg/retrieval/pb"
	rmock "github.com/gauss-project/aurorafs/pkg/routetab/mock"
	"github.com/gauss-project/aurorafs/pkg/sctx"
	omock "github.com/gauss-project/aurorafs/pkg/settlement/chain/oracle/mock"
	ldbstate "github.com/gauss-project/aurorafs/pkg/statestore/leveldb"
	"github.com/gauss-project/aurorafs/pkg/storage"
	storemock "github.com/gauss-project/aurorafs/pkg/storage/mock"
	"github.com/gauss-project/aurorafs/pkg/subscribe"
	"github.com/gauss-project/aurorafs/pkg/traversal"

	"verifharness/internal/refhash"
)

// Obs is what the independent evaluator sees in an (address, payload) pair; the TLA+
// judge evaluates ValidCAC / ValidSOC over it.
type Obs struct {
	Name string // fixture name of the address ("?" if none)
	Plen int
	Am   bool // the address is the BMT hash of the payload
	Wok  bool // read as a single-owner chunk: wrapped payload hashable
	Rec  bool // ... its signature recovers a key
	Com  bool // ... and the address is keccak(id || recovered owner)
	Pfx  bool // diagnostic: over-long payload whose first CS+8 bytes hash to the address
}

func (fx *Fixtures) Observe(addr, data []byte) Obs {
	n, ok := fx.Names[boson.NewAddress(addr).String()]
	if !ok {
		n = "?"
	}
	s := refhash.Soc(addr, data)
	return Obs{Name: n, Plen: len(data), Am: refhash.AddrIsBMT(addr, data), Wok: s.WrappedOK, Rec: s.Recovered, Com: s.Commits,
		Pfx: refhash.AddrIsBMTOfPrefix(addr, data)}
}

// PutRec is one chunk handed to the store.
type PutRec struct {
	Mode string
	Obs  Obs
}

// RecStore is a working in-memory storage.Storer that records every Put.
type RecStore struct {
	*storemock.MockStorer
	fx   *Fixtures
	mu   sync.Mutex
	puts []PutRec
}

func NewRecStore(fx *Fixtures) *RecStore { return &RecStore{MockStorer: storemock.NewStorer(), fx: fx} }

func (s *RecStore) Put(ctx context.Context, mode storage.ModePut, chs ...boson.Chunk) ([]bool, error) {
	for _, ch := range chs {
		o := s.fx.Observe(ch.Address().Bytes(), ch.Data())
		s.mu.Lock()
		s.puts = append(s.puts, PutRec{Mode: mode.String(), Obs: o})
		s.mu.Unlock()
	}
	return s.MockStorer.Put(ctx, mode, chs...)
}

// TakePuts returns and clears the recorded puts.
func (s *RecStore) TakePuts() []PutRec {
	s.mu.Lock()
	defer s.mu.Unlock()
	p := s.puts
	s.puts = nil
	return p
}

// Script is what the remote peers answer.
type Script struct {
	mu       sync.Mutex
	replies  map[string][]byte // peer (hex) -> Delivery.Data for any retrieval request; absent = the peer closes the stream
	pyramid  []Entry           // entries sent for any pyramid request
	pyrOK    bool              // whether a pyramid answer is scripted at all
	Requests int               // retrieval requests seen
	PyrReqs  int               // pyramid requests seen
}

func (sc *Script) Set(replies map[string][]byte, pyramid []Entry, pyrOK bool) {
	sc.mu.Lock()
	defer sc.mu.Unlock()
	sc.replies, sc.pyramid, sc.pyrOK, sc.Requests, sc.PyrReqs = replies, pyramid, pyrOK, 0, 0
}

// ciStub stands in for chunkinfo in the plain retrieval wiring: no routes of its own
// (the driver passes targets in the context), retrieval reports are accepted.
type ciStub struct {
	chunkinfo.Interface // nil: retrieval only uses the three methods below (the repository's mock is stale)
	mu                  sync.Mutex
	retrieved           int
}

func (c *ciStub) OnChunkRetrieved(cid, rootCid, sourceOverlay boson.Address) error {
	c.mu.Lock()
	c.retrieved++
	c.mu.Unlock()
	return nil
}
func (c *ciStub) GetChunkInfo(rootCid boson.Address, cid boson.Address) []aco.Route { return nil }
func (c *ciStub) OnChunkTransferred(cid, rootCid boson.Address, overlays, target boson.Address) error {
	return nil
}

// Node is the node under test with its adversarial neighbourhood.
type Node struct {
	Fx        *Fixtures
	Self      boson.Address
	Requester boson.Address   // the peer that sends requests to the node (relay scenarios)
	Peers     []boson.Address // remote peers answering from the script
	Store     *RecStore
	Trav      traversal.Traverser
	Retr      *retrieval.Service // chunkinfo stubbed
	RetrCI    *retrieval.Service // wired to the real chunkinfo
	CI        *chunkinfo.ChunkInfo
	Script    *Script
	out       *PipeNet // node -> remote peers
	in        *PipeNet // requester -> node
}

func addrOf(s string) boson.Address { return boson.NewAddress(refhash.Keccak([]byte(s))) }

// NewNode wires a fresh node: real retrieval.Service (twice: with a chunkinfo stub and
// with the real chunkinfo), real traversal and chunkinfo over a recording store and an
// in-memory LevelDB state store; route table, accounting, oracle, resolver are the
// repository's mocks; streams are PipeNet pipes.
func NewNode(fx *Fixtures) (*Node, error) {
	logger := logging.New(ioutil.Discard, 0)
	if os.Getenv("VERIF_DEBUG") != "" {
		logger = logging.New(os.Stderr, 6)
	}
	n := &Node{Fx: fx, Self: addrOf("verif-self"), Requester: addrOf("verif-requester"), Script: &Script{},
		Peers: []boson.Address{addrOf("verif-peer-1"), addrOf("verif-peer-2")}}
	n.Store = NewRecStore(fx)

	perPeer := map[string]p2p.ProtocolSpec{}
	for _, p := range n.Peers {
		perPeer[p.String()] = n.peerProtocol(p)
	}
	n.out = &PipeNet{Base: n.Self, Handler: func(peer boson.Address, _, stream string) p2p.HandlerFunc {
		for _, ss := range perPeer[peer.String()].StreamSpecs {
			if ss.Name == stream {
				return ss.Handler
			}
		}
		return nil
	}}

	route := rmock.NewMockRouteTable()
	acc := accmock.NewAccounting()
	subPub := subscribe.NewSubPub()
	n.Trav = traversal.New(n.Store)
	state, err := ldbstate.NewInMemoryStateStore(logger)
	if err != nil {
		return nil, err
	}
	n.CI = chunkinfo.New(n.Self, n.out, logger, n.Trav, state, n.Store, &route, omock.NewServer(), resolvermock.NewResolver(), subPub)
	if err := n.CI.InitChunkInfo(); err != nil {
		return nil, err
	}
	n.Retr = retrieval.New(n.Self, n.out, &route, n.Store, true, logger, nil, acc, subPub)
	n.Retr.Config(&ciStub{})
	n.RetrCI = retrieval.New(n.Self, n.out, &route, n.Store, true, logger, nil, acc, subPub)
	n.RetrCI.Config(n.CI)

	n.in = &PipeNet{Base: n.Requester, Handler: handlersOf(n.Retr.Protocol(), n.CI.Protocol())}
	return n, nil
}

// peerProtocol is the scripted behaviour of one remote peer.
func (n *Node) peerProtocol(peer boson.Address) p2p.ProtocolSpec {
	return p2p.ProtocolSpec{Name: "scripted-peer", Version: "0", StreamSpecs: []p2p.StreamSpec{
		{Name: "retrieval", Handler: func(ctx context.Context, _ p2p.Peer, stream p2p.Stream) error {
			w, r := protobuf.NewWriterAndReader(stream)
			var req rpb.RequestChunk
			if err := r.ReadMsgWithContext(ctx, &req); err != nil {
				return err
			}
			n.Script.mu.Lock()
			n.Script.Requests++
			data, ok := n.Script.replies[peer.String()]
			n.Script.mu.Unlock()
			if !ok {
				return fmt.Errorf("no reply scripted")
			}
			return w.WriteMsgWithContext(ctx, &rpb.Delivery{Data: data})
		}},
		{Name: "chunkpyramid", Handler: func(ctx context.Context, _ p2p.Peer, stream p2p.Stream) error {
			w, r := protobuf.NewWriterAndReader(stream)
			var req cipb.ChunkPyramidReq
			if err := r.ReadMsgWithContext(ctx, &req); err != nil {
				return err
			}
			n.Script.mu.Lock()
			n.Script.PyrReqs++
			entries, ok := n.Script.pyramid, n.Script.pyrOK
			n.Script.mu.Unlock()
			if !ok {
				return fmt.Errorf("no pyramid scripted")
			}
			for _, e := range entries {
				if err := w.WriteMsgWithContext(ctx, &cipb.ChunkPyramidResp{Hash: e.Key, Chunk: e.Data}); err != nil {
					return err
				}
			}
			return w.WriteMsgWithContext(ctx, &cipb.ChunkPyramidResp{Ok: true})
		}},
	}}
}

// Targets is the context the API uses to name the peers to download from.
func (n *Node) Targets(ctx context.Context, k int) context.Context {
	s := ""
	for i := 0; i < k && i < len(n.Peers); i++ {
		if i > 0 {
			s += ","
		}
		s += n.Peers[i].String()
	}
	return sctx.SetTargets(ctx, s)
}

// RelayRetrieve plays a peer that asks the node for chunk addr of root, to be fetched
// from target.  Returns the delivered bytes, if any.
func (n *Node) RelayRetrieve(target, root, addr boson.Address, timeout time.Duration) (data []byte, got bool, err error) {
	ctx, cancel := context.WithTimeout(context.Background(), timeout)
	defer cancel()
	stream, err := n.in.NewStream(ctx, n.Self, nil, "retrieval", "1.0.0", "retrieval")
	if err != nil {
		return nil, false, err
	}
	w, r := protobuf.NewWriterAndReader(stream)
	if err := w.WriteMsgWithContext(ctx, &rpb.RequestChunk{TargetAddr: target.Bytes(), RootAddr: root.Bytes(), ChunkAddr: addr.Bytes()}); err != nil {
		return nil, false, err
	}
	_ = stream.Close()
	var d rpb.Delivery
	if err := r.ReadMsgWithContext(ctx, &d); err != nil {
		return nil, false, err
	}
	return d.Data, true, nil
}

// RelayPyramid plays a peer that asks the node for the pyramid of root held by target.
// Returns the entries the node relayed back and whether the terminating Ok arrived.
func (n *Node) RelayPyramid(target, root boson.Address, timeout time.Duration) (entries []Entry, ok bool, err error) {
	ctx, cancel := context.WithTimeout(context.Background(), timeout)
	defer cancel()
	stream, err := n.in.NewStream(ctx, n.Self, nil, "chunkinfo", "2.0.0", "chunkpyramid")
	if err != nil {
		return nil, false, err
	}
	w, r := protobuf.NewWriterAndReader(stream)
	if err := w.WriteMsgWithContext(ctx, &cipb.ChunkPyramidReq{RootCid: root.Bytes(), Target: target.Bytes()}); err != nil {
		return nil, false, err
	}
	_ = stream.Close()
	for {
		var resp cipb.ChunkPyramidResp
		if err := r.ReadMsgWithContext(ctx, &resp); err != nil {
			return entries, false, err
		}
		if resp.Ok {
			return entries, true, nil
		}
		entries = append(entries, Entry{Key: resp.Hash, Data: resp.Chunk})
	}
}
