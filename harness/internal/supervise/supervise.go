// Package supervise lets a driver survive a crash of the code under test that happens in a
// goroutine the driver cannot guard (a panic there kills the whole process).
//
// The driver's binary is run twice: the parent ("exec") hands the scenarios to a child process
// (same binary, "child"), which executes them and writes the events.  If the child dies with a Go
// panic, the parent narrows the crash down: the scenario list is split into halves, each run by
// a fresh child, until single scenarios remain.  A scenario that crashes its child on its own is
// recorded as a `crash` event (the judge has a clause for it); everything else is recorded as
// the children logged it.  A child that fails for another reason is a driver error (exit 2).
package supervise

import (
	"bufio"
	"bytes"
	"encoding/json"
	"fmt"
	"io/ioutil"
	"os"
	"os/exec"
	"regexp"
	"strings"

	"verifharness/internal/kit"
)

// IsChild reports whether this process is a child; if so it rewrites the arguments so that
// kit.Main sees the usual command line.
func IsChild() bool {
	if len(os.Args) >= 2 && os.Args[1] == "child" {
		os.Args[1] = "exec"
		return true
	}
	return false
}

// maxChildren bounds the bisection (a crashing scenario among a thousand needs about ten runs).
const maxChildren = 400

var panicLine = regexp.MustCompile(`(?m)^(panic: .*|fatal error: .*)$`)

type chunkResult struct {
	events []map[string]interface{}
}

func runChild(scs []kit.Scenario) (events []map[string]interface{}, crash string, err error) {
	dir, err := ioutil.TempDir("", "verif-sup")
	if err != nil {
		return nil, "", err
	}
	defer os.RemoveAll(dir)
	scn, trace := dir+"/scn.ndjson", dir+"/trace.ndjson"
	var buf bytes.Buffer
	for _, s := range scs {
		b, e := json.Marshal(s)
		if e != nil {
			return nil, "", e
		}
		buf.Write(b)
		buf.WriteByte('\n')
	}
	if err := ioutil.WriteFile(scn, buf.Bytes(), 0o600); err != nil {
		return nil, "", err
	}
	exe, err := os.Executable()
	if err != nil {
		return nil, "", err
	}
	cmd := exec.Command(exe, "child", scn, trace)
	var stderr bytes.Buffer
	cmd.Stderr = &stderr
	cmd.Stdout = &stderr
	runErr := cmd.Run()
	if runErr != nil {
		if m := panicLine.FindString(stderr.String()); m != "" {
			return nil, m, nil
		}
		tail := stderr.String()
		if len(tail) > 1500 {
			tail = tail[len(tail)-1500:]
		}
		return nil, "", fmt.Errorf("child failed: %v: %s", runErr, strings.TrimSpace(tail))
	}
	f, err := os.Open(trace)
	if err != nil {
		return nil, "", err
	}
	defer f.Close()
	r := bufio.NewReaderSize(f, 1<<20)
	for {
		line, rerr := r.ReadBytes('\n')
		if len(line) > 1 {
			var e map[string]interface{}
			if jerr := json.Unmarshal(line, &e); jerr != nil {
				return nil, "", jerr
			}
			events = append(events, e)
		}
		if rerr != nil {
			break
		}
	}
	return events, "", nil
}

// Run executes the scenarios in child processes and re-emits their events through out.
// begin builds the fields of the reset event of a scenario that crashed on its own.
func Run(scs []kit.Scenario, out *kit.Out, begin func(kit.Scenario) kit.Ev) error {
	var rec func(part []kit.Scenario) error
	emit := func(events []map[string]interface{}) {
		for _, e := range events {
			op, _ := e["op"].(string)
			scn := 0
			if f, ok := e["scn"].(float64); ok {
				scn = int(f)
			}
			delete(e, "scn")
			delete(e, "i")
			if op == "reset" {
				delete(e, "op")
				out.Begin(scn, kit.Ev(e))
			} else {
				out.Emit(kit.Ev(e))
			}
		}
	}
	children := 0
	rec = func(part []kit.Scenario) error {
		if len(part) == 0 {
			return nil
		}
		children++
		if children > maxChildren {
			return fmt.Errorf("more than %d child processes needed to isolate crashes; giving up", maxChildren)
		}
		events, crash, err := runChild(part)
		if err != nil {
			return err
		}
		if crash == "" {
			emit(events)
			return nil
		}
		if len(part) == 1 {
			out.Begin(part[0].Scn, begin(part[0]))
			out.Emit(kit.Ev{"op": "crash", "h": 0, "text": crash})
			return nil
		}
		mid := len(part) / 2
		if err := rec(part[:mid]); err != nil {
			return err
		}
		return rec(part[mid:])
	}
	return rec(scs)
}
