// Package kit holds what every conformance driver shares: scenario input,
// NDJSON event output, seeded randomness and panic capture. Drivers contain
// no oracle: they execute scenarios against the packages in /repo and log
// what happened; the TLA+ trace specifications judge the log.
package kit

import (
	"bufio"
	"encoding/json"
	"fmt"
	"io"
	"math/rand"
	"os"
	"strconv"
)

// Ev is one logged event (one NDJSON line).
type Ev map[string]interface{}

// Scenario is one generated history: an identifier and a list of operations.
type Scenario struct {
	Scn int                      `json:"scn"`
	Par map[string]interface{}   `json:"par,omitempty"`
	Ops []map[string]interface{} `json:"ops"`
}

// ReadScenarios reads an NDJSON file of scenarios.
func ReadScenarios(path string) ([]Scenario, error) {
	f, err := os.Open(path)
	if err != nil {
		return nil, err
	}
	defer f.Close()
	var out []Scenario
	r := bufio.NewReaderSize(f, 1<<20)
	for {
		line, err := r.ReadBytes('\n')
		if len(line) > 1 {
			var s Scenario
			if e := json.Unmarshal(line, &s); e != nil {
				return nil, fmt.Errorf("scenario line %d: %w", len(out)+1, e)
			}
			out = append(out, s)
		}
		if err == io.EOF {
			break
		}
		if err != nil {
			return nil, err
		}
	}
	return out, nil
}

// Out writes events as NDJSON.
type Out struct {
	w   *bufio.Writer
	f   *os.File
	n   int
	scn int
	i   int
}

// NewOut opens the trace output ("-" = stdout).
func NewOut(path string) (*Out, error) {
	if path == "-" || path == "" {
		return &Out{w: bufio.NewWriterSize(os.Stdout, 1<<20)}, nil
	}
	f, err := os.Create(path)
	if err != nil {
		return nil, err
	}
	return &Out{w: bufio.NewWriterSize(f, 1<<20), f: f}, nil
}

// Begin starts a scenario: emits the reset event that separates traces.
func (o *Out) Begin(scn int, fields Ev) {
	o.scn, o.i = scn, 0
	e := Ev{"op": "reset"}
	for k, v := range fields {
		e[k] = v
	}
	o.Emit(e)
}

// Emit writes one event, adding scenario id and index.
func (o *Out) Emit(e Ev) {
	e["scn"] = o.scn
	e["i"] = o.i
	o.i++
	b, err := json.Marshal(e)
	if err != nil {
		panic(err)
	}
	o.w.Write(b)
	o.w.WriteByte('\n')
	o.n++
}

// Count is the number of events written.
func (o *Out) Count() int { return o.n }

// Close flushes.
func (o *Out) Close() error {
	if err := o.w.Flush(); err != nil {
		return err
	}
	if o.f != nil {
		return o.f.Close()
	}
	return nil
}

// Seed returns VERIF_SEED (default 1).
func Seed() int64 {
	if s := os.Getenv("VERIF_SEED"); s != "" {
		if v, err := strconv.ParseInt(s, 10, 64); err == nil {
			return v
		}
	}
	return 1
}

// Rng is a deterministic generator derived from the seed and a salt.
func Rng(salt int64) *rand.Rand { return rand.New(rand.NewSource(Seed()*1000003 + salt)) }

// Str/Int/Bool/List fetch typed operation arguments.
func Str(m map[string]interface{}, k string) string {
	if v, ok := m[k].(string); ok {
		return v
	}
	return ""
}
func Int(m map[string]interface{}, k string) int {
	switch v := m[k].(type) {
	case float64:
		return int(v)
	case int:
		return v
	case string:
		n, _ := strconv.Atoi(v)
		return n
	}
	return 0
}
func Bool(m map[string]interface{}, k string) bool {
	v, _ := m[k].(bool)
	return v
}
func List(m map[string]interface{}, k string) []interface{} {
	v, _ := m[k].([]interface{})
	return v
}
func StrList(m map[string]interface{}, k string) []string {
	var out []string
	for _, x := range List(m, k) {
		if s, ok := x.(string); ok {
			out = append(out, s)
		}
	}
	return out
}
func IntList(m map[string]interface{}, k string) []int {
	var out []int
	for _, x := range List(m, k) {
		if f, ok := x.(float64); ok {
			out = append(out, int(f))
		}
	}
	return out
}

// Guard runs f and reports whether it panicked (with the panic text).
func Guard(f func()) (panicked bool, msg string) {
	defer func() {
		if r := recover(); r != nil {
			panicked = true
			msg = fmt.Sprint(r)
		}
	}()
	f()
	return
}

// Main is the common command line of every driver:
//   drv exec <scenarios.ndjson> <trace.ndjson>
func Main(exec func(scs []Scenario, out *Out) error) {
	if len(os.Args) < 4 || os.Args[1] != "exec" {
		fmt.Fprintln(os.Stderr, "usage: drv exec <scenarios.ndjson> <trace.ndjson>")
		os.Exit(2)
	}
	scs, err := ReadScenarios(os.Args[2])
	if err != nil {
		fmt.Fprintln(os.Stderr, "driver:", err)
		os.Exit(2)
	}
	out, err := NewOut(os.Args[3])
	if err != nil {
		fmt.Fprintln(os.Stderr, "driver:", err)
		os.Exit(2)
	}
	if err := exec(scs, out); err != nil {
		out.Close()
		fmt.Fprintln(os.Stderr, "driver:", err)
		os.Exit(2)
	}
	if err := out.Close(); err != nil {
		fmt.Fprintln(os.Stderr, "driver:", err)
		os.Exit(2)
	}
}
