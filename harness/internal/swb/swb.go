// Package swb is an in-memory switchboard implementing p2p.Streamer between
// in-process nodes. Unlike streamtest.Recorder a reader sees io.EOF only
// after it has consumed everything the writer wrote before closing (the
// semantics of a real libp2p stream); Reset discards.
package swb

import (
	"context"
	"errors"
	"fmt"
	"io"
	"runtime/debug"
	"sync"
	"time"

	"github.com/gauss-project/aurorafs/pkg/aurora"
	"github.com/gauss-project/aurorafs/pkg/boson"
	"github.com/gauss-project/aurorafs/pkg/p2p"
)

var (
	ErrNoPeer      = errors.New("swb: no such peer")
	ErrNoHandler   = errors.New("swb: stream not supported")
	ErrClosed      = errors.New("swb: stream closed")
	ErrReset       = errors.New("swb: stream reset")
	fullCloseLimit = 5 * time.Second
)

// Board connects nodes by overlay address.
type Board struct {
	mu    sync.Mutex
	nodes map[string]*Port
	// HandlerErrs collects errors returned by stream handlers (diagnostics).
	errMu  sync.Mutex
	Errs   []string
	Panics []string
	// Tap, when set, is asked for a StreamTap for every stream that is opened (after Filter);
	// an error refuses the stream (the opener's NewStream fails).
	Tap func(from, to boson.Address, protocol, stream string) (StreamTap, error)
	// handlers counts running stream handlers (WaitHandlers).
	handlers sync.WaitGroup
}

// StreamTap observes and may alter the traffic of one stream (fault injection on request of a
// scenario). dir 0 = opener -> handler, dir 1 = handler -> opener.
type StreamTap interface {
	// Write is called with the bytes of every Write before they are queued. It returns the bytes
	// to queue instead (nil/empty = nothing), or err != nil: the writer's Write fails with err
	// and nothing is queued. With lose the bytes are discarded, the writer sees success and the
	// reader's side of this direction is reset (a message lost in transit).
	Write(dir int, b []byte) (out []byte, lose bool, err error)
	// Sync tells whether a Write in this direction returns only after the reader has consumed
	// the bytes (or the stream was reset/closed by the reader), like an unbuffered connection.
	Sync(dir int) bool
}

// WaitHandlers waits until no stream handler is running (or the timeout passed; false then).
func (b *Board) WaitHandlers(timeout time.Duration) bool {
	done := make(chan struct{})
	go func() { b.handlers.Wait(); close(done) }()
	select {
	case <-done:
		return true
	case <-time.After(timeout):
		return false
	}
}

func NewBoard() *Board { return &Board{nodes: make(map[string]*Port)} }

// Port is one node's streamer.
type Port struct {
	board     *Board
	addr      boson.Address
	mode      aurora.Model
	mu        sync.Mutex
	protocols []p2p.ProtocolSpec
	// Filter, when set, may refuse a stream before it is opened.
	Filter func(to boson.Address, protocol, stream string) error
}

// Port returns (creating it) the streamer of the node with this address.
func (b *Board) Port(addr boson.Address) *Port {
	b.mu.Lock()
	defer b.mu.Unlock()
	if p, ok := b.nodes[addr.String()]; ok {
		return p
	}
	p := &Port{board: b, addr: addr, mode: aurora.NewModel().SetMode(aurora.FullNode)}
	b.nodes[addr.String()] = p
	return p
}

// SetProtocols replaces the protocols this node serves.
func (p *Port) SetProtocols(ps ...p2p.ProtocolSpec) {
	p.mu.Lock()
	p.protocols = append([]p2p.ProtocolSpec(nil), ps...)
	p.mu.Unlock()
}

func (p *Port) handler(protocol, version, stream string) p2p.HandlerFunc {
	p.mu.Lock()
	defer p.mu.Unlock()
	for _, ps := range p.protocols {
		if ps.Name == protocol && ps.Version == version {
			for _, s := range ps.StreamSpecs {
				if s.Name == stream {
					return s.Handler
				}
			}
		}
	}
	return nil
}

func (p *Port) NewStream(ctx context.Context, address boson.Address, h p2p.Headers, protocol, version, stream string) (p2p.Stream, error) {
	if p.Filter != nil {
		if err := p.Filter(address, protocol, stream); err != nil {
			return nil, err
		}
	}
	p.board.mu.Lock()
	peer, ok := p.board.nodes[address.String()]
	p.board.mu.Unlock()
	if !ok {
		return nil, ErrNoPeer
	}
	hd := peer.handler(protocol, version, stream)
	if hd == nil {
		return nil, ErrNoHandler
	}
	// hold mode (hold.go): the message is queued instead of delivered; a scenario delivers / drops / duplicates it
	if hb := holdOf(p.board); hb != nil && hb.matches(protocol, stream) {
		return hb.open(p, peer, hd, h, protocol, stream), nil
	}
	var tap StreamTap
	if p.board.Tap != nil {
		t, err := p.board.Tap(p.addr, address, protocol, stream)
		if err != nil {
			return nil, err
		}
		tap = t
	}
	ab, ba := newPipe(), newPipe()
	local := &Stream{r: ba, w: ab, headers: h, tap: tap, dir: 0}
	remote := &Stream{r: ab, w: ba, headers: h, tap: tap, dir: 1}
	p.board.handlers.Add(1)
	go func() {
		defer p.board.handlers.Done()
		// a panicking stream handler must not take the driver process down: it is
		// recorded (Board.Panics) and the stream is reset, as if the peer had died
		defer func() {
			if r := recover(); r != nil {
				p.board.errMu.Lock()
				p.board.Panics = append(p.board.Panics, fmt.Sprintf("%s/%s: %v\n%s", protocol, stream, r, debug.Stack()))
				p.board.errMu.Unlock()
				_ = remote.Reset()
			}
		}()
		err := hd(context.Background(), p2p.Peer{Address: p.addr, Mode: p.mode}, remote)
		if err != nil && err != io.EOF {
			p.board.errMu.Lock()
			p.board.Errs = append(p.board.Errs, protocol+"/"+stream+": "+err.Error())
			p.board.errMu.Unlock()
		}
	}()
	return local, nil
}

func (p *Port) NewRelayStream(ctx context.Context, address boson.Address, h p2p.Headers, protocol, version, stream string, midCall bool) (p2p.Stream, error) {
	return p.NewStream(ctx, address, h, protocol, version, stream)
}

func (p *Port) NewConnChainRelayStream(ctx context.Context, target boson.Address, h p2p.Headers, protocolName, protocolVersion, streamName string) (p2p.Stream, error) {
	return p.NewStream(ctx, target, h, protocolName, protocolVersion, streamName)
}

// HandlerErrors returns and clears the collected handler errors.
func (b *Board) HandlerErrors() []string {
	b.errMu.Lock()
	defer b.errMu.Unlock()
	e := b.Errs
	b.Errs = nil
	return e
}

type pipe struct {
	mu     sync.Mutex
	cond   *sync.Cond
	buf    []byte
	closed bool
	reset  bool
}

func newPipe() *pipe {
	p := &pipe{}
	p.cond = sync.NewCond(&p.mu)
	return p
}

func (p *pipe) read(b []byte) (int, error) {
	p.mu.Lock()
	defer p.mu.Unlock()
	for len(p.buf) == 0 && !p.closed && !p.reset {
		p.cond.Wait()
	}
	if p.reset {
		return 0, ErrReset
	}
	if len(p.buf) == 0 {
		return 0, io.EOF
	}
	n := copy(b, p.buf)
	p.buf = p.buf[n:]
	return n, nil
}

func (p *pipe) write(b []byte) (int, error) {
	p.mu.Lock()
	defer p.mu.Unlock()
	if p.reset {
		return 0, ErrReset
	}
	if p.closed {
		return 0, ErrClosed
	}
	p.buf = append(p.buf, b...)
	p.cond.Broadcast()
	return len(b), nil
}

func (p *pipe) close() {
	p.mu.Lock()
	p.closed = true
	p.cond.Broadcast()
	p.mu.Unlock()
}

func (p *pipe) doReset() {
	p.mu.Lock()
	p.reset = true
	p.buf = nil
	p.cond.Broadcast()
	p.mu.Unlock()
}

// waitDrained returns when the reader has taken everything queued, or the pipe was reset.
func (p *pipe) waitDrained() {
	deadline := time.Now().Add(fullCloseLimit)
	for time.Now().Before(deadline) {
		p.mu.Lock()
		done := len(p.buf) == 0 || p.reset
		p.mu.Unlock()
		if done {
			return
		}
		time.Sleep(50 * time.Microsecond)
	}
}

func (p *pipe) isClosed() bool {
	p.mu.Lock()
	defer p.mu.Unlock()
	return p.closed || p.reset
}

// Stream is one end of a bidirectional in-memory stream.
type Stream struct {
	r, w    *pipe
	headers p2p.Headers
	tap     StreamTap // optional
	dir     int       // 0: the opener's end, 1: the handler's end
}

func (s *Stream) Read(b []byte) (int, error) { return s.r.read(b) }
func (s *Stream) Write(b []byte) (int, error) {
	if s.tap == nil {
		return s.w.write(b)
	}
	out, lose, err := s.tap.Write(s.dir, b)
	if err != nil {
		return 0, err
	}
	if lose {
		s.w.doReset()
		return len(b), nil
	}
	if len(out) > 0 {
		if _, err := s.w.write(out); err != nil {
			return 0, err
		}
		if s.tap.Sync(s.dir) {
			s.w.waitDrained()
		}
	}
	return len(b), nil
}
func (s *Stream) Close() error                { s.w.close(); return nil }
func (s *Stream) Headers() p2p.Headers        { return s.headers }
func (s *Stream) ResponseHeaders() p2p.Headers { return s.headers }
func (s *Stream) Reset() error {
	s.w.doReset()
	s.r.doReset()
	return nil
}

// FullClose closes the write side and waits for the peer to close its side.
func (s *Stream) FullClose() error {
	s.w.close()
	deadline := time.Now().Add(fullCloseLimit)
	for !s.r.isClosed() {
		if time.Now().After(deadline) {
			return errors.New("swb: fullclose timeout")
		}
		time.Sleep(200 * time.Microsecond)
	}
	return nil
}

// TakePanics returns and clears the recorded handler panics.
func (b *Board) TakePanics() []string {
	b.errMu.Lock()
	defer b.errMu.Unlock()
	p := b.Panics
	b.Panics = nil
	return p
}
